#!/venv/bin/python
"""Run every mutants/<PROP>_*.patch against its check (scratch copies; /repo untouched) and record the outcome.

usage: tools/mutant_sweep.py [PROP ...] [--jobs N] [--out mutants/results]
Result per patch: caught (exit 1) / missed (exit 0) / inconclusive (exit 2) / patch_failed.
"""
import argparse, glob, json, os, re, shutil, subprocess, sys, tempfile, time
HERE = os.path.dirname(os.path.dirname(os.path.abspath(__file__)))


def run_one(prop, patch, jobs):
    d = tempfile.mkdtemp(prefix="mutsweep_", dir="/tmp")
    try:
        shutil.copytree("/repo/optimism", os.path.join(d, "optimism"), ignore=shutil.ignore_patterns("__pycache__"))
        r = subprocess.run(["patch", "-p1", "-s", "-i", os.path.abspath(patch)], cwd=d, capture_output=True, text=True)
        if r.returncode != 0:
            return {"verdict": "patch_failed", "detail": (r.stdout + r.stderr)[-200:]}
        env = dict(os.environ, VERIF_REPO=d)
        t0 = time.time()
        r = subprocess.run([os.path.join(HERE, "check"), prop, "--tier", "quick", "--jobs", str(jobs)], cwd=HERE, env=env,
                           capture_output=True, text=True, timeout=3 * 3600)
        lines = [l for l in r.stdout.splitlines() if l.startswith(("VIOLATION", "  clause=", "INCONCLUSIVE"))]
        clause = None
        for l in lines:
            m = re.search(r"clause=(\S+)", l)
            if m:
                clause = m.group(1)
                break
        return {"verdict": {0: "missed", 1: "caught", 2: "inconclusive"}.get(r.returncode, "error"), "exit": r.returncode,
                "first_clause": clause, "first_line": (lines[0][:200] if lines else None), "wall_s": round(time.time() - t0, 1)}
    finally:
        shutil.rmtree(d, ignore_errors=True)


def main():
    ap = argparse.ArgumentParser()
    ap.add_argument("props", nargs="*")
    ap.add_argument("--jobs", type=int, default=8)
    ap.add_argument("--out", default=os.path.join(HERE, "mutants", "results"))
    a = ap.parse_args()
    os.makedirs(a.out, exist_ok=True)
    patches = sorted(glob.glob(os.path.join(HERE, "mutants", "C*_*.patch")))
    props = [p.upper() for p in a.props] or sorted({os.path.basename(p).split("_")[0] for p in patches})
    repo_head = subprocess.run(["git", "-C", "/repo", "rev-parse", "--short", "HEAD"], capture_output=True, text=True).stdout.strip()
    verif_head = subprocess.run(["git", "-C", HERE, "rev-parse", "--short", "HEAD"], capture_output=True, text=True).stdout.strip()
    for prop in props:
        res = {}
        for p in [x for x in patches if os.path.basename(x).startswith(prop + "_")]:
            name = os.path.basename(p)[:-6]
            res[name] = run_one(prop, p, a.jobs)
            print(prop, name, res[name]["verdict"], res[name].get("first_clause"), flush=True)
            json.dump({"property": prop, "repo_head": repo_head, "verif_head": verif_head, "results": res},
                      open(os.path.join(a.out, prop + ".json"), "w"), indent=1)


if __name__ == "__main__":
    main()
