#!/venv/bin/python
"""Run a check against /repo + one patch, in a scratch copy (never touches /repo).

usage: tools/mutant_run.py PROP patch.diff [--tier quick] [--jobs N] [--base /repo]
Prints: MUTANT <patch> PROP exit=<rc> (1 = caught, 0 = missed, 2 = inconclusive)
"""
import argparse, os, shutil, subprocess, sys, tempfile, json, time
HERE = os.path.dirname(os.path.dirname(os.path.abspath(__file__)))
ap = argparse.ArgumentParser()
ap.add_argument("prop"); ap.add_argument("patch"); ap.add_argument("--tier", default="quick")
ap.add_argument("--jobs", default="8"); ap.add_argument("--base", default="/repo"); ap.add_argument("--seed", default="0")
a = ap.parse_args()
d = tempfile.mkdtemp(prefix="mutrun_", dir="/tmp")
try:
    shutil.copytree(os.path.join(a.base, "optimism"), os.path.join(d, "optimism"), ignore=shutil.ignore_patterns("__pycache__"))
    r = subprocess.run(["patch", "-p1", "-s", "-i", os.path.abspath(a.patch)], cwd=d, capture_output=True, text=True)
    if r.returncode != 0:
        print("PATCH FAILED", r.stdout, r.stderr); sys.exit(3)
    env = dict(os.environ, VERIF_REPO=d, VERIF_SEED=a.seed)
    t0 = time.time()
    r = subprocess.run([os.path.join(HERE, "check"), a.prop, "--tier", a.tier, "--jobs", a.jobs], cwd=HERE, env=env, capture_output=True, text=True)
    out = r.stdout
    viol = [l for l in out.splitlines() if l.startswith("VIOLATION") or l.startswith("  clause=") or l.startswith("INCONCLUSIVE")]
    print("\n".join(out.splitlines()[:2]))
    print("\n".join(viol[:6]))
    print("MUTANT %s %s exit=%d wall=%.0fs" % (os.path.basename(a.patch), a.prop, r.returncode, time.time() - t0))
    sys.exit(0)
finally:
    shutil.rmtree(d, ignore_errors=True)
