#!/venv/bin/python
"""Confirm a seeded change and run the property's check against it.

usage: tools/seeded_validate.py <dir with patch.diff + demo.py> PROP [--skip-tests] [--tier quick] [--jobs N] [--needs "..."]

Steps (all in a scratch git worktree of /repo under /tmp, removed afterwards; /repo is never touched):
  1. demo.py on the clean worktree          -> must exit 0
  2. git apply patch.diff; demo.py          -> must exit non-zero
  3. the repository's own test suite        -> must still report 185 passed
  4. ./check PROP with VERIF_REPO=<scratch> -> exit 1 expected (caught); 0 = missed; 2 = inconclusive
Writes/updates meta.json in the seeded dir.
"""
import argparse, json, os, re, shutil, subprocess, sys, time
HERE = os.path.dirname(os.path.dirname(os.path.abspath(__file__)))


def sh(cmd, cwd=None, env=None, timeout=3600):
    r = subprocess.run(cmd, cwd=cwd, env=env, capture_output=True, text=True, timeout=timeout, shell=isinstance(cmd, str))
    return r.returncode, (r.stdout + r.stderr)


def main():
    ap = argparse.ArgumentParser()
    ap.add_argument("dir"); ap.add_argument("prop")
    ap.add_argument("--skip-tests", action="store_true"); ap.add_argument("--skip-demo", action="store_true")
    ap.add_argument("--tier", default="quick"); ap.add_argument("--jobs", default="8")
    ap.add_argument("--private", action="store_true", help="always use a private scratch path (round 4: seeding agents may still be alive)"); ap.add_argument("--needs", default=None); ap.add_argument("--seed", default="0")
    a = ap.parse_args()
    d = os.path.abspath(a.dir)
    wt = "/tmp/seed_%s" % a.prop  # the path the seeding agent used (some round-1 demos assert it)
    if a.private or os.path.exists(wt):          # another validation of the same property is running: use a private path
        wt = "/tmp/seed_%s_%d" % (a.prop, os.getpid())
    sh(["git", "-C", "/repo", "worktree", "prune"])
    meta_path = os.path.join(d, "meta.json")
    meta = json.load(open(meta_path)) if os.path.exists(meta_path) else {}
    meta.update({"property": a.prop})
    if a.needs:
        meta["needs_to_manifest"] = a.needs
    ran = meta.setdefault("ran", {})
    rc, out = sh(["git", "-C", "/repo", "worktree", "add", "--detach", wt, "HEAD"])
    assert rc == 0, out
    try:
        env = dict(os.environ, PYTHONDONTWRITEBYTECODE="1", JAX_PLATFORMS="cpu", PYTHONPATH=wt)
        demo = os.path.join(wt, "_seed_demo.py")
        shutil.copy(os.path.join(d, "demo.py"), demo)
        if not a.skip_demo:
            rc0, out0 = sh(["/venv/bin/python", demo], cwd=wt, env=env, timeout=1800)
            ran["demo_clean"] = {"exit": rc0, "tail": out0[-300:]}
            print("demo clean exit", rc0)
        rc, out = sh(["git", "apply", os.path.join(d, "patch.diff")], cwd=wt)
        assert rc == 0, "patch does not apply: " + out
        if not a.skip_demo:
            rc1, out1 = sh(["/venv/bin/python", demo], cwd=wt, env=env, timeout=1800)
            ran["demo_patched"] = {"exit": rc1, "tail": out1[-600:]}
            print("demo patched exit", rc1)
        if not a.skip_tests:
            rc2, out2 = sh("/venv/bin/python -m pytest -ra -q -p no:cacheprovider --timeout=900 --continue-on-collection-errors -n 6 2>&1 | tail -60",
                           cwd=wt, env=env, timeout=3600)
            m = re.search(r"(\d+) passed", out2)
            npass = int(m.group(1)) if m else None
            failed_ids = re.findall(r"^FAILED (\S+)", out2, flags=re.M)
            rerun = None
            if failed_ids:
                # the suite has a known xdist race (two VTK test classes share output.vtk in the cwd): re-run failures alone, sequentially
                rc2b, out2b = sh(["/venv/bin/python", "-m", "pytest", "-q", "-p", "no:cacheprovider", "--timeout=900"] + failed_ids, cwd=wt, env=env, timeout=3600)
                mb = re.search(r"(\d+) passed", out2b)
                rerun = {"ids": failed_ids, "tail": out2b[-200:], "passed": int(mb.group(1)) if mb else 0}
                if rc2b == 0 and npass is not None:
                    npass += rerun["passed"]
                    failed_ids = []
            ran["tests_patched"] = {"passed": npass, "tail": out2[-200:], "failed": bool(failed_ids), "sequential_rerun_of_failures": rerun}
            out2 = out2.strip().splitlines()[-1] + (" | rerun of failures alone: %s" % (rerun["tail"].strip().splitlines()[-1] if rerun else "n/a"))
            print("tests:", out2.strip().splitlines()[-1] if out2.strip() else "?")
        t0 = time.time()
        env2 = dict(os.environ, VERIF_REPO=wt, VERIF_SEED=a.seed)
        rc3, out3 = sh([os.path.join(HERE, "check"), a.prop, "--tier", a.tier, "--jobs", a.jobs], cwd=HERE, env=env2, timeout=4 * 3600)
        lines = [l for l in out3.splitlines() if l.startswith(("VIOLATION", "  clause=", "INCONCLUSIVE", "KNOWN-FINDING"))]
        ran["check_" + a.tier] = {"cmd": "VERIF_REPO=<scratch worktree with patch> ./check %s --tier %s" % (a.prop, a.tier), "exit": rc3,
                                  "verdict": {0: "missed", 1: "caught", 2: "inconclusive"}.get(rc3, "error"),
                                  "first_lines": lines[:4], "wall_s": round(time.time() - t0, 1), "verif_commit": sh(["git", "-C", HERE, "rev-parse", "--short", "HEAD"])[1].strip()}
        print("check exit", rc3, "\n".join(lines[:4]))
        meta["confirmed"] = bool((a.skip_demo or (ran.get("demo_clean", {}).get("exit") == 0 and ran.get("demo_patched", {}).get("exit", 0) != 0))
                                 and (a.skip_tests and meta.get("confirmed", False) or ran.get("tests_patched", {}).get("passed") == 185 and not ran["tests_patched"]["failed"]))
    finally:
        sh(["git", "-C", "/repo", "worktree", "remove", "--force", wt])
        shutil.rmtree(wt, ignore_errors=True)
    json.dump(meta, open(meta_path, "w"), indent=1)


if __name__ == "__main__":
    main()
