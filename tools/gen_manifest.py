#!/venv/bin/python
"""Regenerates MANIFEST.json from the per-property table below (only properties whose module exists are claimed)."""
import json
import os
import sys

HERE = os.path.dirname(os.path.dirname(os.path.abspath(__file__)))
sys.path.insert(0, HERE)
from vlib.main import PROP_MODULES  # noqa

T = {
 "C01": ("callback/boundary trace recorder + RecordingObjective proxy + offline trace checker with independent jit(f), jit(grad f); planted minimisers; sys.monitoring path observer for exits/step types",
         "Shim for CHOLMOD (dense numpy Cholesky) is trusted; objective families and settings limited to the generators' classes; D1 is an open known finding."),
 "C02": ("return-value monitor: assembled sparse stiffness vs dense jax.hessian of the library's energy composed with create_field (independent differentiation route), block-splitting metamorphic relation",
         "jax autodiff of the energy is the reference for the second derivative; meshes <= ~200 unknowns."),
 "C03": ("return-value monitors vs independent exact integrals (collapsed Gauss-Jacobi, shoelace areas, Gauss-Legendre edge rule) on seeded random meshes",
         "scipy Gauss-Jacobi/Legendre rules are exact to the stated degree; monomial basis settles all polynomials by linearity."),
 "C04": ("outer-iteration trace recorder (multipliers, penalties) via public callback + KKT re-evaluation with independent jitted functions + planted KKT points / active-set enumeration",
         "Shim for CHOLMOD trusted; convex problem classes built around Slater points; non-returns are vacuous."),
 "C05": ("callback trace recorder + icontract post-conditions on project/project_onto_tr/Cauchy point in situ + independent optimality measure + planted box-QP optimum",
         "Shim trusted; objective families limited to generators."),
 "C06": ("icontract post-conditions on solve_trust_region_minimization/dogleg_step/treigen.solve, direct hostile calls and in situ; dense numpy oracles (configured norm, Cauchy point, secular-equation global optimum in longdouble)",
         "dense eigh/longdouble bisection oracle; n<=40."),
 "C07": ("jax.vjp through the real solve vs dense implicit-function-theorem reference (jacfwd + numpy solve); helper VJPs vs forward-mode dense Jacobians",
         "Shim trusted; forward-mode autodiff of the residual is the reference Jacobian."),
 "C08": ("contract-style monitors on energy density and its gradient under superposed/reference rotations, both single-call and jit(vmap) batches",
         "Haar rotations; tolerance scaled by measured energy scale."),
 "C09": ("state-trace checker over multi-step histories of the real update; closed-form hardening laws and an independent numpy incremental potential as reference model",
         "numpy re-implementation of hardening laws and Hencky energy is trusted."),
 "C10": ("autodiff stress/tangent vs 8th-order central differences of the jitted energy (primal-only route), spectral-class stratified points with yield-switch margin",
         "finite-difference truncation/rounding bounds; points straddling the yield switch are discarded and counted."),
 "C11": ("state-trace checker over deformation/hold histories; closed-form limits and independent numpy equilibrium energy",
         "numpy reference of the equilibrium energy trusted."),
 "C12": ("contract-style monitors on TensorMath/LinAlg routines in single and batched execution; numpy eigh, Daleckii-Krein Frechet derivative, exact rational determinant, scipy sqrtm/logm as references",
         "numpy/scipy dense linear algebra and fractions.Fraction are trusted."),
 "C13": ("structural validator (pure numpy: edge dictionary, shoelace areas, multiset algebra of set members) on every Mesh returned by generation/elevation/merge/readers; files written by the harness with netCDF4/json",
         "harness-written Exodus/JSON files are well-formed by construction."),
 "C14": ("assertions on DofManager's returned objects vs boolean-mask oracle; unique-value trick on the sparse index maps; exhaustive enumeration of all BC subsets on the 2x2-node mesh",
         "numpy mask oracle; orientation of the index map is accepted up to a global transpose (see DESIGN)."),
 "C15": ("step recorder around predict/minimise/correct with independent dense mass matrix, internal force and numpy Newmark formulas; energy-conservation trace checker",
         "Shim trusted; solver run with tight tolerances."),
 "C16": ("contract-style monitors on closest-point, mortar integrals, penalty energy, level-set constraints; brute-force geometry and rigid-motion metamorphic relations",
         "brute-force nearest point on a fine parameter scan + closed form; D15 open finding."),
 "C17": ("icontract post-condition on find_root + reference-model monitor (numpy rtsafe) for budget exhaustion + closed-form implicit derivative",
         "numpy transcription of rtsafe is the reference for honest exhaustion; D10 open finding."),
 "C18": ("icontract-style inequalities on smooth min/max/abs, friction potential, ramp and segment parameter, with ulp-adjacent inputs at every branch switch; C1 jump monitor",
         "tolerance = 16 ulp of the result scale."),
 "C19": ("return-value and objective.p inspection after each load step through all four drivers; dense H^-1 dg/dp oracle for the warm start",
         "Shim trusted; dense oracle by jacfwd."),
 "C20": ("independent strict legacy-VTK ASCII parser over files actually written; round-trip and byte-identical rewrite monitors",
         "harness parser implements the legacy VTK grammar for unstructured grids."),
}

NOTES = {
 "C01": "CHOLMOD stand-in (dense Cholesky) trusted; 10 objective families (incl. two-scale, valley, far-flat, barrier), settings incl. their boundaries (tol=0), load sequences on one Objective; D1 open (final success-flagged iterate uphill).",
 "C02": "jax autodiff of the library's own energy (dense Hessian, or Hessian-vector products for the >1000-element size class) is the reference; open: D12 (unsymmetric log-strain tangent at repeated stretches); C02-N1 (mixed state widths in multi-block) fixed in /repo 04045a4, the mixed-width class must hold.",
 "C03": "scipy Gauss-Jacobi (long-double polished) and Gauss-Legendre rules exact to the stated degree; meshes at absolute scales 1e-8..1e8 and offsets; library-elevated meshes judged as returned. User rules of the same size as library rules (reflected/rotated points) and the padded 1D rule follow the library rule in every mesh case.",
 "C04": "CHOLMOD stand-in trusted; convex classes built around Slater points with planted KKT points, active-set enumeration for m<=6; non-returns vacuous with a per-class return-rate floor; load sequences on reused objectives.",
 "C05": "CHOLMOD stand-in trusted; planted box-QP optimum cross-checked by an independent projected-Newton solve; contracts on project/project_onto_tr/Cauchy point in situ; D1 open.",
 "C06": "dense eigh + long-double secular bisection oracle (self-checked by brute force), n<=40, exact-structure classes and an exhaustive small-integer 2x2 sub-space; D20 open (preconditioned-norm recurrence drift).",
 "C07": "CHOLMOD stand-in trusted; forward-mode dense Jacobians + numpy solve are the IFT reference; exact, stale, Jacobi, identity and perturbed preconditioners; rate-dependent materials and dt in the helper products. Load-case studies on one reused Objective (both entry points) are judged against the same call on a fresh Objective.",
 "C08": "Haar rotations; tolerance = rounding bound of the energy formula times measured scale; unit-system sweep 2^-40..2^40; aliased-options histories; D8 open (batched eigen-solver at repeated stretches).",
 "C09": "numpy re-implementation of hardening laws / Hencky energy / incremental potential trusted; yield strain 1e-9..3e-2, E over 12 decades, stretches 0.1..10; open: D8 (batched), C09-N1, C09-N3, C09-N4 (root finder / absolute guards at extreme ratios).",
 "C10": "8th-order central differences with two stencil widths and a yield-switch margin; unit-system sweep up to SI pascals; D12 open (second derivative at repeated stretches).",
 "C11": "numpy equilibrium energy and closed-form limits trusted; moduli 1e-6..1e9, tau 1e-4..1e4, dt/tau 1e-6..1e6, stretches 0.1..10; D8 open (batched).",
 "C12": "numpy eigvalsh, Daleckii-Krein, fractions.Fraction, scipy sqrtm/logm trusted; exact-degeneracy classes in dyadic arithmetic for every branch variable; open: D8, D8b, D24 (compiled eigen-solver at ties), D22 (logm Pade table). Known gap: derivative rules are compared at first order only (seeded change C12-7, wrong second-order derivative of exp_symm at repeated eigenvalues, is not caught; DESIGN 8.5).",
 "C13": "harness-written Exodus/JSON files are well-formed by construction; pure-numpy structural validator; operands must come back unchanged; absolute scale/offset sweep. Tiny edge tables (from the single-cell 2x2 mesh up) under random node renumbering.",
 "C14": "boolean-mask oracle; index-map orientation accepted up to one global transpose (DESIGN 8.3); exhaustive over all BC subsets of the 2x2-node mesh; redefinition histories in one process; assembly at 2^-70..2^45.",
 "C15": "CHOLMOD stand-in trusted; solver run with tight tolerances; plane strain and axisymmetric, pressure projection 0/1; energy clause as read in DESIGN section 3. Density / material studies on a shared FunctionSpace (each dynamics object must keep its own mass).",
 "C16": "long-double closed forms cross-checked by brute force; absolute scales 1e-12..1e8; D15 open (average-normal policy with coinciding normals).",
 "C17": "numpy transcription of rtsafe is the reference model for honest budget exhaustion; open: D10 (honest NaN on exhaustion), D10d (step-size criterion in steep regions). Power-law brackets that start at the point of infinite slope (both slope signs).",
 "C18": "x87 long-double oracle; every inequality to 16 ulp of the result scale; exact switch/tie/zero clusters via nextafter.",
 "C19": "CHOLMOD stand-in trusted; dense H^-1 dg/dp oracle (jacfwd), certified references; increment ladder 1e-14..1 and data scales 1e-12..1e12; in-situ recorder on all four drivers. Direct warm starts on objects with an evaluation pre-history at the same point under foreign parameters.",
 "C20": "harness reader implements the legacy-VTK grammar for unstructured grids (self-tested on corrupted files in every worker); shadow model of each writer's contents; NaN/inf field values not exercised.",
}

LEVEL_TEXT = ("Runtime monitoring of real executions: the property is checked by an oracle on every execution the seeded, class-stratified "
              "workload produces; evidence reports the executions, classes, solver paths and closest calls actually observed. Held on what was "
              "explored, not a proof.")


def main():
    checks = []
    na = []
    for pid, modname in sorted(PROP_MODULES.items()):
        path = os.path.join(HERE, modname.replace(".", "/") + ".py")
        ready = set(open(os.path.join(HERE, "tools", "ready.txt")).read().split())
        if not os.path.exists(path) or pid not in ready:
            na.append({"property_id": pid, "reason": "check not built yet in this round (planned; see DESIGN.md section 3)"})
            continue
        tech, note = T[pid]
        note = NOTES.get(pid, note)
        checks.append({
            "property_id": pid,
            "quick_cmd": "./check %s --tier quick" % pid,
            "thorough_cmd": "./check %s --tier thorough" % pid,
            "evidence_file": "/verif/evidence/%s.json" % pid,
            "replay_cmd_template": "./check %s --replay {path}" % pid,
            "engine": "vlib",
            "level_claimed": {"category": "exploration", "text": LEVEL_TEXT, "design_ref": "DESIGN.md section 3 (" + pid + ") and section 8"},
            "level_note": note,
            "technique": "runtime monitoring: " + tech,
        })
    m = {
        "version": 1,
        "setup_cmd": "./setup.sh",
        "hooks": {
            "guard": "OPTIMISM_VERIF",
            "enable": "no source hooks are needed: workers import /repo's working tree fresh (sys.path) with OPTIMISM_VERIF=1 set; monitors wrap module attributes from the harness",
            "baseline_off_cmd": "cd /repo && env -u OPTIMISM_VERIF /venv/bin/python -m pytest -ra -q -p no:cacheprovider --timeout=900 --continue-on-collection-errors",
            "source_commits": [],
            "add_only": True,
        },
        "engines": [{"name": "vlib", "path": "/verif/vlib", "serves_properties": [c["property_id"] for c in checks],
                     "kind_free_text": "seeded workload generator + sharded worker processes importing /repo fresh + monitors/oracles + three-valued verdicts + known-findings classifier"}],
        "checks": checks,
        "notes": "All checks: exit 0 held / 1 VIOLATION / 2 INCONCLUSIVE. VERIF_SEED, VERIF_TIER, VERIF_REPO, VERIF_JOBS honoured. Known findings in /verif/known_findings.json.",
        "not_applicable": na,
    }
    json.dump(m, open(os.path.join(HERE, "MANIFEST.json"), "w"), indent=1)
    print("claimed:", [c["property_id"] for c in checks])
    print("not_applicable:", [n["property_id"] for n in na])


if __name__ == "__main__":
    main()
