#!/venv/bin/python
"""Merge known_findings.d/*.json into the single committed known_findings.json (then the .d directory can be deleted)."""
import glob, json, os
HERE = os.path.dirname(os.path.dirname(os.path.abspath(__file__)))
ents = []
for f in sorted(glob.glob(os.path.join(HERE, "known_findings.d", "*.json"))):
    ents.extend(json.load(open(f)))
try:
    old = json.load(open(os.path.join(HERE, "known_findings.json"))).get("findings", [])
except FileNotFoundError:
    old = []
seen = {(e["property"], e["key"]) for e in ents}
ents = [e for e in old if (e["property"], e["key"]) not in seen] + ents
ents.sort(key=lambda e: (e["property"], e["status"] != "open", e["id"]))
lines = []
for e in ents:
    if e["status"] == "fixed":
        lines.append("fixed: property=%s %s %s" % (e["property"], e.get("commit", "?"), e.get("summary", "")[:160]))
doc = {
    "_doc": ("Genuine defects in sandialabs/optimism found by the checks. 'open' entries are matched against a violation's mechanism key "
             "(assigned by a structural classifier in the property module: failing clause + input class + execution mode + honest-failure "
             "signature; never a case hash) and turn it into a KNOWN-FINDING line; anything else stays a VIOLATION. 'fixed' entries "
             "(repaired by the named 'fix:' commit in /repo) suppress nothing. Checks never write to this file."),
    "fixed_summary": lines,
    "findings": ents,
}
json.dump(doc, open(os.path.join(HERE, "known_findings.json"), "w"), indent=1)
print(len(ents), "entries;", sum(e["status"] == "open" for e in ents), "open")
