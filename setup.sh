#!/bin/sh
# Offline setup: install the runtime-contract libraries and the schema validator
# beside the repository's interpreter (no network; wheelhouse only).
set -e
cd "$(dirname "$0")"
if [ ! -d .deps/icontract ] || [ ! -d .deps/jsonschema ]; then
  rm -rf .deps
  PIP_NO_INDEX=1 /venv/bin/pip install -q --no-index --find-links /opt/veriftools/wheels \
     --target .deps icontract deal jsonschema >/dev/null 2>&1 || \
  PIP_NO_INDEX=1 /venv/bin/pip install --no-index --find-links /opt/veriftools/wheels \
     --target .deps icontract deal jsonschema
fi
mkdir -p evidence replays .work
/venv/bin/python - <<'PY'
import sys; sys.path.insert(0, '/verif/.deps')
import icontract, deal, jsonschema
print('setup ok: icontract', icontract.__version__)
PY
