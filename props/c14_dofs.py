"""C14 — degree-of-freedom bookkeeping is a lossless partition for every BC set.

Monitor: assertions on the objects DofManager returns, against an oracle built
from the boolean (node, component) mask alone; the sparse index maps are checked
with the unique-value trick (every element-matrix entry encodes (e, a, b)).
"""
import numpy as onp

from vlib.common import Res, derive_seed, rng_of, raised_in_library, library_frames

PROPERTY = "C14"
LEVEL = "exploration"
RULE = ("cases = (mesh, fields-per-node, list of (nodeSet, component) essential BCs); the 2x2-node mesh with one node set per "
        "node is enumerated exhaustively over all 2^8 BC subsets (dim 2) and all 2^4 (dim 1); larger meshes/orders/dims are "
        "seeded random with overlapping, repeated, empty and full node sets; a history class builds six managers in one process on one "
        "connectivity with the same (set name, component) list but redefined set contents. Non-trivial = BC mask neither empty nor full; "
        "distinct = canonical hash of the case parameters.")
ASSUMPTIONS = ["numpy boolean-mask oracle is correct", "meshes come from the library's own structured/elevation generators or the harness's Delaunay generator"]
REQUIRED = {"all": {"assembly_entries_checked": 1000, "roundtrip_fields": 50, "bc_empty": 1, "bc_full": 1, "history_steps": 24, "assembled_at_scale_2^-50": 50}}
WATCHDOG_S = {"quick": 1800, "thorough": 7200}


def build_cases(tier, seed):
    cases = []
    # exhaustive core: 2x2 nodes, dim 2 -> 256 subsets in chunks of 16; dim 1 -> 16 subsets
    for chunk in range(16):
        cases.append({"cls": "exhaustive_2x2_dim2", "group": "ex%d" % (chunk % 8), "bits": list(range(chunk * 16, chunk * 16 + 16)), "dim": 2})
    cases.append({"cls": "exhaustive_2x2_dim1", "group": "ex0", "bits": list(range(16)), "dim": 1})
    n_rand = 96 if tier == "quick" else 3000
    for i in range(6 if tier == "quick" else 60):
        cases.append({"cls": "large", "group": "L%d" % (i % 16), "seed": derive_seed(seed, PROPERTY, "large", i), "kind": "large", "cost": 4})
    for i in range(n_rand):
        s = derive_seed(seed, PROPERTY, "random", i)
        cases.append({"cls": "random", "group": "r%d" % (i % 16), "seed": s})
    # history class: many managers in one process on the SAME connectivity with the SAME (set name, component) list but
    # redefined node-set contents -- any state carried from one construction to the next (caches keyed on names) shows here
    for i in range(8 if tier == "quick" else 200):
        cases.append({"cls": "redefine_history", "group": "h%d" % (i % 16), "seed": derive_seed(seed, PROPERTY, "hist", i), "kind": "history", "cost": 3})
    # explicit corner classes
    for i, kind in enumerate(["empty", "full", "all_but_one", "repeated_sets", "dim3_full_component"] * (1 if tier == "quick" else 20)):
        s = derive_seed(seed, PROPERTY, kind, i)
        cases.append({"cls": "corner_" + kind, "group": "c%d" % (i % 16), "seed": s, "kind": kind})
    return cases


def on_exception(case, exc, res):
    """Every input the generator produces is admissible: an exception from inside the library is a violation."""
    if raised_in_library(exc):
        res.violate("library_raised", {"type": type(exc).__name__, "msg": str(exc)[:200], "frames": library_frames(exc)})
        return True
    return False


def _check_manager(res, mesh, dim, ebcs, rng):
    """ebcs: list of (setName, component). The oracle mask is built here from the node sets alone."""
    import jax.numpy as np
    from optimism import FunctionSpace, QuadratureRule, SparseMatrixAssembler
    nNodes = int(mesh.coords.shape[0])
    mask = onp.zeros((nNodes, dim), dtype=bool)
    for name, comp in ebcs:
        mask[onp.asarray(mesh.nodeSets[name], dtype=int), comp] = True
    quad = QuadratureRule.create_quadrature_rule_on_triangle(degree=1)
    fs = FunctionSpace.construct_function_space(mesh, quad)
    bcs = [FunctionSpace.EssentialBC(nodeSet=n, component=c) for n, c in ebcs]
    dm = FunctionSpace.DofManager(fs, dim, bcs)

    nb = int(mask.sum())
    nu = mask.size - nb
    if nb == 0:
        res.count("bc_empty")
    elif nu == 0:
        res.count("bc_full")
    else:
        res.nontrivial = True
    ids = onp.arange(mask.size).reshape(mask.shape)
    res.expect("mask", onp.array_equal(onp.asarray(dm.isBc), mask) and onp.array_equal(onp.asarray(dm.isUnknown), ~mask),
               {"ebcs": ebcs})
    ui = onp.asarray(dm.unknownIndices)
    bi = onp.asarray(dm.bcIndices)
    res.expect("partition", onp.array_equal(onp.sort(onp.concatenate([ui, bi])), onp.arange(mask.size))
               and len(onp.intersect1d(ui, bi)) == 0
               and onp.array_equal(ui, ids[~mask]) and onp.array_equal(bi, ids[mask]),
               {"unknownIndices": ui.tolist()[:40], "bcIndices": bi.tolist()[:40]})
    res.expect("sizes", dm.get_bc_size() == nb and dm.get_unknown_size() == nu,
               {"bc": dm.get_bc_size(), "unknown": dm.get_unknown_size(), "expect": [nb, nu]})
    res.expect("size_types", isinstance(dm.get_bc_size(), int) and isinstance(dm.get_unknown_size(), int))

    # split / recombine
    for _ in range(2):
        U = rng.standard_normal(mask.shape) * 10.0 ** rng.integers(-8, 8)
        Uj = np.array(U)
        Uu = dm.get_unknown_values(Uj)
        Ub = dm.get_bc_values(Uj)
        back = onp.asarray(dm.create_field(Uu, Ub))
        res.expect("roundtrip", back.shape == U.shape and onp.array_equal(back, U), {"maxdiff": float(onp.max(onp.abs(back - U))) if back.shape == U.shape else "shape"})
        res.expect("split_values", onp.array_equal(onp.asarray(Uu), U[~mask]) and onp.array_equal(onp.asarray(Ub), U[mask]))
        res.count("roundtrip_fields")
        # default Ubc = 0
        z = onp.asarray(dm.create_field(Uu))
        res.expect("create_field_default", onp.array_equal(z[~mask], U[~mask]) and onp.all(z[mask] == 0.0))
        # component slices
        for c in range(dim):
            got = onp.asarray(dm.slice_unknowns_with_dof_indices(Uu, onp.s_[:, c]))
            want = U[:, c][~mask[:, c]]
            res.expect("component_slice", got.shape == want.shape and onp.array_equal(got, want), {"component": c})
        # node-range slices too (same API)
        k = int(rng.integers(1, nNodes + 1))
        sel = onp.sort(rng.choice(nNodes, size=k, replace=False))
        c = int(rng.integers(0, dim))
        got = onp.asarray(dm.slice_unknowns_with_dof_indices(Uu, (sel, c)))
        want = U[sel, c][~mask[sel, c]]
        res.expect("node_subset_slice", got.shape == want.shape and onp.array_equal(got, want))

    # sparse index maps: unique-value trick
    conns = onp.asarray(mesh.conns)
    nE, nNpe = conns.shape
    nd = nNpe * dim
    codes = (onp.arange(nE * nd * nd, dtype=float) + 1.0).reshape(nE, nd, nd)
    got_codes = codes[onp.asarray(dm.hessian_bc_mask)]
    rows = onp.asarray(dm.HessRowCoords)
    cols = onp.asarray(dm.HessColCoords)
    ok_len = (len(got_codes) == len(rows) == len(cols))
    d2u = -onp.ones(mask.size, dtype=int)
    d2u[ids[~mask]] = onp.arange(nu)
    exp = []
    for e in range(nE):
        eldofs = ids[conns[e], :].ravel()
        unk = ~mask[conns[e], :].ravel()
        for a in range(nd):
            if not unk[a]:
                continue
            for b in range(nd):
                if unk[b]:
                    exp.append((codes[e, a, b], d2u[eldofs[a]], d2u[eldofs[b]]))
    if ok_len:
        # The map must be a bijection onto the unknown-by-unknown entries of every element.  The library stores the
        # element entry (a, b) at (unknown(b), unknown(a)) -- a global transpose, invisible for the symmetric element
        # Hessians it is used for and not excluded by the property -- so either orientation is accepted, but it has to
        # be the same orientation for every entry.
        got = sorted(zip(got_codes.tolist(), rows.tolist(), cols.tolist()))
        gotT = sorted(zip(got_codes.tolist(), cols.tolist(), rows.tolist()))
        want = sorted((float(c), int(r), int(s)) for c, r, s in exp)
        res.expect("hessian_index_bijection", got == want or gotT == want, {"n_got": len(got), "n_expected": len(exp)})
        if len(want) > 1 and got != gotT:
            res.count("orientation_direct" if got == want else "orientation_transposed")
    else:
        res.expect("hessian_index_bijection", False, {"len_codes": len(got_codes), "len_rows": len(rows), "len_cols": len(cols)})
    res.count("assembly_entries_checked", len(exp))
    # through the real assembler, integer-valued entries so that duplicate summation is exact
    kv = rng.integers(-50, 50, size=(nE, nd, nd)).astype(float)
    kv = (kv + kv.transpose(0, 2, 1)).reshape(nE, nNpe, dim, nNpe, dim)  # symmetric element matrices, as Hessians are
    K = SparseMatrixAssembler.assemble_sparse_stiffness_matrix(kv, mesh.conns, dm)
    Kd = onp.zeros((nu, nu))
    kvr = kv.reshape(nE, nd, nd)
    for e in range(nE):
        eldofs = ids[conns[e], :].ravel()
        unk = ~mask[conns[e], :].ravel()
        ue = d2u[eldofs[unk]]
        Kd[onp.ix_(ue, ue)] += kvr[e][onp.ix_(unk, unk)]
    Ka = onp.asarray(K.todense()) if nu > 0 else onp.zeros((0, 0))
    res.expect("assembled_matrix", Ka.shape == Kd.shape and onp.array_equal(Ka, Kd), {"shape": list(Ka.shape)})
    # the same at other magnitudes (power-of-two factors keep every sum exact): no entry may be dropped or altered because it
    # is small or large in absolute terms
    for e2 in (-70, -50, -40, 45):
        f = 2.0 ** e2
        Ks = SparseMatrixAssembler.assemble_sparse_stiffness_matrix(kv * f, mesh.conns, dm)
        Ksa = onp.asarray(Ks.todense()) if nu > 0 else onp.zeros((0, 0))
        res.expect("assembled_matrix_scaled", Ksa.shape == Kd.shape and onp.array_equal(Ksa, Kd * f), {"scale": f, "shape": list(Ksa.shape),
                   "nnz_expected": int(onp.count_nonzero(Kd)), "nnz_got": int(onp.count_nonzero(Ksa))})
        res.count("assembled_at_scale_2^%d" % e2)


def run_case(case):
    from optimism import Mesh
    from vlib.gen import meshes
    res = Res(case)
    cls = case["cls"]
    if cls.startswith("exhaustive"):
        dim = case["dim"]
        mesh = Mesh.construct_structured_mesh(2, 2, [0.0, 1.0], [0.0, 1.0])
        mesh = meshes.with_nodesets(mesh, {"n%d" % i: [i] for i in range(4)})
        rng = rng_of(derive_seed("C14ex", case["bits"][0], dim))
        for bits in case["bits"]:
            ebcs = [("n%d" % (k // dim), k % dim) for k in range(4 * dim) if (bits >> k) & 1]
            _check_manager(res, mesh, dim, ebcs, rng)
            res.count("exhaustive_subsets")
        res.nontrivial = True
        return res
    rng = rng_of(case["seed"])
    if case.get("kind") == "history":
        order = int(rng.integers(1, 3))
        dim = int(rng.integers(1, 4))
        mesh0 = meshes.build({"kind": "structured", "nx": int(rng.integers(3, 5)), "ny": int(rng.integers(3, 5)), "order": order}, rng)
        nNodes = int(mesh0.coords.shape[0])
        ebcs = [("fixed", int(rng.integers(dim))), ("other", int(rng.integers(dim)))]
        sizes = [int(rng.integers(1, nNodes)) for _ in range(2)]
        for step in range(6):
            # same names, same BC list, (mostly) same set sizes, different members
            sets = {"fixed": onp.sort(rng.choice(nNodes, size=sizes[0], replace=False)),
                    "other": onp.sort(rng.choice(nNodes, size=sizes[1] if step % 3 else int(rng.integers(0, nNodes)), replace=False))}
            _check_manager(res, meshes.with_nodesets(mesh0, sets), dim, ebcs, rng)
            res.count("history_steps")
        return res
    order = int(rng.integers(1, 4))
    dim = int(rng.integers(1, 4))
    kind = case.get("kind", "random")
    if kind == "large":
        order = int(rng.integers(1, 3))
        spec = {"kind": "structured" if rng.random() < 0.5 else "delaunay", "nx": int(rng.integers(6, 10)), "ny": int(rng.integers(5, 9)),
                "order": order, "seed": int(rng.integers(1 << 30))}
        kind = "random"
    elif rng.random() < 0.5:
        spec = {"kind": "structured", "nx": int(rng.integers(2, 5)), "ny": int(rng.integers(2, 5)), "order": order,
                "bubble": bool(order >= 2 and rng.random() < 0.3)}
    else:
        spec = {"kind": "delaunay", "nx": int(rng.integers(3, 5)), "ny": int(rng.integers(3, 5)), "order": order,
                "hole": bool(rng.random() < 0.3), "seed": int(rng.integers(1 << 30))}
    mesh = meshes.build(spec, rng)
    nNodes = int(mesh.coords.shape[0])
    sets = {}
    ebcs = []
    if kind == "random":
        nsets = int(rng.integers(1, 6))
        for s in range(nsets):
            k = int(rng.integers(0, nNodes + 1))
            sets["s%d" % s] = onp.sort(rng.choice(nNodes, size=k, replace=False))
        for _ in range(int(rng.integers(0, 2 * nsets + 1))):
            ebcs.append(("s%d" % int(rng.integers(nsets)), int(rng.integers(dim))))
    elif kind == "empty":
        sets["s0"] = onp.arange(nNodes)
    elif kind == "full":
        sets["s0"] = onp.arange(nNodes)
        ebcs = [("s0", c) for c in range(dim)]
    elif kind == "all_but_one":
        drop = int(rng.integers(nNodes))
        sets["s0"] = onp.arange(nNodes)
        sets["s1"] = onp.delete(onp.arange(nNodes), drop)
        ebcs = [("s0", c) for c in range(dim - 1)] + [("s1", dim - 1)]
    elif kind == "repeated_sets":
        a = onp.sort(rng.choice(nNodes, size=max(1, nNodes // 2), replace=False))
        sets["s0"] = a
        sets["s1"] = onp.concatenate([a, a[:2]])  # repeated members
        ebcs = [("s0", 0), ("s1", 0), ("s0", 0), ("s1", dim - 1)]
    elif kind == "dim3_full_component":
        dim = 3
        sets["s0"] = onp.arange(nNodes)
        ebcs = [("s0", 1)]
    mesh = meshes.with_nodesets(mesh, sets)
    res.count("order%d" % order)
    res.count("dim%d" % dim)
    _check_manager(res, mesh, dim, ebcs, rng)
    return res
