"""C12 -- symmetric 3x3 eigen-decomposition, tensor functions, derivative rules; detpIm1 / inv / polar; dense sqrtm / logm.

Monitor: assertions on the values returned by the real routines, against dumb numpy/Fraction/scipy reference models
(vlib/oracles/c12_ref.py), in BOTH ways the library executes them: a single compiled call per tensor (`jax.jit(f)`), and
compiled batches (`jax.jit(jax.vmap(f))`, batch size 8 and 32/128).  Hostile, class-stratified inputs (vlib/gen/c12_tensors.py).

Open known findings are keyed by INPUT CLASS and EXECUTION MODE only (never by whether a given batch happened to fail):
  D8    batched  AND  relative eigenvalue gap of the tensor handed to the eigen-routine < 1e-3  AND  not axis-aligned
  D17   sqrt_symm  AND  |lambda_min| <= 8 eps ||A||  AND  not axis-aligned (either mode)            [DESIGN section 2]
  D17b  the same for axis-aligned rank-deficient tensors (found here: e.g. diag(0.0369, 0, 0.0146) -> NaN, single call)
  D21   pow_symm JVP  AND  batched  AND  exactly repeated eigenvalues in an axis-aligned tensor
  D23   any eigen-based clause AND the three diagonal entries are exactly equal AND one or two off-diagonals are non-zero
        (a I + shear, incl. pure shear and two-shear "hollow" tensors: zero-diagonal deviator with zero determinant):
        the Wilkinson step uses sign(b) = 0 at b == 0
  D24   single compiled call AND circulant structure (equal diagonal, equal |off-diagonals|): NaN eigenvectors for some
  D8b   batched AND an exact tie in one of the routine's branch selectors (two pivot row norms, the two projected rows a0 == a1,
        or the rm2xx2 / rm2yy2 selector; cheap structural predicate, or for failing elements the longdouble replica of the
        deflation step) AND not axis-aligned
  D22   LinAlg.logm_iss: honest-failure signature "result equals the 5-point-capped Pade evaluation" (see run_dense)
Everything else must hold.
"""
import math

import numpy as onp

from vlib.common import Res, derive_seed, rng_of, haar_so3, haar_on, EPS

PROPERTY = "C12"
LEVEL = "exploration"
RULE = ("a case = N tensors of one class (routine family x spectrum kind x orientation x execution mode), each with its own "
        "log-uniform scale (1e-20..1e20 where the function's domain allows): spectra {distinct, relative gap 10^-k for k=0..16, "
        "exactly repeated pair, triple, near-triple, rank 2/1/0, mixed signs, negative, traceless}; orientations {identity, "
        "axis permutation, in-plane block, Haar}; Haar tensors are relabelled so that each pivot row 0/1/2 is selected; JVP "
        "directions = the 6 symmetric unit perturbations + random symmetric + random non-symmetric.  Exact-degeneracy classes "
        "(spec exact:*, dyadic entries x power-of-two scales, exact axis relabellings, every family and both modes): middle "
        "eigenvalue exactly the mean of the others (det of the deviator = 0: diagonal, traceless in-plane block, in-plane block with "
        "out-of-plane mean, Haar-rotated), pure shear and a I + shear (zero deviatoric diagonal), hollow, equal-diagonal block, "
        "circulant and axis-exchange-symmetric tensors (exact ties of the pivot row norms), exactly traceless, one/two/three zero "
        "off-diagonals, isotropic; a Fraction/float census of the surfaces hit is in coverage.observed (surface:*, exact_rational:*).  Non-trivial = the case "
        "contains a tensor that is not a multiple of the identity; distinct = canonical hash of the case parameters.")
ASSUMPTIONS = [
    "numpy.linalg.eigh/eigvalsh (LAPACK), fractions.Fraction and scipy.linalg.sqrtm/logm/expm are correct reference models",
    "Daleckii-Krein formula with expm1/log1p-stable divided differences on numpy.eigh is the analytic Frechet derivative",
    "tolerances: eigen reconstruction/orthonormality/eigenvalues 1e-12 relative; function identities 1e-11 x condition of the "
    "identity (stated per clause); JVP 1e-9 relative to max|L|; detpIm1 32 eps x sum|terms|; inv/polar 1e-12 x cond; dense "
    "sqrtm/logm 1e-10 x cond (DESIGN.md C12)",
    "pow_symm derivative is judged only where its docstring claims accuracy: exactly repeated (axis-aligned) or relative gap >= 1e-3",
    "the input-class classifier (relative gap, axis alignment, numerical singularity) is computed from numpy.eigvalsh of the input; "
    "for compositions (exp(log A), log(exp A), f(Q A Q^T)) every tensor handed to the eigen-routine is classified (reference "
    "value of the intermediate), the clause is in the D8 class if any of them is",
    "inv: rounding bound of the adjugate/determinant formula 64 eps s1^2/(s2 s3) (not eps cond); log(exp A) = A only judged "
    "while cond(exp A) <= 1e6; exp arguments |lambda| <= 15; JVP tensors: condition <= 10, scales 1e-8..1e8 (exp: <= 2)",
    "D8b beyond its cheap structural predicate, and D23, are classified for failing elements by vlib.oracles.c12_ref.deflation_surfaces "
    "(no hit on 3000 generic random tensors); D23 is classified by a cheap structural class (equal diagonal, one or two non-zero off-diagonals) or, for failing elements "
    "only, by an independent longdouble replica of the deflation step (Wilkinson variable b = 0 to 64 eps with a non-small "
    "off-diagonal, any admissible root/pivot choice) or by a single-call probe of the library (two exactly equal eigenvalues at "
    "the mean of two separated reference eigenvalues); D24 / D8b by exact structural predicates on the scaled deviator",
    "D22 classifier trusts scipy.linalg.sqrtm for the 2^k-th root and numpy leggauss(5) as the reference model of the defect",
]
MAX_VACUOUS_FRACTION = 0.2
WATCHDOG_S = {"quick": 2400, "thorough": 4 * 3600}

KEY_D8 = "C12/D8/batched-neardegenerate-nonaxis"
KEY_D8B = "C12/D8b/batched-exact-pivot-tie-nonaxis"
KEY_D23 = "C12/D23/eig-zero-deviator-diagonal"
KEY_D24 = "C12/D24/eig-single-call-circulant-nan"
KEY_D8C = "C12/D8c/single-call-fused-function-exact-tie"
KEY_D17 = "C12/D17/sqrt-singular-psd-nonaxis"
KEY_D17B = "C12/D17b/sqrt-singular-psd-axis-aligned"
KEY_D21 = "C12/D21/pow-jvp-batched-exactly-repeated"
KEY_D22 = "C12/D22/logm-pade-quadrature-capped-at-5-points"

TOL_EIG = 1e-12
TOL_FUN = 1e-11
TOL_JVP = 1e-9
TOL_DENSE = 1e-10

REQUIRED = {
    "all": {
        "eig.tensors:single": 2000, "eig.tensors:batched": 2000,
        "eig.must_hold:batched": 1000, "eig.known_class_D8": 300,
        "fun.sqrt.tensors": 1000, "fun.log.tensors": 1000, "fun.exp.tensors": 1000, "fun.pow.tensors": 1000,
        "fun.equivariance.tensors": 500,
        "jvp.sqrt.pairs": 500, "jvp.log.pairs": 500, "jvp.exp.pairs": 500, "jvp.pow.pairs": 200,
        "jvp.at_exactly_repeated": 100, "jvp.at_gap_below_1e-6": 100, "jvp.nonsymmetric_direction": 50,
        "sqrt.known_class_D17": 50, "sqrt.known_class_D17b": 20, "sqrt.rank_deficient_axis_aligned": 20,
        "jvp.pow.known_class_D21": 8, "known_class_total:eig.reconstruct": 300, "known_class_total:jvp.log": 100,
        "pivot:0": 50, "pivot:1": 50, "pivot:2": 50, "pivot:isotropic_fallback": 20,
        "orient:identity": 200, "orient:permutation": 200, "orient:inplane": 200, "orient:haar": 200,
        "scale:<1e-10": 100, "scale:>1e10": 100,
        "detpIm1.checked": 200, "inv.checked": 100, "polar.checked": 100,
        "dense.sqrtm.checked": 40, "dense.logm.checked": 40, "dense.nonnormal": 15, "dense.logm.known_class_D22": 10, "dense.scaled": 10,
        "mode:single": 50, "mode:batched": 50, "batch_size:8": 10,
        "surface:rr_exactly_zero(c3==0)/eig": 100, "surface:rr_exactly_zero(c3==0)/fun_exp": 60, "surface:rr_exactly_zero(c3==0)/fun_pd": 30,
        "surface:rr_exactly_zero(c3==0)/jvp": 5,
        "exact_rational:det_dev_zero/eig/single": 100, "exact_rational:det_dev_zero/eig/batched": 100,
        "exact_rational:det_dev_zero/fun_pd/single": 60, "exact_rational:det_dev_zero/fun_exp/batched": 60,
        "exact_rational:det_dev_zero_and_rr_zero_in_float/eig": 100, "exact_rational:det_dev_zero_nonaxis/eig": 60,
        "surface:isotropic(c2==0)/eig": 60, "surface:trace_exactly_zero/eig": 100, "surface:deviator_diagonal_zero/eig": 30,
        "surface:pivot_tie_k0==k1/eig": 30, "surface:pivot_tie_k1==k2/eig": 30, "surface:pivot_tie_k0==k2/eig": 30,
        "surface:zero_offdiagonals=1/eig": 30, "surface:zero_offdiagonals=2/eig": 100, "surface:zero_offdiagonals=3/eig": 100,
        "exact:mean_diag/eig/single": 30, "exact:mean_diag/eig/batched": 30, "exact:traceless_inplane/eig/single": 30,
        "exact:traceless_inplane/eig/batched": 30, "exact:inplane_mean_out/eig/single": 30, "exact:mean_rotated/eig/single": 30,
        "exact:pure_shear/eig/single": 30, "exact:circulant/eig/single": 30, "exact:swap_sym/eig/batched": 30,
        "eig.known_class_D23": 30, "eig.known_class_D24": 10, "eig.known_class_D8b": 10,
    },
}


# ------------------------------------------------------------------------------------------------ case list (parent)

def build_cases(tier, seed):
    from vlib.gen import c12_tensors as G
    quick = tier == "quick"
    N = 32 if quick else 128
    reps = 1 if quick else 120
    cases = []

    def add(family, spec, orient, mode, i, **kw):
        cls = "%s/%s" % (family, mode)
        B = (8, 32, N)[i % 3]
        c = {"cls": cls, "family": family, "spec": spec, "orient": orient, "mode": mode, "N": N, "B": B,
             "group": "%s/%s/%s" % (family, mode, orient), "cost": 1.0,
             "seed": derive_seed(seed, PROPERTY, family, spec, orient, mode, i)}
        c.update(kw)
        cases.append(c)

    eig_specs = G.SPECTRA_BASE + G.SPECTRA_GAP + G.SPECTRA_DEFICIENT + G.SPECTRA_SIGNED
    pd_specs = G.SPECTRA_BASE + G.SPECTRA_GAP
    for rep in range(reps):
        i = rep
        for mode in ("single", "batched"):
            for orient in G.ORIENTATIONS:
                for spec in eig_specs:
                    i += 1
                    add("eig", spec, orient, mode, i)
                    add("fun_exp", spec, orient, mode, i)
                for spec in pd_specs:
                    i += 1
                    add("fun_pd", spec, orient, mode, i)
                    add("jvp", spec, orient, mode, i)
                for spec in G.SPECTRA_DEFICIENT:
                    i += 1
                    add("fun_psd", spec, orient, mode, i)
            # exact-degeneracy surfaces of the algorithm's branch variables (dyadic entries, power-of-two scales)
            for kind in G.EXACT_KINDS:
                for fam in ("eig", "fun_pd", "fun_exp", "jvp"):
                    i += 1
                    add(fam, "exact:" + kind, "exact", mode, i)
            for k in range(6 if quick else 12):
                add("helpers", "any", "any", mode, rep * 100 + k)
        for n in range(2, 11):
            for kind in ("normal", "nonnormal", "expm", "pade16", "scaled"):
                cases.append({"cls": "dense/single", "family": "dense", "n": n, "kind": kind, "mode": "single",
                              "group": "dense/n%d" % n, "cost": 1.0, "count": 6 if quick else 30,
                              "seed": derive_seed(seed, PROPERTY, "dense", n, kind, rep)})
    return cases


# ------------------------------------------------------------------------------------------------ worker: evaluation

_J = {}


def _raw(name):
    import jax
    from optimism import TensorMath as TM
    if name == "eig":
        return TM.eigen_sym33_unit
    if name in ("sqrt", "exp", "log"):
        return getattr(TM, name + "_symm")
    if name == "logsqrt":
        return TM.log_sqrt_symm
    if name == "pow":
        return TM.pow_symm
    if name.startswith("jvp_"):
        base = name[4:]
        if base == "pow":
            return lambda A, E, m: jax.jvp(lambda X: TM.pow_symm(X, m), (A,), (E,))[1]
        if base == "pow_static":       # exponent baked into the compiled function (as user code with a literal exponent does)
            return lambda A, E: jax.jvp(lambda X: TM.pow_symm(X, 1.7), (A,), (E,))[1]
        f = getattr(TM, base + "_symm")
        return lambda A, E: jax.jvp(f, (A,), (E,))[1]
    if name == "detpIm1":
        return TM.detpIm1
    if name == "inv":
        return TM.inv
    if name == "polar":
        return TM.right_polar_decomposition
    raise KeyError(name)


def _jitted(name, mode, nb, nscal):
    import jax
    key = (name, mode, nb, nscal)
    if key not in _J:
        f = _raw(name)
        if mode == "single":
            _J[key] = jax.jit(f)
        else:
            _J[key] = jax.jit(jax.vmap(f, in_axes=(0,) * nb + (None,) * nscal))
    return _J[key]


def evaluate(name, mode, B, arrays, scalars=()):
    """Run the real routine on every element.  single: one compiled call per tensor; batched: jit(vmap) on chunks of
    exactly B elements (the last chunk is padded by repeating its last element).  Returns a tuple of stacked numpy arrays."""
    import jax
    import jax.numpy as np
    N = arrays[0].shape[0]
    f = _jitted(name, mode, len(arrays), len(scalars))
    outs = []
    if mode == "single":
        for i in range(N):
            r = f(*[np.asarray(a[i]) for a in arrays], *scalars)
            outs.append(r if isinstance(r, (tuple, list)) else (r,))
        return tuple(onp.stack([onp.asarray(o[k]) for o in outs]) for k in range(len(outs[0])))
    chunks = []
    for c in range(0, N, B):
        idx = onp.arange(c, min(c + B, N))
        if len(idx) < B:
            idx = onp.concatenate([idx, onp.full(B - len(idx), idx[-1])])
        r = f(*[np.asarray(a[idx]) for a in arrays], *scalars)
        r = r if isinstance(r, (tuple, list)) else (r,)
        chunks.append(tuple(onp.asarray(x) for x in r))
    return tuple(onp.concatenate([ch[k] for ch in chunks])[:N] for k in range(len(chunks[0])))


# ------------------------------------------------------------------------------------------------ worker: judging

def _classes(A, mode):
    """Input-class description used by the known-finding classifiers (from numpy.eigvalsh of the input only)."""
    from vlib.oracles import c12_ref as R
    lam, nrm, relgap, axis = R.spectral_info(A)
    d8 = (mode == "batched") & (relgap < 1e-3) & (~axis)
    singular = (onp.abs(lam[:, 0]) <= 8 * EPS * nrm) & (nrm > 0)
    # exact-degeneracy surfaces of the routine's branch variables (float64 replica of its first stage + structure)
    surf = R.branch_surfaces(onp.where(onp.isfinite(A), A, 0.0))
    # D23 (= D25, sign(b) = 0) is fixed in /repo (a2ecf0b): in single-call mode the class must hold.  Inside a compiled batch the
    # same exact tie (b = 0: equal deflated diagonal) still gives wrong eigenvalues because XLA evaluates the tied selector
    # inconsistently across fused consumers -- that is the open D8b mechanism (batched AND exact selector tie AND not axis-aligned).
    d23 = surf["dev_diag_zero"] & (mode == "single")
    d24 = (mode == "single") & surf["circulant"]
    d8b = (mode == "batched") & (surf["pivot_tie"] | surf["dev_diag_zero"]) & (~axis)
    known = onp.array([KEY_D23 if a else (KEY_D24 if b else (KEY_D8 if c else (KEY_D8B if d else None)))
                       for a, b, c, d in zip(d23, d24, d8, d8b)], dtype=object)
    return {"lam": lam, "nrm": nrm, "relgap": relgap, "axis": axis, "d8": d8, "singular": singular, "surf": surf,
            "d23": d23, "d24": d24, "d8b": d8b, "known": known, "anyknown": onp.array([k is not None for k in known])}


def merge_known(*ks):
    """First non-None mechanism key per element over several classified inputs of one clause."""
    out = onp.array(ks[0], dtype=object).copy()
    for k in ks[1:]:
        for i in range(len(out)):
            if out[i] is None and k[i] is not None:
                out[i] = k[i]
    return out


_CTX = {"probe": None}


def set_probe(*arrays):
    """Tensors handed to the eigen-routine by the clauses that follow (default for judge's D23 probe)."""
    _CTX["probe"] = list(arrays)


def d23_signature(T):
    """Honest-failure signature of the open finding D23 on ONE tensor, read from the library itself with a deterministic
    probe (one single compiled call of eigen_sym33_unit, whatever the mode of the clause): the Wilkinson step hit b == 0
    exactly and multiplied the square root by sign(0) = 0, i.e. two returned eigenvalues are EXACTLY equal and sit at the
    mean of two well separated reference eigenvalues, while the third one is right."""
    import jax.numpy as np
    T = onp.asarray(T, dtype=float)
    if not onp.all(onp.isfinite(T)):
        return False
    lam = onp.asarray(_jitted("eig", "single", 1, 0)(np.asarray(T))[0])
    if not onp.all(onp.isfinite(lam)):
        return False
    w = onp.linalg.eigvalsh(0.5 * (T + T.T))
    nrm = max(abs(w[0]), abs(w[2]))
    if not nrm > 0:
        return False
    for i, j, k in ((0, 1, 2), (1, 2, 0), (0, 2, 1)):           # (i, j) the collapsed pair of the reference, k the untouched one
        if w[j] - w[i] <= 1e-6 * nrm:
            continue
        mid = 0.5 * (w[i] + w[j])
        near = onp.abs(lam - mid) <= 1e-12 * nrm
        if near.sum() >= 2:
            vals = lam[near]
            if onp.any(vals[1:] == vals[:-1]) and onp.abs(lam - w[k]).min() <= 1e-12 * nrm:
                return True
    return False


def judge(res, clause, err, allowed, known=None, key=None, detail=None, tag=None, probe=None):
    """err/allowed arrays over the batch.  Elements in a known-finding input class are reported separately
    (their closest call goes to '<clause>[known class]') and, when they fail, carry the mechanism key."""
    err = onp.asarray(err, dtype=float)
    allowed = onp.broadcast_to(onp.asarray(allowed, dtype=float), err.shape)
    N = err.shape[0]
    if known is not None and onp.asarray(known).dtype == object:
        # per-element mechanism keys (None = must hold)
        keys = list(known)
        known = onp.array([k is not None for k in keys], dtype=bool)
    else:
        keys = None
    known = onp.zeros(N, dtype=bool) if known is None else onp.asarray(known, dtype=bool)
    # D8c: in a SINGLE compiled call the eigen-routine alone is exact on exact-tie tensors (D25 repaired), but fused with a
    # consumer (exp/log/sqrt/pow and their JVPs) XLA may again evaluate the tied selector inconsistently (jit(exp_symm) of
    # [[-6,7,1.75],[7,0,7],[1.75,7,-6]] is off by 9e-8 relative while jit(eigen_sym33_unit) and the eager call are exact).
    # So for clauses that are not about the bare decomposition, the single-mode exact-tie class carries the open D8c key.
    fusedSingle = (_CTX.get("mode") == "single") and not clause.startswith("eig.")
    if fusedSingle and keys is not None:
        keys = [KEY_D8C if k == KEY_D23 else k for k in keys]
    with onp.errstate(all="ignore"):
        ratio = onp.where(onp.isfinite(err), err / allowed, onp.inf)
    ratio = onp.where(onp.isnan(ratio), onp.inf, ratio)
    res.checks += N
    res.count("n:" + clause, N)
    if known.any():
        res.count("known_class_total:" + clause, int(known.sum()))
        res.count("known_class_bad:" + clause, int((known & (ratio > 1)).sum()))
    bad = onp.where(ratio > 1)[0]
    # failing elements outside the cheap structural classes: D23 input class by the independent replica of the deflation step
    # (Wilkinson variable b vanishes to rounding) or by the signature read from the library with a single-call probe
    probe = _CTX["probe"] if probe is None else probe
    if probe and len(bad):
        if keys is None:
            keys = [key if k else None for k in known]
        known = known.copy()
        nprobed = 0
        for i in bad:
            if known[i] or nprobed >= 64:
                continue
            nprobed += 1
            from vlib.oracles.c12_ref import deflation_surfaces
            found = None
            for P in probe:
                if len(P) <= i:
                    continue
                T = onp.asarray(P[i], dtype=float)
                sf = deflation_surfaces(T)
                offd = T.copy()
                offd[[0, 1, 2], [0, 1, 2]] = 0.0
                if "b_zero" in sf or d23_signature(T):
                    found = KEY_D8B if (_CTX.get("mode") == "batched" and onp.any(offd != 0.0)) else (KEY_D8C if fusedSingle else KEY_D23)
                    break
                if fusedSingle and (sf & {"pivot_tie", "a_tie", "fac_tie"}) and onp.any(offd != 0.0):
                    found = KEY_D8C
                    break
                if _CTX.get("mode") == "batched" and (sf & {"pivot_tie", "a_tie", "fac_tie"}) and onp.any(offd != 0.0):
                    found = KEY_D8B
                    break
            if found:
                known[i] = True
                keys[i] = found
                res.count("known_class_total:" + clause)
                res.count("known_class_bad:" + clause)
                res.count("lazy_class:" + found.split("/")[1])
    # unexplained first, so that the 20-entry cap of Res can never hide one behind known findings
    must = ~known
    if must.any():
        w = float(ratio[must].max())
        if w > res.ratios.get(clause, -1.0):
            res.ratios[clause] = w
    order = [i for i in bad if not known[i]] + [i for i in bad if known[i]]
    for i in order[:6]:
        d = {"index": int(i), "observed": float(err[i]) if onp.isfinite(err[i]) else str(err[i]), "allowed": float(allowed[i])}
        if tag:
            d["tag"] = tag
        if detail is not None:
            d.update(detail(int(i)))
        res.violate(clause, d, (keys[i] if keys is not None else key) if known[i] else None)
    if len(order) > 6:
        nunk = sum(1 for i in order[6:] if not known[i])
        if nunk:
            res.violate(clause, {"more_unexplained": nunk, "tag": tag}, None)
    return ratio


def _mat_detail(A, extra=None):
    def f(i):
        d = {"A": onp.asarray(A[i]).tolist()}
        if extra:
            d.update({k: (onp.asarray(v[i]).tolist() if hasattr(v, "__len__") else v) for k, v in extra.items()})
        return d
    return f


def _count_common(res, case, A, scales, cl):
    from vlib.oracles import c12_ref as R
    res.count("orient:" + case["orient"], len(A))
    res.count("spec:" + case["spec"], len(A))
    res.count("scale:<1e-10", int((scales < 1e-10).sum()))
    res.count("scale:>1e10", int((scales > 1e10).sum()))
    res.count("mode:" + case["mode"])
    if case["mode"] == "batched":
        res.count("batch_size:%d" % case["B"])
    iso = (cl["relgap"] == 0) & (onp.abs(cl["lam"][:, 0] - cl["lam"][:, 2]) == 0)
    res.nontrivial = bool((~iso).any())
    # census of the exact-degeneracy surfaces of the routine's branch variables the inputs sit on
    sf = cl["surf"]
    fam = case["family"]
    res.count("surface:rr_exactly_zero(c3==0)/" + fam, int(sf["c3_zero"].sum()))
    res.count("surface:isotropic(c2==0)/" + fam, int(sf["c2_zero"].sum()))
    res.count("surface:trace_exactly_zero/" + fam, int(sf["trace_zero"].sum()))
    res.count("surface:deviator_diagonal_zero/" + fam, int(sf["dev_diag_zero"].sum()))
    res.count("surface:pivot_tie_k0==k1/" + fam, int((sf["tie01"] & ~sf["c2_zero"]).sum()))
    res.count("surface:pivot_tie_k1==k2/" + fam, int((sf["tie12"] & ~sf["c2_zero"]).sum()))
    res.count("surface:pivot_tie_k0==k2/" + fam, int((sf["tie02"] & ~sf["c2_zero"]).sum()))
    for k in (1, 2, 3):
        res.count("surface:zero_offdiagonals=%d/%s" % (k, fam), int((sf["n_zero_offdiag"] == k).sum()))
    if case["spec"].startswith("exact:"):
        ex = R.exact_det_dev_zero(A)
        res.count("exact:%s/%s/%s" % (case["spec"][6:], fam, case["mode"]), len(A))
        res.count("exact_rational:det_dev_zero/" + fam + "/" + case["mode"], int(ex.sum()))
        res.count("exact_rational:det_dev_zero_and_rr_zero_in_float/" + fam, int((ex & sf["c3_zero"]).sum()))
        res.count("exact_rational:det_dev_zero_nonaxis/" + fam, int((ex & ~cl["axis"]).sum()))


def run_eig(case, res):
    from vlib.gen import c12_tensors as G
    from vlib.oracles import c12_ref as R
    rng = rng_of(case["seed"])
    N, mode = case["N"], case["mode"]
    A, lams, scales = G.make_batch(rng, N, case["spec"], case["orient"], "sym", pivot="cycle")
    cl = _classes(A, mode)
    set_probe(A)
    _count_common(res, case, A, scales, cl)
    piv = R.pivot_index(A)
    for p in (0, 1, 2):
        res.count("pivot:%d" % p, int((piv == p).sum()))
    res.count("pivot:isotropic_fallback", int((piv < 0).sum()))
    lam, V = evaluate("eig", mode, case["B"], (A,))
    res.count("eig.tensors:" + mode, N)
    res.count("eig.known_class_D8", int(cl["d8"].sum()))
    res.count("eig.known_class_D8b", int((cl["known"] == KEY_D8B).sum()))
    res.count("eig.known_class_D23", int(cl["d23"].sum()))
    res.count("eig.known_class_D24", int(cl["d24"].sum()))
    res.count("eig.must_hold:" + mode, int((~cl["anyknown"]).sum()))
    sc = cl["nrm"]
    fin = onp.isfinite(lam).all(axis=1) & onp.isfinite(V).all(axis=(1, 2))
    det = _mat_detail(A, {"relgap": cl["relgap"], "lam": lam})
    judge(res, "eig.finite", (~fin).astype(float), 0.5, cl["known"], None, det)
    with onp.errstate(all="ignore"):
        rec = R.recompose(V, lam)
        e_rec = R.maxabs(rec - R.sym(A))
        e_orth = R.maxabs(onp.einsum("nji,njk->nik", V, V) - onp.eye(3))
        e_val = onp.abs(lam - cl["lam"]).max(axis=1)
        asc = (onp.diff(lam, axis=1) >= 0).all(axis=1)
    e_rec = onp.where(fin, e_rec, onp.inf)
    e_orth = onp.where(fin, e_orth, onp.inf)
    e_val = onp.where(fin, e_val, onp.inf)
    tiny = onp.finfo(float).tiny
    judge(res, "eig.reconstruct", e_rec, TOL_EIG * sc + tiny, cl["known"], None, det)
    judge(res, "eig.orthonormal", e_orth, TOL_EIG, cl["known"], None, det)
    judge(res, "eig.values_vs_eigvalsh", e_val, TOL_EIG * sc + tiny, cl["known"], None, det)
    judge(res, "eig.ascending", (~(asc | ~fin)).astype(float), 0.5, cl["known"], None, det)


def _rot_batch(rng, N):
    return onp.array([haar_so3(rng) for _ in range(N)])


def _conj(Q, X):
    Y = onp.einsum("nij,njk,nlk->nil", Q, X, Q)
    return Y


def run_fun_pd(case, res):
    """sqrt, log, log_sqrt, pow on positive-definite tensors over 40 decades of scale; exp(log A) = A."""
    from vlib.gen import c12_tensors as G
    from vlib.oracles import c12_ref as R
    rng = rng_of(case["seed"])
    N, mode, B = case["N"], case["mode"], case["B"]
    A, lams, scales = G.make_batch(rng, N, case["spec"], case["orient"], "pd")
    cl = _classes(A, mode)
    set_probe(A)
    _count_common(res, case, A, scales, cl)
    sc = cl["nrm"]
    cond = cl["lam"][:, 2] / cl["lam"][:, 0]
    d8 = cl["known"]
    det = _mat_detail(A, {"relgap": cl["relgap"]})
    tiny = onp.finfo(float).tiny
    with onp.errstate(all="ignore"):
        # sqrt
        (S,) = evaluate("sqrt", mode, B, (A,))
        res.count("fun.sqrt.tensors", N)
        judge(res, "sqrt.squares_to_A", R.maxabs(S @ S - A), TOL_FUN * sc + tiny, d8, None, det)
        judge(res, "sqrt.symmetric", R.maxabs(S - onp.swapaxes(S, 1, 2)), TOL_FUN * onp.sqrt(sc) + tiny, d8, None, det)
        # log and exp(log A) = A ; log_sqrt = log/2
        (L,) = evaluate("log", mode, B, (A,))
        res.count("fun.log.tensors", N)
        Lref = R.fun_ref(A, "log")
        lscale = onp.maximum(1.0, R.maxabs(Lref))
        # eigenvalue errors eps ||A|| become eps cond in log(lambda_min)
        judge(res, "log.vs_reference", R.maxabs(L - Lref), TOL_FUN * cond * lscale, d8, None, det)
        Lc = _classes(Lref, mode)          # class of the intermediate, from the reference value (the library's may be NaN)
        (EL,) = evaluate("exp", mode, B, (L,))
        judge(res, "exp_of_log_is_identity", R.maxabs(EL - A), TOL_FUN * sc * lscale + tiny, merge_known(d8, Lc["known"]), None, det, probe=[A, L])
        (LS,) = evaluate("logsqrt", mode, B, (A,))
        judge(res, "log_sqrt_is_half_log", R.maxabs(LS - 0.5 * Lref), TOL_FUN * cond * lscale, d8, None, det)
        # pow: A^(1/2)^2 = A, A^m A^-m = I, A^2 = A A, A^1 = A, A^m vs reference
        res.count("fun.pow.tensors", N)
        (Ph,) = evaluate("pow", mode, B, (A,), (0.5,))
        judge(res, "pow.half_squares_to_A", R.maxabs(Ph @ Ph - A), TOL_FUN * sc + tiny, d8, None, det)
        (P2,) = evaluate("pow", mode, B, (A,), (2.0,))
        judge(res, "pow.two_is_AA", R.maxabs(P2 - A @ A), TOL_FUN * sc * sc + tiny, d8, None, det)
        (P1,) = evaluate("pow", mode, B, (A,), (1.0,))
        judge(res, "pow.one_is_A", R.maxabs(P1 - A), TOL_FUN * sc + tiny, d8, None, det)
        m = [1.0 / 3.0, 1.7, 0.25, -0.5, -1.0][int(rng.integers(5))]
        (Pm,) = evaluate("pow", mode, B, (A,), (m,))
        (Pn,) = evaluate("pow", mode, B, (A,), (-m,))
        judge(res, "pow.m_times_minus_m_is_I", R.maxabs(Pm @ Pn - onp.eye(3)), TOL_FUN * cond ** abs(m), d8, None, det, tag={"m": m})
        Pref = R.fun_ref(A, "pow", m)
        judge(res, "pow.vs_reference", R.maxabs(Pm - Pref), TOL_FUN * R.maxabs(Pref) * cond + tiny, d8, None, det, tag={"m": m})
        # rotation equivariance on moderately conditioned tensors
        Q = _rot_batch(rng, N)
        A2 = R.sym(_conj(Q, A))
        c2 = _classes(A2, mode)
        k2 = merge_known(d8, c2["known"])
        res.count("fun.equivariance.tensors", N)
        (S2,) = evaluate("sqrt", mode, B, (A2,))
        judge(res, "sqrt.equivariant", R.maxabs(S2 - _conj(Q, S)), TOL_FUN * onp.sqrt(sc) * onp.sqrt(cond) + tiny, k2, None, det, probe=[A, A2])
        (L2,) = evaluate("log", mode, B, (A2,))
        judge(res, "log.equivariant", R.maxabs(L2 - _conj(Q, L)), TOL_FUN * cond * lscale, k2, None, det, probe=[A, A2])
        (Pm2,) = evaluate("pow", mode, B, (A2,), (m,))
        judge(res, "pow.equivariant", R.maxabs(Pm2 - _conj(Q, Pm)), TOL_FUN * R.maxabs(Pref) * cond + tiny, k2, None, det, tag={"m": m}, probe=[A, A2])


def run_fun_psd(case, res):
    """sqrt_symm on rank-deficient positive semi-definite tensors (documented domain)."""
    from vlib.gen import c12_tensors as G
    from vlib.oracles import c12_ref as R
    rng = rng_of(case["seed"])
    N, mode, B = case["N"], case["mode"], case["B"]
    A, lams, scales = G.make_batch(rng, N, case["spec"], case["orient"], "psd")
    cl = _classes(A, mode)
    set_probe(A)
    _count_common(res, case, A, scales, cl)
    res.nontrivial = case["spec"] != "rank0"
    sc = cl["nrm"]
    d17 = cl["singular"] & (~cl["axis"])
    d17b = cl["singular"] & cl["axis"]
    # (the zero tensor has norm 0 => not "singular" here: it must simply work; a batched rank-1 tensor in a rotated frame
    # is in the D8 class as well, the D17 key takes precedence because the clause is about sqrt of a singular tensor)
    # D17/D17b are fixed in /repo (aeaad2d): a batched rank-deficient tensor in a rotated frame whose zero eigenvalues form a
    # repeated pair is the open D8 class (the eigen-decomposition itself is wrong there), so D8 takes precedence; every other
    # singular PSD input carries the (fixed) D17 keys, i.e. must hold.
    known = onp.array([c if c is not None else (KEY_D17 if a else (KEY_D17B if b else None)) for a, b, c in zip(d17, d17b, cl["known"])], dtype=object)
    key_of = None
    res.count("sqrt.known_class_D17", int(d17.sum()))
    res.count("sqrt.known_class_D17b", int(d17b.sum()))
    res.count("sqrt.rank_deficient_axis_aligned", int((cl["axis"]).sum()))
    res.count("fun.sqrt.tensors", N)
    det = _mat_detail(A, {"relgap": cl["relgap"], "lam_ref": cl["lam"]})
    tiny = onp.finfo(float).tiny
    (S,) = evaluate("sqrt", mode, B, (A,))
    fin = onp.isfinite(S).all(axis=(1, 2))
    judge(res, "sqrt_psd.finite", (~fin).astype(float), 0.5, known, key_of, det)
    with onp.errstate(all="ignore"):
        e = onp.where(fin, R.maxabs(S @ S - A), onp.inf)
    judge(res, "sqrt_psd.squares_to_A", e, TOL_FUN * sc + tiny, known, key_of, det)


def run_fun_exp(case, res):
    """exp on symmetric tensors of any sign / rank with |lambda| <= ~15; log(exp B) = B; equivariance; reference."""
    from vlib.gen import c12_tensors as G
    from vlib.oracles import c12_ref as R
    rng = rng_of(case["seed"])
    N, mode, B = case["N"], case["mode"], case["B"]
    A, lams, scales = G.make_batch(rng, N, case["spec"], case["orient"], "sym", scale_exp=(-6.0, 0.7))
    cl = _classes(A, mode)
    set_probe(A)
    _count_common(res, case, A, scales, cl)
    d8 = cl["known"]
    det = _mat_detail(A, {"relgap": cl["relgap"]})
    res.count("fun.exp.tensors", N)
    with onp.errstate(all="ignore"):
        (X,) = evaluate("exp", mode, B, (A,))
        Xref = R.fun_ref(A, "exp")
        xs = R.maxabs(Xref)
        # eigenvalue error eps ||A|| scales exp by (1 + eps ||A||)
        amp = onp.maximum(1.0, cl["nrm"])
        judge(res, "exp.vs_reference", R.maxabs(X - Xref), TOL_FUN * xs * amp, d8, None, det)
        judge(res, "exp.symmetric", R.maxabs(X - onp.swapaxes(X, 1, 2)), TOL_FUN * xs, d8, None, det)
        spread = cl["lam"][:, 2] - cl["lam"][:, 0]
        condX = onp.exp(spread)
        Xc = _classes(Xref, mode)
        # log(exp A) = A is only a meaningful identity while exp(A) is numerically non-singular: cond(exp A) <= 1e6
        okc = condX <= 1e6
        res.count("log_of_exp.skipped_exp_numerically_singular", int((~okc).sum()))
        if okc.any():
            (LX,) = evaluate("log", mode, B, (X[okc],))
            judge(res, "log_of_exp_is_identity", R.maxabs(LX - R.sym(A[okc])), (TOL_FUN * condX * amp)[okc], merge_known(d8, Xc["known"])[okc], None,
                  _mat_detail(A[okc], {"relgap": cl["relgap"][okc]}), probe=[A[okc], X[okc]])
        Q = _rot_batch(rng, N)
        A2 = R.sym(_conj(Q, A))
        c2 = _classes(A2, mode)
        (X2,) = evaluate("exp", mode, B, (A2,))
        res.count("fun.equivariance.tensors", N)
        judge(res, "exp.equivariant", R.maxabs(X2 - _conj(Q, X)), TOL_FUN * xs * amp, merge_known(d8, c2["known"]), None, det, probe=[A, A2])


def run_jvp(case, res):
    """JVP of sqrt/log/exp/pow against the Daleckii-Krein Frechet derivative, all 6 unit directions + random ones."""
    from vlib.gen import c12_tensors as G
    from vlib.oracles import c12_ref as R
    rng = rng_of(case["seed"])
    mode, B = case["mode"], case["B"]
    N0 = max(4, case["N"] // 8)
    U = G.unit_sym_directions()
    for fname in ("sqrt", "log", "exp", "pow"):
        A0, lams, scales = G.make_batch(rng, N0, case["spec"], case["orient"], "pd",
                                        scale_exp=(-3.0, 0.3) if fname == "exp" else (-8.0, 8.0))
        if fname == "sqrt":
            cl0 = _classes(A0, mode)
            _count_common(res, case, A0, scales, cl0)
        nd = 8
        A = onp.repeat(A0, nd, axis=0)
        E = onp.zeros_like(A)
        for i in range(N0):
            E[i * nd:i * nd + 6] = U
            E[i * nd + 6] = G.random_sym(rng, 1)[0]
            E[i * nd + 7] = rng.standard_normal((3, 3))            # non-symmetric: only its symmetric part may matter
        res.count("jvp.nonsymmetric_direction", N0)
        cl = _classes(A, mode)
        d8 = cl["known"]
        cond = cl["lam"][:, 2] / cl["lam"][:, 0]
        m = None
        if fname == "pow":
            m = [0.5, -1.0, 2.0, 1.7, 1.0 / 3.0][int(rng.integers(5))]
            (T,) = evaluate("jvp_pow", mode, B, (A, E), (m,))
            # documented accuracy only: exactly repeated (axis aligned, where the routine returns equal eigenvalues) or gap >= 1e-3
            documented = (cl["relgap"] >= 1e-3) | (cl["axis"] & (cl["relgap"] == 0))
            res.count("jvp.pow.skipped_undocumented_band", int((~documented).sum()))
        else:
            (T,) = evaluate("jvp_" + fname, mode, B, (A, E))
            documented = onp.ones(len(A), dtype=bool)
        with onp.errstate(all="ignore"):
            Lref = R.frechet_ref(A, E, fname, m)
        ls = R.maxabs(Lref)
        err = R.maxabs(T - Lref)
        sel = documented
        res.count("jvp.%s.pairs" % fname, int(sel.sum()))
        res.count("jvp.at_exactly_repeated", int((sel & (cl["relgap"] == 0)).sum()))
        res.count("jvp.at_gap_below_1e-6", int((sel & (cl["relgap"] < 1e-6) & (cl["relgap"] > 0)).sum()))
        if sel.any():
            det = _mat_detail(A[sel], {"E": E[sel], "relgap": cl["relgap"][sel]})
            key = None
            if fname == "pow":
                d21 = (mode == "batched") & cl["axis"] & (cl["relgap"] == 0) & (cl["nrm"] > 0)
                res.count("jvp.pow.known_class_D21", int((d21 & sel).sum()))
                known = onp.array([a if a is not None else (KEY_D21 if b else None) for a, b in zip(d8, d21)], dtype=object)[sel]
            else:
                known = d8[sel]
            judge(res, "jvp.%s" % fname, err[sel], TOL_JVP * ls[sel] * onp.maximum(1.0, onp.sqrt(cond[sel])) + onp.finfo(float).tiny,
                  known, key, det, tag={"m": m}, probe=[A[sel]])


def run_helpers(case, res):
    """detpIm1 vs exact rational arithmetic; inv; right polar decomposition."""
    from vlib.gen import c12_tensors as G
    from vlib.oracles import c12_ref as R
    rng = rng_of(case["seed"])
    mode, B = case["mode"], case["B"]
    N = 48
    res.count("mode:" + mode)
    res.nontrivial = True
    # detpIm1 ------------------------------------------------------------------------------------------------------
    A = rng.standard_normal((N, 3, 3)) * (10.0 ** rng.uniform(-14, 2, N))[:, None, None]
    A[::5] = R.sym(A[::5])
    A[1::7] = onp.array([onp.diag(onp.diag(a)) for a in A[1::7]])
    A[2::11] = 0.0
    (v,) = evaluate("detpIm1", mode, B, (A,))
    ex = onp.array([R.detpIm1_exact(a) for a in A])
    res.count("detpIm1.checked", N)
    judge(res, "detpIm1.vs_exact_rational", onp.abs(v - ex[:, 0]), 32 * EPS * ex[:, 1] + onp.finfo(float).tiny, None, None, _mat_detail(A))
    _pow_jvp_exactly_repeated(case, res, rng)
    # inv ----------------------------------------------------------------------------------------------------------
    F = onp.zeros((N, 3, 3))
    for i in range(N):
        c = 10.0 ** rng.uniform(0, 6)
        F[i] = haar_so3(rng) @ onp.diag(onp.array([1.0, 10.0 ** rng.uniform(-math.log10(c), 0), 1.0 / c])) @ haar_so3(rng).T
        F[i] *= 10.0 ** rng.uniform(-10, 10)
    sv = onp.linalg.svd(F, compute_uv=False)
    (Fi,) = evaluate("inv", mode, B, (F,))
    res.count("inv.checked", N)
    # rounding bound of the adjugate/determinant formula: eps ||F||^3 / |det F| = eps s1^2 / (s2 s3)  (>= eps cond)
    judge(res, "inv.times_F_is_I", onp.maximum(R.maxabs(Fi @ F - onp.eye(3)), R.maxabs(F @ Fi - onp.eye(3))),
          64 * EPS * sv[:, 0] ** 2 / (sv[:, 1] * sv[:, 2]), None, None, _mat_detail(F))
    # polar: F = R U, deformation-gradient like (det > 0); stretches generic / repeated pair / pure rotation / axis aligned
    P = onp.zeros((N, 3, 3))
    kinds = []
    for i in range(N):
        kind = ["generic", "repeated_pair", "rotation", "axis_aligned", "inplane"][i % 5]
        kinds.append(kind)
        st = onp.exp(rng.uniform(-1.5, 1.5, 3))
        if kind == "repeated_pair":
            st[1] = st[0]
        if kind == "rotation":
            st[:] = st[0]
        Qs = onp.eye(3) if kind == "axis_aligned" else (G.rotation(rng, "inplane") if kind == "inplane" else haar_so3(rng))
        Um = Qs @ onp.diag(st) @ Qs.T
        Rm = onp.eye(3) if (kind == "axis_aligned" and rng.random() < 0.5) else (G.rotation(rng, "inplane") if kind == "inplane" else haar_so3(rng))
        P[i] = Rm @ (0.5 * (Um + Um.T))
    C = onp.einsum("nji,njk->nik", P, P)
    cC = _classes(C, mode)
    set_probe(C)
    condF = onp.linalg.cond(P)
    Rr, Uu = evaluate("polar", mode, B, (P,))
    res.count("polar.checked", N)
    for k in set(kinds):
        res.count("polar.kind:" + k, kinds.count(k))
    det = _mat_detail(P, {"relgap_C": cC["relgap"]})
    with onp.errstate(all="ignore"):
        fs = R.maxabs(P)
        judge(res, "polar.RU_is_F", R.maxabs(Rr @ Uu - P), 1e-12 * fs * condF, cC["known"], None, det)
        judge(res, "polar.R_orthogonal", R.maxabs(onp.einsum("nji,njk->nik", Rr, Rr) - onp.eye(3)), 1e-12 * condF ** 2, cC["known"], None, det)
        judge(res, "polar.U_symmetric", R.maxabs(Uu - onp.swapaxes(Uu, 1, 2)), 1e-12 * fs, cC["known"], None, det)
        umin = onp.linalg.eigvalsh(R.sym(onp.where(onp.isfinite(Uu), Uu, 0.0)))[:, 0]
        judge(res, "polar.U_positive", onp.where(onp.isfinite(Uu).all(axis=(1, 2)), onp.maximum(-umin, 0.0), onp.inf), 1e-12 * fs, cC["known"], None, det)
        judge(res, "polar.U_squared_is_C", R.maxabs(Uu @ Uu - C), 1e-11 * cC["nrm"], cC["known"], None, det)


def _pow_jvp_exactly_repeated(case, res, rng):
    """pow_symm derivative exactly where its docstring claims correctness: axis-aligned tensors with an exactly repeated
    pair, perturbed in the direction that couples the pair.  single mode must hold; batched is the class of D21."""
    from vlib.oracles import c12_ref as R
    mode, B = case["mode"], case["B"]
    N = 48
    A = onp.zeros((N, 3, 3))
    E = onp.zeros((N, 3, 3))
    for i in range(N):
        a, b = rng.uniform(0.3, 3.0, 2)
        while abs(a - b) < 0.1 * a:
            b = rng.uniform(0.3, 3.0)
        pos = [(0, 1, 2), (0, 2, 1), (1, 2, 0)][i % 3]          # the repeated pair sits at pos[0], pos[1]
        d = onp.zeros(3)
        d[pos[0]] = d[pos[1]] = a
        d[pos[2]] = b
        if i % 8 == 7:
            d[:] = a                                             # triple
        A[i] = onp.diag(d) * 10.0 ** rng.uniform(-6, 6)
        E[i, pos[0], pos[1]] = E[i, pos[1], pos[0]] = 1.0
        if i % 2:
            Er = rng.standard_normal((3, 3))
            E[i] += 0.5 * (Er + Er.T)
    # the recorded witness of D21 (its repeated eigenvalue comes out one ulp apart inside a compiled batch)
    A[0] = onp.diag([3.1910488900380485, 3.972149828259203, 3.1910488900380485])
    E[0] = 0.0
    E[0, 0, 2] = E[0, 2, 0] = 1.0
    m = [0.5, -1.0, 2.0, 1.7, 1.0 / 3.0][int(rng.integers(5))]
    cl = _classes(A, mode)
    (T,) = evaluate("jvp_pow", mode, B, (A, E), (m,))
    with onp.errstate(all="ignore"):
        Lref = R.frechet_ref(A, E, "pow", m)
    d21 = (mode == "batched") & cl["axis"] & (cl["relgap"] == 0) & (cl["nrm"] > 0)
    res.count("jvp.pow.pairs", N)
    res.count("jvp.pow.known_class_D21", int(d21.sum()))
    res.count("jvp.at_exactly_repeated", N)
    judge(res, "jvp.pow", R.maxabs(T - Lref), TOL_JVP * R.maxabs(Lref) + onp.finfo(float).tiny,
          onp.array([KEY_D21 if x else None for x in d21], dtype=object), None, _mat_detail(A, {"E": E}), tag={"m": m, "block": "exactly_repeated"}, probe=[A])
    (T2,) = evaluate("jvp_pow_static", mode, B, (A, E))
    with onp.errstate(all="ignore"):
        Lref2 = R.frechet_ref(A, E, "pow", 1.7)
    res.count("jvp.pow.pairs", N)
    res.count("jvp.pow.known_class_D21", int(d21.sum()))
    judge(res, "jvp.pow", R.maxabs(T2 - Lref2), TOL_JVP * R.maxabs(Lref2) + onp.finfo(float).tiny,
          onp.array([KEY_D21 if x else None for x in d21], dtype=object), None, _mat_detail(A, {"E": E}),
          tag={"m": 1.7, "block": "exactly_repeated, static exponent"}, probe=[A])


def run_dense(case, res):
    """LinAlg.sqrtm / logm_iss on general matrices with positive spectrum, n = 2..10, condition <= 1e6, vs scipy."""
    import jax
    import jax.numpy as np
    import scipy.linalg as sla
    from optimism import LinAlg
    rng = rng_of(case["seed"])
    n, kind = case["n"], case["kind"]
    key = ("dense", n)
    if key not in _J:
        _J[key] = (jax.jit(LinAlg.sqrtm), jax.jit(LinAlg.logm_iss), jax.jit(LinAlg._logm_iss) if hasattr(LinAlg, "_logm_iss") else None)
    sq, lg, iss = _J[key]
    thr5 = float(LinAlg.log_pade_coefficients[4]) if hasattr(LinAlg, "log_pade_coefficients") else 0.1135
    res.nontrivial = True
    res.count("mode:single")
    for t in range(case["count"]):
        c = 10.0 ** rng.uniform(0, 6)
        ev = 10.0 ** rng.uniform(-math.log10(c) / 2, math.log10(c) / 2, n)
        ev[0], ev[-1] = c ** -0.5, c ** 0.5
        ev = ev * 10.0 ** rng.uniform(-2, 2)
        if kind == "pade16":
            # eigenvalues for which _logm_iss stops after one square root with the highest Pade degree (class of D22)
            Q = haar_on(rng, n)
            A = Q @ onp.diag(rng.uniform(0.28, 0.42, n)) @ Q.T
            A = 0.5 * (A + A.T)
        elif kind == "scaled":
            # magnitude far from 1 (the determinant scaling of the Denman-Beavers iteration has to absorb it)
            Q = haar_on(rng, n)
            A = Q @ onp.diag(ev / ev.mean()) @ Q.T
            A = 0.5 * (A + A.T) * 10.0 ** rng.uniform(-20, 20)
            if t % 2:
                Vm = rng.standard_normal((n, n)) + 2.0 * onp.eye(n)
                A = Vm @ A @ onp.linalg.inv(Vm)
                res.count("dense.nonnormal")
            res.count("dense.scaled")
        elif kind == "normal":
            Q = haar_on(rng, n)
            A = Q @ onp.diag(ev) @ Q.T
            A = 0.5 * (A + A.T)
        elif kind == "nonnormal":
            Vm = rng.standard_normal((n, n)) + 2.0 * onp.eye(n)
            A = Vm @ onp.diag(ev) @ onp.linalg.inv(Vm)
            res.count("dense.nonnormal")
        else:
            A = sla.expm(rng.standard_normal((n, n)) * rng.uniform(0.1, 0.8))
            res.count("dense.nonnormal")
        w = onp.linalg.eigvals(A)
        if onp.any(w.real <= 0) or onp.linalg.cond(A) > 1e7:
            res.count("dense.skipped_spectrum_not_positive")
            continue
        cond = float(onp.linalg.cond(A))
        # conditioning of the functions themselves also involves the eigenvector matrix for non-normal A
        try:
            kv = float(onp.linalg.cond(onp.linalg.eig(A)[1]))
        except Exception:
            kv = 1.0
        amp = cond * max(1.0, kv)
        an = float(onp.abs(A).max())
        S = onp.asarray(sq(np.asarray(A)))
        L = onp.asarray(lg(np.asarray(A)))
        Sref = sla.sqrtm(A)
        Lref = sla.logm(A)
        if onp.iscomplexobj(Sref) and onp.abs(onp.imag(Sref)).max() < 1e-12 * onp.abs(Sref).max():
            Sref = onp.real(Sref)
        if onp.iscomplexobj(Lref) and onp.abs(onp.imag(Lref)).max() < 1e-12 * max(onp.abs(Lref).max(), 1e-300):
            Lref = onp.real(Lref)
        det = {"n": n, "kind": kind, "cond": cond, "cond_eigvecs": kv, "A": A.tolist() if n <= 4 else None}
        res.count("dense.sqrtm.checked")
        res.bound("dense.sqrtm.squares_to_A", float(onp.abs(S @ S - A).max()) if onp.isfinite(S).all() else float("inf"), TOL_DENSE * amp * an, det)
        res.bound("dense.sqrtm.vs_scipy", float(onp.abs(S - Sref).max()) if onp.isfinite(S).all() else float("inf"),
                  TOL_DENSE * amp * float(onp.abs(Sref).max()), det)
        res.count("dense.logm.checked")
        ln = max(1.0, float(onp.abs(Lref).max()))
        # Structural classifier of the open finding D22: log_pade_pf evaluates the Pade approximant with a Gauss rule
        # that is capped at 5 points, whatever degree m <= 16 _logm_iss selected.  Honest-failure signature: the routine
        # selected m > 5 (its own state, read through LinAlg._logm_iss) AND its result coincides, to rounding, with the
        # reference model of the defect: 2^k r5(A^(1/2^k) - I), r5 = 5-point Gauss-Legendre partial-fraction form of the
        # Pade approximant, the 2^k-th root taken with scipy.  Any other wrong logarithm stays a violation.
        mech = None
        if iss is not None and onp.isfinite(L).all():
            Xf, kf, mf = iss(np.asarray(A))
            kf, mf = int(kf), int(mf)
            det.update(pade_degree=mf, square_roots=kf)
            if mf > 5:
                Xr = A.copy()
                for _ in range(kf):
                    Xr = onp.real_if_close(sla.sqrtm(Xr))
                Y = onp.real(Xr) - onp.eye(n)
                xs, ws = onp.polynomial.legendre.leggauss(5)
                xs, ws = 0.5 * (xs + 1.0), 0.5 * ws
                L5 = (2.0 ** kf) * sum(w * onp.linalg.solve((onp.eye(n) + x * Y).T, Y.T).T for x, w in zip(xs, ws))
                dev = float(onp.abs(L - L5).max())
                det.update(deviation_from_5pt_model=dev)
                if dev <= 1e-13 * amp * ln * (2.0 ** kf):       # observed <= 2e-15 * amp * ln * 2^k on the unchanged tree
                    mech = KEY_D22
                    res.count("dense.logm.known_class_D22")
        e1 = float(onp.abs(sla.expm(L) - A).max()) if onp.isfinite(L).all() else float("inf")
        e2 = float(onp.abs(L - Lref).max()) if onp.isfinite(L).all() else float("inf")
        capped = mech
        sfx = ""
        if mech:
            res.count("dense.logm.known_class_D22_bad", int(e1 > TOL_DENSE * amp * an * ln or e2 > TOL_DENSE * amp * ln))
        if mech:        # known class: counted, not part of the closest calls
            ok1 = e1 <= TOL_DENSE * amp * an * ln
            ok2 = e2 <= TOL_DENSE * amp * ln
            res.checks += 2
        else:
            ok1 = res.ratio("dense.logm.exp_gives_A", e1, TOL_DENSE * amp * an * ln)
            ok2 = res.ratio("dense.logm.vs_scipy", e2, TOL_DENSE * amp * ln)
        if not ok1:
            res.violate("dense.logm.exp_gives_A", dict(det, observed=e1, allowed=TOL_DENSE * amp * an * ln), capped)
        if not ok2:
            res.violate("dense.logm.vs_scipy", dict(det, observed=e2, allowed=TOL_DENSE * amp * ln), capped)


def run_case(case):
    res = Res(case)
    fam = case["family"]
    _CTX["probe"] = None
    _CTX["mode"] = case.get("mode")
    {"eig": run_eig, "fun_pd": run_fun_pd, "fun_psd": run_fun_psd, "fun_exp": run_fun_exp, "jvp": run_jvp,
     "helpers": run_helpers, "dense": run_dense}[fam](case, res)
    return res
