"""C16 -- contact geometry: closest points, signed gaps, mortar integrals, penalty energy, level-set constraints.

Monitors (all observe real executions of the functions in /repo, compiled with jax.jit as the library uses them):
  * EdgeCpp.cpp / cpp_line / cpp_distance   vs. a brute-force nearest-point search and an extended-precision closed form;
  * MortarContact.integrate_with_mortar     rigid-motion invariance (metamorphic), zero without overlap, non-negativity,
                                            analytic overlap length / gap area for parallel pairs, both normal policies,
                                            default (1e-7) and assembly (1e-9) smoothing, batched and single-call mode;
  * MortarContact.assemble_nodal_areas / assemble_area_weighted_gaps / get_closest_neighbors on two facing polylines
                                            vs. exact hat-function integrals;
  * Contact.compute_closest_distance_to_each_side (signed gaps at the quadrature points of mesh edges) vs. brute force;
  * PenaltyContact / LevelsetConstraint     vs. the obstacle function at independently interpolated deformed sample points.
"""
import math

import numpy as onp

from vlib.common import Res, derive_seed, rng_of

PROPERTY = "C16"
LEVEL = "exploration"
RULE = ("every configuration (segment + point, segment pair, polyline pair, mesh + obstacle) is placed at an absolute size drawn "
        "from four bands covering 1e-12 .. 1e8 (tiny < 1e-6, small < 1e-2, unit < 1e2, large), independently of all ratios. "
        "Cases are seeded batches: (segment, point) pairs over 6 decades of distance/length, any orientation, "
        "points before/inside/after the segment, next to and exactly at the end points, exactly on the line, at distance 0 "
        "(exact lattice configurations scaled by powers of two and their ulp neighbours); mortar segment pairs by overlap "
        "class (disjoint/partial/nested/touching/aligned ends) x relative orientation (facing parallel, same-direction "
        "parallel, slightly inclined, nearly coinciding normals, arbitrary, perpendicular) x length ratio (6 decades) x "
        "sign of the gap, each evaluated in two rigid placements and after a change of the length unit (to another size band; "
        "an exact power of two half of the time), two normal policies and two smoothing sizes; facing polylines for the assembled integrals; jittered meshes with random displacement against plane / "
        "corner / circle obstacles (none / some / all sample points penetrating). Non-trivial = the batch contains a point "
        "off the segment's line or a pair with positive overlap, or a displaced mesh; distinct = seeded parameter hash.")
ASSUMPTIONS = [
    "outward normal of a segment (a,b) is the tangent rotated by -90 degrees; positive signed distance on that side",
    "reference models run in numpy longdouble (x86 80-bit) on the float64 inputs; the closed-form reference for the nearest "
    "point is itself cross-checked against a brute-force search on every batch (self-check failure => inconclusive)",
    "geometry tolerance 1e-12 x coordinate scale S (largest |coordinate| of the configuration), multiplied for mortar "
    "invariance by the conditioning of the projection: kappa = (S/Lmin) / min|n.nA|,|n.nB| (x 2/|nA-nB| for the average "
    "normal); calibrated on the unchanged tree: worst observed/allowed ratio < 0.02",
    "mortar exactness for parallel pairs: 10 x documented relative smoothing size (1e-7 default, 1e-9 assembly) x longer segment",
    "pairs whose invariance tolerance would exceed 1e-3 of the segment length are counted as ill-conditioned and only "
    "checked for finiteness and non-negativity",
    "'no overlap' means the shadows of the two segments on the axis perpendicular to the common normal are separated by more "
    "than 1e-6 of the longer segment; 'penetrates' means obstacle function < -1e-9 x scale at a sample point (band of 1e-9 "
    "around zero is not decided)",
    "edges of linear triangles only (Surface.get_field_index is hard-wired to 3-node connectivity rows)",
]
K_D15 = "average-normal policy and |nA-nB| < 1e-6"
K_ALIGNED = "mortar pair with aligned end points loses its overlap"

REQUIRED = {
    "all": {
        "cpp_points": 5000, "cpp_brute_force_checked": 5000, "cpp_before": 300, "cpp_after": 300, "cpp_inside": 300,
        "cpp_at_end_point_exact": 30, "cpp_on_line_exact": 30, "cpp_distance_zero_exact": 30, "cpp_sign_checked": 3000,
        "cpp_single_mode": 20,
        "mortar_pairs": 4000, "mortar_invariance_checked": 8000, "mortar_no_overlap_checked": 1500,
        "mortar_nonneg_checked": 10000, "mortar_parallel_exact_checked": 3000, "mortar_policy_avg": 4000, "mortar_policy_a": 4000,
        "mortar_smoothing_default": 4000, "mortar_smoothing_1e-9": 4000, "mortar_single_mode": 40,
        "mortar_kind_disjoint": 100, "mortar_kind_partial": 100, "mortar_kind_nested": 100, "mortar_kind_touch": 100,
        "mortar_kind_aligned": 100, "mortar_kind_arbitrary": 100, "mortar_d15_pairs": 100, "mortar_d15_from_a_checked": 100,
        "assembly_nodes_checked": 200, "assembly_invariance_checked": 12,
        "gap_points_checked": 100, "gap_sign_checked": 50,
        "levelset_points_checked": 500, "penalty_none_penetrating": 6, "penalty_some_penetrating": 6, "penalty_all_penetrating": 6,
        "obstacle_plane": 8, "obstacle_corner": 8, "obstacle_circle": 8,
        "cpp_scale_tiny": 1200, "cpp_scale_small": 1200, "cpp_scale_unit": 1200, "cpp_scale_large": 1200,
        "mortar_scale_tiny": 1500, "mortar_scale_small": 1500, "mortar_scale_unit": 1500, "mortar_scale_large": 1500,
        "mortar_scale_invariance_checked": 8000, "mortar_rescaled_to_tiny": 1500, "mortar_rescaled_to_large": 1500,
        "assembly_scale_tiny": 2, "assembly_scale_small": 2, "assembly_scale_unit": 2, "assembly_scale_large": 2,
        "gap_scale_tiny": 4, "gap_scale_small": 4, "gap_scale_unit": 4, "gap_scale_large": 4,
        "levelset_scale_tiny": 10, "levelset_scale_small": 10, "levelset_scale_unit": 10, "levelset_scale_large": 10,
        "class:cpp_random": 4, "class:cpp_corner": 2, "class:mortar_parallel_facing": 2, "class:mortar_same_direction": 2,
        "class:mortar_aligned": 2, "class:mortar_inclined": 2, "class:mortar_near_coinciding": 1, "class:mortar_arbitrary": 2,
        "class:mortar_assembly": 4, "class:contact_gap": 4, "class:levelset_penalty": 9,
    },
}
WATCHDOG_S = {"quick": 1800, "thorough": 3 * 3600}

NB_QUICK, NB_THOROUGH = 256, 1024   # batch size of the compiled (segment, point) / pair evaluations (case["nb"])
MORTAR_CLASSES = ["mortar_parallel_facing", "mortar_same_direction", "mortar_aligned", "mortar_inclined",
                  "mortar_near_coinciding", "mortar_arbitrary"]


def build_cases(tier, seed):
    q = tier == "quick"
    cases = []

    def add(cls, n, ngroups, cost, **kw):
        for i in range(n):
            c = {"cls": cls, "group": "%s%d" % (cls, i % ngroups), "seed": derive_seed(seed, PROPERTY, cls, i), "cost": cost, "i": i,
                 "nb": NB_QUICK if q else NB_THOROUGH}
            c.update(kw)
            cases.append(c)

    add("cpp_random", 40 if q else 8000, 4 if q else 16, 1.0)
    add("cpp_corner", 8 if q else 400, 2 if q else 8, 1.0)
    for cls in MORTAR_CLASSES:
        n = {"mortar_parallel_facing": 12, "mortar_arbitrary": 12}.get(cls, 6)
        add(cls, n if q else n * 500, 1 if q else 8, 3.0)
    add("mortar_assembly", 24 if q else 3000, 2 if q else 8, 1.0)
    add("contact_gap", 48 if q else 3000, 2 if q else 8, 1.0)
    add("levelset_penalty", 108 if q else 5400, 3 if q else 9, 0.5)
    return cases


# ===================================================================================================== closest point

_JIT = {}


def _cpp_funcs():
    if "cpp" not in _JIT:
        import jax
        from optimism.contact import EdgeCpp
        _JIT["cpp"] = (jax.jit(jax.vmap(EdgeCpp.cpp)), jax.jit(jax.vmap(EdgeCpp.cpp_line)), jax.jit(jax.vmap(EdgeCpp.cpp_distance)),
                       jax.jit(EdgeCpp.cpp), jax.jit(EdgeCpp.cpp_distance))
    return _JIT["cpp"]


def _run_cpp(res, case):
    import jax.numpy as np
    from vlib.gen import c16_pairs as Gn
    from vlib.oracles import c16_geom as G
    rng = rng_of(case["seed"])
    NB = int(case.get("nb", NB_QUICK))
    if case["cls"] == "cpp_random":
        E, P, kinds = Gn.cpp_random_batch(rng, NB)
    else:
        E, P, kinds = Gn.cpp_corner_batch(rng, NB)
    f_cpp, f_line, f_dist, f_cpp1, f_dist1 = _cpp_funcs()
    q, t = f_cpp(np.array(E), np.array(P))
    ql, tl = f_line(np.array(E), np.array(P))
    d = onp.asarray(f_dist(np.array(E), np.array(P)))
    q, t, ql, tl = onp.asarray(q), onp.asarray(t), onp.asarray(ql), onp.asarray(tl)

    qr, tr, dr, side = G.closest_point_closed_form(E, P)
    db = G.closest_distance_brute(E, P)
    S = onp.maximum(onp.abs(E).reshape(NB, -1).max(1), onp.abs(P).max(1))
    S = onp.where(S > 0, S, 1.0)
    Ls = onp.asarray(G.norm(E[:, 1] - E[:, 0]), float)
    # oracle self-check (both references in extended precision)
    self_err = onp.asarray(onp.abs(dr - db), float) / S
    if not (self_err.max() <= 1e-15):
        res.inconclusive("closest-point references disagree: %.3g" % self_err.max())
        return
    res.count("cpp_brute_force_checked", NB)
    tol = 1e-12 * S

    def worst(err):
        r = onp.where(onp.isfinite(err), err / tol, onp.inf)
        j = int(onp.argmax(r))
        return j, float(r[j])

    def detail(j, **kw):
        dct = {"edge": E[j].tolist(), "p": P[j].tolist(), "kind": list(kinds[j]), "t_ref": float(tr[j]), "dist_ref": float(dr[j])}
        dct.update(kw)
        return dct

    err_q = onp.abs(q - onp.asarray(qr, float)).max(1)
    j, r = worst(err_q)
    res.bound("cpp_is_nearest_point", r, 1.0, detail(j, got=q[j].tolist(), expected=onp.asarray(qr[j], float).tolist(), t=float(t[j])))
    # nearest by brute force: no sampled point of the segment is closer than the returned one
    dq = onp.asarray(G.norm(G.ld(P) - G.ld(q)), float)
    j, r = worst(onp.maximum(dq - onp.asarray(db, float), 0.0))
    res.bound("cpp_not_farther_than_brute_force_minimum", r, 1.0, detail(j, dist_of_returned=float(dq[j]), brute=float(db[j])))
    inrange = (t >= 0.0) & (t <= 1.0)
    res.expect("cpp_parameter_in_unit_interval", bool(inrange.all()), detail(int(onp.argmin(inrange)), t=float(t[int(onp.argmin(inrange))])))
    on_seg = onp.abs(q - ((1.0 - t)[:, None] * E[:, 0] + t[:, None] * E[:, 1])).max(1)
    j, r = worst(on_seg)
    res.bound("cpp_point_matches_parameter", r, 1.0, detail(j, got=q[j].tolist(), t=float(t[j])))
    # unclamped projection onto the line: residual orthogonal to the segment, on the line
    v = G.ld(E[:, 1] - E[:, 0])
    tl_ref = onp.sum((G.ld(P) - G.ld(E[:, 0])) * v, axis=1) / onp.sum(v * v, axis=1)
    ql_ref = G.ld(E[:, 0]) + tl_ref[:, None] * v
    Sl = onp.maximum(S, onp.asarray(onp.abs(ql_ref).max(1), float))
    errl = onp.abs(ql - onp.asarray(ql_ref, float)).max(1) / (1e-12 * Sl * onp.maximum(1.0, onp.abs(onp.asarray(tl_ref, float))))
    j = int(onp.argmax(onp.where(onp.isfinite(errl), errl, onp.inf)))
    res.bound("cpp_line_is_orthogonal_projection", float(errl[j]) if onp.isfinite(errl[j]) else float("inf"), 1.0,
              detail(j, got=ql[j].tolist(), expected=onp.asarray(ql_ref[j], float).tolist()))
    # signed distance
    j, r = worst(onp.abs(onp.abs(d) - onp.asarray(dr, float)))
    res.bound("distance_magnitude_is_euclidean", r, 1.0, detail(j, got=float(d[j])))
    sidef = onp.asarray(side, float)
    decided = onp.abs(sidef) > 1e-11 * S
    wrong = decided & (onp.sign(d) != onp.sign(sidef))
    res.expect("distance_sign_is_side_of_normal", not wrong.any(),
               detail(int(onp.argmax(wrong)), got=float(d[int(onp.argmax(wrong))]), line_side=float(sidef[int(onp.argmax(wrong))])))
    res.count("cpp_sign_checked", int(decided.sum()))
    res.count("cpp_sign_undecided_on_line", int((~decided).sum()))
    # single-call mode on a few members of the batch
    for j in range(4):
        q1, t1 = f_cpp1(np.array(E[j]), np.array(P[j]))
        d1 = float(f_dist1(np.array(E[j]), np.array(P[j])))
        e1 = max(float(onp.abs(onp.asarray(q1) - onp.asarray(qr[j], float)).max()), abs(abs(d1) - float(dr[j])))
        res.bound("single_call_mode", e1 / tol[j], 1.0, detail(j, got=[onp.asarray(q1).tolist(), d1]))
        res.count("cpp_single_mode")

    # what was seen
    res.count("cpp_points", NB)
    trf = onp.asarray(tl_ref, float)
    res.count("cpp_before", int((trf < 0).sum()))
    res.count("cpp_after", int((trf > 1).sum()))
    res.count("cpp_inside", int(((trf >= 0) & (trf <= 1)).sum()))
    res.count("cpp_at_end_point_exact", int(((P == E[:, 0]).all(1) | (P == E[:, 1]).all(1)).sum()))
    res.count("cpp_on_line_exact", int((sidef == 0.0).sum()))
    res.count("cpp_distance_zero_exact", int((onp.asarray(dr, float) == 0.0).sum()))
    for j in range(NB):
        res.count("cpp_scale_" + Gn.band_of(Ls[j]))
    ratio = onp.asarray(dr, float) / Ls
    with onp.errstate(divide="ignore"):
        dec = onp.floor(onp.log10(ratio))
    for lo in (-3, -2, -1, 0, 1, 2):
        res.count("cpp_dist_over_length_decade_%+d" % lo, int((dec == lo).sum()))
    res.nontrivial = bool((onp.abs(sidef) > 0).any())


# ============================================================================================================ mortar

INTEGRAND_NAMES = ["one", "xiA", "one_minus_xiA", "xiB", "g", "g2", "abs_g"]
NONNEG = [0, 1, 2, 3, 5, 6]


def _integrands():
    import jax.numpy as jnp
    return [lambda xa, xb, g: 1.0, lambda xa, xb, g: xa, lambda xa, xb, g: 1.0 - xa, lambda xa, xb, g: xb,
            lambda xa, xb, g: g, lambda xa, xb, g: g * g, lambda xa, xb, g: jnp.abs(g)]


def _mortar_func(policy, smoothing, batched=True):
    key = ("mortar", policy, smoothing, batched)
    if key not in _JIT:
        import jax
        import jax.numpy as jnp
        from optimism.contact import MortarContact as MC
        fn = {"avg": MC.compute_average_normal, "a": MC.compute_normal_from_a}[policy]
        hs = _integrands()

        def one(A, B):
            if smoothing is None:    # the documented default (1e-7) is used by not passing the argument
                return jnp.array([MC.integrate_with_mortar(A, B, fn, h) for h in hs])
            return jnp.array([MC.integrate_with_mortar(A, B, fn, h, smoothing) for h in hs])
        _JIT[key] = jax.jit(jax.vmap(one)) if batched else jax.jit(one)
    return _JIT[key]


def _pair_metrics(G, A1, B1, A2, B2, policy):
    """Everything the oracles need, from the inputs alone (longdouble -> float)."""
    n, c = G.common_normal(A1, B1, policy)
    nA, nB = G.unit_normal(A1), G.unit_normal(B1)
    c = onp.asarray(c, float)
    with onp.errstate(invalid="ignore", divide="ignore"):
        cosA = onp.abs(onp.asarray(onp.sum(n * nA, -1), float))
        cosB = onp.abs(onp.asarray(onp.sum(n * nB, -1), float))
        cosm = onp.minimum(cosA, cosB)
        kap = 1.0 / cosm
        if policy == "avg":
            kap = kap * 2.0 / c
    LA = onp.asarray(G.norm(A1[:, 1] - A1[:, 0]), float)
    LB = onp.asarray(G.norm(B1[:, 1] - B1[:, 0]), float)
    S = onp.maximum.reduce([onp.abs(X).reshape(len(A1), -1).max(1) for X in (A1, B1, A2, B2)])
    Dmax = onp.max(onp.linalg.norm(A1[:, :, None, :] - B1[:, None, :, :], axis=-1).reshape(len(A1), -1), axis=1)
    with onp.errstate(invalid="ignore"):
        sh = G.shadows(A1, B1, n)
    return {"n": n, "c": c, "kap": kap, "cosm": cosm, "LA": LA, "LB": LB, "Lm": onp.maximum(LA, LB), "Lmin": onp.minimum(LA, LB),
            "S": S, "Dmax": Dmax, "sh": sh}


def _run_mortar(res, case):
    import jax.numpy as np
    from vlib.gen import c16_pairs as Gn
    from vlib.oracles import c16_geom as G
    rng = rng_of(case["seed"])
    cls = case["cls"]
    NB = int(case.get("nb", NB_QUICK))
    (A1, B1), (A2, B2), (A3, B3, F), kinds = Gn.mortar_batch(rng, NB, cls)
    SCALE_POW = onp.array([1, 1, 1, 1, 2, 3, 2])          # I[f] scales like length^k under a change of unit
    Lm_all = onp.maximum(onp.linalg.norm(A1[:, 1] - A1[:, 0], axis=1), onp.linalg.norm(B1[:, 1] - B1[:, 0], axis=1))
    for j in range(NB):
        res.count("mortar_scale_" + Gn.band_of(Lm_all[j]))
        res.count("mortar_rescaled_to_" + Gn.band_of(Lm_all[j] * F[j]))
    kinds = onp.array(kinds)
    for k in set(kinds.tolist()):
        res.count("mortar_kind_" + k, int((kinds == k).sum()))
    res.count("mortar_pairs", NB)
    parallel = cls in ("mortar_parallel_facing", "mortar_same_direction", "mortar_aligned")
    any_overlap = False
    known_seen = set()

    for policy in ("avg", "a"):
        m = _pair_metrics(G, A1, B1, A2, B2, policy)
        c, kap, Lm, Lmin, S = m["c"], m["kap"], m["Lm"], m["Lmin"], m["S"]
        sep = onp.asarray(m["sh"]["sep"], float)
        ovl = onp.asarray(m["sh"]["ov"], float)
        d15 = (c < 1e-6) if policy == "avg" else onp.zeros(NB, bool)
        # aligned end points (structural, from the inputs): some end of A and some end of B have the same abscissa on the
        # common tangent while the shadows overlap by a positive length
        with onp.errstate(invalid="ignore"):
            dS = onp.abs(onp.asarray(m["sh"]["sA"], float)[:, :, None] - onp.asarray(m["sh"]["sB"], float)[:, None, :]).reshape(NB, -1).min(1)
            aligned = (dS <= 1e-9 * Lm) & (ovl > 1e-6 * Lmin)
        G_mag = m["Dmax"] / onp.where(m["cosm"] > 0, m["cosm"], 1.0)
        M = onp.stack([onp.ones(NB)] * 4 + [G_mag, G_mag ** 2, G_mag], axis=1)
        with onp.errstate(invalid="ignore", over="ignore"):
            tol_inv = 1e-12 * (kap * S / Lmin * Lm)[:, None] * M
            illcond = ~(tol_inv[:, 0] <= 1e-3 * Lm)
        if policy == "avg":
            res.count("mortar_d15_pairs", int(d15.sum()))
        res.count("mortar_policy_" + policy, NB)
        res.count("mortar_illconditioned_%s" % policy, int((illcond & ~d15).sum()))
        if parallel:
            n_par, _ = G.common_normal(A1, B1, "a")     # for parallel pairs every admissible common normal is +-nA
            ref = G.parallel_pair_reference(A1, B1, n_par)

        for smoothing in (None, 1e-9):
            lrel = 1e-7 if smoothing is None else smoothing
            f = _mortar_func(policy, smoothing)
            I1 = onp.asarray(f(np.array(A1), np.array(B1)))
            I2 = onp.asarray(f(np.array(A2), np.array(B2)))
            I3 = onp.asarray(f(np.array(A3), np.array(B3)))
            res.count("mortar_smoothing_%s" % ("default" if smoothing is None else "1e-9"), NB)
            fin = onp.isfinite(I1).all(1) & onp.isfinite(I2).all(1) & onp.isfinite(I3).all(1)

            def mech(j, lost=False):
                if d15[j]:
                    return K_D15
                if lost and aligned[j]:
                    return K_ALIGNED
                return None

            def detail(j, **kw):
                dct = {"A": A1[j].tolist(), "B": B1[j].tolist(), "A2": A2[j].tolist(), "B2": B2[j].tolist(), "kind": str(kinds[j]),
                       "policy": policy, "smoothing": lrel, "nA_minus_nB": float(c[j]), "kappa": float(kap[j]),
                       "I1": dict(zip(INTEGRAND_NAMES, I1[j].tolist())), "I2": dict(zip(INTEGRAND_NAMES, I2[j].tolist())),
                       "unit_change": float(F[j]), "I3": dict(zip(INTEGRAND_NAMES, I3[j].tolist()))}
                dct.update(kw)
                return dct

            def report(clause, ratio, lost_flags=None, extra=None, cap=3, applicable=None):
                """ratio (NB,) observed/allowed per pair; records the closest call over pairs that hold and a violation
                for (up to cap) pairs per mechanism that do not."""
                r = onp.where(onp.isfinite(ratio), ratio, onp.inf)
                bad = r > 1.0
                good = ~bad & ~d15
                if lost_flags is not None:
                    good = good & ~lost_flags
                res.checks += int(len(r) if applicable is None else applicable.sum())
                if good.any():
                    rg = float(r[good].max())
                    if rg > res.ratios.get(clause, -1.0):
                        res.ratios[clause] = rg
                seen = {}
                for j in onp.nonzero(bad)[0]:
                    mm = mech(int(j), lost=bool(lost_flags[j]) if lost_flags is not None else False)
                    if seen.get(mm, 0) >= cap:
                        continue
                    if mm is not None:
                        if (clause, mm) in known_seen:
                            continue
                        known_seen.add((clause, mm))
                    seen[mm] = seen.get(mm, 0) + 1
                    res.violate(clause, detail(int(j), ratio=float(r[j]), **(extra(int(j)) if extra else {})), mm)

            # the overlap of a pair with aligned ends is "lost" when one placement returns (numerically) nothing
            lost = aligned & ((onp.abs(I1[:, 0]) <= 1e-6 * ovl) | (onp.abs(I2[:, 0]) <= 1e-6 * ovl) | (onp.abs(I3[:, 0]) <= 1e-6 * ovl * F))

            # 0. finiteness (a NaN integral can satisfy nothing below)
            report("mortar_finite", onp.where(fin, 0.0, onp.inf))
            ok = fin
            # 1. rigid-motion invariance
            chk = ok & ~illcond
            with onp.errstate(invalid="ignore", divide="ignore"):
                rinv = (onp.abs(I1 - I2) / tol_inv).max(1)
            report("mortar_rigid_motion_invariance", onp.where(chk, rinv, 0.0), lost_flags=lost, applicable=chk)
            res.count("mortar_invariance_checked", int(chk.sum()))
            # 1b. change of length unit: I[f](s A, s B) = s^k I[f](A, B)  (the smoothing size is relative)
            with onp.errstate(invalid="ignore", divide="ignore", over="ignore"):
                Fk = F[:, None] ** SCALE_POW[None, :]
                rsc = (onp.abs(I3 - Fk * I1) / (tol_inv * Fk)).max(1)
            report("mortar_scale_invariance", onp.where(chk, rsc, 0.0), lost_flags=lost, applicable=chk)
            res.count("mortar_scale_invariance_checked", int(chk.sum()))
            # 2. zero without overlap
            noov = ok & (sep > 1e-6 * Lm) & ~illcond
            with onp.errstate(invalid="ignore", divide="ignore"):
                rz = (onp.abs(I1) / (1e-14 * Lm[:, None] * M)).max(1)
            report("mortar_zero_without_overlap", onp.where(noov, rz, 0.0), applicable=noov)
            res.count("mortar_no_overlap_checked", int(noov.sum()))
            # 3. non-negative for non-negative integrands
            with onp.errstate(invalid="ignore", divide="ignore"):
                rn = (onp.maximum(-I1[:, NONNEG], 0.0) / (1e-14 * Lm[:, None] * M[:, NONNEG])).max(1)
            report("mortar_nonnegative", onp.where(ok, rn, 0.0), applicable=ok)
            res.count("mortar_nonneg_checked", int(ok.sum()) * len(NONNEG))
            # 4. linearity of the integral in the integrand: I[xiA] + I[1-xiA] = I[1]
            with onp.errstate(invalid="ignore"):
                rl = onp.abs(I1[:, 1] + I1[:, 2] - I1[:, 0]) / (1e-13 * Lm)
            report("mortar_linear_in_integrand", onp.where(ok, rl, 0.0), applicable=ok)
            # 5. exactness for parallel pairs
            if parallel:
                one_r, xi_r, g_r, g2_r = (onp.asarray(ref[k], float) for k in ("one", "xiA", "g", "g2"))
                h = onp.abs(onp.asarray(ref["h"], float))
                base = 10.0 * lrel * Lm
                rnd = 1e-12 * S / Lmin * Lm
                e_len = onp.abs(I1[:, 0] - one_r) / (base + rnd)
                e_xi = onp.abs(I1[:, 1] - xi_r) / (base + rnd)
                e_gap = onp.abs(I1[:, 4] - g_r) / (base * h + rnd * onp.maximum(h, S))
                e_g2 = onp.abs(I1[:, 5] - g2_r) / (base * h * h + rnd * onp.maximum(h, S) ** 2)
                pc = ok & (~d15)
                if policy == "avg":
                    pc = pc & (c > 1.0)      # facing pairs; same-direction pairs under the average policy are D15 territory
                ex = lambda j: {"overlap": float(one_r[j]), "gap": float(ref["h"][j]), "expected_gap_area": float(g_r[j])}  # noqa: E731
                report("mortar_overlap_length", onp.where(pc, e_len, 0.0), lost_flags=lost, extra=ex, applicable=pc)
                report("mortar_gap_area", onp.where(pc, onp.maximum(e_gap, e_g2), 0.0), lost_flags=lost, extra=ex, applicable=pc)
                report("mortar_first_moment", onp.where(pc, e_xi, 0.0), lost_flags=lost, extra=ex, applicable=pc)
                res.count("mortar_parallel_exact_checked", int(pc.sum()))
                res.count("mortar_gap_open", int((pc & (onp.asarray(ref["h"], float) > 0)).sum()))
                res.count("mortar_gap_penetrating", int((pc & (onp.asarray(ref["h"], float) < 0)).sum()))
                res.count("mortar_gap_zero", int((pc & (h == 0)).sum()))
                if policy == "a" and cls == "mortar_same_direction":
                    res.count("mortar_d15_from_a_checked", int(pc.sum()))
                if cls == "mortar_aligned":
                    res.count("mortar_aligned_overlap_lost", int((lost & ok).sum()))
            any_overlap = any_overlap or bool((ovl > 0).any())
            with onp.errstate(invalid="ignore"):
                res.count("mortar_positive_integral", int((I1[:, 0] > 0).sum()))

            # single-call mode for a few pairs, default smoothing only
            if smoothing is None:
                f1 = _mortar_func(policy, None, batched=False)
                for j in range(3):
                    J1 = onp.asarray(f1(np.array(A1[j]), np.array(B1[j])))
                    res.count("mortar_single_mode")
                    res.checks += 1
                    if not onp.isfinite(J1).all():
                        res.violate("mortar_single_call_finite", detail(j, single=J1.tolist()), mech(j))
                        continue
                    if not fin[j] or illcond[j]:
                        continue
                    rs = float((onp.abs(J1 - I1[j]) / tol_inv[j]).max())
                    if rs > 1.0 or not math.isfinite(rs):
                        lost1 = bool(aligned[j] and (abs(J1[0]) <= 1e-6 * ovl[j] or abs(I1[j, 0]) <= 1e-6 * ovl[j]))
                        res.violate("mortar_single_call_mode", detail(j, single=J1.tolist(), ratio=rs), mech(j, lost=lost1))
                    else:
                        res.ratios["mortar_single_call_mode"] = max(res.ratios.get("mortar_single_call_mode", -1.0), rs)
    ratio = onp.log10(onp.asarray(G.norm(B1[:, 1] - B1[:, 0]) / G.norm(A1[:, 1] - A1[:, 0]), float))
    res.count("mortar_length_ratio_le_1e-2", int((ratio <= -2).sum()))
    res.count("mortar_length_ratio_ge_1e2", int((ratio >= 2).sum()))
    res.nontrivial = any_overlap


# ================================================================================================== assembled mortar

N_SEG_A, N_SEG_B, N_EXTRA = 5, 4, 3


def _assembly_func(policy, maxn):
    key = ("assembly", policy, maxn)
    if key not in _JIT:
        import jax
        from optimism import Mesh
        from optimism.contact import MortarContact as MC
        fn = {"avg": MC.compute_average_normal, "a": MC.compute_normal_from_a}[policy]

        def run(coords, disp, connA, connB):
            mesh = Mesh.Mesh(coords, None, None, None, None, None, None, None)
            nl = MC.get_closest_neighbors(connA, connB, mesh, disp, maxn)
            areas = MC.assemble_nodal_areas(coords, disp, connA, connB, nl, fn)
            gaps = MC.assemble_area_weighted_gaps(coords, disp, connA, connB, nl, fn)
            return nl, areas, gaps
        _JIT[key] = jax.jit(run)
    return _JIT[key]


def _run_assembly(res, case):
    import jax.numpy as np
    from vlib.gen import c16_pairs as Gn
    from vlib.oracles import c16_geom as G
    rng = rng_of(case["seed"])
    policy = "avg" if rng.random() < 0.5 else "a"
    maxn = N_SEG_A if rng.random() < 0.5 else 3
    pp = Gn.polyline_pair(rng, N_SEG_A, N_SEG_B, N_EXTRA)
    X = pp["X"]
    # canonical -> placement 1; a displacement field is split off the deformed positions
    X1 = Gn.rigid(rng, [X], onp.abs(X).max())[0]
    disp1 = rng.normal(size=X1.shape) * pp["span"] * 10.0 ** rng.uniform(-3, 0)
    coords1 = X1 - disp1
    th = rng.uniform(0, 2 * math.pi)
    R = Gn.rot(th)
    trn = rng.normal(size=2) * onp.abs(X1).max()
    coords2, disp2 = coords1 @ R.T + trn, disp1 @ R.T
    f = _assembly_func(policy, maxn)
    nl1, ar1, gp1 = (onp.asarray(v) for v in f(np.array(coords1), np.array(disp1), np.array(pp["connA"]), np.array(pp["connB"])))
    nl2, ar2, gp2 = (onp.asarray(v) for v in f(np.array(coords2), np.array(disp2), np.array(pp["connA"]), np.array(pp["connB"])))
    res.count("assembly_policy_" + policy)
    res.count("assembly_maxneighbors_%d" % maxn)
    res.count("assembly_mode_" + pp["mode"])
    res.count("assembly_scale_" + Gn.band_of(pp["span"]))
    nN = X.shape[0]
    sB, sA, h, span = pp["sB"], pp["sA"], pp["h"], pp["span"]
    ctx = {"policy": policy, "maxNeighbors": maxn, "mode": pp["mode"], "coords": coords1.tolist(), "disp": disp1.tolist(),
           "connA": pp["connA"].tolist(), "connB": pp["connB"].tolist()}
    # neighbour list is a list of distinct valid A-segment indices
    ok_nl = nl1.shape == (N_SEG_B, maxn) and bool(((nl1 >= 0) & (nl1 < N_SEG_A)).all()) and all(len(set(r.tolist())) == maxn for r in nl1)
    if not res.expect("neighbor_list_valid", ok_nl, dict(ctx, neighbors=nl1.tolist())):
        return
    # exact nodal integrals of the hat functions of B over the part of B that faces a listed A segment.
    # (A is stored right-to-left: A segment k spans the sorted abscissae [sA_sorted[nA-1-k], sA_sorted[nA-k]])
    exp_area = onp.zeros(nN, dtype=onp.longdouble)
    npairs = onp.zeros(nN)
    for j in range(N_SEG_B):
        for k in nl1[j]:
            lo = max(sB[j], sA[N_SEG_A - 1 - int(k)])
            hi = min(sB[j + 1], sA[N_SEG_A - int(k)])
            if hi > lo:
                w = G.hat_integrals([sB[j], sB[j + 1]], lo, hi)
                exp_area[j] += w[0]
                exp_area[j + 1] += w[1]
            npairs[j] += 1
            npairs[j + 1] += 1
    exp_area = onp.asarray(exp_area, float)
    Lmax = max(onp.diff(sB).max(), onp.diff(sA).max())
    S = max(onp.abs(coords1).max(), onp.abs(coords2).max(), onp.abs(X1).max())
    Lmin = min(onp.diff(sB).min(), onp.diff(sA).min())
    tol_a = (10.0 * 1e-9 * Lmax + 1e-12 * S / Lmin * Lmax) * onp.maximum(npairs, 1.0)
    fin = bool(onp.isfinite(ar1).all() and onp.isfinite(gp1).all() and onp.isfinite(ar2).all() and onp.isfinite(gp2).all())
    if not res.expect("assembly_finite", fin, ctx):
        return
    j = int(onp.argmax(onp.abs(ar1 - exp_area) / tol_a))
    res.bound("assembly_nodal_area", float((onp.abs(ar1 - exp_area) / tol_a)[j]), 1.0, dict(ctx, node=j, got=float(ar1[j]), expected=float(exp_area[j])))
    eg = onp.abs(gp1 - exp_area * h) / (tol_a * max(abs(h), S))
    j = int(onp.argmax(eg))
    res.bound("assembly_area_weighted_gap", float(eg[j]), 1.0, dict(ctx, node=j, got=float(gp1[j]), expected=float(exp_area[j] * h), gap=h))
    res.expect("assembly_nonnegative_areas", bool((ar1 >= -1e-14 * Lmax).all()), dict(ctx, areas=ar1.tolist()))
    others = onp.arange(N_SEG_B + 1, nN)
    res.expect("assembly_zero_off_surface", bool((ar1[others] == 0).all() and (gp1[others] == 0).all()), dict(ctx, areas=ar1.tolist()))
    tot = float(exp_area.sum())
    res.bound("assembly_total_overlap_length", abs(float(ar1.sum()) - tot) / float(tol_a.sum()), 1.0, dict(ctx, got=float(ar1.sum()), expected=tot))
    # invariance (neighbour lists may be permuted; the fields must agree)
    ti = 1e-12 * S / Lmin * Lmax * onp.maximum(npairs, 1.0) * 10
    res.bound("assembly_rigid_motion_invariance", float(max((onp.abs(ar1 - ar2) / ti).max(), (onp.abs(gp1 - gp2) / (ti * max(abs(h), S))).max())), 1.0,
              dict(ctx, areas1=ar1.tolist(), areas2=ar2.tolist()))
    res.count("assembly_invariance_checked")
    res.count("assembly_nodes_checked", nN)
    res.count("assembly_nodes_with_area", int((exp_area > 0).sum()))
    res.nontrivial = tot > 0


# ===================================================================================== meshes: signed gaps, obstacles

def _fixed_topology_mesh(rng):
    """4x4-node structured triangulation (18 elements) with jittered interior nodes under a random affine map: the shapes
    (hence the compiled functions) are shared by all cases, the geometry is not."""
    from optimism import Mesh
    from vlib.gen import meshes
    import jax.numpy as jnp
    base = _JIT.get("basemesh")
    if base is None:
        base = Mesh.construct_structured_mesh(4, 4, [0.0, 1.0], [0.0, 1.0])
        _JIT["basemesh"] = base
    c = onp.asarray(base.coords).copy()
    interior = (c[:, 0] > 0) & (c[:, 0] < 1) & (c[:, 1] > 0) & (c[:, 1] < 1)
    c[interior] += rng.uniform(-0.1, 0.1, size=(int(interior.sum()), 2))
    A, b = meshes.random_affine(rng, ["rot", "aniso", "shear", "id"][int(rng.integers(0, 4))])
    from vlib.gen import c16_pairs as Gn
    s = Gn.abs_scale(rng)
    c = (c @ onp.asarray(A).T + b) * s
    conns = onp.asarray(base.conns)
    return base._replace(coords=jnp.array(c)), c, conns, s


def _edge_nodes(conns, edges):
    return onp.array([[conns[e, s], conns[e, (s + 1) % 3]] for e, s in edges], dtype=int)


def _gap_func(nq):
    key = ("gap", nq)
    if key not in _JIT:
        import jax
        from optimism import QuadratureRule
        from optimism.contact import Contact
        quad = QuadratureRule.create_quadrature_rule_1D(2 * nq - 1)
        base = _JIT["basemesh"]

        def run(coords, disp, surfM, surfI):
            mesh = base._replace(coords=coords)
            il = Contact.get_potential_interaction_list(surfM, surfI, mesh, disp, 3)
            return il, Contact.compute_closest_distance_to_each_side(mesh, disp, quad, il, surfI)
        _JIT[key] = jax.jit(run)
    return _JIT[key]


def _run_gap(res, case):
    import jax.numpy as np
    from vlib.oracles import c16_geom as G
    rng = rng_of(case["seed"])
    mesh, c, conns, s = _fixed_topology_mesh(rng)
    nE = conns.shape[0]
    nq = int(rng.integers(1, 4))
    allsides = [(e, k) for e in range(nE) for k in range(3)]
    sel = rng.permutation(len(allsides))[:10]
    surfM = onp.array([allsides[i] for i in sel[:6]], dtype=int)
    surfI = onp.array([allsides[i] for i in sel[6:]], dtype=int)
    disp = rng.normal(size=c.shape) * s * 10.0 ** rng.uniform(-3, -0.3)
    il, dist = _gap_func(nq)(np.array(c), np.array(disp), np.array(surfM), np.array(surfI))
    il, dist = onp.asarray(il), onp.asarray(dist)
    xd = c + disp
    xi, _ = G.gauss01(nq)
    ctx = {"nq": nq, "surfM": surfM.tolist(), "surfI": surfI.tolist(), "coords": c.tolist(), "disp": disp.tolist()}
    setM = {tuple(r) for r in surfM.tolist()}
    ok = il.shape == (4, 3, 2) and all(tuple(r) in setM for r in il.reshape(-1, 2).tolist())
    if not res.expect("interaction_list_valid", ok and dist.shape == (4, nq), dict(ctx, il=il.tolist())):
        return
    S = float(onp.abs(xd).max())
    worst, wd = 0.0, None
    nsign = 0
    for i, (e, k) in enumerate(surfI.tolist()):
        a, b = xd[conns[e, k]], xd[conns[e, (k + 1) % 3]]
        segs = onp.array([[xd[conns[em, km]], xd[conns[em, (km + 1) % 3]]] for em, km in il[i].tolist()])
        for qn in range(nq):
            p = (1.0 - xi[qn]) * a + xi[qn] * b
            dd, side = G.segment_union_distance(segs, p)
            dd, side = onp.asarray(dd, float), onp.asarray(side, float)
            jm = int(onp.argmin(dd))
            r = abs(abs(float(dist[i, qn])) - dd[jm]) / (1e-12 * S)
            if not math.isfinite(r):
                r = float("inf")
            if r > worst:
                worst, wd = r, dict(ctx, edge=[e, k], q=qn, point=p.tolist(), got=float(dist[i, qn]), expected_abs=float(dd[jm]))
            res.count("gap_points_checked")
            others = onp.delete(dd, jm)
            unique = bool((others > dd[jm] * (1 + 1e-6) + 1e-9 * S).all())
            if unique and abs(side[jm]) > 1e-9 * S:
                nsign += 1
                res.expect("gap_sign_is_side_of_closest_edge_normal", onp.sign(dist[i, qn]) == onp.sign(side[jm]),
                           dict(ctx, edge=[e, k], q=qn, point=p.tolist(), got=float(dist[i, qn]), side=float(side[jm])))
    res.bound("gap_magnitude_is_distance_to_listed_edges", worst, 1.0, wd)
    res.count("gap_sign_checked", nsign)
    res.count("gap_nq%d" % nq)
    from vlib.gen import c16_pairs as Gn
    res.count("gap_scale_" + Gn.band_of(s))
    res.nontrivial = True


OBSTACLES = ("plane", "corner", "circle")


def _levelset_func(kind, nq):
    key = ("lset", kind, nq)
    if key not in _JIT:
        import jax
        from optimism import QuadratureRule
        from optimism.contact import Levelset, LevelsetConstraint, PenaltyContact
        quad = QuadratureRule.create_quadrature_rule_1D(2 * nq - 1)
        base = _JIT["basemesh"]

        def run(coords, disp, edges, params, stiffness):
            mesh = base._replace(coords=coords)
            if kind == "plane":
                ls = lambda x: Levelset.plane(x, params[0])                    # noqa: E731
            elif kind == "corner":
                ls = lambda x: Levelset.corner(x, params[0], params[1])        # noqa: E731
            else:
                ls = lambda x: Levelset.sphere(x, params[0], params[1], params[2])  # noqa: E731
            cons = LevelsetConstraint.compute_levelset_constraints(ls, disp, mesh, quad, edges)
            cons2 = PenaltyContact.evaluate_contact_constraints(ls, disp, mesh, quad, edges)
            pts = LevelsetConstraint.compute_contact_point_coordinates(disp, mesh, quad, edges)
            energy = PenaltyContact.compute_total_penalty_contact_energy(ls, disp, mesh, quad, edges, stiffness)
            return cons, cons2, pts, energy
        _JIT[key] = jax.jit(run)
    return _JIT[key]


def _run_levelset(res, case):
    import jax.numpy as np
    from vlib.oracles import c16_geom as G
    rng = rng_of(case["seed"])
    mesh, c, conns, s = _fixed_topology_mesh(rng)
    nE = conns.shape[0]
    kind = OBSTACLES[int(case["i"]) % 3]
    nq = 1 + (int(case["i"]) // 3) % 3
    allsides = [(e, k) for e in range(nE) for k in range(3)]
    sel = rng.permutation(len(allsides))[:8]
    edges = onp.array([allsides[i] for i in sel], dtype=int)
    disp = rng.normal(size=c.shape) * s * 10.0 ** rng.uniform(-3, -0.3)
    xd = c + disp
    xi, wq = G.gauss01(nq)
    en = _edge_nodes(conns, edges.tolist())
    pts_ref = (1.0 - xi)[None, :, None] * xd[en[:, 0]][:, None, :] + xi[None, :, None] * xd[en[:, 1]][:, None, :]   # (8,nq,2)
    # obstacle placed relative to the deformed sample points so that none / some / all of them penetrate
    regime = ["none", "some", "all", "touching"][int(rng.choice([0, 1, 1, 2, 3]))]
    P = pts_ref.reshape(-1, 2)
    ext = float(max(onp.ptp(P[:, 0]), onp.ptp(P[:, 1]), 1e-3 * s))
    marg = 10.0 ** rng.uniform(-6, 0) * ext
    if kind == "plane":       # admissible: y <= yLoc
        y = onp.sort(P[:, 1])
        yloc = {"none": y[-1] + marg, "all": y[0] - marg, "some": float(rng.uniform(y[0], y[-1])), "touching": float(y[-1])}[regime]
        params = onp.array([yloc, 0.0, 0.0])
    elif kind == "corner":    # admissible: x >= xLoc and y >= yLoc
        xm, ym = P[:, 0].min(), P[:, 1].min()
        if regime == "none":
            params = onp.array([xm - marg, ym - rng.uniform(0, 1) * ext - marg, 0.0])
        elif regime == "all":
            params = onp.array([P[:, 0].max() + marg, ym - marg, 0.0])
        elif regime == "some":
            params = onp.array([float(rng.uniform(xm, P[:, 0].max())), float(rng.uniform(ym - ext, P[:, 1].max())), 0.0])
        else:
            params = onp.array([float(xm), float(ym), 0.0])
    else:                     # admissible: outside the disc
        cen = P.mean(0) + rng.normal(size=2) * ext * float(rng.choice([0.0, 0.5, 3.0]))
        r = onp.sort(onp.linalg.norm(P - cen, axis=1))
        R = {"none": max(r[0] - marg, 1e-6 * ext), "all": r[-1] + marg, "some": float(rng.uniform(r[0], r[-1])), "touching": float(r[0])}[regime]
        if regime == "none" and not r[0] - marg > 0:
            R = 0.5 * r[0]
        params = onp.array([cen[0], cen[1], R])
    stiffness = 10.0 ** rng.uniform(-2, 4)
    cons, cons2, pts, energy = (onp.asarray(v) for v in
                                _levelset_func(kind, nq)(np.array(c), np.array(disp), np.array(edges), np.array(params), stiffness))
    energy = float(energy)
    phi = G.levelset_value(kind, params, pts_ref)
    Sx = float(max(onp.abs(xd).max(), onp.abs(c).max(), onp.abs(params).max()))
    ctx = {"obstacle": kind, "params": params.tolist(), "nq": nq, "regime": regime, "edges": edges.tolist(), "coords": c.tolist(),
           "disp": disp.tolist(), "stiffness": stiffness}
    if not res.expect("constraint_shape", cons.shape == (8, nq) and cons2.shape == (8, nq) and pts.shape == (8, nq, 2), dict(ctx, shape=list(cons.shape))):
        return
    res.bound("sample_points_are_deformed_edge_gauss_points", float(onp.abs(pts - pts_ref).max()) / (1e-13 * Sx), 1.0,
              dict(ctx, got=pts.tolist(), expected=pts_ref.tolist()))
    res.bound("levelset_constraint_equals_obstacle_function", float(onp.abs(cons - phi).max()) / (1e-12 * Sx), 1.0,
              dict(ctx, got=cons.tolist(), expected=phi.tolist()))
    res.bound("penalty_constraint_equals_obstacle_function", float(onp.abs(cons2 - phi).max()) / (1e-12 * Sx), 1.0,
              dict(ctx, got=cons2.tolist(), expected=phi.tolist()))
    res.count("levelset_points_checked", 8 * nq)
    res.count("obstacle_" + kind)
    res.count("levelset_nq%d" % nq)
    from vlib.gen import c16_pairs as Gn
    res.count("levelset_scale_" + Gn.band_of(s))
    # penalty energy
    res.expect("penalty_energy_nonnegative", math.isfinite(energy) and energy >= 0.0, dict(ctx, energy=energy))
    band = 1e-9 * Sx
    pen = bool((phi < -band).any())
    clear = bool((phi > band).all())
    if pen:
        res.expect("penalty_energy_positive_when_penetrating", energy > 0.0, dict(ctx, energy=energy, min_phi=float(phi.min())))
        res.count("penalty_all_penetrating" if bool((phi < -band).all()) else "penalty_some_penetrating")
        # scale check that any quadrature of stiffness * min(0, phi)^2 over the edges satisfies
        L = onp.linalg.norm(c[en[:, 0]] - c[en[:, 1]], axis=1)
        Ld = onp.linalg.norm(xd[en[:, 0]] - xd[en[:, 1]], axis=1)
        neg2 = onp.minimum(phi, 0.0) ** 2
        upper = stiffness * float((onp.maximum(L, Ld)[:, None] * neg2).sum()) * (1 + 1e-9)
        lower = stiffness * float((onp.minimum(L, Ld)[:, None] * neg2 * wq.min()).max()) * (1 - 1e-9)
        res.expect("penalty_energy_scale", lower <= energy <= upper, dict(ctx, energy=energy, lower=lower, upper=upper))
    elif clear:
        res.expect("penalty_energy_zero_without_penetration", energy == 0.0, dict(ctx, energy=energy, min_phi=float(phi.min())))
        res.count("penalty_none_penetrating")
    else:
        res.count("penalty_undecided_touching")
    res.nontrivial = True


def run_case(case):
    res = Res(case)
    cls = case["cls"]
    if cls.startswith("cpp"):
        _run_cpp(res, case)
    elif cls == "mortar_assembly":
        _run_assembly(res, case)
    elif cls.startswith("mortar"):
        _run_mortar(res, case)
    elif cls == "contact_gap":
        _run_gap(res, case)
    elif cls == "levelset_penalty":
        _run_levelset(res, case)
    else:
        res.inconclusive("unknown class " + cls)
    return res
