"""C08 — elastic energies are objective, isotropic, stress-free at rest; Kirchhoff stress symmetric.

Monitor: the identities themselves, asserted on values returned by the library's own `compute_energy_density` (built by
the public factories) and its `jax.grad`, in two execution modes: one compiled call per point, and `jit(vmap)` over a
batch of 32.  Workload: every model/option of vlib.gen.c08_models x principal-stretch classes x Haar / in-plane
rotations x random admissible constants (traced, so one compilation serves all constant sets) x virgin and
history-generated states (reference rotations rotate the state consistently).
"""
import math
import os

import numpy as onp

from vlib.common import Res, derive_seed, rng_of, EPS
from vlib.gen import c08_models as Z

PROPERTY = "C08"
KEY_N1 = "C09-N1:rate-sensitive-rootfind-nan-seen-from-C08"
LEVEL = "exploration"
B = 32  # batch size of the compiled-batch mode (>= 8)
PAIR_CLASSES = ("two_equal", "uniaxial_inplane", "equibiaxial")
D8_KEY = "D8:batched-eigen-repeated-pair-not-axis-aligned"
KF = "[D8-class]"  # clause-name suffix of evaluations inside the known-finding class (keeps closest_calls of the must-hold part clean)

RULE = ("case = (model/option, execution mode, deformation class, seed) -> one random admissible constant set and 32 points F=R.U "
        "(principal log stretches 1e-3..1 in the class pattern, U frame and polar rotation R from {I, in-plane, Haar}), each with its own "
        "rotation Q (70% Haar, 30% in-plane). Clauses per point: W(QF)=W(F), W(FQ)=W(F) (state rotated A->Q^T A Q), P F^T symmetric; "
        "per model/option: W(0)=0, P(0)=0 at the virgin state. 'history' cases take the state from a random loading history driven "
        "through the library's compute_state_new. Non-trivial = at least one point with strain >= 1e-3 and Q != I, or a reference-state "
        "case of a distinct constant set; distinct = canonical hash of the case parameters. Unit systems: 30 % of the batches move every stress-like "
        "constant by 10^k (k in -12..12), and 'scale_sweep' cases evaluate one dimensionless material and one set of 32 points at modulus "
        "2^k / 10^k over 1e-12..1e12 (per-band minimum counts). 'aliased_options' cases build all models of a family from ONE mutable options "
        "dict (turned key by key into the next configuration between creations), scribble over it after the last creation (option keys cycled, "
        "numbers x3.7, NaN, cleared) and only then trace each model (single call, batch of 8, batch of 11 -> retraces): each must equal the model "
        "built from a fresh dict literal and satisfy the rest-state / objectivity / isotropy clauses.")
ASSUMPTIONS = [
    "the identities are compared up to a rounding bound: 1e-11*(|W|+mu|E|^2) + 64*eps*(mu+kappa)*|E| (the rotated input QF-I is itself "
    "only known to eps) + 64*eps*(mu+kappa) for models whose formula subtracts O(1) quantities (I1bar-3, J^2/2-1/2-log J: neo-Hookean, "
    "Gent, equilibrium branch of the viscoelastic models); observed worst ratio is recorded under closest_calls",
    "the library factories only do arithmetic on the numeric entries of the property dictionary, so passing them as traced values "
    "executes the same code as passing python floats (one concrete-constant replica per configuration is compared with the traced build)",
    "Gent: Jm is raised per case so that every point stays inside 2/3 of the locking limit",
    "phase-field model: 'energy' of the reference clause is the total energy at phase=0 and the strain energy at phase=0.3 "
    "(the phase potential 3Gc/8*phase/l is not a strain energy); objectivity is checked on the total energy with gradPhase rotated as a "
    "material vector",
    "numpy float64 rotations are orthogonal to ~1e-16",
    "aliasing class: 'the model with option o and constants c' means the model configured at creation time, so it is compared with a model "
    "built from a fresh dict literal (clause aliased:model_as_configured); numeric constants are passed as python floats (immutable) -- "
    "in-place mutation of caller-owned numpy arrays after creation is not treated as admissible use",
]
REQUIRED = {
    "all": {
        "ref_evals:single": 100, "ref_evals:batched": 100,
        "objectivity_evals:single": 5000, "objectivity_evals:batched": 5000,
        "isotropy_evals:single": 5000, "isotropy_evals:batched": 5000,
        "tau_symmetry_evals:single": 5000, "tau_symmetry_evals:batched": 5000,
        "history_state_points": 200, "rotated_state_nontrivial": 100,
        "d8_class_points": 500, "batched_pair_class_noneigen_points": 500,
        "j2_points_yielding": 200, "j2_points_elastic": 200,
        "configs_reference_checked": 2 * len(Z.NAMES), "concrete_constant_replicas": len(Z.NAMES),
        # round 2: absolute unit systems and caller-side aliasing of the options dictionary
        "yield_sweep_batches": 60, "j2_small_yield_strain_points_beyond_yield": 300, "j2_small_yield_strain_points_elastic": 100,
        "class:yield_sweep/single": 30, "class:yield_sweep/batched": 30, "class:yield_sweep_history/single": 16,
        "entry_point_evals:compute_energy_density": 10000, "entry_point_evals:compute_output_energy_density": 300,
        "entry_point_evals:compute_strain_energy_density": 300,
        "scale_sweep_batches": 400, "batches_with_random_unit_system": 50,
        "aliased_models_evaluated:LinearElastic": 9, "aliased_models_evaluated:Neohookean": 6, "aliased_models_evaluated:Gent": 3,
        "aliased_models_evaluated:J2Plastic": 36, "aliased_models_evaluated:HyperViscoelastic": 3,
        "aliased_models_evaluated:MultiBranchHyperViscoelastic": 3, "aliased_models_evaluated:PhaseFieldThreshold": 6,
        "aliased_retraces_after_mutation": 44, "aliased_as_configured_evals": 500, "class:aliased_options": 9,
    },
}
for _b in Z.SCALE_BANDS:
    REQUIRED["all"]["band:%s:objectivity_evals" % _b] = 500
    REQUIRED["all"]["band:%s:ref_evals" % _b] = 20
for _c in Z.STRETCH_CLASSES + ["reference", "history"]:
    for _m in ("single", "batched"):
        REQUIRED["all"]["class:%s/%s" % (_c, _m)] = 10
WATCHDOG_S = {"quick": 2400, "thorough": 4 * 3600}

CANCELLING = {"neo_adagio", "neo_coupled", "gent", "visco1", "visco3"}
STATEFUL_FINITE = [n for n in Z.NAMES if Z.CONFIGS[n]["finite"] and Z.CONFIGS[n]["state"] in ("j2_large", "j2_small", "visco1", "visco3")]


def build_cases(tier, seed):
    quick = tier == "quick"
    n_cls = 2 if quick else 60
    nb = 1 if quick else 8          # batches of 32 points per case
    n_ref = 1 if quick else 12
    n_hist = 2 if quick else 120
    cases = []
    for name in Z.NAMES:
        cfg = Z.CONFIGS[name]
        heavy = 3.0 if (Z.is_j2(name) or name == "visco3") else 1.0
        for mode in ("single", "batched"):
            group = "%s:%s" % (name, mode)
            for i in range(n_ref):
                cases.append({"cls": "reference/" + mode, "cfg": name, "mode": mode, "group": group, "cost": 20.0 * heavy if i == 0 else 1.0,
                              "seed": derive_seed(seed, PROPERTY, "reference", name, mode, i), "nsets": 6})
            if not cfg["finite"]:
                continue
            for cls in Z.STRETCH_CLASSES:
                for i in range(n_cls):
                    cases.append({"cls": "%s/%s" % (cls, mode), "cfg": name, "mode": mode, "group": group, "nb": nb,
                                  "cost": nb * (1.0 if mode == "batched" else 4.0),
                                  "seed": derive_seed(seed, PROPERTY, cls, name, mode, i)})
            # the same dimensionless material and the same 32 points in 14 unit systems (modulus 2^k / 10^k over 1e-12 .. 1e12)
            for i in range(1 if quick else 20):
                cases.append({"cls": "scale_sweep/" + mode, "cfg": name, "mode": mode, "group": group, "scales": Z.SWEEP_SCALES,
                              "sweep_class": ["distinct", "simple_shear", "two_equal"][i % 3] if mode == "single" else ["distinct", "simple_shear"][i % 2],
                              "cost": 14.0 * (1.0 if mode == "batched" else 4.0),
                              "seed": derive_seed(seed, PROPERTY, "scale_sweep", name, mode, i)})
            if name in STATEFUL_FINITE:
                for i in range(n_hist):
                    cases.append({"cls": "history/" + mode, "cfg": name, "mode": mode, "group": group, "cost": 15.0,
                                  "seed": derive_seed(seed, PROPERTY, "history", name, mode, i)})
    # J2 yield-strain sweep (Y0/E over 1e-7..1e-2, independent of the modulus scale), amplitudes 0.3x..30x the yield strain
    for name in Z.NAMES:
        if not (Z.is_j2(name) and Z.CONFIGS[name]["finite"]):
            continue
        for mode in ("single", "batched"):
            classes = ["distinct", "simple_shear", "uniaxial_inplane", "two_equal"] if mode == "single" else ["distinct", "simple_shear"]
            for i in range(4 if quick else 60):
                cases.append({"cls": "yield_sweep/" + mode, "cfg": name, "mode": mode, "group": "%s:%s" % (name, mode), "nb": 1 if quick else 4,
                              "yield_sweep": True, "sweep_class": classes[i % len(classes)], "cost": 4.0,
                              "seed": derive_seed(seed, PROPERTY, "yield_sweep", name, mode, i)})
        for i in range(2 if quick else 30):
            cases.append({"cls": "yield_sweep_history/single", "cfg": name, "mode": "single", "group": "%s:single" % name, "yield_sweep": True,
                          "cost": 15.0, "seed": derive_seed(seed, PROPERTY, "yield_sweep_history", name, i)})
    # one mutable options dictionary shared by all models of a family and scribbled over before first use
    for grp in Z.ALIAS_GROUPS:
        for i in range(1 if quick else 3):
            cases.append({"cls": "aliased_options", "cfg": grp, "group": "alias:" + grp, "cost": 40.0 * (3.0 if grp.startswith("j2") or grp == "visco3" else 1.0),
                          "seed": derive_seed(seed, PROPERTY, "aliased_options", grp, i)})
    only = os.environ.get("VERIF_ONLY_CFG")  # debugging / mutation runs only (use together with --only so that no evidence is written)
    if only:
        cases = [c for c in cases if only in c["cfg"]]
    return cases


# ------------------------------------------------------------------------------------------------------------------
_CACHE = {}


def _fns(name, mode):
    """Compiled W and dW/dH of one configuration in one execution mode (cached per worker)."""
    key = (name, mode)
    if key in _CACHE:
        return _CACHE[key]
    import jax
    W = Z.energy_fn(name)
    P = jax.grad(W)
    out = {}
    if mode == "single":
        out["W"] = jax.jit(W)
        out["P"] = jax.jit(P)
    else:
        ax = (0, 0, None, None, 0)
        out["W"] = jax.jit(jax.vmap(W, ax))
        out["P"] = jax.jit(jax.vmap(P, ax))
    if Z.CONFIGS[name]["family"] == "PhaseFieldThreshold":
        Ws = Z.energy_fn(name, "strain")
        out["Wstrain"] = jax.jit(Ws) if mode == "single" else jax.jit(jax.vmap(Ws, (0, 0, None, None, 0)))
    # every other energy-valued entry point of the returned model object (same arguments, same points, same tolerance)
    out["extra"] = {}
    for ep in Z.energy_entry_points(name):
        if ep == "compute_energy_density":
            continue
        We = Z.energy_fn(name, ep)
        out["extra"][ep] = jax.jit(We) if mode == "single" else jax.jit(jax.vmap(We, (0, 0, None, None, 0)))
    _CACHE[key] = out
    return out


def _state_new(name):
    key = (name, "S")
    if key not in _CACHE:
        import jax
        _CACHE[key] = jax.jit(Z.state_new_fn(name))
    return _CACHE[key]


def _eval(fn, mode, H, S, dt, cvec, A):
    """Evaluate a compiled function on n points in the requested mode; returns a numpy array with leading dim n."""
    import jax.numpy as np
    H = onp.asarray(H, float)
    S = onp.asarray(S, float)
    A = onp.asarray(A, float)
    c = np.asarray(onp.asarray(cvec, float))
    n = H.shape[0]
    if mode == "single":
        return onp.array([onp.asarray(fn(np.asarray(H[i]), np.asarray(S[i]), dt, c, np.asarray(A[i]))) for i in range(n)])
    out = []
    for s in range(0, n, B):
        e = min(n, s + B)
        idx = list(range(s, e)) + [e - 1] * (B - (e - s))  # pad the last batch by repeating its last member
        r = onp.asarray(fn(np.asarray(H[idx]), np.asarray(S[idx]), dt, c, np.asarray(A[idx])))
        out.append(r[: e - s])
    return onp.concatenate(out, axis=0)


def _allowed_energy(name, mu, kappa, W, e2):
    a = 1e-11 * (abs(W) + mu * e2) + 64.0 * EPS * (mu + kappa) * math.sqrt(e2)
    if name in CANCELLING:
        a += 64.0 * EPS * (mu + kappa)
    return a


def _mech(name, mode, cls, *F_evaluated):
    """Structural known-finding classifier: batched mode, eigen-solver based strain measure, deformation class with a repeated
    pair of principal stretches, and at least one of the evaluations involved is not an exactly diagonal F (so the repeated pair
    reaches eigen_sym33_unit in a rotated, or rounding-perturbed, frame)."""
    if mode != "batched" or Z.CONFIGS[name]["eig"] is None or cls not in PAIR_CLASSES:
        return None
    for F in F_evaluated:
        if onp.count_nonzero(F - onp.diag(onp.diag(F))) != 0:
            return D8_KEY
    return None


def _gent_fix(name, cvec, Fs):
    if name != "gent":
        return cvec
    worst = 0.0
    for F in Fs:
        J = onp.linalg.det(F)
        worst = max(worst, J ** (-2.0 / 3.0) * float((F * F).sum()) - 3.0)
    cvec = list(cvec)
    cvec[2] = max(cvec[2], 1.5 * worst)
    return cvec


def _aux_for(name, rng, n):
    A = onp.zeros((n, 4))
    if Z.CONFIGS[name]["family"] == "PhaseFieldThreshold":
        for i in range(n):
            u = rng.random()
            A[i, 0] = 0.0 if u < 0.3 else (0.3 if u < 0.6 else rng.uniform(0.0, 0.9))
            A[i, 1:] = rng.standard_normal(3) * rng.uniform(0, 2)
    return A


def _check_points(res, name, mode, cls, cvec, dt, F, Q, S, SQ, A, e2, tag=""):
    """All per-point clauses for arrays of n points. S: states, SQ: states seen from the rotated reference."""
    f = _fns(name, mode)
    mu, kappa = Z.moduli(name, cvec)
    n = len(F)
    I = onp.eye(3)
    QF = onp.einsum("nij,njk->nik", Q, F)
    FQ = onp.einsum("nij,njk->nik", F, Q)
    AQ = A.copy()
    AQ[:, 1:] = onp.einsum("nji,nj->ni", Q, A[:, 1:])  # material vector gradPhase -> Q^T gradPhase
    w0 = _eval(f["W"], mode, F - I, S, dt, cvec, A)
    wq = _eval(f["W"], mode, QF - I, S, dt, cvec, A)
    wr = _eval(f["W"], mode, FQ - I, SQ, dt, cvec, AQ)
    p0 = _eval(f["P"], mode, F - I, S, dt, cvec, A)
    res.count("entry_point_evals:compute_energy_density", n)
    for ep, fe in f["extra"].items():
        a0 = _eval(fe, mode, F - I, S, dt, cvec, A)
        aq = _eval(fe, mode, QF - I, S, dt, cvec, A)
        ar = _eval(fe, mode, FQ - I, SQ, dt, cvec, AQ)
        for i in range(n):
            allowed = _allowed_energy(name, mu, kappa, a0[i] if onp.isfinite(a0[i]) else 0.0, e2[i])
            det = {"cfg": name, "mode": mode, "i": i, "entry_point": ep, "W": a0[i], "F": F[i], "Q": Q[i], "cvec": list(cvec)}
            m = _mech(name, mode, cls, F[i], QF[i])
            res.bound("objectivity_QF@" + ep + tag + (KF if m else ""), abs(aq[i] - a0[i]), allowed, dict(det, WQF=aq[i]), m)
            m = _mech(name, mode, cls, F[i], FQ[i])
            res.bound("isotropy_FQ@" + ep + tag + (KF if m else ""), abs(ar[i] - a0[i]), allowed, dict(det, WFQ=ar[i]), m)
        res.count("entry_point_evals:" + ep, n)
    for i in range(n):
        allowed = _allowed_energy(name, mu, kappa, w0[i] if onp.isfinite(w0[i]) else 0.0, e2[i])
        det = {"cfg": name, "mode": mode, "i": i, "W": w0[i], "strain": math.sqrt(e2[i]), "cvec": list(cvec)}
        # the rate-sensitive J2 update can return NaN when its root find runs out of iterations right at first yield
        # (open finding C09-N1 of property C09); here it shows as a non-finite energy/stress of a "rate" configuration
        n1 = KEY_N1 if ("rate" in name and not (onp.isfinite(w0[i]) and onp.isfinite(wq[i]) and onp.isfinite(wr[i])
                                                 and onp.all(onp.isfinite(p0[i])))) else None
        if n1:
            res.count("rate_sensitive_nonfinite_points[C09-N1]")
        m = _mech(name, mode, cls, F[i], QF[i]) or n1
        if m and m != n1:
            res.count("d8_class_points")
        elif mode == "batched" and cls in PAIR_CLASSES:
            res.count("batched_pair_class_noneigen_points")
        ok = res.bound("objectivity_QF" + tag + (KF if m else ""), abs(wq[i] - w0[i]), allowed, dict(det, WQF=wq[i], F=F[i], Q=Q[i]), m)
        if m and not ok:
            res.count("d8_class_failed_clauses")
        res.count("objectivity_evals:" + mode)
        m = _mech(name, mode, cls, F[i], FQ[i]) or n1
        ok = res.bound("isotropy_FQ" + tag + (KF if m else ""), abs(wr[i] - w0[i]), allowed, dict(det, WFQ=wr[i], F=F[i], Q=Q[i]), m)
        if m and not ok:
            res.count("d8_class_failed_clauses")
        res.count("isotropy_evals:" + mode)
        tau = p0[i] @ F[i].T
        nt = float(onp.linalg.norm(tau))
        m = _mech(name, mode, cls, F[i]) or n1
        res.bound("kirchhoff_symmetry" + tag + (KF if m else ""), float(onp.abs(tau - tau.T).max()), 1e-10 * nt + 1e-300,
                  dict(det, tau=tau, F=F[i]), m)
        res.count("tau_symmetry_evals:" + mode)
    return w0


def _run_reference(res, case, rng):
    import jax.numpy as np
    name, mode = case["cfg"], case["mode"]
    f = _fns(name, mode)
    st0 = Z.initial_state(name)
    pf = Z.CONFIGS[name]["family"] == "PhaseFieldThreshold"
    for k in range(case["nsets"]):
        cvec = Z.sample_consts(name, rng)
        if k % 2 == 1:  # every second constant set lives in one of the sweep's unit systems
            cvec = Z.scale_consts(name, Z.normalize_consts(name, cvec), Z.SWEEP_SCALES[int(rng.integers(len(Z.SWEEP_SCALES)))])
        band = Z.scale_band(name, cvec)
        mu, kappa = Z.moduli(name, cvec)
        dt = Z.sample_dt(name, cvec, rng)
        if mode == "single":
            H = onp.zeros((1, 3, 3))
            zero = [0]
        else:
            # zero displacement gradients sitting in a batch next to arbitrary deformed neighbours, and an all-zero batch
            H = onp.zeros((2 * B, 3, 3))
            zero = sorted(set(int(j) for j in rng.choice(B, size=B // 2, replace=False))) + list(range(B, 2 * B))
            for j in range(B):
                if j not in zero:
                    pt = Z.stretch_point(Z.STRETCH_CLASSES[int(rng.integers(len(Z.STRETCH_CLASSES)))], rng, 1e-3, 0.3)
                    H[j] = pt["F"] - onp.eye(3)
        n = H.shape[0]
        S = onp.tile(st0, (n, 1))
        phases = [0.0, 0.3] if pf else [0.0]
        for ph in phases:
            A = onp.zeros((n, 4))
            A[:, 0] = ph
            wfn = f["W"] if ph == 0.0 else f["Wstrain"]
            w = _eval(wfn, mode, H, S, dt, cvec, A)
            p = _eval(f["P"], mode, H, S, dt, cvec, A)
            if ph == 0.0:
                for ep, fe in f["extra"].items():
                    we = _eval(fe, mode, H, S, dt, cvec, A)
                    for j in zero:
                        res.bound("reference_energy@" + ep, abs(we[j]), 1e-14 * mu, {"cfg": name, "mode": mode, "slot": j, "entry_point": ep, "W0": we[j]})
            for j in zero:
                det = {"cfg": name, "mode": mode, "slot": j, "phase": ph, "cvec": list(cvec), "W0": w[j], "P0": p[j]}
                res.bound("reference_energy", abs(w[j]), 1e-14 * mu, det)
                res.bound("reference_stress", float(onp.abs(p[j]).max()), 1e-12 * mu, det)
                res.count("ref_evals:" + mode)
                res.count("band:%s:ref_evals" % band)
    res.count("configs_reference_checked")
    res.nontrivial = True
    # concrete-constant replica (python floats in the property dictionary, as a user would build the model)
    if mode == "single" and case.get("nsets"):
        import jax
        cvec = Z.sample_consts(name, rng)
        cvec = _gent_fix(name, cvec, [onp.eye(3) * 1.3])
        model = Z.build_model(name, [float(x) for x in cvec])
        pt = Z.stretch_point("distinct", rng, 1e-2, 0.2)
        Hh = np.asarray(pt["F"] - onp.eye(3))
        A = onp.zeros(4)
        dt = Z.sample_dt(name, cvec, rng)
        if pf:
            wc = float(jax.jit(model.compute_energy_density)(Hh, 0.0, np.zeros(3), np.asarray(st0), dt))
        else:
            wc = float(jax.jit(model.compute_energy_density)(Hh, np.asarray(st0), dt))
        wt = float(f["W"](Hh, np.asarray(st0), dt, np.asarray(onp.asarray(cvec, float)), np.asarray(A)))
        mu, kappa = Z.moduli(name, cvec)
        e2 = float((pt["logs"] ** 2).sum())
        res.bound("traced_vs_concrete_constants", abs(wc - wt), _allowed_energy(name, mu, kappa, wc, e2),
                  {"cfg": name, "W_concrete": wc, "W_traced": wt})
        res.count("concrete_constant_replicas")


def _j2_regime_counts(res, name, cvec, logs_list):
    if not Z.is_j2(name):
        return
    mu, _ = Z.moduli(name, cvec)
    for logs in logs_list:
        d = onp.asarray(logs) - onp.mean(logs)
        mises = 2.0 * mu * math.sqrt(1.5) * float(onp.linalg.norm(d))
        res.count("j2_points_yielding" if mises > 1.05 * cvec[2] else "j2_points_elastic")
        if cvec[2] / cvec[0] < 1e-4:
            res.count("j2_small_yield_strain_points_beyond_yield" if mises > 1.05 * cvec[2] else "j2_small_yield_strain_points_elastic")


def _run_class(res, case, rng):
    for _ in range(case.get("nb", 1)):  # every batch of 32 points has its own constant set (and, 30 %, its own unit system)
        _run_class_batch(res, case, rng)


def _run_scale_sweep(res, case, rng):
    """Same dimensionless material (leading modulus normalised to 1), same points, every stress-like constant multiplied by s."""
    for s in case["scales"]:
        _run_class_batch(res, case, rng_of(case["seed"]), scale=float(s), cls=case["sweep_class"])
        res.count("scale_sweep_batches")


def _run_class_batch(res, case, rng, scale=None, cls=None):
    name, mode = case["cfg"], case["mode"]
    cls = cls or case.get("sweep_class") or case["cls"].split("/")[0]
    ys = None
    if Z.is_j2(name):
        ys = [None, 10.0][int(rng.integers(2))]  # half of the cases purely elastic (yield strain 10), half with realistic yield strains
        if case.get("yield_sweep"):
            ys = float(Z.loguniform(rng, 1e-7, 1e-2))  # yield strain Y0/E swept independently of the modulus scale
    cvec = Z.sample_consts(name, rng, yield_strain=ys)
    if scale is None:
        sc = Z.random_case_scale(rng)
        if sc != 1.0:
            cvec = Z.scale_consts(name, cvec, sc)
            res.count("batches_with_random_unit_system")
    else:
        cvec = Z.scale_consts(name, Z.normalize_consts(name, cvec), scale)
    band = Z.scale_band(name, cvec)
    res.count("band:%s:objectivity_evals" % band, B)
    dt = Z.sample_dt(name, cvec, rng)
    smax = 0.45 if name == "gent" else 1.0
    smin = 1e-3
    if case.get("yield_sweep"):
        # amplitudes tied to the yield strain: 0.3x .. 30x the deviatoric strain norm at first yield (elastic, barely yielding, yielding)
        mu_, _k = Z.moduli(name, cvec)
        eyd = cvec[2] / (math.sqrt(6.0) * mu_)
        smin, smax = 0.3 * eyd, min(30.0 * eyd, 1.0)
        res.count("yield_sweep_batches")
    pts = [Z.stretch_point(cls, rng, smin, smax) for _ in range(B)]
    F = onp.array([p["F"] for p in pts])
    cvec = _gent_fix(name, cvec, F)
    Q = onp.array([Z.random_rotation(rng)[0] for _ in range(B)])
    st0 = Z.initial_state(name)
    S = onp.tile(st0, (B, 1))
    A = _aux_for(name, rng, B)
    e2 = onp.array([float((p["logs"] ** 2).sum()) for p in pts])
    _j2_regime_counts(res, name, cvec, [p["logs"] for p in pts])
    w0 = _check_points(res, name, mode, cls, cvec, dt, F, Q, S, S, A, e2)
    res.count("points:" + cls, B)
    res.count("frame_diagonalF", sum(1 for p in pts if p["diagonalF"]))
    res.count("nonfinite_base_energy", int((~onp.isfinite(w0)).sum()))
    res.nontrivial = True


def _run_history(res, case, rng):
    """Non-virgin states: superposed rotation leaves the state alone, a reference rotation Q maps every inelastic tensor
    A -> Q^T A Q.  Points are elastic-stretch x state products with well separated spectra (gap-guarded) so that this class
    is outside the D8 key in both modes."""
    name, mode = case["cfg"], case["mode"]
    cfg = Z.CONFIGS[name]
    ysw = bool(case.get("yield_sweep"))
    cvec = Z.sample_consts(name, rng, yield_strain=float(Z.loguniform(rng, 1e-7, 1e-2)) if ysw else None)
    smin_h, smax_h = 1e-3, 0.3
    if ysw:
        eyd = cvec[2] / (math.sqrt(6.0) * Z.moduli(name, cvec)[0])
        smin_h, smax_h = 0.3 * eyd, min(30.0 * eyd, 0.3)
    Sfn = _state_new(name)
    F, Q, S, SQ, e2 = [], [], [], [], []
    tries = 0
    dt = Z.sample_dt(name, cvec, rng)
    while len(F) < B and tries < 4 * B:
        tries += 1
        hist = Z.gen_history(name, cvec, rng, int(rng.integers(3, 9)))
        states = Z.run_history(name, cvec, hist, Sfn)
        if states[-1] is None:
            # compute_state_new returned a non-finite state: not a C08 clause (C09/C17 territory); counted, witnessed in the evidence
            res.count("history_nonfinite_state")
            k = len(states) - 1
            res.obs.setdefault("nonfinite_state_witness", []).append(
                {"cfg": name, "cvec": list(cvec), "H": hist[k][0].tolist(), "dt": hist[k][1],
                 "state_before": (states[k - 1] if k > 0 else Z.initial_state(name)).tolist()})
            continue
        st = states[-1]
        pt = Z.stretch_point("distinct", rng, smin_h, smax_h)
        if cfg["state"] == "j2_small":  # seth hill: additive plastic strain, strain measure of C itself
            Fi = pt["F"]
        else:
            Fi = pt["F"] @ Z.state_tensors(name, st)[0]
        Qi = Z.random_rotation(rng)[0]
        stq = Z.rotate_state(name, st, Qi)
        gaps = [Z.rel_gap(C) for C in Z.eig_tensors(name, Fi - onp.eye(3), st)] + \
               [Z.rel_gap(C) for C in Z.eig_tensors(name, Fi @ Qi - onp.eye(3), stq)]
        if min(gaps) < 1e-3 and not (ysw and mode == "single"):  # the gap guard only protects the batched mode (D8)
            res.count("history_points_skipped_small_gap")
            continue
        inel = Z.state_tensors(name, st)[0]
        ref = onp.eye(3) if cfg["state"] != "j2_small" else onp.zeros((3, 3))
        if onp.abs(inel - ref).max() > 1e-6:
            res.count("history_state_points")
            if onp.abs(Z.state_tensors(name, stq)[0] - inel).max() > 1e-8:
                res.count("rotated_state_nontrivial")
        F.append(Fi)
        Q.append(Qi)
        S.append(st)
        SQ.append(stq)
        e2.append(Z.log_strain_norm(Fi) ** 2 + Z.log_strain_norm(pt["F"]) ** 2)
    if not F:
        res.vacuous("no admissible history state generated")
        return
    F, Q, S, SQ, e2 = map(onp.array, (F, Q, S, SQ, e2))
    A = onp.zeros((len(F), 4))
    _check_points(res, name, mode, "history", cvec, dt, F, Q, S, SQ, A, e2, tag=":history_state")
    res.count("points:history", len(F))
    res.nontrivial = True


def _run_alias(res, case, rng):
    """Caller-side aliasing: all models of a family are created from ONE mutable options dict that is turned, key by key, into the
    next configuration between creations; after the last creation the dict is scribbled over (every option key moved along its value
    cycle, numbers x3.7, then NaN, finally cleared) and only then is each model traced: a single compiled call, then a batch of 8 and a
    batch of 11 (new call signatures force a retrace after each further mutation).  Every model must be the model it was configured as
    at creation time: equal to a model built from a fresh dict literal, with W(0)=0, objective and isotropic (finite-deformation options)."""
    import contextlib
    import io
    import jax
    import jax.numpy as np
    grp = case["cfg"]
    names = list(Z.ALIAS_GROUPS[grp])
    order = [names[int(i)] for i in rng.permutation(len(names))]
    family = Z.CONFIGS[order[0]]["family"]
    pf = family == "PhaseFieldThreshold"
    factory = Z.factory_for(family)
    npt = 4
    pts = [Z.stretch_point("distinct", rng, 1e-2, 0.3) for _ in range(npt)]
    F = [p["F"] for p in pts]
    Q = [Z.random_rotation(rng)[0] for _ in range(npt)]
    I = onp.eye(3)
    # 11 displacement gradients: rest, F_i, Q_i F_i, F_0 Q_0, F_1 Q_1
    Hs = [onp.zeros((3, 3))] + [f - I for f in F] + [q @ f - I for q, f in zip(Q, F)] + [F[0] @ Q[0] - I, F[1] @ Q[1] - I]
    Hs = onp.array(Hs)
    e2 = [0.0] + [float((p["logs"] ** 2).sum()) for p in pts] * 2 + [float((pts[0]["logs"] ** 2).sum()), float((pts[1]["logs"] ** 2).sum())]
    base_of = [None, None, None, None, None, 1, 2, 3, 4, 1, 2]       # index of the un-rotated partner
    clause_of = [None] * 5 + ["objectivity_QF"] * 4 + ["isotropy_FQ"] * 2

    d = {}  # the one caller-owned dictionary
    models = []
    for name in order:
        cvec = Z.sample_consts(name, rng, yield_strain=[None, 10.0][int(rng.integers(2))] if Z.is_j2(name) else None)
        sc = Z.random_case_scale(rng)
        cvec = _gent_fix(name, Z.scale_consts(name, cvec, sc), F)
        Z.mutate_dict_to(d, Z.properties_dict(name, [float(x) for x in cvec]))
        with contextlib.redirect_stdout(io.StringIO()):
            m = factory(d)
        models.append((name, cvec, m, Z.sample_dt(name, cvec, rng)))
    st_of = {name: np.asarray(Z.initial_state(name)) for name in order}

    def energy(m):
        if pf:
            return lambda H, st, dt: m.compute_energy_density(H, 0.0, np.zeros(3), st, dt)
        return lambda H, st, dt: m.compute_energy_density(H, st, dt)

    # expectation: models built from fresh dict literals, single compiled calls
    fresh = {}
    for name, cvec, m, dt in models:
        fw = jax.jit(energy(Z.build_model(name, [float(x) for x in cvec])))
        fresh[name] = onp.array([float(fw(np.asarray(h), st_of[name], dt)) for h in Hs])

    def judge(stage, name, cvec, w):
        mu, kappa = Z.moduli(name, cvec)
        finite = Z.CONFIGS[name]["finite"]
        det = {"cfg": name, "stage": stage, "cvec": list(cvec), "dict_now": {k: (v if isinstance(v, str) else repr(v)) for k, v in d.items()}}
        res.bound("aliased:reference_energy", abs(w[0]), 1e-14 * mu, dict(det, W0=w[0]))
        for j in range(len(w)):
            allowed = _allowed_energy(name, mu, kappa, fresh[name][j] if onp.isfinite(fresh[name][j]) else 0.0, e2[j]) + 1e-14 * mu
            res.bound("aliased:model_as_configured", abs(w[j] - fresh[name][j]), allowed, dict(det, entry=j, W=w[j], W_fresh_dict=fresh[name][j]))
            res.count("aliased_as_configured_evals")
            if finite and clause_of[j] is not None:
                res.bound("aliased:" + clause_of[j], abs(w[j] - w[base_of[j]]), allowed, dict(det, entry=j, W=w[j], W_partner=w[base_of[j]]))
        res.count("aliased_models_evaluated:" + family)

    stages = [("single_call_after_scribble_1", None, lambda: Z.scribble_options(d, family, 1, lambda v: v * 3.7)),
              ("batch8_retrace_after_scribble_2", 8, lambda: Z.scribble_options(d, family, 1, lambda v: float("nan"))),
              ("batch11_retrace_after_clear", 11, d.clear)]
    for stage, nbatch, mutate in stages:
        mutate()
        for name, cvec, m, dt in models:
            try:
                if nbatch is None:
                    fw = jax.jit(energy(m))
                    w = onp.array([float(fw(np.asarray(h), st_of[name], dt)) for h in Hs])
                else:
                    fw = jax.jit(jax.vmap(energy(m), (0, None, None)))
                    w = onp.asarray(fw(np.asarray(Hs[:nbatch]), st_of[name], dt))
                    res.count("aliased_retraces_after_mutation")
            except Exception as exc:  # a model that can no longer be traced once the caller's dict changed is not the model that was configured
                res.violate("aliased:model_usable_after_options_mutation", {"cfg": name, "stage": stage, "error": "%s: %s" % (type(exc).__name__, str(exc)[:300])})
                continue
            judge(stage, name, cvec, w)
    res.nontrivial = True


def run_case(case):
    res = Res(case)
    rng = rng_of(case["seed"])
    kind = case["cls"].split("/")[0]
    if kind == "reference":
        _run_reference(res, case, rng)
    elif kind in ("history", "yield_sweep_history"):
        _run_history(res, case, rng)
    elif kind == "scale_sweep":
        _run_scale_sweep(res, case, rng)
    elif kind == "aliased_options":
        _run_alias(res, case, rng)
    else:
        _run_class(res, case, rng)
    return res


def finalize(results, tier):
    wit = []
    for r in results:
        wit.extend(r.get("obs", {}).get("nonfinite_state_witness", []) or [])
    return {"nonfinite_state_witnesses(compute_state_new; not a C08 clause)": wit[:10]}
