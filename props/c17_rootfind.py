"""C17 -- safeguarded scalar root finder (optimism.ScalarRootFind.find_root).

Monitors
  * icontract post-condition wrapped around the *module attribute* ScalarRootFind.find_root.  The condition works on
    concrete values (eager calls: a failing clause raises RootContractViolation) and on traced values (jit / vmap /
    grad: the condition stages f(lo), f(hi), f(x) and sign-change probes f(x -/+ K*w) into the computation and hands
    the concrete numbers to a host callback, which evaluates the same clauses and files a record).
  * reference-model monitor: a numpy transcription of Numerical Recipes rtsafe (vlib/oracles/c17_rtsafe.py) run with
    0.5x / 1x / 2x the iteration budget classifies every honest non-convergence.
  * closed-form implicit-function-theorem oracle for jax.grad through the solve.
"""
import math

import numpy as onp

from vlib.common import EPS, Res, derive_seed
from vlib.gen import c17_cases as G
from vlib.oracles import c17_rtsafe as R

PROPERTY = "C17"
LEVEL = "exploration"
RULE = ("a case = a seeded batch of 64 find_root problems of one function family (affine, exp, cubic+linear, three-root "
        "polynomial, sin with 1-5 roots inside, tanh (flat), (x-c)^3, (x-c)^5 (multiple roots), J2 rate-sensitivity shape "
        "k-u-s*u^(1/4), cube-root (infinite slope at the root; outside the C1 hypothesis)) in one class: std (default "
        "settings), ample (max_iters >= 2*log2(W/x_tol)+10), tight (1..30 iterations), rtol (x_tol=0, r_tol>0 as J2 uses "
        "it), endpoint (an end point is an exact root), nobracket, revbracket (bracket given as [hi, lo]), tiny (|f| ~ "
        "1e-170), deriv (jax.grad w.r.t. the 4 family parameters), witness (fixed textbook inputs).  Guesses: inside, "
        "outside (clipped), far outside (1e100..1e307, where f overflows), at the root, at an end, at the midpoint, at another root outside the bracket.  Either end "
        "negative (sign of a).  Executed as jit(vmap), scalar jit and eagerly.  Non-trivial = at least one element was "
        "bracketed and took >= 2 iterations; distinct = canonical hash of (family, class, seed).")
ASSUMPTIONS = [
    "numpy closed forms of f, f_x, f_theta for each family are correct (oracle side)",
    "the numpy transcription of Numerical Recipes rtsafe is a faithful reference; it only classifies honest non-convergence "
    "(violation if it converges within half the budget, known finding D10 if it fails with twice the budget, neutral between)",
    "tolerance clause: |f(x)| < r_tol re-evaluated, or a sign change / exact zero of f within K*max(x_tol, 8 eps |x|) of x with "
    "K = 2 for simple roots and K = 8 / 16 for roots of multiplicity 3 / 5 (Newton on (x-c)^m stops with |x-c| < (m-1) x_tol); "
    "the generic contract uses K = 16",
    "derivative tolerance 1e-10 relative to |d| + |f_theta|_bracket/|f_x| (observed <= 1e-12; both sides evaluate the same "
    "closed form at the returned x, so only rounding differs)",
    "the hypothesis (sign change / end-point root / no sign change) is decided from the signs of f(lo), f(hi), never from "
    "their product",
    "cube-root family is not C1 at its root: non-convergence there is counted, not judged",
]
REQUIRED = {
    "all": {
        "contract_evaluations": 5000, "contract_traced": 5000, "contract_concrete": 100,
        "mode_jit_vmap": 4500, "mode_jit_scalar": 400, "mode_eager": 100,
        "converged_checked": 3000, "decided_by_x_tol": 2000, "decided_by_r_tol": 600,
        "endpoint_root_checked": 500, "nobracket_checked": 500, "ample_checked": 500,
        "exhaustion_classified": 200, "deriv_components_checked": 2500, "deriv_elements_residual_scale_below_1e-12": 20, "deriv_elements_residual_scale_above_1e12": 20, "deriv_nonzero_components": 1000,
        "guess_inside": 1000, "guess_outside": 600, "guess_at_root": 200, "guess_other_root": 60, "guess_far_outside": 200,
        "guess_at_end": 200, "guess_midpoint": 100,
        "left_end_negative": 1500, "right_end_negative": 1500,
        "ref_newton_steps": 5000, "ref_bisection_steps": 2000,
        "class:witness": 1,
    },
}
WATCHDOG_S = {"quick": 1800, "thorough": 4 * 3600}
MAX_VACUOUS_FRACTION = 0.2

KEY_D10 = "rtsafe-honest-budget-exhaustion-reference-also-fails-at-2x"
KEY_D10B = "rtsafe-zero-over-zero-at-exact-multiple-root"
KEY_D10C = "rtsafe-bracket-test-product-underflow"
KEY_D10D = "rtsafe-step-criterion-accepts-short-newton-step-as-reference-does"

PROBE_K = (1.0, 2.0, 4.0, 8.0, 16.0)
K_GENERIC = 16.0
K_BY_MULT = {0: 2.0, 1: 2.0, 3: 8.0, 5: 16.0}
DERIV_RTOL = 1e-10


# --------------------------------------------------------------------------------------------------------- cases

def build_cases(tier, seed):
    cases = []
    nb = {"quick": 1, "thorough": 36}[tier]
    for fam in G.FAMILY_NAMES:
        for cls in G.CLASSES:
            if fam == "rate" and cls == "endpoint":
                continue  # no closed-form root to put on an end point
            for b in range(nb):
                cases.append({"cls": cls, "fam": fam, "group": fam + "/v%d" % (b % 2), "cost": 1.0,
                              "seed": derive_seed(seed, PROPERTY, fam, cls, b)})
    for fam in G.SIMPLE_ROOT:
        for b in range(2 * nb):
            cases.append({"cls": "deriv", "fam": fam, "group": fam + "/d", "cost": 1.5,
                          "seed": derive_seed(seed, PROPERTY, fam, "deriv", b)})
    for fam in ("affine", "cubic", "sin", "odd3"):
        for b in range(nb):
            cases.append({"cls": "tiny", "fam": fam, "group": fam + "/v0", "cost": 1.0,
                          "seed": derive_seed(seed, PROPERTY, fam, "tiny", b)})
    cases.append({"cls": "witness", "fam": "odd3", "group": "odd3/v0", "cost": 0.5, "seed": 0})
    return cases


# ------------------------------------------------------------------------------------------------ the contract

class RootContractViolation(AssertionError):
    pass


_STATE = {"installed": False, "records": {}, "n_traced": 0, "n_concrete": 0, "last": None}
_FN = {}


def _key(x0, lo, hi, x_tol, r_tol, max_iters):
    return (float(x0), float(lo), float(hi), float(x_tol), float(r_tol), int(max_iters))


def evaluate_root_clauses(rec):
    """The post-condition proper, on concrete numbers.  Fills rec['failed'] (list of clause names), rec['hyp'],
    rec['decided'] and rec['K'] (smallest probe multiple that shows a sign change)."""
    fl, fh, x = rec["fl"], rec["fh"], rec["x"]
    lo, hi = rec["lo"], rec["hi"]
    failed = []
    isnan = math.isnan(x)
    rec["decided"] = None
    rec["K"] = None
    if math.isnan(fl) or math.isnan(fh):
        rec["hyp"] = "undefined"
        rec["failed"] = failed
        return rec
    if fl == 0.0 or fh == 0.0:
        rec["hyp"] = "endpoint"
    elif (fl < 0.0) != (fh < 0.0):
        rec["hyp"] = "bracketed"
    else:
        rec["hyp"] = "nobracket"
    if (not isnan) != bool(rec["converged"]):
        failed.append("flag_consistent_with_value")
    if rec["hyp"] == "nobracket":
        if not isnan:
            failed.append("no_sign_change_gives_nan")
    elif rec["hyp"] == "endpoint":
        ok = (fh == 0.0 and x == hi) or (fl == 0.0 and x == lo)
        if not ok:
            failed.append("endpoint_root_returned")
    else:
        if isnan:
            rec["decided"] = "exhausted"
            if bool(rec["converged"]) or int(rec["iterations"]) != int(rec["max_iters"]):
                failed.append("honest_exhaustion_report")
        else:
            if not (min(lo, hi) <= x <= max(lo, hi)):
                failed.append("result_inside_bracket")
            if abs(rec["fx"]) < rec["r_tol"]:
                rec["decided"] = "r_tol"
            else:
                for K, a, b in zip(PROBE_K, rec["fa"], rec["fb"]):
                    if a * b <= 0.0 or a == 0.0 or b == 0.0:
                        rec["K"] = K
                        break
                if rec["K"] is None or rec["K"] > K_GENERIC:
                    failed.append("tolerance_met")
                else:
                    rec["decided"] = "x_tol"
    rec["failed"] = failed
    return rec


def _host_record(x0, lo, hi, x_tol, r_tol, max_iters, x, converged, iterations, resid, corr, fl, fh, fx, fa, fb, traced):
    rec = {"x0": float(x0), "lo": float(lo), "hi": float(hi), "x_tol": float(x_tol), "r_tol": float(r_tol),
           "max_iters": int(max_iters), "x": float(x), "converged": bool(converged), "iterations": int(iterations),
           "residual_norm": float(resid), "correction_norm": float(corr), "fl": float(fl), "fh": float(fh), "fx": float(fx),
           "fa": [float(v) for v in onp.asarray(fa)], "fb": [float(v) for v in onp.asarray(fb)], "traced": bool(traced)}
    evaluate_root_clauses(rec)
    _STATE["records"].setdefault(_key(rec["x0"], rec["lo"], rec["hi"], rec["x_tol"], rec["r_tol"], rec["max_iters"]), []).append(rec)
    _STATE["n_traced" if traced else "n_concrete"] += 1
    _STATE["last"] = rec
    return rec


def _host_record_traced(*a):
    _host_record(*a, traced=True)


def root_postcondition(f, x0, bracket, settings, result):
    """icontract post-condition of find_root(f, x0, bracket, settings) -> (x, SolutionInfo)."""
    import jax
    import jax.numpy as np
    x, info = result
    lo, hi = bracket[0], bracket[1]
    fl, fh, fx = f(lo), f(hi), f(x)
    w = np.maximum(np.maximum(settings.x_tol, 8.0 * EPS * np.abs(x)), 1e-300)
    blo, bhi = np.minimum(lo, hi), np.maximum(lo, hi)
    fa = np.stack([f(np.clip(x - K * w, blo, bhi)) for K in PROBE_K])
    fb = np.stack([f(np.clip(x + K * w, blo, bhi)) for K in PROBE_K])
    args = (x0, lo, hi, settings.x_tol, settings.r_tol, settings.max_iters, x, info.converged, info.iterations,
            info.residual_norm, info.correction_norm, fl, fh, fx, fa, fb)
    if any(isinstance(a, jax.core.Tracer) for a in args):
        jax.debug.callback(_host_record_traced, *[np.asarray(a) for a in args])
        return True
    rec = _host_record(*args, traced=False)
    return not rec["failed"]


def root_contract_error(x0, bracket, settings, result):
    rec = _STATE["last"] or {}
    return RootContractViolation("find_root post-condition failed: %s" % (rec.get("failed"),))


def _install_contract():
    if _STATE["installed"]:
        return
    import icontract
    from optimism import ScalarRootFind as SRF
    SRF.find_root = icontract.ensure(root_postcondition, error=root_contract_error)(SRF.find_root)
    _STATE["installed"] = True


def _solvers(fam):
    """Compiled entry points for one family (cached per worker)."""
    if fam in _FN:
        return _FN[fam]
    import jax
    import jax.numpy as np
    from optimism import ScalarRootFind as SRF
    f = R.FAMILIES[fam][0]

    def solve(th, x0, lo, hi, xt, rt, mi):
        # attribute looked up at call time -> goes through the contract
        return SRF.find_root(lambda x: f(np, x, th), x0, np.array([lo, hi]), SRF.get_settings(max_iters=mi, x_tol=xt, r_tol=rt))

    def root_only(th, x0, lo, hi, xt, rt, mi):
        x, info = solve(th, x0, lo, hi, xt, rt, mi)
        return x, (x, info)

    fns = {"eager": solve, "jit_scalar": jax.jit(solve), "jit_vmap": jax.jit(jax.vmap(solve)),
           "grad_vmap": jax.jit(jax.vmap(jax.grad(root_only, has_aux=True))),
           "grad_scalar": jax.jit(jax.grad(root_only, has_aux=True))}
    _FN[fam] = fns
    return fns


# ------------------------------------------------------------------------------------------------------ run_case

def _witness_elements():
    d = {"x_tol": 1e-13, "r_tol": 0.0, "max_iters": 50, "kind": "bracketed", "guess": "inside", "root": 0.0}
    return [
        dict(d, th=[1.0, 0.0, 1.0, 1.0], x0=1.0, lo=-1.0, hi=2.0, tag="D10 design witness: x^3, defaults (73 iterations needed)"),
        dict(d, th=[1.0, 0.0, 1.0, 1.0], x0=1.0, lo=-1.0, hi=2.0, max_iters=30, tag="D10: x^3, max_iters=30"),
        dict(d, th=[1.0, 0.0, 1.0, 1.0], x0=1.0, lo=-1.0, hi=2.0, max_iters=200, tag="x^3 with 200 iterations converges"),
        dict(d, th=[1.0, 0.0, 1.0, 1.0], x0=0.0, lo=-1.0, hi=2.0, guess="at_root", tag="D10b: x^3, guess exactly at the triple root"),
        dict(d, th=[1e-170, 0.3, 1.0, 1.0], x0=0.5, lo=-1.0, hi=2.0, root=0.3, fam="affine", tag="D10c: 1e-170*(x-0.3)"),
    ]


def _tiny_elements(fam, seed):
    els = G.make_elements(fam, "std", seed, n=G.BATCH)
    from vlib.common import rng_of
    rng = rng_of(seed + 1)
    for e in els:
        e["th"][0] = float(onp.sign(e["th"][0]) * 10.0 ** rng.uniform(-200, -140))
        e["kind"] = "tiny"
    return els


def _arr(els, k):
    return onp.array([e[k] for e in els], dtype=float if k != "max_iters" else onp.int64)


def _call_batch(fns, els, grad=False):
    out = fns["grad_vmap" if grad else "jit_vmap"](_arr(els, "th"), _arr(els, "x0"), _arr(els, "lo"), _arr(els, "hi"),
                                                     _arr(els, "x_tol"), _arr(els, "r_tol"), _arr(els, "max_iters"))
    return out


def _pop_record(e):
    lst = _STATE["records"].get(_key(e["x0"], e["lo"], e["hi"], e["x_tol"], e["r_tol"], e["max_iters"]))
    if not lst:
        return None
    return lst.pop(0)


def _judge(res, case, fam, e, rec, mode, x, conv, its):
    """Family-aware checks for one executed call (rec = the contract's record for it, may be None)."""
    cls = case["cls"]
    th = e["th"]
    mult, c1 = R.FAMILIES[fam][3], R.FAMILIES[fam][4]
    wit = {"fam": fam, "mode": mode, "el": {k: e[k] for k in ("th", "x0", "lo", "hi", "x_tol", "r_tol", "max_iters", "guess")},
           "x": x, "converged": bool(conv), "iterations": int(its)}
    res.count("mode_" + mode)
    if rec is None:
        res.expect("contract_record_found", False, wit)
        return
    res.count("contract_evaluations")
    res.count("contract_traced" if rec["traced"] else "contract_concrete")
    # the record must describe the very call the harness made
    same = (rec["x"] == x or (math.isnan(rec["x"]) and math.isnan(x))) and rec["converged"] == bool(conv)
    res.expect("contract_record_matches_return", same, dict(wit, rec_x=rec["x"]))
    # numpy view of the hypothesis (independent of jax numerics)
    fl, fh = R.f_np(fam, e["lo"], th), R.f_np(fam, e["hi"], th)
    if rec["hyp"] == "undefined":
        res.count("hypothesis_undefined")
        return
    true_change = (fl < 0.0) != (fh < 0.0) and fl != 0.0 and fh != 0.0
    res.count("hyp_" + rec["hyp"])
    if rec["hyp"] == "bracketed":
        res.count("left_end_negative" if rec["fl"] < 0 else "right_end_negative")
        res.count("guess_" + e["guess"])
    for clause in rec["failed"]:
        mech = None
        if clause == "tolerance_met" and _short_newton_step_signature(fam, e, x, its):
            mech = KEY_D10D
            res.count("tolerance_D10d_short_newton_step")
        res.expect(clause, False, dict(wit, fl=rec["fl"], fh=rec["fh"], fx=rec["fx"], K=rec["K"]), mech)
    res.checks += 4
    if rec["hyp"] == "nobracket":
        res.count("nobracket_checked")
        return
    if rec["hyp"] == "endpoint":
        res.count("endpoint_root_checked")
        return
    # bracketed
    if not math.isnan(x):
        res.count("converged_checked")
        if its >= 2:
            res.nontrivial = True
        if rec["decided"] == "r_tol":
            res.count("decided_by_r_tol")
        elif rec["decided"] == "x_tol":
            res.count("decided_by_x_tol")
            res.count("signchange_within_K%g" % rec["K"])
            mech = None
            if rec["K"] > K_BY_MULT[mult] and _short_newton_step_signature(fam, e, x, its):
                mech = KEY_D10D
                res.count("tolerance_D10d_short_newton_step")
            res.bound("tolerance_met_family_K", rec["K"], K_BY_MULT[mult], dict(wit, K=rec["K"], multiplicity=mult), mech)
            # independent numpy probe of the sign change at the family's K
            w = max(e["x_tol"], 8.0 * EPS * abs(x), 1e-300)
            blo, bhi = min(e["lo"], e["hi"]), max(e["lo"], e["hi"])
            K = K_BY_MULT[mult]
            fa = R.f_np(fam, min(max(x - K * w, blo), bhi), th)
            fb = R.f_np(fam, min(max(x + K * w, blo), bhi), th)
            if rec["K"] <= K:  # (a failure of the in-graph probe at this K is already reported above)
                res.expect("tolerance_met_numpy_probe", fa * fb <= 0.0 or fa == 0.0 or fb == 0.0, dict(wit, fa=fa, fb=fb, K=K))
        if cls == "ample":
            res.count("ample_checked")
        return
    # honest (or not) non-convergence on a bracketed problem: classify
    res.count("exhaustion_seen")
    honest = "honest_exhaustion_report" not in rec["failed"]
    if not honest:
        return  # already a violation above
    if abs(rec["fl"]) * abs(rec["fh"]) < 2.2250738585072014e-308:
        # a genuine sign change is present (both ends non-zero, opposite signs) yet NaN, and |f(lo)*f(hi)| is below the
        # smallest normal double: the implementation's product test fl*fh < 0 underflowed (XLA flushes subnormals).  Only
        # when the (sign-based) reference converges within the budget is the failure attributed to the underflow.
        r1 = R.rtsafe_reference(fam, th, e["x0"], e["lo"], e["hi"], e["x_tol"], e["r_tol"], e["max_iters"])
        if r1["status"] == "converged":
            res.count("exhaustion_D10c_underflow")
            res.expect("bracketed_root_found", False, dict(wit, fl=rec["fl"], fh=rec["fh"], ref_iters=r1["iters"]), KEY_D10C)
            return
    if not c1:
        res.count("exhaustion_nonC1_family_not_judged")
        return
    label, det = R.budget_class(fam, th, e["x0"], e["lo"], e["hi"], e["x_tol"], e["r_tol"], e["max_iters"])
    res.count("exhaustion_classified")
    wit2 = dict(wit, reference=det, label=label)
    if det["hit_singular"] and mult > 1:
        # the reference trace contains an iterate with f == 0 and f' == 0: 0/0 Newton step at an exactly hit multiple root
        res.count("exhaustion_D10b_zero_over_zero")
        res.expect("bracketed_root_found", False, wit2, KEY_D10B)
        return
    if cls == "ample":
        res.count("ample_checked")
        res.expect("ample_budget_converges", False, wit2)
        return
    if label == "ref_converges_half":
        res.expect("converges_when_reference_needs_half_budget", False, wit2)
    elif label == "ref_fails_double":
        res.count("exhaustion_D10")
        res.expect("bracketed_root_found", False, wit2, KEY_D10)
    else:
        res.count("exhaustion_neutral")


def _short_newton_step_signature(fam, e, x, its):
    """Structural signature of finding D10d: the result was accepted by the step-size criterion after a *Newton* step, and
    the Numerical Recipes reference stops at the same point, after the same number of iterations, by the same criterion.
    (A wrong bracket update, a wrong step choice or a wrong tolerance test would make the two disagree.)"""
    r = R.rtsafe_reference(fam, e["th"], e["x0"], e["lo"], e["hi"], e["x_tol"], e["r_tol"], e["max_iters"])
    w = max(e["x_tol"], 8.0 * EPS * abs(x))
    return (r["status"] == "converged" and r["exit"] == "x_tol" and r["last_step"] == "newton" and r["iters"] == int(its)
            and abs(r["x"] - x) <= w)


def _ref_path_counts(res, fam, e, its):
    """Evidence only: which step types the reference trajectory used, and how often the implementation needed exactly as
    many iterations as the reference (not a verdict: the property does not fix the trajectory)."""
    r = R.rtsafe_reference(fam, e["th"], e["x0"], e["lo"], e["hi"], e["x_tol"], e["r_tol"], e["max_iters"])
    if r["status"] in ("converged", "exhausted"):
        res.count("ref_iterations_equal" if r["iters"] == int(its) else "ref_iterations_differ")
    res.count("ref_newton_steps", r["newtons"])
    res.count("ref_bisection_steps", r["bisections"])


def on_exception(case, exc, res):
    """Every generated argument is admissible for these functions: an exception raised inside the library is a violation."""
    from vlib.common import raised_in_library, library_frames
    if raised_in_library(exc):
        res.violate("library_raised", {"type": type(exc).__name__, "msg": str(exc)[:200], "frames": library_frames(exc)})
        return True
    return False


def run_case(case):
    import jax
    _install_contract()
    res = Res(case)
    fam, cls = case["fam"], case["cls"]
    if cls == "witness":
        els = _witness_elements()
    elif cls == "tiny":
        els = _tiny_elements(fam, case["seed"])
    elif cls == "deriv":
        sub = ["std", "ample", "rtol", "revbracket"]
        els = []
        for j, c in enumerate(sub):
            els += G.make_elements(fam, c, case["seed"] + j, n=G.BATCH // len(sub))
        # the implicit derivative does not depend on the units of the residual: rescale the amplitude of every second element
        # whose stopping test is on x only (r_tol = 0) by 10^U(-18, 18) (residual slopes from 1e-18 to 1e18)
        from vlib.common import rng_of
        rs = rng_of(case["seed"] + 17)
        for k, e in enumerate(els):
            if k % 2 == 0 and float(e.get("r_tol", 0.0)) == 0.0:
                sc = 10.0 ** rs.uniform(-18, 18)
                e["th"][0] = float(e["th"][0] * sc)
                res.count("deriv_elements_residual_scale_below_1e-12" if sc < 1e-12 else
                          ("deriv_elements_residual_scale_above_1e12" if sc > 1e12 else "deriv_elements_residual_scale_mid"))
    else:
        els = G.make_elements(fam, cls, case["seed"])
    if cls not in ("witness",) and len(els) < G.BATCH:
        res.inconclusive("generator produced %d/%d elements" % (len(els), G.BATCH))
        return res
    _STATE["records"].clear()

    if cls == "witness":
        for e in els:
            f2 = e.get("fam", fam)
            fns = _solvers(f2)
            x, info = fns["jit_scalar"](onp.array(e["th"]), e["x0"], e["lo"], e["hi"], e["x_tol"], e["r_tol"], e["max_iters"])
            jax.effects_barrier()
            _judge(res, case, f2, e, _pop_record(e), "jit_scalar", float(x), bool(info.converged), int(info.iterations))
        res.nontrivial = True
        return res

    fns = _solvers(fam)
    if cls == "deriv":
        g, (x, info) = _call_batch(fns, els, grad=True)
        g = onp.asarray(g)
    else:
        x, info = _call_batch(fns, els)
    jax.effects_barrier()
    x = onp.asarray(x)
    conv = onp.asarray(info.converged)
    its = onp.asarray(info.iterations)
    for i, e in enumerate(els):
        _judge(res, case, fam, e, _pop_record(e), "jit_vmap", float(x[i]), bool(conv[i]), int(its[i]))
        if i % 4 == 0:
            _ref_path_counts(res, fam, e, int(its[i]))
    if cls == "deriv":
        for i, e in enumerate(els):
            _check_derivative(res, fam, e, float(x[i]), g[i], "jit_vmap")
        # a few through scalar jit(grad)
        for i in range(0, len(els), 16):
            e = els[i]
            g1, (x1, info1) = fns["grad_scalar"](onp.array(e["th"]), e["x0"], e["lo"], e["hi"], e["x_tol"], e["r_tol"], e["max_iters"])
            jax.effects_barrier()
            _judge(res, case, fam, e, _pop_record(e), "jit_scalar", float(x1), bool(info1.converged), int(info1.iterations))
            _check_derivative(res, fam, e, float(x1), onp.asarray(g1), "jit_scalar")
        return res

    # other execution modes on a sub-sample: scalar jit, and eager (concrete contract, may raise)
    for i in range(0, len(els), 8):
        e = els[i]
        x1, info1 = fns["jit_scalar"](onp.array(e["th"]), e["x0"], e["lo"], e["hi"], e["x_tol"], e["r_tol"], e["max_iters"])
        jax.effects_barrier()
        _judge(res, case, fam, e, _pop_record(e), "jit_scalar", float(x1), bool(info1.converged), int(info1.iterations))
    for i in (3, 37):
        e = els[i % len(els)]
        try:
            x1, info1 = fns["eager"](onp.array(e["th"]), e["x0"], e["lo"], e["hi"], e["x_tol"], e["r_tol"], e["max_iters"])
            x1, c1, i1 = float(x1), bool(info1.converged), int(info1.iterations)
        except RootContractViolation:
            res.count("contract_raised_eagerly")
            rec = _STATE["last"]
            x1, c1, i1 = rec["x"], rec["converged"], rec["iterations"]
        _judge(res, case, fam, e, _pop_record(e), "eager", x1, c1, i1)
    return res


def _check_derivative(res, fam, e, x, g, mode):
    """jax.grad of the root w.r.t. th against -f_th/f_x evaluated (numpy closed form) at the returned root."""
    th = e["th"]
    if math.isnan(x):
        res.count("deriv_skipped_not_converged")
        return
    fl, fh = R.f_np(fam, e["lo"], th), R.f_np(fam, e["hi"], th)
    if fl == 0.0 or fh == 0.0:
        res.count("deriv_skipped_endpoint")
        return
    fx = R.fx_np(fam, x, th)
    fth = R.fth_np(fam, x, th)
    if not (math.isfinite(fx) and fx != 0.0 and onp.all(onp.isfinite(fth))):
        res.count("deriv_skipped_singular")
        return
    ref = -fth / fx
    # magnitude of f_theta over the bracket: the rounding noise of f_theta(x) near the root is relative to this
    # (an end where the closed form is singular -- a bracket starting at a point of infinite slope -- contributes nothing;
    # the bracket midpoint is sampled as well so that the scale does not collapse to zero in that case)
    def _mag(xx):
        v = onp.abs(R.fth_np(fam, xx, th))
        return onp.where(onp.isfinite(v), v, 0.0)
    s = onp.maximum(onp.maximum(_mag(e["lo"]), _mag(e["hi"])), _mag(0.5 * (e["lo"] + e["hi"])))
    allowed = DERIV_RTOL * (onp.abs(ref) + s / abs(fx)) + 1e-300
    err = onp.abs(onp.asarray(g, dtype=float) - ref)
    err = onp.where(onp.isfinite(err), err, onp.inf)
    j = int(onp.argmax(err / allowed))
    res.bound("derivative_equals_IFT", err[j], allowed[j],
              {"fam": fam, "mode": mode, "component": j, "grad": onp.asarray(g).tolist(), "ift": ref.tolist(), "x": x,
               "el": {k: e[k] for k in ("th", "x0", "lo", "hi", "x_tol", "r_tol", "max_iters")}})
    res.checks += R.NTH - 1
    res.count("deriv_components_checked", R.NTH)
    res.count("deriv_nonzero_components", int(onp.sum(ref != 0.0)))
    res.nontrivial = True


def finalize(results, tier):
    n = sum(r.get("obs", {}).get("contract_evaluations", 0) for r in results)
    calls = sum(sum(v for k, v in r.get("obs", {}).items() if k.startswith("mode_")) for r in results)
    out = {"find_root_calls": calls, "contract_evaluations_total": n}
    if calls and n < calls:
        out["_missing"] = ["contract evaluated on %d of %d find_root calls" % (n, calls)]
    return out
