"""C18 -- smoothed min / max / abs, friction regularisation, smoothed ramp (zmax), smoothed segment parameter
(MortarContact.smooth_linear) and the smooth-min wiring of EdgeCpp.smooth_distance.

Monitors: assertions on the values and jax.grad's returned by the real functions (jit(vmap), scalar jit and eager with
icontract post-conditions on the module attributes), judged by extended-precision (x87 long double, 64-bit mantissa)
numpy oracles.  Every inequality is asserted up to 16 ulp of the *result scale* (max |argument|, width), never a
fraction of the width.
"""
import math

import numpy as onp

from vlib.common import EPS, Res, derive_seed, rng_of
from vlib.gen import c18_points as G

PROPERTY = "C18"
LEVEL = "exploration"
RULE = ("a case = one target function (min, max, abs, zmax ramp, friction potential in 1/2/3 dimensions, smooth_linear, "
        "EdgeCpp.smooth_distance) and a seeded batch of arguments: clusters around every branch switch (|x-y|=eps, x=+-eps/2 "
        "for abs, x=+-eps for zmax, |s|=sReg, xi=l, xi=1-l): a centre constructed on the switch (in exact arithmetic where "
        "possible: Sterbenz differences, Pythagorean slip vectors) and the centre with one argument moved by -8,-2,-1,+1,+2,+8 "
        "ulp (nextafter); plus free points: widths log-uniform / exact decades / powers of two over 1e-10..1, arguments 0, "
        "comparable, 3-10 and 10-15.5 decades larger than the width (capped at 1e6), relative offsets 1 +- 1e-16..1e-1 from "
        "the switch.  Non-trivial = the batch contains points strictly on both sides of a switch within 8 ulp; distinct = "
        "canonical hash of (target, seed).  Thorough tier: same generators, 200x the cases, 8x the batch, plus margin-guided "
        "refinement for min/max (the 32 points with the largest observed/allowed ratio are rescaled, re-widthed, moved by one "
        "ulp and snapped onto the switch for 4 rounds; children are judged like any other point).")
ASSUMPTIONS = [
    "x87 long double (64-bit mantissa) numpy arithmetic is the oracle; differences of the float64 arguments are exact or "
    "correct to 1e-19 relative",
    "tolerance for every inequality and for 'equals outside the band': 16*eps_machine*max(|arguments|, width)",
    "C1 across a switch: |value difference| <= 16 ulp of scale + Lipschitz*distance, |gradient difference| <= "
    "16*eps_machine*(G + L_g*scale) + L_g*distance with L_g = 1/(2 eps) (min/max/abs/zmax), mu/sReg (friction), 1/l "
    "(smooth_linear): the gradient of a C1 function with curvature 1/width cannot be resolved better than that from "
    "float64 arguments",
    "the smoothing band of abs(x, eps) = -min_base(-x, x, eps) is |x| < eps/2 (mirrored from |(-x) - x| < eps)",
    "the 'smoothed ramp' is SmoothFunctions.zmax; only C1 is claimed for it and for smooth_linear (their closed-form "
    "bounds are recorded as diag_* ratios and never decide)",
    "smooth_distance: plane distances recomputed in long double; rounding allowance 64*eps_machine*(geometric scale)",
]
REQUIRED = {
    "all": {
        "min_points": 50000, "max_points": 50000, "abs_points": 50000, "zmax_points": 50000, "smooth_linear_points": 50000,
        "friction_points": 100000, "friction_pairs": 20000, "smooth_distance_points": 5000,
        "min_center_exactly_on_switch": 2000, "max_center_exactly_on_switch": 2000, "abs_center_exactly_on_switch": 2000,
        "friction_center_exactly_on_switch": 2000,
        "min_inside_within_8ulp": 10000, "min_outside_within_8ulp": 10000, "max_inside_within_8ulp": 10000,
        "max_outside_within_8ulp": 10000, "abs_inside_within_8ulp": 10000, "abs_outside_within_8ulp": 10000,
        "min_inband_ratio_ge_1e6": 10000, "min_inband_ratio_ge_1e10": 3000, "max_inband_ratio_ge_1e6": 10000,
        "max_inband_ratio_ge_1e10": 3000,
        "min_straddling_clusters": 2000, "max_straddling_clusters": 2000, "abs_straddling_clusters": 2000,
        "zmax_straddling_clusters": 2000, "smooth_linear_straddling_clusters": 2000, "friction_straddling_clusters": 5000,
        "min_continuity_pairs": 30000, "max_continuity_pairs": 30000, "abs_continuity_pairs": 30000, "zmax_continuity_pairs": 30000,
        "smooth_linear_continuity_pairs": 30000, "friction_continuity_pairs": 60000,
        "friction_inside": 50000, "friction_outside": 50000, "friction_exact_pythagorean_centres": 300,
        "friction_pairs_straddling": 10000, "friction_outside_ratio_ge_1e6": 5000,
        "smooth_linear_left_cap": 10000, "smooth_linear_right_cap": 10000, "smooth_linear_middle": 10000,
        "smooth_distance_inside_band": 2000, "smooth_distance_zero_tol": 300,
        "mode_jit_vmap": 500000, "mode_jit_scalar": 2000, "mode_eager_contract": 300, "contract_evaluations": 300,
    },
    "thorough": {"refine_children": 100000},
}
REQUIRED["all"].update({
    # interior non-smoothness candidates: exact ties, opposite arguments, exact zeros (+- 1, 2, 8 ulp / tiny neighbours)
    "min_exact_tie_points": 2000, "max_exact_tie_points": 2000, "min_exact_tie_ratio_ge_1e6": 500, "max_exact_tie_ratio_ge_1e6": 500,
    "min_exact_tie_at_zero": 50, "max_exact_tie_at_zero": 50,
    "min_tie_centres": 2000, "max_tie_centres": 2000, "min_tie_neighbours": 30000, "max_tie_neighbours": 30000,
    "min_opposite_centres_inside_band": 500, "max_opposite_centres_inside_band": 500,
    "min_zero_centres_inside_band": 500, "max_zero_centres_inside_band": 500,
    "abs_zero_centres": 1000, "abs_exact_zero_points": 1000, "zmax_zero_centres": 1000,
    "smooth_linear_end_centres": 1000, "friction_zero_centres": 3000, "friction_exact_zero_points": 3000,
})
WATCHDOG_S = {"quick": 1800, "thorough": 4 * 3600}

ULPS = 16.0
LD = onp.longdouble
COST = {"zmax": 3.0, "smooth_distance": 2.5, "friction2": 2.0, "friction3": 1.2}
TARGETS = ["min", "max", "abs", "zmax", "smooth_linear", "friction1", "friction2", "friction3", "smooth_distance"]


def build_cases(tier, seed):
    cases = []
    if tier == "quick":
        ncase, nclus, nfree = 16, 600, 6000
    else:
        ncase, nclus, nfree = 1200, 2500, 20000
    for t in TARGETS:
        for i in range(ncase):
            c = {"cls": t, "group": "%s/%d" % (t, i % 2), "cost": COST.get(t, 1.0), "nclus": nclus, "nfree": nfree,
                 "seed": derive_seed(seed, PROPERTY, t, i)}
            if tier == "thorough" and t in ("min", "max"):
                c["refine_rounds"] = 4
            cases.append(c)
    return cases


# ------------------------------------------------------------------------------------------------------ helpers

def _ld(a):
    return onp.asarray(a, dtype=LD)


def _judge(res, clause, obs, allowed, wit_fn, n_extra=True):
    """obs <= allowed elementwise; records the worst ratio with its witness."""
    obs = onp.asarray(obs, dtype=float)
    allowed = onp.asarray(allowed, dtype=float)
    if obs.size == 0:
        return
    with onp.errstate(all="ignore"):
        r = onp.where(allowed > 0, obs / allowed, onp.where(obs <= 0, 0.0, onp.inf))
    r = onp.where(onp.isfinite(obs), r, onp.inf)
    j = int(onp.argmax(r))
    nbad = int(onp.sum(r > 1.0))
    d = wit_fn(j)
    d["n_violating_points"] = nbad
    d["n_points"] = int(obs.size)
    res.bound(clause, float(obs[j]), float(allowed[j]), d, None)
    res.checks += int(obs.size) - 1


def _diag(res, clause, obs, allowed):
    """diagnostic ratio: recorded under diag_*, never a verdict."""
    obs = onp.asarray(obs, dtype=float)
    allowed = onp.asarray(allowed, dtype=float)
    if obs.size == 0:
        return
    with onp.errstate(all="ignore"):
        r = onp.where(allowed > 0, obs / allowed, 0.0)
    r = onp.where(onp.isfinite(r), r, 1e300)
    j = int(onp.argmax(r))
    res.ratio("diag_" + clause, min(float(obs[j]), 1e300), float(allowed[j]))
    res.checks -= 1
    res.count("diag_evaluations", int(obs.size))


def _decades(res, e):
    e = onp.asarray(e, dtype=float)
    e = e[e > 0]
    for k in onp.unique(onp.floor(onp.log10(e) + 1e-12).astype(int)):
        res.obs.setdefault("_dec", set()).add(int(k))


def _finish_decades(res):
    s = res.obs.pop("_dec", set())
    for k in s:
        res.count("width_decade_1e%d" % k)


def _cluster_pairs(cluster, center):
    """index arrays (member, its centre)"""
    cluster = onp.asarray(cluster)
    idx_c = {}
    for i in onp.nonzero(center)[0]:
        idx_c[int(cluster[i])] = int(i)
    mem = onp.nonzero((cluster >= 0) & (~center))[0]
    cen = onp.array([idx_c[int(cluster[i])] for i in mem], dtype=int)
    return mem, cen


def _straddling(res, name, cluster, inside):
    """number of clusters that contain points on both sides of the switch"""
    cl = onp.asarray(cluster)
    sel = cl >= 0
    n = int(cl[sel].max()) + 1 if sel.any() else 0
    has_in = onp.zeros(n, bool)
    has_out = onp.zeros(n, bool)
    has_in[cl[sel & inside]] = True
    has_out[cl[sel & ~inside]] = True
    k = int(onp.sum(has_in & has_out))
    res.count(name + "_straddling_clusters", k)
    if k:
        res.nontrivial = True
    return k


_FN = {}


def _fn(key, builder):
    if key not in _FN:
        _FN[key] = builder()
    return _FN[key]


# --------------------------------------------------------------------------------------- contracts (eager, concrete)

class SmoothContractViolation(AssertionError):
    pass


_CONTRACT = {"installed": False, "n": 0, "failed": []}


def _concrete(*a):
    import jax
    return not any(isinstance(v, jax.core.Tracer) for v in a)


def _min_clauses(x, y, e, v):
    """(clause, observed, allowed) triples of the smooth-min statement, long double."""
    X, Y, E, V = _ld(x), _ld(y), _ld(e), _ld(v)
    m = onp.minimum(X, Y)
    inside = onp.abs(X - Y) < E
    scale = onp.maximum(onp.maximum(onp.abs(onp.asarray(x, float)), onp.abs(onp.asarray(y, float))), onp.asarray(e, float))
    tol = ULPS * EPS * scale
    return [("not_above_true", V - m, tol), ("within_quarter_width", (m - V) - E / 4, tol),
            ("equals_true_outside_band", onp.where(inside, 0.0, onp.abs(V - m)), tol)], inside, scale, tol


def smooth_min_postcondition(x, y, eps, result):
    if not _concrete(x, y, eps, result):
        return True
    _CONTRACT["n"] += 1
    cl, _, _, _ = _min_clauses(float(x), float(y), float(eps), float(result))
    bad = [c for c, o, a in cl if not float(o) <= float(a)]
    if bad:
        _CONTRACT["failed"].append(("min", bad, float(x), float(y), float(eps), float(result)))
    return not bad


def smooth_max_postcondition(x, y, eps, result):
    if not _concrete(x, y, eps, result):
        return True
    _CONTRACT["n"] += 1
    cl, _, _, _ = _min_clauses(-float(x), -float(y), float(eps), -float(result))
    bad = [c for c, o, a in cl if not float(o) <= float(a)]
    if bad:
        _CONTRACT["failed"].append(("max", bad, float(x), float(y), float(eps), float(result)))
    return not bad


def smooth_abs_postcondition(x, eps, result):
    if not _concrete(x, eps, result):
        return True
    _CONTRACT["n"] += 1
    cl, _, _, _ = _min_clauses(-float(x), float(x), float(eps), -float(result))
    bad = [c for c, o, a in cl if not float(o) <= float(a)]
    if bad:
        _CONTRACT["failed"].append(("abs", bad, float(x), float(eps), float(result)))
    return not bad


def _friction_clauses(s, mu, sreg, v):
    S = _ld(s)
    nrm = onp.sqrt(onp.sum(S * S, axis=-1))
    MU, R, V = _ld(mu), _ld(sreg), _ld(v)
    inside = nrm <= R
    scale = onp.asarray(mu, float) * onp.maximum(onp.asarray(nrm, float), onp.asarray(sreg, float))
    tol = ULPS * EPS * scale
    return [("nonnegative", -V, tol), ("below_coulomb", V - MU * nrm, tol),
            ("equals_coulomb_minus_half_sreg_outside", onp.where(inside, 0.0, onp.abs(V - MU * (nrm - R / 2))), tol)], inside, nrm, scale, tol


def friction_postcondition(sPerp, frictionParams, result):
    if not _concrete(sPerp, frictionParams.mu, frictionParams.sReg, result):
        return True
    _CONTRACT["n"] += 1
    cl = _friction_clauses(onp.asarray(sPerp, float), float(frictionParams.mu), float(frictionParams.sReg), float(result))[0]
    bad = [c for c, o, a in cl if not float(o) <= float(a)]
    if bad:
        _CONTRACT["failed"].append(("friction", bad, onp.asarray(sPerp).tolist(), float(frictionParams.mu), float(frictionParams.sReg), float(result)))
    return not bad


def smooth_contract_error():
    return SmoothContractViolation(str(_CONTRACT["failed"][-1:]))


def _install_contracts():
    if _CONTRACT["installed"]:
        return
    import icontract
    from optimism import SmoothFunctions as SF
    from optimism.contact import Friction
    SF.min = icontract.ensure(smooth_min_postcondition, error=smooth_contract_error)(SF.min)
    SF.max = icontract.ensure(smooth_max_postcondition, error=smooth_contract_error)(SF.max)
    SF.abs = icontract.ensure(smooth_abs_postcondition, error=smooth_contract_error)(SF.abs)
    Friction.compute_friction_energy_from_perp_slip = icontract.ensure(friction_postcondition, error=smooth_contract_error)(
        Friction.compute_friction_energy_from_perp_slip)
    _CONTRACT["installed"] = True


def _eager_contract_calls(res, name, call, rows):
    """call the wrapped module attribute eagerly (concrete values -> the contract is evaluated, may raise)."""
    n0 = _CONTRACT["n"]
    for row in rows:
        try:
            call(*row)
        except SmoothContractViolation as ex:
            res.expect(name + "_contract", False, {"args": [onp.asarray(r).tolist() for r in row], "failed": str(ex)[:300]})
        else:
            res.expect(name + "_contract", True)
        res.count("mode_eager_contract")
    res.count("contract_evaluations", _CONTRACT["n"] - n0)


# ------------------------------------------------------------------------------------------------- min / max / abs

def _run_minlike(res, case, name):
    """name in ('min', 'max', 'abs').  max and abs are judged through the mirror identities
    max(x,y) -> -min(-x,-y),  abs(x) -> -min(-x, x)."""
    import jax
    from optimism import SmoothFunctions as SF
    rng = rng_of(case["seed"])
    if name == "abs":
        P = G.gen_one_sided(rng, case["nclus"], case["nfree"], (-0.5, 0.5))
        x, e = P["x"], P["e"]
        f = _fn("abs", lambda: jax.jit(jax.vmap(jax.value_and_grad(lambda a, w: SF.abs(a, w)))))
        f1 = _fn("abs1", lambda: jax.jit(jax.value_and_grad(lambda a, w: SF.abs(a, w))))
        v, gx = [onp.asarray(a) for a in f(x, e)]
        vs, gs = [onp.asarray(a) for a in f(-x, e)]
        mx, my, mv = -x, x, -v
        args = lambda j: {"x": float(x[j]), "eps": float(e[j]), "value": float(v[j]), "grad": float(gx[j])}
    else:
        P = G.gen_minmax(rng, case["nclus"], case["nfree"])
        x, y, e = P["x"], P["y"], P["e"]
        f = _fn(name, lambda: jax.jit(jax.vmap(jax.value_and_grad(lambda a, b, w: getattr(SF, name)(a, b, w), argnums=(0, 1)))))
        f1 = _fn(name + "1", lambda: jax.jit(jax.value_and_grad(lambda a, b, w: getattr(SF, name)(a, b, w), argnums=(0, 1))))
        v, (gx, gy) = f(x, y, e)
        v, gx, gy = onp.asarray(v), onp.asarray(gx), onp.asarray(gy)
        vs, (gsx, gsy) = f(y, x, e)
        vs, gsx, gsy = onp.asarray(vs), onp.asarray(gsx), onp.asarray(gsy)
        sgn = 1.0 if name == "min" else -1.0
        mx, my, mv = sgn * x, sgn * y, sgn * v
        args = lambda j: {"x": float(x[j]), "y": float(y[j]), "eps": float(e[j]), "value": float(v[j]), "grad": [float(gx[j]), float(gy[j])]}
    n = len(v)
    res.count(name + "_points", n)
    res.count("mode_jit_vmap", n)
    _decades(res, e)

    clauses, inside, scale, tol = _min_clauses(mx, my, e, mv)
    for cname, obs, allowed in clauses:
        _judge(res, "%s_%s" % (name, cname), obs, allowed, args)
    _judge(res, "%s_symmetric" % name, onp.abs(_ld(v) - _ld(vs)), tol, args)
    res.count(name + "_bitwise_equal_outside_band", int(onp.sum((~inside) & (mv == onp.minimum(mx, my)))))
    res.count(name + "_outside_band", int(onp.sum(~inside)))
    res.count(name + "_inside_band", int(onp.sum(inside)))

    # regimes actually exercised
    with onp.errstate(all="ignore"):
        ratio = onp.where(e > 0, scale / e, onp.inf)
    for thr, lab in ((1e6, "1e6"), (1e10, "1e10"), (1e14, "1e14")):
        res.count("%s_inband_ratio_ge_%s" % (name, lab), int(onp.sum(inside & (ratio >= thr))))
    cl = P["cluster"]
    kind = P["kind"]
    sw = kind == G.KIND_SWITCH
    near = (cl >= 0) & sw
    res.count(name + "_inside_within_8ulp", int(onp.sum(near & inside)))
    res.count(name + "_outside_within_8ulp", int(onp.sum(near & ~inside)))
    cen = P["center"]
    cen_sw = cen & sw
    if name == "abs":
        res.count("abs_center_exactly_on_switch", int(onp.sum(cen_sw)))
    else:
        ex = G.exact_difference(x[cen_sw], y[cen_sw], e[cen_sw])
        res.count(name + "_center_exactly_on_switch", int(onp.sum(ex)))
        res.count(name + "_center_rounded_difference", int(onp.sum(~ex)))
    _straddling(res, name, onp.where(sw, cl, -1), inside)
    # interior points where a non-smooth primitive would show (ties, opposite arguments, zeros)
    for kk, lab in ((G.KIND_TIE, "tie"), (G.KIND_ANTI, "opposite"), (G.KIND_ZERO, "zero")):
        res.count("%s_%s_centres" % (name, lab), int(onp.sum(cen & (kind == kk))))
        res.count("%s_%s_centres_inside_band" % (name, lab), int(onp.sum(cen & (kind == kk) & inside)))
        res.count("%s_%s_neighbours" % (name, lab), int(onp.sum((~cen) & (kind == kk))))

    # gradients.  In min-coordinates: g_min = d min_s / d(mx, my)
    if name == "abs":
        # abs_s(x) = -min_s(-x, x): d/dx = gmx - gmy with (gmx + gmy = 1) in the band; outside the band |x|' = sign(x)
        X = _ld(x)
        d_out = onp.where(X > 0, 1.0, -1.0)
        Lg = onp.where(e > 0, 2.0 / onp.maximum(e, 1e-300), 0.0)            # abs_s = eps/4 + x^2/eps in the band: curvature 2/eps
        gtol = ULPS * EPS * (1.0 + Lg * scale)
        outside_ok = (~inside) & (x != 0)
        _judge(res, "abs_gradient_is_sign_outside_band", onp.abs(gx[outside_ok] - d_out[outside_ok].astype(float)), gtol[outside_ok],
               lambda j: args(int(onp.nonzero(outside_ok)[0][j])))
        # abs_s is even (symmetry clause) and C1, hence its derivative is odd and vanishes at 0
        _judge(res, "abs_derivative_odd", onp.abs(gx + gs), 2.0 * gtol, lambda j: dict(args(j), grad_at_minus_x=float(gs[j])))
        iz = onp.nonzero((x == 0) & (e > 0))[0]
        _judge(res, "abs_derivative_zero_at_zero", onp.abs(gx[iz]), gtol[iz], lambda j: args(int(iz[j])))
        res.count("abs_exact_zero_points", len(iz))
        # closed form of the code's blend inside the band: d/dx = 2x/eps   (diagnostic)
        ins = inside & (e > 0)
        _diag(res, "abs_blend_gradient_model", onp.abs(gx[ins] - (2.0 * X[ins] / _ld(e)[ins]).astype(float)), gtol[ins])
        mem, cenidx = _cluster_pairs(cl, cen)
        dist = onp.abs(_ld(x[mem]) - _ld(x[cenidx])).astype(float)
        de = onp.abs(_ld(e[mem]) - _ld(e[cenidx])).astype(float)
        emin = onp.minimum(e[mem], e[cenidx])
        sc = onp.maximum(scale[mem], scale[cenidx])
        _judge(res, "abs_value_continuous_across_switch", onp.abs(_ld(v[mem]) - _ld(v[cenidx])).astype(float),
               ULPS * EPS * sc + dist + 0.25 * de, lambda j: {"member": args(int(mem[j])), "centre": args(int(cenidx[j]))})
        _judge(res, "abs_gradient_continuous_across_switch", onp.abs(gx[mem] - gx[cenidx]),
               ULPS * EPS * (1.0 + 2.0 * sc / emin) + (2.0 * dist + de) / emin, lambda j: {"member": args(int(mem[j])), "centre": args(int(cenidx[j]))})
        res.count("abs_continuity_pairs", len(mem))
    else:
        sgn = 1.0 if name == "min" else -1.0
        # d max_s/dx (x,y) = d min_s/d mx (-x,-y): same numbers, no sign change
        X, Y, E = _ld(mx), _ld(my), _ld(e)
        first = X < Y
        tie = X == Y
        ex_x = onp.where(first, 1.0, 0.0)
        ex_y = 1.0 - ex_x
        with onp.errstate(all="ignore"):
            Lg = onp.where(e > 0, 0.5 / onp.maximum(e, 1e-300), 0.0)
        gtol = ULPS * EPS * (1.0 + Lg * scale)
        out_ok = (~inside) & (~tie)
        io = onp.nonzero(out_ok)[0]
        _judge(res, name + "_gradient_is_selector_outside_band",
               onp.maximum(onp.abs(gx[io] - ex_x[io]), onp.abs(gy[io] - ex_y[io])), gtol[io], lambda j: args(int(io[j])))
        # symmetry clause f(x,y) = f(y,x) differentiated: d1 f(x,y) = d2 f(y,x) at every point where f is differentiable
        # (everywhere for eps > 0 except exact ties outside the band, which only occur for eps = 0)
        dif = ~(tie & ~inside)
        idf = onp.nonzero(dif)[0]
        _judge(res, name + "_gradient_swap_symmetric", onp.maximum(onp.abs(gx[idf] - gsy[idf]), onp.abs(gy[idf] - gsx[idf])), 2.0 * gtol[idf],
               lambda j: dict(args(int(idf[j])), grad_swapped_args=[float(gsx[idf[j]]), float(gsy[idf[j]])]))
        # ... hence equal partial derivatives on the diagonal x == y (inside the band whenever eps > 0)
        it = onp.nonzero(tie & inside)[0]
        _judge(res, name + "_equal_partials_at_exact_tie", onp.abs(gx[it] - gy[it]), 2.0 * gtol[it], lambda j: args(int(it[j])))
        res.count(name + "_exact_tie_points", len(it))
        res.count(name + "_exact_tie_ratio_ge_1e6", int(onp.sum(ratio[it] >= 1e6)))
        res.count(name + "_exact_tie_at_zero", int(onp.sum(x[it] == 0)))
        _diag(res, name + "_half_half_at_exact_tie", onp.maximum(onp.abs(gx[it] - 0.5), onp.abs(gy[it] - 0.5)), gtol[it])
        # partition of unity d/dx + d/dy = 1 holds for any C1 function with f(x+t, y+t) = f(x,y)+t ... stated only as diag
        ins = inside & (e > 0)
        ii = onp.nonzero(ins)[0]
        dd = ((X - Y) / onp.where(E > 0, E, 1.0)).astype(float)
        _diag(res, name + "_blend_gradient_model", onp.maximum(onp.abs(gx[ii] - (0.5 - 0.5 * dd[ii])), onp.abs(gy[ii] - (0.5 + 0.5 * dd[ii]))), gtol[ii])
        mem, cenidx = _cluster_pairs(cl, cen)
        dist = (onp.abs(_ld(x[mem]) - _ld(x[cenidx])) + onp.abs(_ld(y[mem]) - _ld(y[cenidx]))).astype(float)
        de = onp.abs(_ld(e[mem]) - _ld(e[cenidx])).astype(float)
        emin = onp.minimum(e[mem], e[cenidx])
        sc = onp.maximum(scale[mem], scale[cenidx])
        ok = emin > 0
        mem, cenidx, dist, de, emin, sc = mem[ok], cenidx[ok], dist[ok], de[ok], emin[ok], sc[ok]
        wit = lambda j: {"member": args(int(mem[j])), "centre": args(int(cenidx[j]))}
        _judge(res, name + "_value_continuous_across_switch", onp.abs(_ld(v[mem]) - _ld(v[cenidx])).astype(float),
               ULPS * EPS * sc + dist + 0.25 * de, wit)
        _judge(res, name + "_gradient_continuous_across_switch",
               onp.maximum(onp.abs(gx[mem] - gx[cenidx]), onp.abs(gy[mem] - gy[cenidx])),
               ULPS * EPS * (1.0 + 0.5 * sc / emin) + 0.5 * (dist + de) / emin, wit)
        res.count(name + "_continuity_pairs", len(mem))
    gfin = onp.isfinite(gx) if name == "abs" else (onp.isfinite(gx) & onp.isfinite(gy))
    _judge(res, name + "_value_and_gradient_finite", onp.where(gfin & onp.isfinite(v), 0.0, 1.0), 0.5 * onp.ones(n), args)

    # other execution modes on a sub-sample: scalar jit must satisfy the same clauses; eager goes through the contract
    sub = onp.concatenate([onp.nonzero(cl >= 0)[0][:: max(1, int(onp.sum(cl >= 0)) // 40)][:40], onp.arange(n - 24, n)])
    if name == "abs":
        v1 = onp.array([float(f1(x[j], e[j])[0]) for j in sub])
        c1 = _min_clauses(-x[sub], x[sub], e[sub], -v1)[0]
    else:
        v1 = onp.array([float(f1(x[j], y[j], e[j])[0]) for j in sub])
        c1 = _min_clauses(mx[sub], my[sub], e[sub], sgn * v1)[0]
    for cname, obs, allowed in c1:
        _judge(res, "%s_%s" % (name, cname), obs, allowed, lambda j: dict(args(int(sub[j])), mode="jit_scalar", value=float(v1[j])))
    res.count("mode_jit_scalar", len(sub))
    res.count(name + "_scalar_equals_batched", int(onp.sum(v1 == v[sub])))
    es = sub[:: max(1, len(sub) // 12)][:12]
    if name == "abs":
        _eager_contract_calls(res, name, lambda a, w: SF.abs(a, w), [(x[j], e[j]) for j in es])
    else:
        _eager_contract_calls(res, name, lambda a, b, w: getattr(SF, name)(a, b, w), [(x[j], y[j], e[j]) for j in es])
        if case.get("refine_rounds"):
            _refine_minmax(res, name, f, sgn, x, y, e, int(case["refine_rounds"]), rng)
    _finish_decades(res)
    return res


def _refine_minmax(res, name, f, sgn, x, y, e, rounds, rng):
    """Margin-guided search (thorough tier): keep the 32 points with the largest observed/allowed ratio over the value
    clauses, perturb them (rescale arguments, shrink / grow the width, step by one ulp, snap onto the switch) and keep any
    child whose ratio grows.  Children are ordinary evaluations: they are judged by the same clauses."""
    keep = 32

    def score(xx, yy, ee):
        v = onp.asarray(f(xx, yy, ee)[0])
        cl, _, _, _ = _min_clauses(sgn * xx, sgn * yy, ee, sgn * v)
        rr = onp.zeros(len(v))
        for cname, obs, allowed in cl:
            with onp.errstate(all="ignore"):
                q = onp.where(allowed > 0, onp.asarray(obs, float) / allowed, onp.where(onp.asarray(obs, float) <= 0, 0.0, onp.inf))
            rr = onp.maximum(rr, onp.where(onp.isfinite(onp.asarray(obs, float)), q, onp.inf))
        return v, cl, rr

    _, _, r = score(x, y, e)
    top = onp.argsort(r)[-keep:]
    px, py, pe, pr = x[top], y[top], e[top], r[top]
    res.ratio("refine_%s_round0" % name, float(pr.max()), 1.0)
    for rnd in range(rounds):
        cx, cy, ce = [], [], []
        for k in (-3.0, -1.0, 1.0, 3.0):
            cx.append(px * 2.0 ** k); cy.append(py * 2.0 ** k); ce.append(pe)
        for q in (0.1, 0.5, 2.0, 10.0):
            cx.append(px); cy.append(py); ce.append(onp.clip(pe * q, 1e-10, 1.0))
        for k in (-1, 1):
            cx.append(G.ulp_shift(px, k)); cy.append(py); ce.append(pe)
            cx.append(px); cy.append(G.ulp_shift(py, k)); ce.append(pe)
        sd = onp.where(px >= py, 1.0, -1.0)
        cx.append(py + sd * pe); cy.append(py); ce.append(pe)                      # snap onto the switch
        cx.append(py + sd * pe * (1.0 - 2.0 ** -(10 + 10 * rnd))); cy.append(py); ce.append(pe)   # just inside
        cx.append(py + sd * pe * rng.uniform(0.0, 1.0, len(px))); cy.append(py); ce.append(pe)    # anywhere in the band
        cx, cy, ce = [onp.clip(onp.concatenate(a), -1e6, 1e6) for a in (cx, cy, ce)]
        ce = onp.abs(ce)
        v, cl, rr = score(cx, cy, ce)
        wit = lambda j: {"x": float(cx[j]), "y": float(cy[j]), "eps": float(ce[j]), "value": float(v[j]), "refine_round": rnd + 1}
        for cname, obs, allowed in cl:
            _judge(res, "%s_%s" % (name, cname), obs, allowed, wit)
        res.count("refine_children", len(v))
        res.count("mode_jit_vmap", len(v))
        ax, ay, ae, ar = onp.concatenate([px, cx]), onp.concatenate([py, cy]), onp.concatenate([pe, ce]), onp.concatenate([pr, rr])
        top = onp.argsort(ar)[-keep:]
        res.count("refine_children_kept", int(onp.sum(top >= len(px))))
        px, py, pe, pr = ax[top], ay[top], ae[top], ar[top]
        res.ratio("refine_%s_round%d" % (name, rnd + 1), float(pr.max()), 1.0)


# ------------------------------------------------------------------------------------------------------ zmax (ramp)

def _run_zmax(res, case):
    import jax
    from optimism import SmoothFunctions as SF
    rng = rng_of(case["seed"])
    P = G.gen_one_sided(rng, case["nclus"], case["nfree"], (-1.0, 1.0))
    x, e = P["x"], P["e"]
    f = _fn("zmax", lambda: jax.jit(jax.vmap(jax.value_and_grad(lambda a, w: SF.zmax(a, w)))))
    f1 = _fn("zmax1", lambda: jax.jit(jax.value_and_grad(lambda a, w: SF.zmax(a, w))))
    v, g = [onp.asarray(a) for a in f(x, e)]
    n = len(v)
    res.count("zmax_points", n)
    res.count("mode_jit_vmap", n)
    _decades(res, e)
    args = lambda j: {"x": float(x[j]), "eps": float(e[j]), "value": float(v[j]), "grad": float(g[j])}
    X, E, V = _ld(x), _ld(e), _ld(v)
    inside = onp.abs(X) < E
    scale = onp.maximum(onp.abs(x), e)
    tol = ULPS * EPS * scale
    cl, cen = P["cluster"], P["center"]
    _straddling(res, "zmax", onp.where(P["kind"] == G.KIND_SWITCH, cl, -1), inside)
    res.count("zmax_zero_centres", int(onp.sum(cen & (P["kind"] == G.KIND_ZERO))))
    res.count("zmax_inside_band", int(onp.sum(inside)))
    res.count("zmax_outside_band", int(onp.sum(~inside)))
    mem, ci = _cluster_pairs(cl, cen)
    dist = onp.abs(_ld(x[mem]) - _ld(x[ci])).astype(float)
    de = onp.abs(_ld(e[mem]) - _ld(e[ci])).astype(float)
    emin = onp.minimum(e[mem], e[ci])
    sc = onp.maximum(scale[mem], scale[ci])
    wit = lambda j: {"member": args(int(mem[j])), "centre": args(int(ci[j]))}
    _judge(res, "zmax_value_continuous_across_switch", onp.abs(V[mem] - V[ci]).astype(float), ULPS * EPS * sc + dist + 0.5 * de, wit)
    _judge(res, "zmax_gradient_continuous_across_switch", onp.abs(g[mem] - g[ci]),
           ULPS * EPS * (1.0 + 0.5 * sc / emin) + 0.5 * (dist + de) / emin, wit)
    res.count("zmax_continuity_pairs", len(mem))
    _judge(res, "zmax_value_and_gradient_finite", onp.where(onp.isfinite(v) & onp.isfinite(g), 0.0, 1.0), 0.5 * onp.ones(n), args)
    # closed forms of the ramp (diagnostic only: the property claims C1 for the ramp, nothing else)
    ramp = onp.maximum(X, 0)
    _diag(res, "zmax_not_below_ramp", (ramp - V).astype(float), tol)
    _diag(res, "zmax_within_quarter_width_of_ramp", (V - ramp - E / 4).astype(float), tol)
    gm = onp.where(X >= E, 1.0, onp.where(X <= -E, 0.0, ((X + E) / (2 * E)).astype(float)))
    _diag(res, "zmax_gradient_model", onp.abs(g - gm), ULPS * EPS * (1.0 + 0.5 * scale / e))
    sub = onp.concatenate([onp.nonzero(cl >= 0)[0][:: max(1, int(onp.sum(cl >= 0)) // 40)][:40], onp.arange(n - 24, n)])
    v1 = onp.array([[float(a) for a in f1(x[j], e[j])] for j in sub])
    # the scalar-jit executions must tell the same story as the batched ones
    _judge(res, "zmax_scalar_jit_agrees_with_batched", onp.abs(v1[:, 0] - v[sub]), tol[sub], lambda j: dict(args(int(sub[j])), scalar=v1[j].tolist()))
    res.count("mode_jit_scalar", len(sub))
    for j in sub[:4]:
        ve = float(SF.zmax(float(x[j]), float(e[j])))
        res.expect("zmax_eager_agrees_with_batched", abs(ve - v[j]) <= tol[j], dict(args(int(j)), eager=ve))
        res.count("mode_eager")
    _finish_decades(res)
    return res


# --------------------------------------------------------------------------------------------------- smooth_linear

def _run_smooth_linear(res, case):
    import jax
    from optimism.contact import MortarContact
    rng = rng_of(case["seed"])
    P = G.gen_smooth_linear(rng, case["nclus"], case["nfree"])
    xi, l = P["xi"], P["l"]
    f = _fn("sl", lambda: jax.jit(jax.vmap(jax.value_and_grad(lambda a, w: MortarContact.smooth_linear(a, w)))))
    f1 = _fn("sl1", lambda: jax.jit(jax.value_and_grad(lambda a, w: MortarContact.smooth_linear(a, w))))
    v, g = [onp.asarray(a) for a in f(xi, l)]
    n = len(v)
    res.count("smooth_linear_points", n)
    res.count("mode_jit_vmap", n)
    _decades(res, l)
    args = lambda j: {"xi": float(xi[j]), "l": float(l[j]), "value": float(v[j]), "grad": float(g[j])}
    X, Lw, V = _ld(xi), _ld(l), _ld(v)
    left = X < Lw
    right = X > 1 - Lw
    middle = ~(left | right)
    scale = onp.maximum(onp.maximum(onp.abs(xi), 1.0), l)
    cl, cen = P["cluster"], P["center"]
    _straddling(res, "smooth_linear", onp.where(P["kind"] == G.KIND_SWITCH, cl, -1), middle)
    res.count("smooth_linear_end_centres", int(onp.sum(cen & (P["kind"] == G.KIND_ZERO))))
    res.count("smooth_linear_left_cap", int(onp.sum(left)))
    res.count("smooth_linear_right_cap", int(onp.sum(right)))
    res.count("smooth_linear_middle", int(onp.sum(middle)))
    mem, ci = _cluster_pairs(cl, cen)
    dist = onp.abs(_ld(xi[mem]) - _ld(xi[ci])).astype(float)
    dl = onp.abs(_ld(l[mem]) - _ld(l[ci])).astype(float)
    lmin = onp.minimum(l[mem], l[ci])
    sc = onp.maximum(scale[mem], scale[ci])
    wit = lambda j: {"member": args(int(mem[j])), "centre": args(int(ci[j]))}
    _judge(res, "smooth_linear_value_continuous_across_switch", onp.abs(V[mem] - V[ci]).astype(float), ULPS * EPS * sc + dist + 1.5 * dl, wit)
    _judge(res, "smooth_linear_gradient_continuous_across_switch", onp.abs(g[mem] - g[ci]),
           ULPS * EPS * (1.0 + sc / lmin) + (dist + dl) / lmin, wit)
    res.count("smooth_linear_continuity_pairs", len(mem))
    _judge(res, "smooth_linear_value_and_gradient_finite", onp.where(onp.isfinite(v) & onp.isfinite(g), 0.0, 1.0), 0.5 * onp.ones(n), args)
    vm = onp.where(left, 0.5 * X * X / Lw, onp.where(right, 1 - Lw - 0.5 * (1 - X) * (1 - X) / Lw, X - 0.5 * Lw))
    gm = onp.where(left, X / Lw, onp.where(right, (1 - X) / Lw, 1.0))
    _diag(res, "smooth_linear_value_model", onp.abs(V - vm).astype(float), ULPS * EPS * scale * (1.0 + onp.abs(xi) / l))
    _diag(res, "smooth_linear_gradient_model", onp.abs(g - gm.astype(float)), ULPS * EPS * (1.0 + scale / l))
    sub = onp.concatenate([onp.nonzero(cl >= 0)[0][:: max(1, int(onp.sum(cl >= 0)) // 40)][:40], onp.arange(n - 24, n)])
    v1 = onp.array([[float(a) for a in f1(xi[j], l[j])] for j in sub])
    _judge(res, "smooth_linear_scalar_jit_agrees_with_batched", onp.abs(v1[:, 0] - v[sub]), ULPS * EPS * scale[sub],
           lambda j: dict(args(int(sub[j])), scalar=v1[j].tolist()))
    res.count("mode_jit_scalar", len(sub))
    for j in sub[:8]:
        ve = float(MortarContact.smooth_linear(float(xi[j]), float(l[j])))
        res.expect("smooth_linear_eager_agrees_with_batched", abs(ve - v[j]) <= ULPS * EPS * scale[j], dict(args(int(j)), eager=ve))
        res.count("mode_eager")
    _finish_decades(res)
    return res


# -------------------------------------------------------------------------------------------------------- friction

def _run_friction(res, case, dim):
    import jax
    from optimism.contact import Friction

    def energy(s, mu, sreg):
        return Friction.compute_friction_energy_from_perp_slip(s, Friction.Params(mu, sreg))

    rng = rng_of(case["seed"])
    P = G.gen_friction(rng, case["nclus"], case["nfree"], dim)
    s, mu, sreg = P["s"], P["mu"], P["sreg"]
    f = _fn("fr%d" % dim, lambda: jax.jit(jax.vmap(jax.value_and_grad(energy))))
    f1 = _fn("fr1_%d" % dim, lambda: jax.jit(jax.value_and_grad(energy)))
    v, g = [onp.asarray(a) for a in f(s, mu, sreg)]
    n = len(v)
    res.count("friction_points", n)
    res.count("mode_jit_vmap", n)
    _decades(res, sreg)
    args = lambda j: {"s": s[j].tolist(), "mu": float(mu[j]), "sReg": float(sreg[j]), "value": float(v[j]), "grad": g[j].tolist()}
    clauses, inside, nrm, scale, tol = _friction_clauses(s, mu, sreg, v)
    for cname, obs, allowed in clauses:
        _judge(res, "friction_" + cname, obs, allowed, args)
    res.count("friction_inside", int(onp.sum(inside)))
    res.count("friction_outside", int(onp.sum(~inside)))
    res.count("friction_exactly_negative", int(onp.sum(v < 0)))
    with onp.errstate(all="ignore"):
        rr = onp.asarray(nrm, float) / sreg
    res.count("friction_outside_ratio_ge_1e6", int(onp.sum(rr >= 1e6)))
    cl, cen = P["cluster"], P["center"]
    _straddling(res, "friction", onp.where(P["kind"] == G.KIND_SWITCH, cl, -1), inside)
    res.count("friction_zero_centres", int(onp.sum(cen & (P["kind"] == G.KIND_ZERO))))
    # phi >= 0 = phi(0) and C1: the gradient vanishes at s = 0
    i0 = onp.nonzero(onp.all(s == 0, axis=1))[0]
    _judge(res, "friction_gradient_zero_at_origin", onp.sqrt(onp.sum(g[i0] ** 2, axis=1)), ULPS * EPS * mu[i0], lambda j: args(int(i0[j])))
    res.count("friction_exact_zero_points", len(i0))
    # how many centres are on the switch in exact arithmetic
    from fractions import Fraction
    k = 0
    for i in onp.nonzero(cen & (P["kind"] == G.KIND_SWITCH))[0]:
        if sum(Fraction(float(c)) ** 2 for c in s[i]) == Fraction(float(sreg[i])) ** 2:
            k += 1
            if dim > 1 and onp.count_nonzero(s[i]) > 1:
                res.count("friction_exact_pythagorean_centres")
    res.count("friction_center_exactly_on_switch", k)
    # gradient: outside the radius it is mu * s/|s|; finite everywhere
    gnorm_err = onp.sqrt(onp.sum((_ld(g) - (_ld(mu) / onp.where(nrm > 0, nrm, 1))[:, None] * _ld(s)) ** 2, axis=1)).astype(float)
    io = onp.nonzero(~inside)[0]
    _judge(res, "friction_gradient_is_coulomb_direction_outside", gnorm_err[io], ULPS * EPS * mu[io] * (1.0 + 1.0), lambda j: args(int(io[j])))
    _judge(res, "friction_gradient_finite", onp.where(onp.all(onp.isfinite(g), axis=1), 0.0, 1.0), 0.5 * onp.ones(n), args)
    ii = onp.nonzero(inside)[0]
    gin = onp.sqrt(onp.sum((_ld(g) - (_ld(mu) / _ld(sreg))[:, None] * _ld(s)) ** 2, axis=1)).astype(float)
    _diag(res, "friction_quadratic_gradient_model", gin[ii], ULPS * EPS * mu[ii])
    # C1 across |s| = sReg
    mem, ci = _cluster_pairs(cl, cen)
    dist = onp.sqrt(onp.sum((_ld(s[mem]) - _ld(s[ci])) ** 2, axis=1)).astype(float)
    dr = onp.abs(_ld(sreg[mem]) - _ld(sreg[ci])).astype(float)
    rmin = onp.minimum(sreg[mem], sreg[ci])
    sc = onp.maximum(scale[mem], scale[ci])
    wit = lambda j: {"member": args(int(mem[j])), "centre": args(int(ci[j]))}
    _judge(res, "friction_value_continuous_across_switch", onp.abs(_ld(v[mem]) - _ld(v[ci])).astype(float),
           ULPS * EPS * sc + mu[mem] * (dist + 0.5 * dr), wit)
    gdiff = onp.sqrt(onp.sum((_ld(g[mem]) - _ld(g[ci])) ** 2, axis=1)).astype(float)
    _judge(res, "friction_gradient_continuous_across_switch", gdiff, ULPS * EPS * mu[mem] * 2.0 + mu[mem] * (dist + dr) / rmin * (1 + 1e-9), wit)
    res.count("friction_continuity_pairs", len(mem))

    # convexity: midpoint inequality and monotone gradient on pairs
    Q = G.gen_friction_pairs(rng, max(200, case["nfree"] // 2), dim)
    a, b, m2, r2 = Q["a"], Q["b"], Q["mu"], Q["sreg"]
    mid = 0.5 * (a + b)
    va, ga = [onp.asarray(t) for t in f(a, m2, r2)]
    vb, gb = [onp.asarray(t) for t in f(b, m2, r2)]
    vm, _ = [onp.asarray(t) for t in f(mid, m2, r2)]
    na = onp.linalg.norm(a, axis=1); nb = onp.linalg.norm(b, axis=1)
    psc = m2 * onp.maximum(onp.maximum(na, nb), r2)
    pw = lambda j: {"a": a[j].tolist(), "b": b[j].tolist(), "mu": float(m2[j]), "sReg": float(r2[j]),
                    "phi_a": float(va[j]), "phi_b": float(vb[j]), "phi_mid": float(vm[j])}
    _judge(res, "friction_convex_midpoint", (_ld(vm) - 0.5 * (_ld(va) + _ld(vb))).astype(float), ULPS * EPS * psc, pw)
    dab = _ld(b) - _ld(a)
    lab = onp.sqrt(onp.sum(dab * dab, axis=1)).astype(float)
    mono = onp.sum((_ld(gb) - _ld(ga)) * dab, axis=1).astype(float)
    _judge(res, "friction_convex_monotone_gradient", -mono, ULPS * EPS * m2 * 2.0 * lab + 1e-300, pw)
    res.count("friction_pairs", len(va))
    res.count("friction_pairs_straddling", int(onp.sum((na <= r2) != (nb <= r2))))
    res.count("mode_jit_vmap", 3 * len(va))

    sub = onp.concatenate([onp.nonzero(cl >= 0)[0][:: max(1, int(onp.sum(cl >= 0)) // 30)][:30], onp.arange(n - 16, n)])
    v1 = onp.array([float(f1(s[j], mu[j], sreg[j])[0]) for j in sub])
    for cname, obs, allowed in _friction_clauses(s[sub], mu[sub], sreg[sub], v1)[0]:
        _judge(res, "friction_" + cname, obs, allowed, lambda j: dict(args(int(sub[j])), mode="jit_scalar", value=float(v1[j])))
    res.count("mode_jit_scalar", len(sub))
    es = sub[:: max(1, len(sub) // 12)][:12]
    _eager_contract_calls(res, "friction", lambda sv, m, r: Friction.compute_friction_energy_from_perp_slip(sv, Friction.Params(m, r)),
                          [(s[j], float(mu[j]), float(sreg[j])) for j in es])
    _finish_decades(res)
    return res


# ------------------------------------------------------------------------------------------------- smooth_distance

def _run_smooth_distance(res, case):
    import jax
    from optimism.contact import EdgeCpp
    rng = rng_of(case["seed"])
    n = max(400, (case["nclus"] * 19 + case["nfree"]) // 8)
    P = G.gen_smooth_distance(rng, n)
    edges, p, stol = P["edges"], P["p"], P["stol"]
    f = _fn("sd", lambda: jax.jit(jax.vmap(lambda ed, q, t: EdgeCpp.smooth_distance(ed, q, t))))
    out = onp.asarray(f(edges, p, stol))
    res.count("smooth_distance_points", n)
    res.count("mode_jit_vmap", n)
    E = _ld(edges)
    Pq = _ld(p)

    def nrm(ed):
        t = ed[:, 1] - ed[:, 0]
        nn = onp.stack([t[:, 1], -t[:, 0]], 1)
        return nn / onp.sqrt(onp.sum(nn * nn, 1))[:, None]

    def cpp(ed):
        a, b = ed[:, 0], ed[:, 1]
        vv = b - a
        t = -onp.sum(vv * (a - Pq), 1) / onp.sum(vv * vv, 1)
        t = onp.clip(t, 0, 1)
        return (1 - t)[:, None] * a + t[:, None] * b

    def tri(p0, p1, p2):
        return 0.5 * (p0[:, 0] * (p1[:, 1] - p2[:, 1]) + p1[:, 0] * (p2[:, 1] - p0[:, 1]) + p2[:, 0] * (p0[:, 1] - p1[:, 1]))

    e0, e1 = E[:, 0], E[:, 1]
    a12 = tri(e0[:, 0], e0[:, 1], e1[:, 0]) + tri(e1[:, 0], e1[:, 1], e0[:, 0])
    sign = onp.where(a12 > 0, -1.0, 1.0)
    n0, n1 = nrm(e0), nrm(e1)
    pd0 = onp.sum((Pq - cpp(e0)) * n0, 1)
    pd1 = onp.sum((Pq - cpp(e1)) * n1, 1)
    cr = onp.abs(n0[:, 0] * n1[:, 1] - n0[:, 1] * n1[:, 0])
    tol = onp.where(cr > 1e-14, cr * _ld(stol), 0)
    m = onp.minimum(sign * pd0, sign * pd1)
    r = sign * _ld(out)
    geo = onp.max(onp.abs(edges.reshape(n, -1)), axis=1) + onp.max(onp.abs(p), axis=1)
    tau = 64.0 * EPS * geo
    amb = onp.abs(a12) < 64 * EPS * geo * geo      # orientation sign decided by rounding: skip those
    inside = (onp.abs(pd0 - pd1) < tol) & ~amb
    ok = ~amb
    io = onp.nonzero(ok)[0]
    wit = lambda j: {"edges": edges[io[j]].tolist(), "p": p[io[j]].tolist(), "smoothingTol": float(stol[io[j]]), "value": float(out[io[j]]),
                     "plane_distances": [float(pd0[io[j]]), float(pd1[io[j]])], "tol": float(tol[io[j]])}
    _judge(res, "smooth_distance_not_above_min", (r - m)[io].astype(float), tau[io], wit)
    _judge(res, "smooth_distance_within_quarter_tol", ((m - r) - tol / 4)[io].astype(float), tau[io], wit)
    outside = ok & (onp.abs(pd0 - pd1) >= tol + 2 * tau)
    jo = onp.nonzero(outside)[0]
    _judge(res, "smooth_distance_equals_min_outside_band", onp.abs(r - m)[jo].astype(float), tau[jo],
           lambda j: {"edges": edges[jo[j]].tolist(), "p": p[jo[j]].tolist(), "smoothingTol": float(stol[jo[j]]), "value": float(out[jo[j]])})
    # (nearly) collinear edges: the orientation sign is rounding noise, but the width is zero, so the result must be the
    # plain minimum or the plain maximum of the two plane distances
    par = onp.nonzero(tol == 0)[0]
    lo2, hi2 = onp.minimum(pd0, pd1), onp.maximum(pd0, pd1)
    O = _ld(out)
    _judge(res, "smooth_distance_zero_width_is_plain_min_or_max", onp.minimum(onp.abs(O - lo2), onp.abs(O - hi2))[par].astype(float), tau[par],
           lambda j: {"edges": edges[par[j]].tolist(), "p": p[par[j]].tolist(), "value": float(out[par[j]]),
                      "plane_distances": [float(pd0[par[j]]), float(pd1[par[j]])]})
    res.count("smooth_distance_inside_band", int(onp.sum(inside)))
    res.count("smooth_distance_zero_tol", len(par))
    res.count("smooth_distance_orientation_ambiguous_skipped", int(onp.sum(amb)))
    with onp.errstate(all="ignore"):
        res.count("smooth_distance_inband_ratio_ge_1e6", int(onp.sum(inside & (onp.abs(m) >= 1e6 * tol))))
    if int(onp.sum(inside)) and int(onp.sum(outside)):
        res.nontrivial = True
    # eager calls go through the SmoothFunctions.min contract (EdgeCpp looks the attribute up at call time)
    n0c = _CONTRACT["n"]
    for j in io[:6]:
        try:
            EdgeCpp.smooth_distance(edges[j], p[j], float(stol[j]))
            res.expect("smooth_distance_min_contract", True)
        except SmoothContractViolation as ex:
            res.expect("smooth_distance_min_contract", False, {"edges": edges[j].tolist(), "p": p[j].tolist(), "failed": str(ex)[:300]})
        res.count("mode_eager_contract")
    res.count("contract_evaluations", _CONTRACT["n"] - n0c)
    res.count("smooth_distance_contract_evaluations", _CONTRACT["n"] - n0c)
    return res


def on_exception(case, exc, res):
    """Every generated argument is admissible for these functions: an exception raised inside the library is a violation."""
    from vlib.common import raised_in_library, library_frames
    if raised_in_library(exc):
        res.violate("library_raised", {"type": type(exc).__name__, "msg": str(exc)[:200], "frames": library_frames(exc)})
        return True
    return False


def run_case(case):
    assert onp.finfo(LD).nmant >= 63, "long double oracle needs a 64-bit mantissa"
    _install_contracts()
    res = Res(case)
    t = case["cls"]
    if t in ("min", "max", "abs"):
        return _run_minlike(res, case, t)
    if t == "zmax":
        return _run_zmax(res, case)
    if t == "smooth_linear":
        return _run_smooth_linear(res, case)
    if t.startswith("friction"):
        return _run_friction(res, case, int(t[-1]))
    if t == "smooth_distance":
        return _run_smooth_distance(res, case)
    raise KeyError(t)


def finalize(results, tier):
    decs = set()
    for r in results:
        for k in r.get("obs", {}):
            if k.startswith("width_decade_1e"):
                decs.add(k)
    out = {"width_decades": sorted(decs)}
    if len(decs) < 10:
        out["_missing"] = ["only %d width decades seen" % len(decs)]
    return out
