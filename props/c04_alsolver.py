"""C04 — the augmented-Lagrangian solve (general c(x) >= 0 and the bound-constrained front end) returns a KKT point.

Monitors
  * boundary recorder: the public `callback(x, p)` closes over the objective and snapshots (lam, kappa) at the start of
    every outer iteration and at return  ->  offline trace checker (lam >= 0 after every outer iteration, kappa never
    decreases).  The trace is checked for runs that end in the solver's "failed to converge" exception as well.
  * at a normal return the harness recomputes grad f, c, J with its own (numpy, closed form) functions and checks
    stationarity / feasibility / multiplier sign / complementarity with the tolerances implied by the termination rule
    (vlib/oracles/c04_kkt.py), the penalty-growth factor being taken from the observed kappa.
  * reference optimum for the convex classes: planted KKT point (vlib/gen/c04_problems.py), cross-checked by exact
    active-set enumeration when f is quadratic and the constraints are <= 6 linear rows.
Non-return (NameError after max_al_iters) is vacuous for the KKT clause; per-class return rates have a floor.
"""
import contextlib
import io

import numpy as onp

from vlib.common import Res, derive_seed, rng_of

PROPERTY = "C04"
LEVEL = "exploration"
RULE = ("case = (problem class, dimension 2..12, objective family quad/logcosh/quartic/nonconvex, constraint kinds "
        "lin/ball/parab, activity pattern inactive/active/mixed/weakly-active/duplicated rows/infeasible start, lam0 >= 0, "
        "kappa0 in [0.1,100] (uniform or per-constraint), first- vs second-order multiplier update, "
        "num_initial_low_order_iterations, penalty_scaling in {1,1.5,4,10}, tol in {1e-10,1e-8,1e-6}, p=None vs Params, "
        "warm start on/off; bound front end: index set, stiffness scaling over 0..6 decades, constraintStiffnessScaling). "
        "Non-trivial = the solver returned normally after >= 2 outer iterations on a problem with >= 1 constraint; "
        "distinct = canonical hash of the case parameters (the problem data are a function of the case seed).")
ASSUMPTIONS = [
    "CHOLMOD test double /verif/vlib/shims/sksparse (dense numpy Cholesky) stands in for scikit-sparse",
    "harness-side closed-form numpy gradients/Jacobians of the generated f and c are correct (they are written "
    "separately from the jax functions handed to the library; the two were compared via jax autodiff during development)",
    "planted KKT point: KKT is sufficient for a convex program with strongly convex f, so x* is the unique minimiser",
    "KKT tolerances are derived from the solver's termination rule ||[grad L_A; phi_FB(kappa0 c, lam)]|| < tol with "
    "(2-sqrt2)|min(a,b)| <= |phi_FB(a,b)|, constant rounded up to 1.8, plus 64 eps x magnitude for the re-evaluation",
    "distance to x*: rigorous strong-convexity bound from the *allowed* KKT residuals (O(sqrt(tol)) in degenerate cases); "
    "the tighter estimate 4*allowed_stationarity/mu of DESIGN is only counted (xstar_tight_*)",
    "a run that ends in the solver's NameError('Loadstep failed to converge') is outside the property's hypothesis "
    "(vacuous for the KKT clause); return-rate floor 60% per Slater-feasible convex class guards against silence",
]
CONVEX_CLASSES = ["lin_inactive", "lin_active", "lin_mixed", "lin_weak", "lin_dup", "lin_infeas_start", "ball", "parab",
                  "nonquad_f", "bound_front", "bound_front_scaled"]
SEQ_CLASSES = ["seq_al", "seq_alternating", "seq_front"]
ALL_CLASSES = CONVEX_CLASSES + ["nonconvex"] + SEQ_CLASSES
REQUIRED = {
    "all": dict([("class:" + c, 16) for c in ALL_CLASSES] + [
        ("returned", 160), ("kkt_checked", 160), ("trace_snapshots", 1500), ("xstar_checked", 140), ("enum_checked", 50),
        ("runs_with_penalty_increase", 25), ("returned_first_order", 50), ("returned_second_order", 50),
        ("start_infeasible", 40), ("weakly_active_constraints", 25), ("duplicate_rows", 15),
        ("returned_penalty_scaling_1", 10), ("returned_penalty_scaling_gt1", 80), ("returned_nonconvex", 8),
        ("second_order_steps_accepted", 100), ("returned_params_p", 40), ("returned_warm_start", 15),
        ("returned_front_end_scaled", 10), ("returned_front_end_unscaled", 8),
        ("sequences", 40), ("seq_steps_returned", 150),
        ("seq_cold_steps_p_changed:al", 30), ("seq_warm_steps_p_changed:al", 30),
        ("seq_cold_steps_p_changed:front", 15), ("seq_warm_steps_p_changed:front", 15),
        ("seq_cold_steps_p_changed:alternating", 15), ("seq_steps_multipliers_carried_over", 30),
        ("seq_steps_multipliers_reset", 20), ("seq_steps_constraint_data_changed", 60), ("seq_xstar_checked", 120),
        ("seq_enum_checked", 30),
    ]),
}
WATCHDOG_S = {"quick": 1800, "thorough": 4 * 3600}
MAX_VACUOUS_FRACTION = 0.4
MIN_RETURN_RATE = 0.6

PEN = [4.0, 1.0, 10.0, 1.5]
TOLS = [1e-8, 1e-10, 1e-6]
LOW = [3, 0, 1]


def _settings(i, rng):
    return {"second_order": bool(i % 2), "penalty_scaling": PEN[(i // 2) % 4], "tol": TOLS[(i // 3) % 3],
            "n_low": LOW[(i // 2) % 3], "sub_tol_factor": float(rng.choice([1.0, 0.3])),
            "decrease_factor": float(rng.choice([0.75, 0.5, 0.9]))}


def build_cases(tier, seed):
    quick = tier == "quick"
    per = {"lin_inactive": 20, "lin_active": 24, "lin_mixed": 24, "lin_weak": 24, "lin_dup": 24, "lin_infeas_start": 24,
           "ball": 20, "parab": 20, "nonquad_f": 28, "nonconvex": 24, "bound_front": 24, "bound_front_scaled": 28}
    if not quick:
        per = {k: v * 28 for k, v in per.items()}
    nmax = 8 if quick else 12
    cases = []
    gi = 0
    seq_per = {"seq_al": 32, "seq_alternating": 16, "seq_front": 24}
    if not quick:
        seq_per = {k: v * 28 for k, v in seq_per.items()}
    for cls, cnt in seq_per.items():
        for i in range(cnt):
            s = derive_seed(seed, PROPERTY, cls, i)
            rng = rng_of(derive_seed(s, "params"))
            c = {"cls": cls, "seed": s, "group": "s%d" % (gi % 32), "cost": 3.0}
            gi += 1
            c.update(_settings(i, rng))
            c["penalty_scaling"] = [4.0, 10.0, 1.5, 4.0][(i // 2) % 4]      # sequences need returns: no penalty_scaling = 1
            c["n"] = int(rng.integers(2, min(nmax, 8) + 1))
            c["steps"] = int(rng.integers(3, 6))
            c["warm"] = bool((i // 2) % 2)                                    # decorrelated from second_order = i % 2
            c["carry_multipliers"] = bool((i // 4) % 2 == 0)
            c["fkind"] = ["quad", "quad", "logcosh", "quartic"][i % 4] if cls != "seq_front" else ["quad", "logcosh"][(i // 4) % 2]
            if cls == "seq_front":
                c["n"] = max(3, c["n"])
                c["scaled"] = bool((i // 8) % 2) if cnt > 8 else bool(i % 2)
                c["decades"] = int(rng.choice([1, 3, 6])) if c["scaled"] else 0
                c["css"] = float(rng.choice([1.0, 0.5, 4.0])) if c["scaled"] else 1.0
            else:
                c["m"] = int(rng.integers(1, 6))
            cases.append(c)
    for cls, cnt in per.items():
        for i in range(cnt):
            s = derive_seed(seed, PROPERTY, cls, i)
            rng = rng_of(derive_seed(s, "params"))
            c = {"cls": cls, "seed": s, "group": "g%d" % (gi % 32), "cost": 1.0}
            gi += 1
            c.update(_settings(i, rng))
            n = int(rng.integers(2, nmax + 1))
            c["n"] = n
            c["p_mode"] = "params" if rng.random() < 0.5 else "none"
            c["warm"] = bool(c["p_mode"] == "params" and rng.random() < 0.4)
            if cls.startswith("lin_"):
                act = cls[4:]
                c["activity"] = act
                c["fkind"] = "quad"
                mmax = min(6, n) if act in ("active", "infeas_start") else 6
                m = int(rng.integers(1 if act != "mixed" else 2, mmax + 1)) if mmax >= 2 else 1
                if act == "dup":
                    m = min(m, 4)
                if act == "mixed" and n == 1:
                    m = 2
                c["kinds"] = ["lin"] * m
            elif cls in ("ball", "parab"):
                c["activity"] = ["active", "mixed", "inactive", "weak", "infeas_start"][i % 5]
                c["fkind"] = "quad" if i % 3 else "logcosh"
                m = int(rng.integers(1, 4))
                kinds = [cls] + [str(rng.choice(["lin", cls])) for _ in range(m - 1)]
                if c["activity"] == "mixed" and len(kinds) < 2:
                    kinds.append("lin")
                c["kinds"] = kinds
            elif cls == "nonquad_f":
                c["activity"] = ["active", "mixed", "weak", "dup", "infeas_start", "inactive"][i % 6]
                c["fkind"] = ["logcosh", "quartic"][i % 2]
                m = int(rng.integers(2, 5))
                c["kinds"] = [str(rng.choice(["lin", "lin", "ball", "parab"])) for _ in range(m)]
            elif cls == "nonconvex":
                c["fkind"] = "nonconvex"
                c["m_lin"] = int(rng.integers(0, 4))
            else:
                c["fkind"] = ["quad", "logcosh"][i % 2]
                c["n"] = max(3, n)
                c["decades"] = 0 if cls == "bound_front" else int(rng.choice([1, 3, 6]))
                c["css"] = float(rng.choice([1.0, 0.5, 4.0])) if cls == "bound_front_scaled" else 1.0
                c["p_mode"] = "params"
                c["warm"] = bool(rng.random() < 0.5)
                c["update_precond"] = bool(rng.random() < 0.8) or c["warm"]
            cases.append(c)
    return cases


# ------------------------------------------------------------------------------------------------ worker side

def _events(text, res):
    res.count("second_order_steps_accepted", text.count("Total error after 2nd order update") - text.count("no improvement"))
    res.count("second_order_steps_rejected", text.count("no improvement"))
    res.count("penalty_increase_events", text.count("Poor progress on ncp detected"))
    res.count("gmres_solves", text.count("Number of GMRES iters"))


def _count_settings(res, case, returned):
    if not returned:
        res.count("raised_max_al_iters")
        return
    res.count("returned")
    res.count("returned_second_order" if case["second_order"] else "returned_first_order")
    res.count("returned_penalty_scaling_1" if case["penalty_scaling"] == 1.0 else "returned_penalty_scaling_gt1")
    res.count("returned_tol_%g" % case["tol"])
    if case.get("p_mode") == "params":
        res.count("returned_params_p")
    if case.get("warm"):
        res.count("returned_warm_start")


def _p_equal(a, b):
    if a is None or b is None:
        return a is b
    if len(a) != len(b):
        return False
    for u, v in zip(a, b):
        if (u is None) != (v is None):
            return False
        if u is not None and not onp.array_equal(onp.asarray(u), onp.asarray(v)):
            return False
    return True


def _solve_general(case, res):
    import jax.numpy as np
    from optimism import AlSolver, EquationSolver as es, Objective
    from optimism.ConstrainedObjective import ConstrainedObjective
    from vlib.gen import c04_problems as gen
    from vlib.oracles import c04_kkt as orc

    rng = rng_of(case["seed"])
    n = case["n"]
    if case["cls"] == "nonconvex":
        P = gen.make_nonconvex(rng, n, case["m_lin"])
    else:
        P = gen.make_convex(rng, n, case["fkind"], case["kinds"], case["activity"])
        if P["slater"] is None:
            res.inconclusive("generator could not certify a Slater point")
            return res
    m = len(P["cons"])
    lam0, kappa0 = gen.multipliers_and_penalties(rng, m)
    use_params = case["p_mode"] == "params"
    f, c = gen.jax_funcs(P, use_params)
    p = Objective.Params(np.array(P["b"]), None, None, None, np.array(0.0)) if use_params else None
    x0 = np.array(P["x0"])
    tol = case["tol"]
    alS = AlSolver.get_settings(penalty_scaling=case["penalty_scaling"], use_second_order_update=case["second_order"],
                                num_initial_low_order_iterations=case["n_low"], tol=tol,
                                target_constraint_decrease_factor=case["decrease_factor"], max_al_iters=100)
    subS = es.get_settings(tol=tol * case["sub_tol_factor"], debug_info=False)
    hist = []
    pseen = []
    buf = io.StringIO()
    returned = False
    x = None
    with contextlib.redirect_stdout(buf):
        obj = ConstrainedObjective(f, c, x0, p, np.array(lam0), np.array(kappa0))

        def cb(xx, pp):
            hist.append((onp.array(obj.lam, dtype=float), onp.array(obj.kappa, dtype=float)))
            pseen.append(pp is obj.p)

        try:
            x = AlSolver.augmented_lagrange_solve(obj, x0, p, alS, subS, callback=cb, useWarmStart=case["warm"])
            returned = True
        except NameError as e:
            if "failed to converge" not in str(e):
                raise
    _events(buf.getvalue(), res)
    res.count("start_infeasible", int(P["start_infeasible"]))
    res.count("weakly_active_constraints", P["n_weak"])
    res.count("duplicate_rows", P["n_dup"])
    res.count("constraints", m)
    for k in set(cc["kind"] for cc in P["cons"]):
        res.count("problems_with_" + k)
    res.count("fkind_" + P["fkind"])

    ninc = orc.trace_check(res, hist)
    if ninc:
        res.count("runs_with_penalty_increase")
    res.count("outer_iterations", max(0, len(hist) - 1))
    res.expect("callback_p_is_objective_p", all(pseen) and _p_equal(obj.p, p), {"n": len(pseen)})
    _count_settings(res, case, returned)
    if not returned:
        res.vacuous("solver raised NameError after max_al_iters (no normal return)")
        return res

    x = onp.array(x, dtype=float)
    lam = onp.array(obj.lam, dtype=float)
    kap = onp.array(obj.kappa, dtype=float)
    res.expect("return_snapshot_is_final_state", len(hist) >= 2 and onp.array_equal(hist[-1][0], lam) and onp.array_equal(hist[-1][1], kap))
    res.expect("returned_point_finite", bool(onp.all(onp.isfinite(x))), {"x": x[:12]})
    gf = gen.grad_f(P, x)
    gmag = float(onp.linalg.norm(onp.abs(P["A"]) @ onp.abs(x) + onp.abs(P["b"]) + onp.abs(gen.f_extra_grad(P, x))))
    cv = gen.cons(P, x)
    J = gen.jac(P, x)
    al, stat = orc.kkt_check(res, tol, x, lam, gf, cv, J, kap, kappa0, gmag, gen.cons_mag(P, x))
    if case["cls"] == "nonconvex":
        res.count("returned_nonconvex")
        if onp.linalg.eigvalsh(gen.hess_f(P, x))[0] < 0:
            res.count("returned_at_point_with_negative_curvature_of_f")
    else:
        xs = P["xstar"]
        R = orc.xstar_radius(P["mu"], al, P["lamstar"]) + 64 * orc.EPS * (1 + onp.linalg.norm(xs))
        dist = float(onp.linalg.norm(x - xs))
        res.bound("xstar_distance", dist, R, {"x": x[:12], "xstar": xs[:12], "mu": P["mu"]})
        res.count("xstar_checked")
        res.count("xstar_tight_ok" if dist <= 4 * al["stat"] / P["mu"] else "xstar_tight_exceeded")
        if case["cls"].startswith("lin_") and m <= 6:
            G = onp.array([cc["g"] for cc in P["cons"]])
            h = onp.array([cc["h"] for cc in P["cons"]])
            xe, le, cnt = orc.enumerate_active_sets(P["A"], P["b"], G, h)
            if xe is None or onp.linalg.norm(xe - xs) > 1e-7 * (1 + onp.linalg.norm(xs)):
                res.inconclusive("oracles disagree: active-set enumeration vs planted optimum")
            else:
                res.bound("enum_distance", float(onp.linalg.norm(x - xe)), R, {"x": x[:12], "x_enum": xe[:12]})
                res.count("enum_checked")
                res.count("enum_kkt_systems", 2 ** m)
    res.nontrivial = bool(m >= 1 and len(hist) >= 3)
    return res


def _solve_front_end(case, res):
    import jax.numpy as np
    from scipy.sparse import csc_matrix
    from optimism import AlSolver, EquationSolver as es, Objective
    from optimism import BoundConstrainedObjective as BCO, BoundConstrainedSolver as BCS
    from vlib.gen import c04_problems as gen
    from vlib.oracles import c04_kkt as orc

    rng = rng_of(case["seed"])
    n = case["n"]
    scaled = case["cls"] == "bound_front_scaled"
    P = gen.make_bound_problem(rng, n, case["fkind"], case["decades"])
    idx = P["idx"]
    k = len(idx)
    f, _ = gen.jax_funcs(P, True)
    p = Objective.Params(np.array(P["b"]), None, None, None, np.array(0.0))
    x0 = np.array(P["x0"])
    tol = case["tol"]

    class PS(Objective.PrecondStrategy):
        def __init__(self):
            pass

        def initialize(self, x, pp):
            self.K = csc_matrix(gen.hess_f(P, onp.array(x, dtype=float)))

    alS = AlSolver.get_settings(penalty_scaling=case["penalty_scaling"], use_second_order_update=case["second_order"],
                                num_initial_low_order_iterations=case["n_low"], tol=tol,
                                target_constraint_decrease_factor=case["decrease_factor"], max_al_iters=100)
    subS = es.get_settings(tol=tol * case["sub_tol_factor"], debug_info=False)
    hist = []
    pseen = []
    buf = io.StringIO()
    returned = False
    x = None
    with contextlib.redirect_stdout(buf):
        if scaled:
            bo = BCO.BoundConstrainedObjective(f, x0, p, np.array(idx), constraintStiffnessScaling=case["css"], precondStrategy=PS())
        else:
            bo = BCO.BoundConstrainedObjective(f, x0, p, np.array(idx))
        kappa_constructed = onp.array(bo.kappa, dtype=float)
        lam_constructed = onp.array(bo.lam, dtype=float)

        def cb(xx, pp):
            hist.append((onp.array(bo.lam, dtype=float), onp.array(bo.kappa, dtype=float)))
            pseen.append(pp is bo.p)

        if not case["update_precond"]:
            bo.update_precond(bo.scaling * x0)     # the caller's job when refresh is switched off
        try:
            x = BCS.bound_constrained_solve(bo, x0, p, alS, subS, callback=cb, useWarmStart=case["warm"],
                                            updatePrecond=case["update_precond"])
            returned = True
        except NameError as e:
            if "failed to converge" not in str(e):
                raise
    _events(buf.getvalue(), res)
    res.count("start_infeasible", int(P["start_infeasible"]))
    res.count("weakly_active_constraints", P["n_weak"])
    res.count("constraints", k)
    res.count("fkind_" + P["fkind"])
    res.count("front_end_initial_multipliers_nonnegative" if onp.all(lam_constructed >= 0) else "front_end_initial_multipliers_negative")
    ninc = orc.trace_check(res, hist)
    if ninc:
        res.count("runs_with_penalty_increase")
    res.count("outer_iterations", max(0, len(hist) - 1))
    res.expect("callback_p_is_objective_p", all(pseen) and _p_equal(bo.p, p), {"n": len(pseen)})
    _count_settings(res, case, returned)
    if not returned:
        res.vacuous("solver raised NameError after max_al_iters (no normal return)")
        return res
    res.count("returned_front_end_scaled" if scaled else "returned_front_end_unscaled")

    x = onp.array(x, dtype=float)
    S = onp.array(bo.scaling, dtype=float) * onp.ones(n)
    res.expect("scaling_positive_finite", bool(onp.all(onp.isfinite(S)) and onp.all(S > 0)), {"scaling": S[:12]})
    # what the documented construction gives: sqrt(diag K0), constrained dofs divided by constraintStiffnessScaling
    if scaled:
        Sexp = onp.sqrt(onp.diag(gen.hess_f(P, P["x0"])))
        Sexp[idx] = Sexp[idx] / case["css"]
    else:
        Sexp = onp.ones(n)
    res.count("scaling_matches_stiffness_model" if onp.allclose(S, Sexp, rtol=1e-12, atol=0) else "scaling_differs_from_stiffness_model")
    res.count("scaling_decades_x10", int(10 * onp.log10(S.max() / S.min())))
    mu_orig = onp.array(bo.get_multipliers(), dtype=float)       # multipliers of x_i >= 0 in original variables
    lam = mu_orig / S[idx]                                      # the scaled problem's multipliers
    kap = onp.array(bo.kappa, dtype=float)
    res.expect("returned_point_finite", bool(onp.all(onp.isfinite(x))), {"x": x[:12]})
    # KKT of the scaled problem  min f(S^-1 xbar), xbar_I >= 0  (that is where the requested tolerance applies),
    # evaluated from the returned x and the public multipliers only
    xbar = S * x
    gf = gen.grad_f(P, x) / S
    gmag = float(onp.linalg.norm((onp.abs(P["A"]) @ onp.abs(x) + onp.abs(P["b"]) + onp.abs(gen.f_extra_grad(P, x))) / S))
    E = onp.zeros((k, n))
    E[onp.arange(k), idx] = 1.0
    cv = xbar[idx]
    al, stat = orc.kkt_check(res, tol, xbar, lam, gf, cv, E, kap, kappa_constructed, gmag, onp.abs(cv))
    # in original variables as well (sign / feasibility / complementarity are scale free up to the positive factor)
    res.expect("multipliers_nonnegative_original", bool(onp.all(mu_orig >= 0)), {"mu": mu_orig[:12]})
    Hbar = P["A"] / S[:, None] / S[None, :]
    mubar = float(onp.linalg.eigvalsh(0.5 * (Hbar + Hbar.T))[0])
    xsbar = S * P["xstar"]
    R = orc.xstar_radius(mubar, al, P["lamstar"] / S[idx]) + 64 * orc.EPS * (1 + onp.linalg.norm(xsbar))
    dist = float(onp.linalg.norm(xbar - xsbar))
    res.bound("xstar_distance", dist, R, {"xbar": xbar[:12], "xstar_bar": xsbar[:12], "mu_bar": mubar})
    res.count("xstar_checked")
    res.count("xstar_tight_ok" if dist <= 4 * al["stat"] / mubar else "xstar_tight_exceeded")
    res.nontrivial = bool(len(hist) >= 3)
    return res


def _check_general_return(res, gen, orc, P, x, lam, kap, kappa0, tol, detail):
    """KKT + planted optimum (+ enumeration) for one normal return, evaluated with the harness's own functions for P."""
    gf = gen.grad_f(P, x)
    gmag = float(onp.linalg.norm(onp.abs(P["A"]) @ onp.abs(x) + onp.abs(P["b"]) + onp.abs(gen.f_extra_grad(P, x))))
    cv = gen.cons(P, x)
    J = gen.jac(P, x)
    al, stat = orc.kkt_check(res, tol, x, lam, gf, cv, J, kap, kappa0, gmag, gen.cons_mag(P, x), prefix="seq_")
    xs = P["xstar"]
    R = orc.xstar_radius(P["mu"], al, P["lamstar"]) + 64 * orc.EPS * (1 + onp.linalg.norm(xs))
    res.bound("seq_xstar_distance", float(onp.linalg.norm(x - xs)), R, dict(detail, x=x[:12], xstar=xs[:12]))
    res.count("seq_xstar_checked")
    m = len(P["cons"])
    if P["fkind"] == "quad" and m <= 6:
        G = onp.array([cc["g"] for cc in P["cons"]])
        h = onp.array([cc["h"] for cc in P["cons"]])
        xe, le, cnt = orc.enumerate_active_sets(P["A"], P["b"], G, h)
        if xe is None or onp.linalg.norm(xe - xs) > 1e-7 * (1 + onp.linalg.norm(xs)):
            res.inconclusive("oracles disagree: active-set enumeration vs planted optimum")
        else:
            res.bound("seq_enum_distance", float(onp.linalg.norm(x - xe)), R, dict(detail, x=x[:12], x_enum=xe[:12]))
            res.count("seq_enum_checked")


def _solve_al_sequence(case, res):
    """One (seq_al) or two alternately used (seq_alternating) ConstrainedObjective instances, each reused for several
    load steps with objective data (p[0]) and constraint data (p[2]) changing; start = previous solution."""
    import jax.numpy as np
    from optimism import AlSolver, EquationSolver as es, Objective
    from optimism.ConstrainedObjective import ConstrainedObjective
    from vlib.gen import c04_problems as gen
    from vlib.oracles import c04_kkt as orc

    rng = rng_of(case["seed"])
    alternating = case["cls"] == "seq_alternating"
    tag = "alternating" if alternating else "al"
    tol = case["tol"]
    alS = AlSolver.get_settings(penalty_scaling=case["penalty_scaling"], use_second_order_update=case["second_order"],
                                num_initial_low_order_iterations=case["n_low"], tol=tol,
                                target_constraint_decrease_factor=case["decrease_factor"], max_al_iters=100)
    subS = es.get_settings(tol=tol * case["sub_tol_factor"], debug_info=False)
    buf = io.StringIO()
    insts = []
    for j in range(2 if alternating else 1):
        n = case["n"] if j == 0 else int(rng.integers(2, 9))
        m = case["m"] if j == 0 else int(rng.integers(1, 6))
        P, steps = gen.make_al_sequence(rng, n, case["fkind"], m, case["steps"])
        lam0, kappa0 = gen.multipliers_and_penalties(rng, m)
        f, c = gen.jax_funcs_sequence(P)
        st0 = steps[0]
        p0 = Objective.Params(np.array(st0["b"]), None, np.array(st0["h"]), None, np.array(0.0))
        with contextlib.redirect_stdout(buf):
            obj = ConstrainedObjective(f, c, np.array(P["x0"]), p0, np.array(lam0), np.array(kappa0))
        insts.append({"P": P, "steps": steps, "obj": obj, "kappa0": kappa0, "x": np.array(P["x0"]), "cur": st0, "m": m, "alive": True})
    res.count("sequences")
    nret = 0
    for k in range(1, case["steps"] + 1):
        for inst in insts:
            if not inst["alive"]:
                continue
            obj, P, st = inst["obj"], inst["P"], inst["steps"][k]
            Pk = gen.step_problem(P, st)
            Pk["xstar"], Pk["lamstar"] = st["xstar"], st["lamstar"]
            p = Objective.Params(np.array(st["b"]), None, np.array(st["h"]), None, np.array(float(k)))
            if not case["carry_multipliers"]:
                lam_new, _ = gen.multipliers_and_penalties(rng, inst["m"])
                obj.lam = np.array(lam_new)
                obj.reset_kappa()
            hist = []

            def cb(xx, pp, obj=obj, hist=hist):
                hist.append((onp.array(obj.lam, dtype=float), onp.array(obj.kappa, dtype=float)))

            returned = False
            with contextlib.redirect_stdout(buf):
                try:
                    x = AlSolver.augmented_lagrange_solve(obj, inst["x"], p, alS, subS, callback=cb, useWarmStart=case["warm"])
                    returned = True
                except NameError as e:
                    if "failed to converge" not in str(e):
                        raise
            res.count("solves")
            ninc = orc.trace_check(res, hist, prefix="seq_")
            if ninc:
                res.count("runs_with_penalty_increase")
            res.count("outer_iterations", max(0, len(hist) - 1))
            _count_settings(res, case, returned)
            if not returned:
                inst["alive"] = False
                continue
            nret += 1
            res.count("seq_steps_returned")
            changed = not (onp.array_equal(st["b"], inst["cur"]["b"]) and onp.array_equal(st["h"], inst["cur"]["h"]))
            if changed:
                res.count("seq_%s_steps_p_changed:%s" % ("warm" if case["warm"] else "cold", tag))
            if not onp.array_equal(st["h"], inst["cur"]["h"]):
                res.count("seq_steps_constraint_data_changed")
            res.count("seq_steps_multipliers_carried_over" if case["carry_multipliers"] else "seq_steps_multipliers_reset")
            res.count("weakly_active_constraints", st["n_weak"])
            xr = onp.array(x, dtype=float)
            res.expect("returned_point_finite", bool(onp.all(onp.isfinite(xr))), {"x": xr[:12]})
            _check_general_return(res, gen, orc, Pk, xr, onp.array(obj.lam, dtype=float), onp.array(obj.kappa, dtype=float),
                                  inst["kappa0"], tol, {"step": k, "warm": case["warm"], "driver": tag})
            inst["x"] = x
            inst["cur"] = st
    _events(buf.getvalue(), res)
    if nret == 0:
        res.vacuous("no load step returned normally")
    res.nontrivial = nret >= 2
    return res


def _solve_front_sequence(case, res):
    """One BoundConstrainedObjective reused through bound_constrained_solve for several load steps (p[0] changes)."""
    import jax.numpy as np
    from scipy.sparse import csc_matrix
    from optimism import AlSolver, EquationSolver as es, Objective
    from optimism import BoundConstrainedObjective as BCO, BoundConstrainedSolver as BCS
    from vlib.gen import c04_problems as gen
    from vlib.oracles import c04_kkt as orc

    rng = rng_of(case["seed"])
    n = case["n"]
    P, steps = gen.make_front_sequence(rng, n, case["fkind"], case["decades"], case["steps"])
    idx = P["idx"]
    kk = len(idx)
    f, _ = gen.jax_funcs(P, True)
    tol = case["tol"]

    class PS(Objective.PrecondStrategy):
        def __init__(self):
            pass

        def initialize(self, x, pp):
            self.K = csc_matrix(gen.hess_f(P, onp.array(x, dtype=float)))

    alS = AlSolver.get_settings(penalty_scaling=case["penalty_scaling"], use_second_order_update=case["second_order"],
                                num_initial_low_order_iterations=case["n_low"], tol=tol,
                                target_constraint_decrease_factor=case["decrease_factor"], max_al_iters=100)
    subS = es.get_settings(tol=tol * case["sub_tol_factor"], debug_info=False)
    buf = io.StringIO()
    p0 = Objective.Params(np.array(steps[0]["b"]), None, None, None, np.array(0.0))
    x = np.array(P["x0"])
    with contextlib.redirect_stdout(buf):
        if case["scaled"]:
            bo = BCO.BoundConstrainedObjective(f, x, p0, np.array(idx), constraintStiffnessScaling=case["css"], precondStrategy=PS())
        else:
            bo = BCO.BoundConstrainedObjective(f, x, p0, np.array(idx))
    kappa0 = onp.array(bo.kappa, dtype=float)
    S = onp.array(bo.scaling, dtype=float) * onp.ones(n)
    res.expect("scaling_positive_finite", bool(onp.all(onp.isfinite(S)) and onp.all(S > 0)), {"scaling": S[:12]})
    E = onp.zeros((kk, n))
    E[onp.arange(kk), idx] = 1.0
    Hbar = P["A"] / S[:, None] / S[None, :]
    mubar = float(onp.linalg.eigvalsh(0.5 * (Hbar + Hbar.T))[0])
    res.count("sequences")
    cur = steps[0]
    nret = 0
    for k in range(1, case["steps"] + 1):
        st = steps[k]
        p = Objective.Params(np.array(st["b"]), None, None, None, np.array(float(k)))
        if not case["carry_multipliers"]:
            bo.lam = np.array(onp.abs(rng.standard_normal(kk)) * (rng.random(kk) < 0.7))
        hist = []

        def cb(xx, pp, hist=hist):
            hist.append((onp.array(bo.lam, dtype=float), onp.array(bo.kappa, dtype=float)))

        returned = False
        with contextlib.redirect_stdout(buf):
            try:
                x = BCS.bound_constrained_solve(bo, x, p, alS, subS, callback=cb, useWarmStart=case["warm"])
                returned = True
            except NameError as e:
                if "failed to converge" not in str(e):
                    raise
        res.count("solves")
        ninc = orc.trace_check(res, hist, prefix="seq_")
        if ninc:
            res.count("runs_with_penalty_increase")
        res.count("outer_iterations", max(0, len(hist) - 1))
        _count_settings(res, case, returned)
        if not returned:
            break
        nret += 1
        res.count("seq_steps_returned")
        res.count("returned_front_end_scaled" if case["scaled"] else "returned_front_end_unscaled")
        if not onp.array_equal(st["b"], cur["b"]):
            res.count("seq_%s_steps_p_changed:front" % ("warm" if case["warm"] else "cold"))
        res.count("seq_steps_multipliers_carried_over" if case["carry_multipliers"] else "seq_steps_multipliers_reset")
        res.count("weakly_active_constraints", st["n_weak"])
        xr = onp.array(x, dtype=float)
        res.expect("returned_point_finite", bool(onp.all(onp.isfinite(xr))), {"x": xr[:12]})
        mu_orig = onp.array(bo.get_multipliers(), dtype=float)
        lam = mu_orig / S[idx]
        kap = onp.array(bo.kappa, dtype=float)
        xbar = S * xr
        gf = gen.grad_f(P, xr, b=st["b"]) / S
        gmag = float(onp.linalg.norm((onp.abs(P["A"]) @ onp.abs(xr) + onp.abs(st["b"]) + onp.abs(gen.f_extra_grad(P, xr))) / S))
        cv = xbar[idx]
        al, stat = orc.kkt_check(res, tol, xbar, lam, gf, cv, E, kap, kappa0, gmag, onp.abs(cv), prefix="seq_")
        xsbar = S * st["xstar"]
        R = orc.xstar_radius(mubar, al, st["lamstar"] / S[idx]) + 64 * orc.EPS * (1 + onp.linalg.norm(xsbar))
        res.bound("seq_xstar_distance", float(onp.linalg.norm(xbar - xsbar)), R, {"step": k, "warm": case["warm"], "driver": "front"})
        res.count("seq_xstar_checked")
        cur = st
    _events(buf.getvalue(), res)
    if nret == 0:
        res.vacuous("no load step returned normally")
    res.nontrivial = nret >= 2
    return res


def run_case(case):
    res = Res(case)
    if case["cls"] in ("seq_al", "seq_alternating"):
        return _solve_al_sequence(case, res)
    if case["cls"] == "seq_front":
        return _solve_front_sequence(case, res)
    if case["cls"].startswith("bound_front"):
        return _solve_front_end(case, res)
    return _solve_general(case, res)


def finalize(results, tier):
    per = {}
    for r in results:
        cls = r["case"].get("cls")
        d = per.setdefault(cls, {"runs": 0, "returned": 0})
        if r.get("status") == "inconclusive":
            continue
        d["runs"] += int(r.get("obs", {}).get("solves", 1))
        d["returned"] += int(r.get("obs", {}).get("returned", 0))
    missing = []
    for cls in CONVEX_CLASSES + SEQ_CLASSES:
        d = per.get(cls)
        if d and d["runs"] and d["returned"] / d["runs"] < MIN_RETURN_RATE:
            missing.append("return rate of class %s = %d/%d < %.0f%%" % (cls, d["returned"], d["runs"], 100 * MIN_RETURN_RATE))
    out = {"return_rate_per_class": {k: "%d/%d" % (v["returned"], v["runs"]) for k, v in sorted(per.items())}}
    if missing:
        out["_missing"] = missing
    return out
