"""C02 — assembled sparse stiffness == Hessian of the total energy; symmetric; block splitting is transparent.

Monitor (runtime, return-value comparison on real executions of /repo code):

  route A (library)  element Hessians from the factory's compute_element_stiffnesses / compute_element_hessians,
                     scattered by SparseMatrixAssembler.assemble_sparse_stiffness_matrix with a DofManager   -> K
  route B (harness)  one global forward-over-reverse jax.hessian of the factory's *energy* with respect to the nodal
                     field, composed with DofManager.create_field                                            -> H
  route C (numpy)    for small-strain linear elasticity only: stiffness (and Newmark mass term) assembled by plain
                     loops from the function-space tables -- anchors the 2-D kinematic option itself.

plus: symmetry of K; single-block vs multi-block equality of energy, internal-variable update and element stiffness.
One case = one compiled configuration; inside it several displacement draws x several essential-BC subsets.
"""
import math

import numpy as onp

from vlib.common import Res, derive_seed, rng_of, EPS
from vlib.gen import c02_configs as cfg

PROPERTY = "C02"
LEVEL = "exploration"
RULE = ("case = one compiled configuration (mesh kind x element order 1..4 x quadrature degree adequate/low x material x "
        "2-D mode x pressure-projection degree x factory static/multi-block/dynamics [x Newmark beta]); option strata are "
        "enumerated deterministically, mesh/material constants/displacements/histories/BC subsets/block partitions are "
        "seeded random. Inside a case: `draws` displacement fields (scaled to a target strain, harness-verified min det F "
        "> 0.3) x `nbc` essential-BC subsets (always the empty set and all-but-one dof, plus random subsets of "
        "(node, component)); every subset is declared twice -- plainly (one node set per component) and a second way (overlapping "
        "node sets on one component / the same EssentialBC listed 2-3 times / node sets with repeated members / subset + superset, "
        "entries shuffled) -- and both declarations must give the identical matrix, equal to the Hessian. Multi-block classes: "
        "multi_hyper/multi_j2/multi_visco = same model in 2-4 blocks (transparency against the single-block factory); "
        "multi_mixed = 2-4 blocks carrying DIFFERENT models and/or the same model with constants decades apart, random dictionary "
        "order (K vs Hessian of the multi-block energy, symmetry); multi_contrast = same model in 2-3 blocks with moduli apart by exact "
        "factors 2^-20..2^-50 (1e6..1e15). size_hvp = distorted order-1 meshes with 1104/2244/4324 elements, statics and Newmark, "
        "Hessian-vector-product oracle. scale = one small configuration re-built at moduli x 2^k over +-30 decades. Non-trivial = at least one comparison with a BC set that is neither empty nor full at a "
        "non-zero displacement (path-dependent models: at an evolved internal state with >= 1 yielded / relaxed "
        "quadrature point); distinct = canonical hash of the configuration.")
ASSUMPTIONS = [
    "jax.hessian (forward-over-reverse) of the library's own energy function is the reference second derivative; "
    "the library's element route uses jax.hessian of the *element* integral, so a defect inside the energy density or in "
    "jax itself is common-mode and invisible here (energy densities are C08-C11's subject)",
    "Hessian w.r.t. the unknowns of E(create_field(Uu,Ubc)) is obtained as P^T H_full P with P = d create_field/d Uu "
    "evaluated by jax.jacfwd on the library's create_field (affine chain rule, exact for a 0/1 matrix); cross-checked "
    "against jax.hessian of the literal composition in every hyperelastic configuration (counter direct_composition_checks)",
    "tolerance 1e-10*max|H| for K-vs-H and symmetry, 1e-12 relative for block equality: calibrated on the unchanged tree "
    "(observed <= 3e-14 relative resp. <= 1e-14) x >= 100; dynamics time steps are drawn within 2 decades either side of the "
    "step at which inertia and stiffness balance, so neither term hides below the tolerance",
    "pressure-projection configurations use element order >= 2: on linear triangles J is constant per element and the projection is "
    "the identity (the harness measures max|JBar - J| per draw and counts only draws where the projection is active under cmp:pp_*)",
    "size class (1100/2200/4300 linear triangles): the dense Hessian is replaced by harness-evaluated Hessian-vector products "
    "jvp(grad E)(v); K v is compared row by row against 1e-10*((|K||v|)_i + |Hv|_i) for random dense vectors and for vectors "
    "supported on single elements (first, middle, last, both sides of every multiple of 1024); unknown numbering taken from "
    "DofManager.unknownIndices (C14's subject)",
    "absolute-scale class: all moduli (and the density) multiplied by 2^k, k in [-100, 100]; power-of-two factors commute with "
    "IEEE rounding, so K(2^k E) = 2^k K(E) is demanded to 8 ulp per entry and the stored sparsity pattern must not change; the same "
    "relation is required of the harness's dense Hessian (oracle self-check, else inconclusive)",
    "entry-wise clause: |K-H|_ij <= 1e-10*sqrt(rowmax_i(H) rowmax_j(H)) on every dense comparison (observed <= 8e-5 of it, also with "
    "stiff/soft block contrasts up to 1e15), next to the global 1e-10*max|H| clause",
    "the numpy small-strain reference (route C) takes the shape-function tables and quadrature volumes from the library's "
    "FunctionSpace (those are C03's subject)",
    "CHOLMOD is not involved; scipy.sparse coo->csc conversion sums duplicates",
    "for the models that take an eigenvector-based tensor logarithm (LinearElastic 'logarithmic', J2 large deformations, both "
    "viscoelastic models) a displacement draw whose elastic stretches have a relative gap < 1e-6 at some quadrature point is "
    "re-drawn (counter redrawn_near_repeated_stretches): that thin set carries the open findings D8/D12 of C12/C10, where the two "
    "differentiation routes disagree by ~3e-18/gap relative (probed: 4.5e-12 at gap 1e-6, 3e-10 at 1e-8); the set itself is exercised by "
    "the dedicated class repeated_stretch, whose K-vs-H / symmetry failures are the open finding D12 (classifier: that input class AND "
    "log-strain model AND harness-measured gap < 1e-8 AND not the reference state); its two controls (separated stretches, reference "
    "state) must pass like any other case",
    "create_multi_block_mechanics_functions(mode2D='axisymmetric') raises NotImplementedError by design: explicitly "
    "declined, not an advertised option (recorded as vacuous, counter multi_axisym_declined)",
]
REQUIRED = {
    "all": {
        "stiffness_comparisons": 150, "symmetry_checks": 150, "factory_after_decoy_material_on_same_function_space": 8, "bc:empty": 20, "bc:all_but_one": 20, "bc:random": 40,
        "multi_energy_checks": 6, "multi_stiffness_checks": 6, "multi_state_checks": 2,
        "cmp:dynamics_nonlinear": 12, "cmp:dynamics_linear": 4,
        "cmp:pp_static": 12, "cmp:pp_multi": 4, "cmp:pp_dynamics": 8, "cmp:pp_axisym": 4,
        "cmp:axisymmetric": 20, "cmp:j2": 12, "cmp:visco": 4, "cmp:low_quad": 8,
        "order:1": 1, "order:2": 1, "order:3": 1, "order:4": 1,
        "meshkind:structured": 1, "meshkind:delaunay": 1, "meshkind:graded": 1, "meshkind:hole": 1,
        "reference_linear_checks": 8, "direct_composition_checks": 10, "plastic_points_at_evaluation": 10,
        "class:static_hyper": 4, "class:static_axisym": 2, "class:static_pp": 4, "class:multi_hyper": 3,
        "class:dynamics": 4, "class:static_j2": 2, "class:static_visco": 1, "class:multi_j2": 1,
        "class:repeated_stretch": 1, "repeated_stretch_controls": 2,
        "class:multi_mixed": 3, "cmp:multi_mixed": 20, "mixed_material_configs": 3,
        "class:multi_contrast": 2, "contrast_band:1e6": 4, "contrast_band:1e12": 4, "contrast_band:1e15": 4,
        "class:size_hvp": 3, "size_band:>1024": 1, "size_band:>2048": 1, "size_band:>4096": 1, "size_configs:static:>2048": 1,
        "size_configs:dynamics:>2048": 1, "size_configs:static:>4096": 1, "size_configs:dynamics:>4096": 1,
        "hvp_checks": 200, "hvp_last_element_vectors": 12, "size_symmetry_checks": 12,
        "class:scale": 2, "scale_comparisons": 24, "scale_band:<=1e-20": 4, "scale_band:1e-20..1e-10": 4, "scale_band:1e-10..1": 4,
        "scale_band:1..1e10": 4, "scale_band:1e10..1e20": 2, "scale_band:>=1e20": 4,
        "declaration_metamorphic_checks": 150, "bc_decl:overlap": 20, "bc_decl:duplicate_entry": 20, "bc_decl:repeated_members": 20,
        "bc_decl:subset_superset": 20, "bc_decl:empty_sets": 10,
    },
    "quick": {},
    "thorough": {"stiffness_comparisons": 3300, "multi_state_checks": 6, "class:multi_j2": 2, "class:multi_visco": 1,
                 "class:dynamics_j2": 1, "cmp:visco": 40, "cmp:j2": 100, "mat:visco3": 1,
                 "class:multi_mixed": 14, "cmp:multi_mixed": 200, "declaration_metamorphic_checks": 3000},
}
WATCHDOG_S = {"quick": 2400, "thorough": 5 * 3600}
MAX_VACUOUS_FRACTION = 0.1

TOL_H = 1e-10       # K vs Hessian, symmetry, reference (relative to max |H|)
TOL_BLOCK = 1e-12   # single- vs multi-block equality (relative)
MIN_DETF = 0.3


# ====================================================================== parent side

def build_cases(tier, seed):
    cases = []

    def add(cls, i, **kw):
        s = derive_seed(seed, PROPERTY, cls, i)
        rng = rng_of(s)
        c = cfg.make_config(rng, cls, **kw)
        c["seed"] = derive_seed(seed, PROPERTY, cls, i, "run")
        c["group"] = "%s%d" % (cls, i)
        cases.append(c)

    def add_mixed(i, names, order, meshkind, pp=None, draws=2, nbc=4, direct=False):
        """multi-block factory with a different material per block (different models and/or same model, other constants)"""
        first = names[0]
        kw = dict(j2=(first[1], first[2], first[3]), matname=None) if isinstance(first, (tuple, list)) else dict(matname=first)
        add("multi_mixed", i, factory="multi", mode="plane strain", pp=pp, order=order, meshkind=meshkind, nblocks=len(names),
            draws=draws, nbc=nbc, direct=direct, **kw)
        c = cases[-1]
        c["materials"] = cfg.mixed_materials(rng_of(derive_seed(seed, PROPERTY, "multi_mixed", i, "materials")), names)
        c["material"] = c["materials"][0]
        c["cost"] = cfg.mixed_cost(c["materials"]) * (1.3 if order >= 3 else 1.0)
        if any(cfg.is_path_dependent(m) for m in c["materials"]):
            c["hist_steps"] = 2

    def add_contrast(i, model, ks, order, meshkind):
        """same model in len(ks)+1 blocks, block j softer than block 0 by the exact factor 2^-ks[j-1] (stiff/soft contrast 1e6..1e15)"""
        add_mixed(100 + i, [model] * (len(ks) + 1), order, meshkind)
        c = cases[-1]
        c["cls"] = "multi_contrast"
        c["group"] = "multi_contrast%d" % i
        for j, k in enumerate(ks):
            c["materials"][j + 1] = cfg.scale_moduli(c["materials"][0], 2.0 ** (-k))
        c["contrast_ks"] = [int(k) for k in ks]

    def add_size(i, nx, ny, matname, affine="shear"):
        s = derive_seed(seed, PROPERTY, "size_hvp", i)
        rng = rng_of(s)
        mat = cfg.material_spec(rng, matname, with_density=True)
        cases.append({"cls": "size_hvp", "group": "size_hvp%d" % i, "seed": derive_seed(seed, PROPERTY, "size_hvp", i, "run"),
                      "mesh": {"kind": "delaunay", "order": 1, "nx": nx, "ny": ny, "seed": int(rng.integers(1 << 30)), "affine_kind": affine,
                               "graded": bool(i % 2)},
                      "quad": 2, "material": mat, "factories": ["static", "dynamics"], "beta": float(rng.uniform(0.2501, 0.5)),
                      "gamma": float(rng.uniform(0.5, 1.0)), "cost": 12.0 + 2 * (nx - 1) * (ny - 1) / 250.0})

    def add_scale(i, matname, factory, ks, order, meshkind):
        s = derive_seed(seed, PROPERTY, "scale", i)
        rng = rng_of(s)
        mat = cfg.material_spec(rng, matname, with_density=(factory == "dynamics"))
        mat["E"] = float(rng.uniform(1.0, 2.0))      # O(1) reference; the absolute scale is what the class varies
        if "density" in mat:
            mat["density"] = float(rng.uniform(0.5, 2.0))
        cases.append({"cls": "scale", "group": "scale%d" % i, "seed": derive_seed(seed, PROPERTY, "scale", i, "run"),
                      "mesh": cfg.mesh_spec(rng, meshkind, order, small=True), "quad": 2 * order, "material": mat, "factory": factory,
                      "ks": [int(k) for k in ks], "beta": float(rng.uniform(0.2501, 0.5)), "gamma": float(rng.uniform(0.5, 1.0)),
                      "cost": 8.0 + 5.0 * len(ks)})

    kinds = ["delaunay", "graded", "hole", "structured", "aniso", "shear"]
    if tier == "quick":
        dr, nb = 2, 4
        # --- static, plane strain, hyperelastic: 6 materials x orders 1..4 x mesh kinds, two with low quadrature
        plan = [("lin_linear", 1, "delaunay", False), ("lin_gl", 2, "graded", False), ("neo_adagio", 3, "hole", False),
                ("neo_coupled", 4, "structured", True), ("gent", 2, "aniso", True), ("lin_log", 1, "shear", False)]
        for i, (m, o, k, low) in enumerate(plan):
            add("static_hyper", i, factory="static", matname=m, mode="plane strain", pp=None, order=o, meshkind=k,
                low_quad=low, draws=dr, nbc=nb)
        plan = [("neo_adagio", 2, "delaunay"), ("lin_linear", 1, "graded"), ("gent", 3, "structured")]
        for i, (m, o, k) in enumerate(plan):
            add("static_axisym", i, factory="static", matname=m, mode="axisymmetric", pp=None, order=o, meshkind=k,
                draws=dr, nbc=nb)
        plan = [("neo_adagio", "plane strain", 0, 2, "delaunay"), ("gent", "plane strain", 1, 2, "hole"),
                ("neo_coupled", "axisymmetric", 0, 1, "structured"), ("lin_gl", "axisymmetric", 1, 3, "delaunay")]
        for i, (m, mode, pp, o, k) in enumerate(plan):
            add("static_pp", i, factory="static", matname=m, mode=mode, pp=pp, order=o, meshkind=k, draws=dr, nbc=nb)
        plan = [("neo_adagio", None, 1, "delaunay", 2), ("gent", None, 2, "graded", 3), ("lin_gl", 1, 2, "structured", 4),
                ("lin_linear", 0, 1, "hole", 3)]
        for i, (m, pp, o, k, nbk) in enumerate(plan):
            add("multi_hyper", i, factory="multi", matname=m, mode="plane strain", pp=pp, order=o, meshkind=k,
                nblocks=nbk, draws=dr, nbc=nb)
        plan = [("neo_adagio", "plane strain", None, 2, "delaunay"), ("lin_linear", "plane strain", None, 1, "hole"),
                ("gent", "axisymmetric", None, 2, "structured"), ("neo_coupled", "plane strain", 0, 1, "graded"),
                ("lin_gl", "axisymmetric", 1, 2, "delaunay")]
        for i, (m, mode, pp, o, k) in enumerate(plan):
            add("dynamics", i, factory="dynamics", matname=m, mode=mode, pp=pp, order=o, meshkind=k, draws=3, nbc=nb)
        plan = [("large", "voce", False, 1, "delaunay", "plane strain"), ("small", "power law", True, 2, "structured", "plane strain"),
                ("small", "linear", False, 1, "graded", "axisymmetric")]
        for i, (kin, hard, rate, o, k, mode) in enumerate(plan):
            add("static_j2", i, factory="static", matname=None, j2=(kin, hard, rate), mode=mode, pp=None, order=o,
                meshkind=k, draws=dr, nbc=nb, direct=False)
        add("static_visco", 0, factory="static", matname="visco1", mode="plane strain", pp=None, order=1, meshkind="delaunay",
            draws=dr, nbc=nb, direct=False)
        # different materials per block (first sentence of the property for the multi-block factory)
        add_mixed(0, ["neo_adagio", "neo_adagio"], 2, "delaunay")
        add_mixed(1, ["gent", "lin_gl", "neo_coupled"], 1, "graded", direct=True)
        add_mixed(2, ["neo_adagio", "lin_linear", "gent", "neo_adagio"], 2, "hole", pp=1)
        # stiff/soft contrasts (entry-wise comparison): 1e6 and 1e15 in one 3-block configuration, 1e12 in a 2-block one
        add_contrast(0, "neo_adagio", [20, 50], 1, "delaunay")
        add_contrast(1, "lin_linear", [40], 2, "graded")
        # element counts just above 1024 / 2048 / 4096 (Hessian-vector-product oracle), statics and Newmark
        add_size(0, 24, 25, "neo_adagio")
        add_size(1, 34, 35, "gent", affine="aniso")
        add_size(2, 47, 48, "neo_coupled")
        # absolute scale: the same configuration at moduli x 2^k over +-30 decades
        add_scale(0, "lin_linear", "static", [-100, -66, -40, -24, 24, 60, 100], 1, "delaunay")
        add_scale(1, "neo_adagio", "dynamics", [-90, -50, -34, -10, 10, 44, 90], 2, "graded")
        # internal-variable update under block splitting: one cheap path-dependent multi-block configuration
        add("multi_j2", 0, factory="multi", matname=None, j2=("small", "linear", False), mode="plane strain", pp=None, order=1,
            meshkind="delaunay", nblocks=2, draws=dr, nbc=nb, direct=False, hist_steps=2)
        add("multi_axisym_declined", 0, factory="multi", matname="neo_adagio", mode="axisymmetric", pp=None, order=1,
            meshkind="structured", nblocks=2, draws=1, nbc=2)
        # open finding D12 seen through C02: homogeneous states with exactly repeated stretches in a generic frame (+ 2 controls)
        add("repeated_stretch", 0, factory="static", matname="lin_log", mode="plane strain", pp=None, order=1, meshkind="delaunay",
            draws=4, nbc=3, direct=False)
        cases[-1]["special"] = "repeated_stretch"
        return cases

    # ----------------------------------------------------------------- thorough
    dr, nb = 4, 6
    n = 0
    rng0 = rng_of(derive_seed(seed, PROPERTY, "plan"))
    # static hyper: all 6 materials x 4 orders (24) + 16 extra random with low quadrature
    for i in range(40):
        m = cfg.HYPER[i % 6]
        o = (i // 6) % 4 + 1 if i < 24 else int(rng0.integers(1, 5))
        k = kinds[(i + i // 6) % 6]
        add("static_hyper", i, factory="static", matname=m, mode="plane strain", pp=None, order=o, meshkind=k,
            low_quad=(i >= 24 and i % 2 == 0) or i % 7 == 3, draws=dr, nbc=nb)
    for i in range(20):
        m = cfg.HYPER[i % 6]
        add("static_axisym", i, factory="static", matname=m, mode="axisymmetric", pp=None, order=i % 4 + 1,
            meshkind=["delaunay", "graded", "structured", "hole"][(i // 4) % 4], low_quad=(i % 5 == 4), draws=dr, nbc=nb)
    for i in range(24):
        m = cfg.HYPER[i % 6]
        add("static_pp", i, factory="static", matname=m, mode=["plane strain", "axisymmetric"][(i // 2) % 2], pp=i % 2,
            order=(i // 4) % 4 + 1, meshkind=kinds[i % 4], low_quad=(i % 6 == 5), draws=dr, nbc=nb)
    for i in range(24):
        m = cfg.HYPER[(i * 5 + 1) % 6]
        nbk = 2 + i % 3
        o = (i // 4) % 4 + 1
        if m == "lin_log":
            # per-block copies of the eigen-decomposition derivative rules make XLA compile times explode (a 4-block order-3
            # configuration took > 30 min): the logarithmic-strain model is split into 2 blocks on low-order meshes only
            m, nbk, o = ("lin_log", 2, 1 + (i // 12)) if i in (2, 14) else (cfg.NONLINEAR_CHEAP[i % 4], nbk, o)
        add("multi_hyper", i, factory="multi", matname=m, mode="plane strain", pp=[None, None, 0, 1][i % 4],
            order=o, meshkind=kinds[i % 6], nblocks=nbk, draws=dr, nbc=nb)
    for i in range(30):
        m = (cfg.NONLINEAR_CHEAP + ["lin_linear", "lin_log"])[i % 6]
        add("dynamics", i, factory="dynamics", matname=m, mode=["plane strain", "plane strain", "axisymmetric"][i % 3],
            pp=[None, None, 0, 1, None][i % 5], order=(i // 3) % 4 + 1, meshkind=kinds[(i // 2) % 6], draws=4, nbc=nb)
    j = 0
    for kin in ("large", "small"):
        for hard in ("linear", "voce", "power law"):
            for rate in (False, True):
                add("static_j2", j, factory="static", matname=None, j2=(kin, hard, rate),
                    mode=["plane strain", "axisymmetric"][j % 4 == 3], pp=[None, None, None, 0, 1][j % 5], order=1 + (j % 3 == 2),
                    meshkind=kinds[j % 4], draws=dr, nbc=nb, direct=(j % 6 == 0))
                j += 1
    for i in range(4):  # a few more small-kinematics J2 on higher-order / low-quadrature meshes
        add("static_j2", j + i, factory="static", matname=None, j2=("small", ["linear", "voce", "power law"][i % 3], i % 2 == 1),
            mode="plane strain", pp=None, order=[2, 3, 1, 2][i], meshkind=kinds[i], low_quad=(i % 2 == 0), draws=dr, nbc=nb, direct=False)
    for i in range(8):
        add("static_visco", i, factory="static", matname=["visco1", "visco1", "visco3"][i % 3] if i < 6 else "visco1",
            mode=["plane strain", "axisymmetric"][i % 4 == 1], pp=[None, None, None, 0][i % 4], order=1 + (i % 3 == 0),
            meshkind=kinds[i % 4], draws=dr, nbc=nb, direct=False)
    for i in range(4):
        add("multi_j2", i, factory="multi", matname=None, j2=(["small", "large", "small", "small"][i], ["voce", "linear", "power law", "linear"][i], i == 2),
            mode="plane strain", pp=None, order=1, meshkind=kinds[i], nblocks=2, draws=2, nbc=4, direct=False)
    for i in range(2):
        add("multi_visco", i, factory="multi", matname="visco1", mode="plane strain", pp=None, order=1, meshkind=kinds[i],
            nblocks=2 + i, draws=2, nbc=4, direct=False)
    for i in range(3):
        add("dynamics_j2", i, factory="dynamics", matname=None, j2=(["small", "large", "small"][i], ["linear", "voce", "power law"][i], False),
            mode="plane strain", pp=None, order=1, meshkind=kinds[i], draws=3, nbc=4, direct=False)
    add("dynamics_visco", 0, factory="dynamics", matname="visco1", mode="plane strain", pp=None, order=1, meshkind="delaunay",
        draws=3, nbc=4, direct=False)
    add("multi_axisym_declined", 0, factory="multi", matname="neo_adagio", mode="axisymmetric", pp=None, order=1,
        meshkind="structured", nblocks=2, draws=1, nbc=2)
    J2S = ("j2", "small", "linear", False)
    mixes = [(["neo_adagio", "neo_adagio"], 1, None), (["gent", "gent", "gent"], 2, None), (["lin_gl", "neo_coupled"], 3, None),
             (["neo_adagio", "lin_linear", "gent", "neo_coupled"], 2, 0), (["lin_linear", "lin_linear"], 4, None),
             (["lin_log", "neo_adagio"], 1, None), (["neo_coupled", "gent", "lin_gl"], 2, 1), (["lin_gl", "lin_gl", "neo_adagio", "neo_adagio"], 1, None),
             ([J2S, "neo_adagio"], 1, None), ([J2S, ("j2", "small", "voce", False)], 1, None), (["visco1", "gent"], 1, None),
             ([("j2", "small", "power law", True), "lin_linear", "neo_coupled"], 1, None), ([J2S, "visco1"], 1, None),
             ([("j2", "large", "linear", False), "lin_gl"], 1, None), (["visco1", "visco1"], 1, None), ([J2S, J2S, "gent"], 2, None)]
    for i, (names, o, pp_) in enumerate(mixes):
        add_mixed(i, names, o, kinds[i % 6], pp=pp_, draws=3, nbc=nb, direct=(i % 4 == 1))
    for i, (model, ks, o) in enumerate([("neo_adagio", [20, 50], 1), ("lin_linear", [40], 2), ("gent", [30, 45], 2), ("neo_coupled", [50], 1),
                                        ("lin_gl", [20, 33, 46], 1), ("neo_adagio", [36], 3), (J2S, [40], 1), ("visco1", [43], 1)]):
        add_contrast(i, model, ks, o, kinds[i % 6])
    for i, (nx, ny, m) in enumerate([(24, 25, "neo_adagio"), (34, 35, "gent"), (47, 48, "neo_coupled"), (25, 23, "lin_gl"), (33, 34, "neo_coupled"),
                                     (46, 47, "neo_adagio"), (36, 60, "lin_linear"), (66, 67, "neo_adagio")]):
        add_size(i, nx, ny, m, affine=["shear", "aniso", "rot"][i % 3])
    allk = [-100, -83, -66, -50, -40, -34, -24, -10, 10, 24, 34, 44, 60, 80, 100]
    for i, (m, fac, o) in enumerate([("lin_linear", "static", 1), ("neo_adagio", "dynamics", 2), ("gent", "static", 2), ("lin_gl", "dynamics", 1),
                                     ("neo_coupled", "static", 3), ("lin_linear", "dynamics", 2)]):
        add_scale(i, m, fac, allk[i % 2::2] if i < 4 else allk, o, kinds[i % 6])
    plan = [("lin_log", None, "plane strain", 1), ("lin_log", None, "axisymmetric", 2), (None, ("large", "voce", False), "plane strain", 1),
            ("visco1", None, "plane strain", 1)]
    for i, (m, j2, mode, o) in enumerate(plan):
        add("repeated_stretch", i, factory="static", matname=m, j2=j2, mode=mode, pp=None, order=o, meshkind=["delaunay", "structured", "graded", "hole"][i],
            draws=4, nbc=3, direct=False, hist_steps=0)
        cases[-1]["special"] = "repeated_stretch"
    return cases


# ====================================================================== worker side

class _LibraryRaised(Exception):
    pass


N1_KEY = "C02-N1_multi_block_passes_padded_state_row_to_block_model"
STATE_WIDTH = {"j2_large": 10, "j2_small": 10, "visco1": 9, "visco3": 27}


def _n1_mechanism(case, stage, exc):
    """Structural classifier of open finding C02-N1: multi-block factory with different materials whose internal-state sizes
    differ, a viscoelastic block narrower than the widest block (its model reshapes the WHOLE state row it is handed), and the
    library raising that reshape TypeError inside one of the multi-block evaluation functions.  Nothing else is absorbed."""
    mats = case.get("materials")
    if not mats or case.get("factory") != "multi":
        return None
    widths = [STATE_WIDTH.get(m["name"], 0) for m in mats]
    narrow_visco = any(m["name"].startswith("visco") and w < max(widths) for m, w in zip(mats, widths))
    if narrow_visco and isinstance(exc, TypeError) and "cannot reshape" in str(exc) and stage in (
            "compute_updated_internal_variables", "energy", "hessian_of_energy", "element_stiffnesses"):
        return N1_KEY
    return None


def _lib(res, stage, fn, *args, **kw):
    """Call library code whose success the property requires (an advertised option must not raise)."""
    from vlib.common import raised_in_library, library_frames
    try:
        return fn(*args, **kw)
    except NotImplementedError:
        raise
    except Exception as e:  # noqa
        if not raised_in_library(e):
            raise
        c = res.case
        mech = _n1_mechanism(c, stage, e)
        if mech:
            res.count("n1_padded_state_raises")
        res.violate("raises:" + stage,
                    {"exception": type(e).__name__, "message": str(e)[:300], "frames": library_frames(e),
                     "factory": c.get("factory"), "mode": c.get("mode"), "pp": c.get("pp"), "material": c["material"]["name"],
                     "materials": [m["name"] for m in c.get("materials", [])]},
                    mech)
        res.count("library_raised:" + stage)
        raise _LibraryRaised(stage)


def _bc_masks(rng, nN, nbc):
    """list of (kind, mask[nN,2]); always empty and all-but-one first."""
    out = [("empty", onp.zeros((nN, 2), bool))]
    m = onp.ones((nN, 2), bool)
    m[int(rng.integers(nN)), int(rng.integers(2))] = False
    out.append(("all_but_one", m))
    kinds = ["sparse", "dense", "component", "nodes_both", "half"]
    for k in range(max(0, nbc - 2)):
        kind = kinds[int(rng.integers(len(kinds)))] if k > 0 else "sparse"
        m = onp.zeros((nN, 2), bool)
        if kind == "sparse":
            m = rng.random((nN, 2)) < rng.uniform(0.05, 0.25)
        elif kind == "dense":
            m = rng.random((nN, 2)) < rng.uniform(0.6, 0.9)
        elif kind == "component":
            m[:, int(rng.integers(2))] = True
            m |= rng.random((nN, 2)) < 0.1
        elif kind == "nodes_both":
            sel = rng.random(nN) < rng.uniform(0.1, 0.4)
            m[sel, :] = True
        else:
            m = rng.random((nN, 2)) < 0.5
        if m.all():
            m[0, 0] = False
        if not m.any():
            m[0, 0] = True
        out.append(("random", m))
    return out


DECL_KINDS = ["overlap", "duplicate_entry", "repeated_members", "subset_superset"]


def _alt_declaration(rng, m, kind, prefix):
    """A second, different declaration of the SAME (node, component) subset m: returns (nodeSets, [(setName, component)], kind).
    overlap: two node sets per component that share members; duplicate_entry: the same EssentialBC listed twice;
    repeated_members: node sets that list nodes more than once (shuffled); subset_superset: a strict subset plus the full set."""
    sets, ebcs = {}, []
    used = kind
    for comp, tag in ((0, "x"), (1, "y")):
        nodes = onp.flatnonzero(m[:, comp])
        if nodes.size == 0:
            if kind == "empty_sets":
                sets[prefix + tag] = nodes
                ebcs.append((prefix + tag, comp))
            continue
        k = kind
        if k in ("overlap", "subset_superset") and nodes.size < 2:
            k = "duplicate_entry"
        if k == "overlap":
            perm = rng.permutation(nodes)
            cut = int(rng.integers(1, nodes.size))
            extra = int(rng.integers(1, max(2, nodes.size // 3 + 1)))
            a = perm[:min(nodes.size, cut + extra)]
            b = perm[max(0, cut - extra):]
            sets[prefix + tag + "a"], sets[prefix + tag + "b"] = a, b
            ebcs += [(prefix + tag + "a", comp), (prefix + tag + "b", comp)]
        elif k == "subset_superset":
            sub = rng.permutation(nodes)[:int(rng.integers(1, nodes.size))]
            sets[prefix + tag + "s"], sets[prefix + tag + "f"] = sub, rng.permutation(nodes)
            pair = [(prefix + tag + "s", comp), (prefix + tag + "f", comp)]
            ebcs += pair if rng.random() < 0.5 else pair[::-1]
        elif k == "repeated_members":
            rpt = rng.choice(nodes, size=int(rng.integers(1, nodes.size + 1)), replace=True)
            sets[prefix + tag] = rng.permutation(onp.concatenate([nodes, rpt]))
            ebcs.append((prefix + tag, comp))
        else:  # duplicate_entry (also the fallback)
            sets[prefix + tag] = nodes
            ebcs += [(prefix + tag, comp)] * int(rng.integers(2, 4))
    order = rng.permutation(len(ebcs))
    return sets, [ebcs[i] for i in order], used


def _raw_field(rng, X, h, order):
    """smooth (random affine + quadratic) part plus nodal noise; unscaled."""
    Xc = X.mean(axis=0)
    L = max(float(onp.ptp(X[:, 0])), float(onp.ptp(X[:, 1])), 1e-12)
    Y = (X - Xc) / L
    G = rng.standard_normal((2, 2))
    Q = rng.standard_normal((2, 3)) * 0.7
    U = Y @ G.T + onp.stack([Y[:, 0] ** 2, Y[:, 0] * Y[:, 1], Y[:, 1] ** 2], axis=1) @ Q.T
    U = U * L
    U += rng.standard_normal(X.shape) * 0.35 * h / order ** 2 * rng.uniform(0.2, 1.0)
    U += rng.standard_normal(2) * L * 0.3  # rigid translation (matters for axisymmetric r-displacement)
    return U


def _strain_level(U, geo, axisym):
    from vlib.oracles import c02_reference as ref
    d = ref.deformation_measures(U, geo["X"], geo["conns"], geo["shapes"], geo["shapeGrads"], axisym)
    s = d["max_grad"]
    if axisym:
        s = max(s, abs(1.0 - d["min_hoop"]))
    return s, d


def _scaled_field(rng, geo, target, axisym, pshapes=None):
    """Random displacement scaled so that max(|grad u|, |u_r/r|) == target, then verified: min det F > MIN_DETF."""
    from vlib.oracles import c02_reference as ref
    U = _raw_field(rng, geo["X"], geo["h"], geo["order"])
    if axisym:
        # remove most of the rigid radial shift so that the hoop strain does not dominate everything
        U[:, 0] -= U[:, 0].mean() * 0.8
    for _ in range(40):
        s, d = _strain_level(U, geo, axisym)
        if s <= 0:
            break
        U = U * (target / s)
        s, d = _strain_level(U, geo, axisym)
        minJ = d["minJ3"] if axisym else d["minJ"]
        ok = minJ > MIN_DETF and (not axisym or d["min_hoop"] > MIN_DETF)
        if ok and pshapes is not None:
            JB = ref.projected_J(d["J"], geo["vols2d"], pshapes)
            d["minJbar"] = float(JB.min())
            d["pp_effect"] = float(onp.max(onp.abs(JB - d["J"])))
            ok = d["minJbar"] > MIN_DETF
        if ok:
            d["minJ_used"] = float(minJ)
            return U, d
        target *= 0.5
    return None, None


def _partition(rng, nE, nblocks, unsorted):
    perm = rng.permutation(nE)
    cuts = onp.sort(rng.choice(onp.arange(1, nE), size=nblocks - 1, replace=False))
    parts = onp.split(perm, cuts)
    names = ["blk_%s" % c for c in "abcd"[:nblocks]]
    order = rng.permutation(nblocks)
    blocks = {}
    for k in order:  # dictionary order != element order, names unrelated to position
        ids = parts[k] if unsorted else onp.sort(parts[k])
        blocks[names[k]] = ids
    return blocks


MIN_EIGEN_GAP = 1e-6
D12_KEY = "D12_log_strain_tangent_unsymmetric_at_repeated_stretches"
EIGEN_MODELS = ("lin_log", "j2_large", "visco1", "visco3")


def _prescribed_state(d, X, rng):
    """homogeneous states for the repeated-stretch class: U = (X - Xc) (F - I)^T."""
    th, ph = rng.uniform(0.3, 1.2), rng.uniform(0.2, 1.0)
    R = onp.array([[math.cos(th), -math.sin(th)], [math.sin(th), math.cos(th)]])
    Q = onp.array([[math.cos(ph), -math.sin(ph)], [math.sin(ph), math.cos(ph)]])
    a = rng.uniform(0.05, 0.12)
    if d == 0:      # uniaxial strain along a generic in-plane direction, then rotated: stretches (1+a, 1, [1])
        Fm, label = Q @ (R @ onp.diag([1.0 + a, 1.0]) @ R.T), "uniaxial_strain_generic_frame"
    elif d == 1:    # equal biaxial in-plane stretch, rotated: stretches (1+a, 1+a, .)
        Fm, label = Q * (1.0 + a), "equal_biaxial_rotated"
    elif d == 2:    # control: well separated stretches
        Fm, label = Q @ (R @ onp.diag([1.0 + a, 1.0 - 0.6 * a]) @ R.T), "control_separated"
    else:           # control: reference state (all stretches equal; the tensor-function rules are exact there)
        Fm, label = onp.eye(2), "control_reference_state"
    return (X - X.mean(axis=0)) @ (Fm - onp.eye(2)).T, label


def _inelastic_distortions(mname, st):
    """plastic / viscous distortion tensors stored in the internal state (layout documented in the material modules)."""
    if mname == "lin_log":
        return None
    sa = onp.asarray(st)
    if mname == "j2_large":
        return [sa[..., 1:10].reshape(sa.shape[:2] + (3, 3))]
    nb = sa.shape[-1] // 9
    return [sa[..., 9 * k:9 * k + 9].reshape(sa.shape[:2] + (3, 3)) for k in range(nb)]


def run_case(case):
    import jax
    import jax.numpy as jnp
    from optimism import Mesh, FunctionSpace, QuadratureRule, Mechanics, SparseMatrixAssembler, Interpolants
    from vlib.gen import meshes
    from vlib.oracles import c02_reference as ref

    res = Res(case)
    if case["cls"] in ("size_hvp", "scale"):
        from vlib.oracles import c02_sizescale as ss
        helpers = {"_lib": _lib, "_LibraryRaised": _LibraryRaised, "_scaled_field": _scaled_field}
        return (ss.run_size_case if case["cls"] == "size_hvp" else ss.run_scale_case)(case, res, helpers)
    rng = rng_of(case["seed"])
    mat_spec = case["material"]
    mname = mat_spec["name"]
    mixed = case.get("materials")            # multi-block with a different material per block (list of specs, one per block)
    specs = list(mixed) if mixed else [mat_spec]
    if mixed:
        mname = "mixed"
    has_j2 = any(s_["name"].startswith("j2") for s_ in specs)
    has_visco = any(s_["name"].startswith("visco") for s_ in specs)
    factory = case["factory"]
    mode = case["mode"]
    axisym = mode == "axisymmetric"
    pp = case["pp"]
    order = case["mesh"]["order"]
    pathdep = any(cfg.is_path_dependent(s_) for s_ in specs)
    dyn = factory == "dynamics"
    draws, nbc = int(case["draws"]), int(case["nbc"])

    # ---------------------------------------------------------------- mesh, node sets for all BC draws, function space
    mesh = meshes.build(case["mesh"], rng_of(case["mesh"]["seed"]))
    nN = int(mesh.coords.shape[0])
    nE = int(mesh.conns.shape[0])
    X = onp.asarray(mesh.coords)
    simplex_area = onp.abs(meshes.signed_areas(X, onp.asarray(mesh.conns)[:, onp.asarray(mesh.parentElement.vertexNodes)]))
    if simplex_area.min() <= 0:
        res.inconclusive("generator produced a degenerate element")
        return res
    if axisym and X[:, 0].min() <= 0:
        res.inconclusive("generator produced r <= 0 for an axisymmetric configuration")
        return res
    bc_sets = []
    nodeSets = {}
    ndecl = 0
    for d in range(draws):
        for b, (kind, m) in enumerate(_bc_masks(rng, nN, nbc)):
            nm = "d%db%d" % (d, b)
            nodeSets[nm + "x"] = onp.flatnonzero(m[:, 0])
            nodeSets[nm + "y"] = onp.flatnonzero(m[:, 1])
            # a second declaration of the same constrained subset (overlapping sets, duplicated entries, repeated members, ...)
            if kind == "empty":
                akind = "empty_sets"
            else:
                akind = DECL_KINDS[ndecl % len(DECL_KINDS)]
                ndecl += 1
            asets, aebcs, akind = _alt_declaration(rng, m, akind, nm + "alt")
            nodeSets.update(asets)
            bc_sets.append((d, nm, kind, m, akind, aebcs))
    mesh = meshes.with_nodesets(mesh, nodeSets)
    blocks = None
    if factory == "multi":
        blocks = _partition(rng, nE, case["nblocks"], case.get("unsorted_blocks", False))
        mesh = Mesh.mesh_with_blocks(mesh, {k: jnp.array(v) for k, v in blocks.items()})
    quad = QuadratureRule.create_quadrature_rule_on_triangle(degree=case["quad"])
    fs = _lib_or_none(res, "construct_function_space", FunctionSpace.construct_function_space, mesh, quad,
                      "axisymmetric" if axisym else "cartesian")
    if fs is None:
        return res
    nq = len(quad)
    geo = {"X": X, "conns": onp.asarray(mesh.conns), "shapes": onp.asarray(fs.shapes), "shapeGrads": onp.asarray(fs.shapeGrads),
           "vols": onp.asarray(fs.vols), "order": order, "h": float(math.sqrt(simplex_area.mean()))}
    # plain 2-D quadrature volumes (for the numpy replica of the J projection, which the library performs with fs.vols)
    geo["vols2d"] = geo["vols"]
    if not (onp.all(onp.isfinite(geo["vols"])) and geo["vols"].sum() > 0):
        res.inconclusive("function space volumes not finite/positive")
        return res

    for key in ("factory:" + factory, "mode:" + mode, "pp:%s" % pp, "order:%d" % order,
                "meshkind:" + ("delaunay" if case["meshkind"] in ("delaunay", "aniso", "shear") else case["meshkind"]),
                "meshkind_detail:" + case["meshkind"], "quad_degree:%d" % case["quad"]):
        res.count(key)
    for s_ in specs:
        res.count("mat:" + s_["name"])
    if mixed:
        res.count("mixed_material_configs")
        res.count("mixed:" + "+".join(sorted(set(s_["name"] for s_ in specs))))
    if case.get("low_quad"):
        res.count("low_quad_configs")
    if case["mesh"].get("bubble"):
        res.count("bubble_element_configs")

    # ---------------------------------------------------------------- material + factory (an advertised option must not raise)
    import contextlib
    import io
    with contextlib.redirect_stdout(io.StringIO()):
        mat = cfg.build_material(mat_spec)
        mats = [cfg.build_material(s_) for s_ in specs] if mixed else None
    block_spec = {}
    if mixed:
        # block names (sorted) <-> material list; the dictionary handed to the factory keeps the partition's random key order
        block_spec = {name: k for k, name in enumerate(sorted(blocks))}
    # the function space has served ANOTHER material before (material study on a shared mesh): functions for a decoy material
    # are created on the same FunctionSpace object, and its energy is evaluated once, before the factory under test is called
    rng_d = rng_of(case["seed"] + 7907)
    if rng_d.random() < 0.5:
        try:
            with contextlib.redirect_stdout(io.StringIO()):
                decoy_mat = cfg.build_material({"name": "lin_linear", "E": float(mat_spec["E"]) * 7.3, "nu": 0.11,
                                                "density": float(mat_spec.get("density", 1.0)) * 13.0})
            if factory == "dynamics":
                Mechanics.create_dynamics_functions(fs, mode, decoy_mat, Mechanics.NewmarkParameters(gamma=case["gamma"], beta=case["beta"]),
                                                    pressureProjectionDegree=pp).compute_element_masses()
            else:
                Fd = Mechanics.create_mechanics_functions(fs, mode, decoy_mat, pressureProjectionDegree=pp)
                import jax.numpy as _jnp
                Fd.compute_strain_energy(_jnp.zeros(onp.asarray(fs.mesh.coords).shape), Fd.compute_initial_state(), 0.1)
            res.count("factory_after_decoy_material_on_same_function_space")
        except Exception:  # noqa -- the decoy is workload, not a judged call
            res.count("decoy_material_raised")
    F1 = None
    try:
        if factory == "static":
            F = _lib(res, "create_mechanics_functions", Mechanics.create_mechanics_functions, fs, mode, mat, pressureProjectionDegree=pp)
        elif factory == "multi":
            models = {k: (mats[block_spec[k]] if mixed else mat) for k in blocks}
            if mixed and rng.random() < 0.5:
                models = dict(reversed(list(models.items())))   # dictionary order is independent of the mesh's block order
            try:
                F = _lib(res, "create_multi_block_mechanics_functions", Mechanics.create_multi_block_mechanics_functions, fs, mode, models,
                         pressureProjectionDegree=pp)
            except NotImplementedError:
                res.count("multi_axisym_declined")
                res.vacuous("create_multi_block_mechanics_functions explicitly raises NotImplementedError for mode2D=%r" % mode)
                return res
            if not mixed:
                F1 = _lib(res, "create_mechanics_functions", Mechanics.create_mechanics_functions, fs, mode, mat, pressureProjectionDegree=pp)
        else:
            newmark = Mechanics.NewmarkParameters(gamma=case["gamma"], beta=case["beta"])
            F = _lib(res, "create_dynamics_functions", Mechanics.create_dynamics_functions, fs, mode, mat, newmark, pressureProjectionDegree=pp)
    except _LibraryRaised:
        return res

    pshapes = None
    if pp is not None:
        pshapes = onp.asarray(Interpolants.compute_shapes(Interpolants.make_parent_element_2d(degree=pp), quad.xigauss).values)

    # ---------------------------------------------------------------- compiled entry points
    if dyn:
        def energy_full(U, UP, st, dt):
            return F.compute_algorithmic_energy(U, UP, st, dt)
        elem_stiff = lambda U, UP, st, dt: F.compute_element_hessians(U, UP, st, dt)  # noqa: E731
    else:
        def energy_full(U, UP, st, dt):
            return F.compute_strain_energy(U, st, dt)
        elem_stiff = lambda U, UP, st, dt: F.compute_element_stiffnesses(U, st, dt)  # noqa: E731
    hess_full = jax.jit(jax.hessian(energy_full, 0))
    energy_jit = jax.jit(energy_full)
    energy1_jit = jax.jit(lambda U, s, dt: F1.compute_strain_energy(U, s, dt)) if F1 is not None else None

    try:
        st = _lib(res, "compute_initial_state", F.compute_initial_state)
        st1 = _lib(res, "compute_initial_state", F1.compute_initial_state) if F1 is not None else None
    except _LibraryRaised:
        return res

    # ---------------------------------------------------------------- evolve the internal state along a random history
    E, nu = mat_spec["E"], mat_spec["nu"]
    tau_ref = None
    evolved_pts = 0
    block_ids = {name: onp.asarray(ids) for name, ids in blocks.items()} if blocks else {}

    def _elems_of(pred):
        """element ids carrying a material that satisfies pred (all elements for single-material configurations)."""
        if not mixed:
            return onp.arange(nE) if pred(mat_spec) else onp.zeros(0, int)
        sel = [block_ids[name] for name, k in block_spec.items() if pred(specs[k])]
        return onp.sort(onp.concatenate(sel)) if sel else onp.zeros(0, int)

    j2_elems = _elems_of(lambda s_: s_["name"].startswith("j2"))

    def _min_gap(Ufield, state):
        """smallest relative elastic-stretch gap over the quadrature points of all blocks whose model takes a tensor logarithm"""
        worst = onp.inf
        for k, s_ in enumerate(specs):
            if s_["name"] not in EIGEN_MODELS:
                continue
            ids = onp.arange(nE) if not mixed else block_ids[[n_ for n_, kk in block_spec.items() if kk == k][0]]
            sa_ = onp.asarray(state)[ids]
            width = {"lin_log": 0, "j2_large": 10, "visco1": 9, "visco3": 27}[s_["name"]]
            worst = min(worst, ref.min_relative_eigen_gap(Ufield, X, geo["conns"][ids], geo["shapes"][ids], geo["shapeGrads"][ids],
                                                           geo["vols"][ids], axisym, pshapes,
                                                           _inelastic_distortions(s_["name"], sa_[..., :width])))
        return worst

    if pathdep:
        j2s = [s_ for s_ in specs if s_["name"].startswith("j2")]
        vis = [s_ for s_ in specs if s_["name"].startswith("visco")]
        if has_j2:
            eps_y = min(s_["Y0"] / s_["E"] for s_ in j2s)
        if has_visco:
            tau_ref = float(onp.exp(onp.mean(onp.log(onp.concatenate([s_["tau"] for s_ in vis])))))
        else:
            rated = [s_ for s_ in j2s if s_.get("rate")]
            tau_ref = (rated[0]["Y0"] / rated[0]["E"]) / rated[0]["rate"]["epsDot0"] if rated else 1.0
        st_init = onp.asarray(st)
        nsteps = int(case.get("hist_steps", 2))
        try:
            for k in range(nsteps):
                if has_j2:
                    target = min(0.22, eps_y * cfg.loguniform(rng, 0.8, 8.0) * (k + 1) / nsteps + 0.5 * eps_y)
                else:
                    target = rng.uniform(0.05, 0.2)
                Uh, dinfo = _scaled_field(rng, geo, target, axisym, pshapes)
                if Uh is None:
                    res.inconclusive("could not scale a history displacement to min det F > %.1f" % MIN_DETF)
                    return res
                dth = tau_ref * cfg.loguniform(rng, 0.05, 5.0)
                st_new = _lib(res, "compute_updated_internal_variables", F.compute_updated_internal_variables, jnp.array(Uh), st, dth)
                res.count("history_steps")
                if F1 is not None:
                    st1_new = _lib(res, "compute_updated_internal_variables", F1.compute_updated_internal_variables, jnp.array(Uh), st1, dth)
                    a, b = onp.asarray(st_new), onp.asarray(st1_new)
                    res.expect("multi_state_shape", a.shape == b.shape, {"multi": list(a.shape), "single": list(b.shape)})
                    if not onp.all(onp.isfinite(b)):
                        res.vacuous("single-block reference update produced a non-finite internal state (material-update matter, C09/C11)")
                        return res
                    if a.shape == b.shape:
                        res.bound("multi_state_update", float(onp.max(onp.abs(a - b))), TOL_BLOCK * max(1.0, float(onp.max(onp.abs(b)))),
                                  {"step": k, "material": mname})
                        res.expect("multi_state_finite", bool(onp.all(onp.isfinite(a))), {"step": k})
                        res.count("multi_state_checks")
                    st1 = st1_new
                st = st_new
        except _LibraryRaised:
            return res
        sa = onp.asarray(st)
        if not onp.all(onp.isfinite(sa)):
            # a NaN internal state is a material-update matter (C09/C11), not an admissible internal state for C02
            res.vacuous("history produced a non-finite internal state")
            return res
        if mixed:
            evolved_pts = int((onp.abs(sa - st_init).max(axis=-1) > 1e-9).sum())
        elif mname.startswith("j2"):
            evolved_pts = int((sa[..., 0] > 0).sum())
        else:
            evolved_pts = int((onp.abs(sa.reshape(sa.shape[0], sa.shape[1], -1, 9)[..., :] - onp.eye(3).ravel()).max(axis=(-1, -2)) > 1e-6).sum())
        res.count("evolved_state_points", evolved_pts)
        res.count("virgin_state_points", sa.shape[0] * sa.shape[1] - evolved_pts)

    # ---------------------------------------------------------------- numpy small-strain reference (route C)
    Kref = Mref = None
    if mname == "lin_linear" and pp is None:
        Kref, Mref = ref.linear_elastic_reference(X, geo["conns"], geo["shapes"], geo["shapeGrads"], geo["vols"], E, nu, axisym,
                                                   density=mat_spec.get("density") if dyn else None)

    # ---------------------------------------------------------------- draws
    uses_eigen = any(s_["name"] in EIGEN_MODELS for s_ in specs)
    special = case.get("special")
    if dyn:
        rho = mat_spec["density"]
        dt_star = 0.6 * geo["h"] / order * math.sqrt(rho / E)
    did_direct = False
    for d in range(draws):
        if has_j2:
            target = min(0.22, eps_y * cfg.loguniform(rng, 0.7, 10.0))
        elif mname == "lin_linear":
            target = cfg.loguniform(rng, 1e-3, 0.2)
        else:
            target = rng.uniform(0.03, 0.25)
        mech = None
        for attempt in range(6):
            if special == "repeated_stretch":
                U, label = _prescribed_state(d, X, rng)
                _, dinfo = _strain_level(U, geo, axisym)
                dinfo["minJ_used"] = dinfo["minJ3"] if axisym else dinfo["minJ"]
                gap = _min_gap(U, st)
                # structural classifier of open finding D12 as seen through C02: dedicated input class AND eigenvector-based
                # log-strain model AND harness-measured relative stretch gap < 1e-8 AND not the reference state
                if uses_eigen and gap < 1e-8 and bool(onp.any(U != 0.0)) and dinfo["minJ_used"] > MIN_DETF:
                    mech = D12_KEY
                    res.count("repeated_stretch_states")
                else:
                    res.count("repeated_stretch_controls")
                res.count("state:" + label)
                if not dinfo["minJ_used"] > MIN_DETF:
                    res.count("prescribed_state_inadmissible")   # e.g. hoop stretch <= 0.3 for an axisymmetric mesh near the axis
                    U = "skip"
                break
            U, dinfo = _scaled_field(rng, geo, target, axisym, pshapes)
            if U is None or not uses_eigen:
                break
            gap = _min_gap(U, st)
            if gap >= MIN_EIGEN_GAP:
                res.ratio("hypothesis_eigen_gap(allowed/observed)", MIN_EIGEN_GAP, gap)
                break
            res.count("redrawn_near_repeated_stretches")  # thin set owned by C12/C10 (findings D8, D12)
            U = None
        if isinstance(U, str):
            continue
        if U is None:
            res.inconclusive("could not draw a displacement with min det F > %.1f (and well separated stretches)" % MIN_DETF)
            return res
        res.count("displacement_draws")
        res.ratio("hypothesis_min_detF(allowed/observed)", MIN_DETF, dinfo["minJ_used"])
        pp_active = pp is not None and dinfo.get("pp_effect", 0.0) > 1e-6
        if pp is not None:
            res.count("pp_active_draws" if pp_active else "pp_identity_draws")
        if dyn:
            dt = dt_star * 10.0 ** rng.uniform(-2.0, 2.0)
            UP = U + (rng.standard_normal(U.shape) * geo["h"] * 10.0 ** rng.uniform(-3, 0) if d % 3 != 2 else 0.0 * U)
            res.count("dt_decade:%+d" % int(math.floor(math.log10(dt / dt_star))))
        else:
            dt = (tau_ref if tau_ref else 1.0) * cfg.loguniform(rng, 0.05, 5.0)
            UP = U
        Uj, UPj = jnp.array(U), jnp.array(UP)
        try:
            e0 = float(_lib(res, "energy", energy_jit, Uj, UPj, st, dt))
            H = onp.asarray(_lib(res, "hessian_of_energy", hess_full, Uj, UPj, st, dt)).reshape(2 * nN, 2 * nN)
            Ke = _lib(res, "element_stiffnesses", elem_stiff, Uj, UPj, st, dt)
        except _LibraryRaised:
            return res
        Ke_np = onp.asarray(Ke)
        if not (math.isfinite(e0) and onp.all(onp.isfinite(H))):
            # the *oracle* is not finite: outside the admissible set (e.g. Gent locking) -> not a statement about K
            res.count("nonfinite_energy_draws")
            if special:
                res.count("nonfinite:" + label + (":energy" if not math.isfinite(e0) else ":hessian"))
            continue
        res.expect("element_stiffness_finite", bool(onp.all(onp.isfinite(Ke_np))), {"draw": d})
        hs = float(onp.max(onp.abs(H)))

        plastic_now = None
        if has_j2:
            try:
                stn = onp.asarray(_lib(res, "compute_updated_internal_variables", F.compute_updated_internal_variables, Uj, st, dt))
            except _LibraryRaised:
                return res
            plastic_now = int((stn[j2_elems][..., 0] > onp.asarray(st)[j2_elems][..., 0]).sum())
            res.count("plastic_points_at_evaluation", plastic_now)
            res.count("elastic_points_at_evaluation", j2_elems.size * stn.shape[1] - plastic_now)

        # ---- multi-block transparency
        if F1 is not None:
            try:
                e1 = float(_lib(res, "energy_single", energy1_jit, Uj, st1, dt))
                Ke1 = onp.asarray(_lib(res, "element_stiffnesses_single", F1.compute_element_stiffnesses, Uj, st1, dt))
            except _LibraryRaised:
                return res
            res.bound("multi_energy", abs(e0 - e1), TOL_BLOCK * max(abs(e1), EPS), {"multi": e0, "single": e1, "nblocks": case["nblocks"]})
            res.count("multi_energy_checks")
            ok_shape = Ke1.shape == Ke_np.shape
            res.expect("multi_stiffness_shape", ok_shape, {"multi": list(Ke_np.shape), "single": list(Ke1.shape)})
            if ok_shape:
                res.bound("multi_element_stiffness", float(onp.max(onp.abs(Ke_np - Ke1))), TOL_BLOCK * float(onp.max(onp.abs(Ke1))),
                          {"nblocks": case["nblocks"], "material": mname})
                res.count("multi_stiffness_checks")

        # ---- assembled K vs Hessian for every BC subset of this draw
        for (dd, nm, kind, m, akind, aebcs) in bc_sets:
            if dd != d:
                continue
            ebcs = []
            if kind != "empty":
                ebcs.append(FunctionSpace.EssentialBC(nodeSet=nm + "x", component=0))
                ebcs.append(FunctionSpace.EssentialBC(nodeSet=nm + "y", component=1))
            dm = FunctionSpace.DofManager(fs, 2, ebcs)
            if not onp.array_equal(onp.asarray(dm.isBc), m):
                # DofManager bookkeeping is C14's subject; without it the comparison below has no meaning
                res.violate("dofmanager_mask", {"bc": kind}, None)
                continue
            # one compiled call per DofManager: split, recombine, and d create_field / d Uu (all library code)
            def _split_and_jac(Ufield, dm=dm):
                Uu_ = dm.get_unknown_values(Ufield)
                Ubc_ = dm.get_bc_values(Ufield)
                return Uu_, Ubc_, dm.create_field(Uu_, Ubc_), jax.jacfwd(lambda z: dm.create_field(z, Ubc_))(Uu_)
            Uu, Ubc, back, P = jax.jit(_split_and_jac)(Uj)
            nu_ = int(Uu.shape[0])
            res.expect("create_field_reproduces_U", onp.array_equal(onp.asarray(back), U), {"bc": kind})
            P = onp.asarray(P).reshape(2 * nN, nu_)
            Huu = P.T @ H @ P
            try:
                K = _lib(res, "assemble_sparse_stiffness_matrix", SparseMatrixAssembler.assemble_sparse_stiffness_matrix, Ke, mesh.conns, dm)
                K = onp.asarray(K.toarray())
            except _LibraryRaised:
                continue
            if K.shape != Huu.shape:
                res.violate("stiffness_shape", {"K": list(K.shape), "H": list(Huu.shape), "bc": kind}, None)
                continue
            scale = float(onp.max(onp.abs(Huu)))
            err = float(onp.max(onp.abs(K - Huu)))
            ij = onp.unravel_index(int(onp.argmax(onp.abs(K - Huu))), K.shape)
            detail = {"bc": kind, "n_unknown": nu_, "scale": scale, "entry": [int(ij[0]), int(ij[1])], "K": float(K[ij]), "H": float(Huu[ij]),
                      "factory": factory, "mode": mode, "pp": pp, "material": mname, "order": order, "dt": dt}
            res.bound("stiffness_vs_hessian", err, TOL_H * scale, detail, mech)
            # entry by entry against each entry's own row/column scale: a lost soft sub-block cannot hide below the global maximum
            from vlib.oracles.c02_sizescale import entrywise_worst
            eo, ea, eij = entrywise_worst(K, Huu, TOL_H)
            res.bound("stiffness_vs_hessian_entrywise", eo, ea, dict(detail, entry=[eij[0], eij[1]], K=float(K[eij]), H=float(Huu[eij])), mech)
            res.bound("symmetry", float(onp.max(onp.abs(K - K.T))), TOL_H * max(float(onp.max(onp.abs(K))), EPS),
                      {"bc": kind, "factory": factory, "material": mname}, mech)
            if mech is not None:
                res.count("comparisons_at_repeated_stretches")
            # ---- the same constrained subset declared a second, different way: identical K, and K == H again
            try:
                dm2 = _lib(res, "DofManager(alternative declaration)", FunctionSpace.DofManager, fs, 2,
                           [FunctionSpace.EssentialBC(nodeSet=n_, component=c_) for n_, c_ in aebcs])
                same_mask = onp.array_equal(onp.asarray(dm2.isBc), m)
                res.expect("declaration_same_mask", same_mask, {"bc": kind, "declaration": akind})
                if same_mask:
                    K2 = onp.asarray(_lib(res, "assemble_sparse_stiffness_matrix(alternative declaration)",
                                          SparseMatrixAssembler.assemble_sparse_stiffness_matrix, Ke, mesh.conns, dm2).toarray())
                    if K2.shape != K.shape:
                        res.violate("declaration_metamorphic_shape", {"K": list(K.shape), "K2": list(K2.shape), "declaration": akind}, None)
                    else:
                        res.bound("declaration_metamorphic_K_identical", float(onp.max(onp.abs(K2 - K))), 1e-14 * max(scale, EPS),
                                  {"bc": kind, "declaration": akind, "n_entries": len(aebcs)}, None)
                        res.bound("stiffness_vs_hessian_alt_declaration", float(onp.max(onp.abs(K2 - Huu))), TOL_H * scale,
                                  {"bc": kind, "declaration": akind, "n_entries": len(aebcs), "factory": factory, "material": mname}, mech)
                        res.count("declaration_metamorphic_checks")
                        res.count("bc_decl:" + akind)
            except _LibraryRaised:
                pass
            res.count("stiffness_comparisons")
            res.count("symmetry_checks")
            res.count("bc:" + kind)
            nontrivial_here = kind == "random" and scale > 0 and (not pathdep or evolved_pts > 0)
            if nontrivial_here:
                res.nontrivial = True
            if dyn:
                res.count("cmp:dynamics_" + ("linear" if mname == "lin_linear" else "nonlinear"))
            if pp is not None and pp_active:
                res.count("cmp:pp_" + factory)
                if axisym:
                    res.count("cmp:pp_axisym")
            if axisym:
                res.count("cmp:axisymmetric")
            if mixed:
                res.count("cmp:multi_mixed")
            for k_ in case.get("contrast_ks", []):
                res.count("contrast_band:1e%d" % (3 * int(round(k_ * math.log10(2.0) / 3.0))))
            if has_j2:
                res.count("cmp:j2")
                if plastic_now:
                    res.count("cmp:j2_with_plastic_points")
            if has_visco:
                res.count("cmp:visco")
            if case.get("low_quad"):
                res.count("cmp:low_quad")
            if factory == "multi":
                res.count("cmp:multi")
            # route C
            if Kref is not None:
                R = Kref + (Mref / (case["beta"] * dt * dt) if dyn else 0.0)
                Ruu = P.T @ R @ P
                res.bound("reference_linear", float(onp.max(onp.abs(K - Ruu))), TOL_H * float(onp.max(onp.abs(Ruu))),
                          {"bc": kind, "mode": mode, "factory": factory, "dt": dt})
                res.count("reference_linear_checks")
            # literal composition energy(create_field(.)) -- cross-check of the chain-rule shortcut
            if case.get("direct") and not did_direct and kind == "random" and nu_ <= 160:
                did_direct = True
                Hd = jax.jit(jax.hessian(lambda z: energy_full(dm.create_field(z, Ubc), UPj, st, dt)))(Uu)
                Hd = onp.asarray(Hd)
                sc = TOL_H * scale
                if float(onp.max(onp.abs(Hd - Huu))) > sc:
                    res.inconclusive("oracle self-check failed: hessian of literal composition differs from P^T H P by %.3g (scale %.3g)"
                                     % (float(onp.max(onp.abs(Hd - Huu))), scale))
                res.bound("stiffness_vs_hessian_direct", float(onp.max(onp.abs(K - Hd))), sc, detail, mech)
                res.count("direct_composition_checks")
    return res


def _lib_or_none(res, stage, fn, *args, **kw):
    try:
        return _lib(res, stage, fn, *args, **kw)
    except _LibraryRaised:
        return None


def finalize(results, tier):
    """Extra evidence: the table of configurations actually executed (one line each) and per-option comparison counts."""
    table = []
    for r in results:
        c = r["case"]
        m = c.get("material", {})
        table.append("%s | %s | %s | %s | pp=%s | order %s %s | quad %s%s | %s -> %s (%d checks)" % (
            c.get("cls"), c.get("factory"), m.get("name"), c.get("mode"), c.get("pp"), c.get("mesh", {}).get("order"), c.get("meshkind"),
            c.get("quad"), " (low)" if c.get("low_quad") else "", ("blocks=%s" % c.get("nblocks")) if c.get("nblocks") else "single block",
            r.get("status"), r.get("checks", 0)))
    return {"configurations": sorted(table)}
