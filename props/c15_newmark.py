"""C15 — Newmark stepping: discrete momentum balance, update formulas, trapezoidal energy conservation,
exact rigid translation, consistent mass sums to density x area.

Monitor = step recorder around the library's own stepping recipe (predict -> EquationSolver.nonlinear_equation_solve on an
Objective built from compute_algorithmic_energy -> correct; exactly the recipe of optimism/test/test_Newmark.py) and an
offline numpy checker of every recorded step:

  momentum   M a+ + f_int(U+) = 0 on the unknown dofs   (M: assembled compute_element_masses AND jax.hessian of the
             kinetic energy, which must agree; f_int: the harness's own jax.grad of compute_output_strain_energy)
  formulas   U+ = U + dt V + dt^2((1/2-beta) A + beta A+),  V+ = V + dt((1-gamma) A + gamma A+)   (long double numpy)
  energy     trapezoidal rule + small-strain linear elasticity + no load: E_n = E_1 for all n >= 1 for ANY initial triple
             (U0,V0,A0); E_1 = E_0 in addition when A0 is the consistent acceleration -M^-1 f_int(U0)
  rigid      U0 = c, V0 = v (compatible with the BCs), A0 = 0  =>  U_n = c + v t_n, V_n = v, A_n = 0
  mass       sum of the consistent mass over one component = density x area (any order, any quadrature degree)

All clauses are also exercised under the other options of create_dynamics_functions: function spaces built with
mode2D='axisymmetric' (r > 0 meshes; mass sum = density x int 2 pi r dA computed independently as 2 pi sum A_e r_centroid;
rigid translation = axial only), pressureProjectionDegree 0 / 1 on order-2/3 elements (ordinary and nearly incompressible nu),
and both combined.  The energy clause needs a quadratic strain energy, so it is applied without the (nonlinear) projection only.
"""
import math

import numpy as onp

from vlib.common import Res, derive_seed, rng_of, EPS
from vlib.gen import c02_configs as cfg   # mesh/material spec helpers shared with C02 (same author, same conventions)

PROPERTY = "C15"
LEVEL = "exploration"
RULE = ("case = one dynamics configuration (mesh kind x order x quadrature x material constants x (beta,gamma) x essential-BC "
        "pattern free/roller/clamped-edge/random x initial-state kind arbitrary/consistent/rigid x time-step sequence kind "
        "constant/random over 3 decades/alternating/ramp x solver settings) stepped n times; option strata enumerated "
        "deterministically, everything else seeded. Every step is checked. Non-trivial = at least 5 converged steps with "
        "non-zero U, V, A and a time step that changed at least once (mass class: a mesh with >= 2 elements); distinct = "
        "canonical hash of the configuration.")
ASSUMPTIONS = [
    "CHOLMOD test double /verif/vlib/shims/sksparse (dense Cholesky) serves the Objective's preconditioner",
    "f_int is jax.grad (harness-evaluated) of the library's compute_output_strain_energy composed with DofManager.create_field; "
    "a defect common to compute_output_strain_energy and compute_algorithmic_energy's strain part is invisible to the momentum "
    "clause (C02/C08-C10 cover the energy itself)",
    "momentum tolerance = the solver's own convergence tolerance (flag True means |grad| < tol) + 1e3*eps*gross force scale "
    "|Kalg|(|U|+|UP|); tol is set per step to 1e-12 x that gross scale (admissible setting, far above the rounding floor)",
    "energy tolerance = 4 x the analytic bound sum dt/4 |v_n+v_n+1| (|r_n|+|r_n+1|) evaluated with the *measured* momentum residuals "
    "+ 200*eps*(n+1)*max energy (rounding of the energy evaluations); observed <= 0.08 of it on the unchanged tree. The DESIGN "
    "figure (relative drift <= 1e-9 per 100 steps) is recorded as a closest call but not enforced: observed up to 5.8e-10 over 200 steps "
    "with dt = 30/omega_max, where the rounding-level momentum residual is legitimately amplified by dt*omega",
    "rigid translation 'exact' = to 1e-11 of the displacement scale |c|+|v| t (calibrated: observed <= 2e-14 x steps; x >= 100)",
    "mass: 1e-13 relative for the sum (observed <= 4e-16 x sqrt(n)), 1e-12 of max|M| for assembled-vs-Hessian-of-kinetic-energy",
    "reading of the conservation clause: 'the same after every step' = constant from the first computed state on; equality with the "
    "initial energy is demanded only for a consistent initial acceleration (DESIGN C15)",
    "a step whose solve returns flag False is outside the hypothesis 'minimise': counted (solver_failed_steps), the case stops there",
    "three library sources of the mass are compared for EVERY quadrature degree (also under-integrated rules with fewer points than element "
    "nodes): assembled compute_element_masses, Hessian of compute_output_kinetic_energy, and beta dt^2 x d2/dUP2 of compute_algorithmic_energy "
    "(the strain part does not depend on UPredicted)",
    "under-integrated stepping class (degree 2(p-1) and 2p-1): the consistent mass may be singular; no consistent initial acceleration is "
    "formed there and the positive-definiteness guard is skipped -- the step only needs K + M/(beta dt^2) SPD (essential BCs on an edge or a "
    "random subset), momentum and formula clauses as everywhere",
    "state is handed to predict/correct as writeable numpy arrays on even steps and as jax arrays on odd steps; the harness keeps its own deep "
    "copies, requires every operand to come back unchanged, evaluates the formulas against the copies and repeats steps 0, 1 and every 7th from "
    "the very arrays handed in the first time (bit-for-bit). compute_algorithmic_energy is the one un-jitted member; with numpy operands it is "
    "called through jax.jit (un-jitted it indexes its argument with traced indices, which numpy arrays cannot serve: a JAX limitation)",
    "reference time step dt* = h/p sqrt(rho / (kappa + 4/3 mu)) (P-wave modulus, so nearly incompressible materials get the right omega_max); "
    "finite-strain materials and every pressure-projection configuration use dt <= 2 dt* (the explicit predictor otherwise inverts elements "
    "and the energy is undefined: observed as a NaN gradient, counted under solver_failed_steps)",
    "axisymmetric mass reference rho * 2 pi * sum_e A_e r_centroid(e) is exact for straight-sided triangles; stepping configurations use "
    "quadrature degree >= 2p+1 there (the measure adds one polynomial degree)",
]
REQUIRED = {
    "all": {"steps_checked": 200, "momentum_checks": 200, "formula_checks": 200, "solver_converged_steps": 200,
            "energy_steps_arbitrary": 40, "energy_steps_consistent": 40, "e1_equals_e0_checks": 3,
            "rigid_steps": 40, "mass_sum_checks": 20, "mass_hessian_vs_assembled_checks": 20, "p1_mass_reference_checks": 3,
            "bc:free": 2, "bc:constrained": 4, "dt_changes": 100, "nonlinear_material_steps": 20,
            "class:momentum_general": 3, "class:trapezoid_energy_arbitrary": 2, "class:trapezoid_energy_consistent": 2,
            "class:rigid_translation": 2, "class:mass": 2, "mass_shared_function_space": 8,
            "stepping_after_other_material_on_same_function_space": 6,
            "class:axisym_momentum": 1, "class:axisym_trapezoid_energy": 2, "class:axisym_rigid_translation": 1, "class:pp_momentum": 3,
            "class:axisym_pp_momentum": 2,
            "steps:axisym": 60, "steps:plane_pp0": 20, "steps:plane_pp1": 10, "steps:axisym_pp0": 10, "steps:axisym_pp1": 10,
            "axisym_energy_steps": 30, "option_rigid_steps": 30, "axisym_mass_sum_checks": 12,
            "class:underintegrated_momentum": 3, "underintegrated_steps": 30, "mass_triple_checks": 20, "mass_triple_checks_underintegrated": 6,
            "numpy_typed_steps": 150, "jax_typed_steps": 150, "repeated_steps": 50, "repeated_steps:numpy": 20, "repeated_steps:jax": 20,
            "operand_checks": 1500, "function_operand_checks": 100},
    "quick": {},
    "thorough": {"steps_checked": 45000, "energy_steps_arbitrary": 12000, "energy_steps_consistent": 12000, "rigid_steps": 8000,
                 "mass_sum_checks": 2000, "long_histories_200": 80, "order:4": 10, "nonlinear_material_steps": 3000,
                 "steps:axisym": 2500, "steps:plane_pp0": 250, "steps:plane_pp1": 250, "steps:axisym_pp0": 150, "steps:axisym_pp1": 150,
                 "axisym_energy_steps": 1500, "option_rigid_steps": 800, "axisym_mass_sum_checks": 400,
                 "underintegrated_steps": 500, "numpy_typed_steps": 15000, "jax_typed_steps": 15000, "repeated_steps": 4000,
                 "mass_triple_checks": 1500, "mass_triple_checks_underintegrated": 200},
}
WATCHDOG_S = {"quick": 2400, "thorough": 5 * 3600}
MAX_VACUOUS_FRACTION = 0.15

TOL_RIGID = 1e-11
TOL_MASS_SUM = 1e-13
TOL_MASS_MAT = 1e-12
SOLVER_REL_TOL = 1e-12


# ====================================================================== parent side

def _newmark_params(rng, kind):
    if kind == "trapezoid":
        return 0.25, 0.5
    if kind == "corner_a":
        return 0.5, 0.5          # gamma = 1/2, beta = 1/2
    if kind == "corner_b":
        return 0.5, 1.0          # gamma = 1, beta = gamma/2 (stability limit)
    gamma = float(rng.uniform(0.5, 1.0))
    beta = float(rng.uniform(gamma / 2.0, 1.0))
    return beta, gamma


def _case(seed, cls, i, **kw):
    s = derive_seed(seed, PROPERTY, cls, i)
    rng = rng_of(s)
    order = kw.pop("order")
    meshkind = kw.pop("meshkind")
    matname = kw.pop("matname", "lin_linear")
    params = kw.pop("params", "trapezoid")
    low_quad = kw.pop("low_quad", False)
    mode = kw.pop("mode", "plane strain")
    pp = kw.pop("pp", None)
    incompressible = kw.pop("incompressible", False)
    underint = kw.pop("underint", None)      # "a": the library's customary degree 2(p-1) rule, "b": degree 2p-1
    axisym = mode == "axisymmetric"
    if pp is not None and order < 2:
        order = 2      # on linear triangles J is constant per element: the projection would be the identity
    beta, gamma = _newmark_params(rng, params)
    mat = cfg.material_spec(rng, matname, with_density=True, nearly_incompressible=incompressible)
    mat["E"] = cfg.loguniform(rng, 1e-2, 1e6)
    mat["density"] = cfg.loguniform(rng, 1e-3, 1e3)
    ms = cfg.mesh_spec(rng, meshkind, order, axisym=axisym, small=True)
    q = int(rng.choice(cfg.QUAD_LOW[order] if low_quad else cfg.QUAD_ADEQUATE[order]))
    if not low_quad:
        q = max(q, 2 * order + (1 if axisym else 0))   # axisymmetric mass integrates r N_a N_b (degree 2p+1)   # the consistent mass integrates N_a N_b (degree 2p): below that it is singular for p >= 3
    if underint:
        q = max(1, 2 * (order - 1)) if underint == "a" else 2 * order - 1
        ms.pop("bubble", None)
        kw["underintegrated"] = True
    if ms.get("bubble"):
        q = max(q, 6)   # the cubic bubble function squared has degree 6; below that the consistent mass is singular / indefinite
    c = {"cls": cls, "group": "%s%d" % (cls, i), "seed": derive_seed(seed, PROPERTY, cls, i, "run"),
         "mesh": ms, "meshkind": meshkind, "quad": q, "material": mat, "beta": beta, "gamma": gamma, "params": params,
         "mode": mode, "pp": pp}
    c.update(kw)
    if c.get("init") == "rigid" and c.get("bc") not in ("free", "roller"):
        c["bc"] = "roller"       # a rigid translation must be compatible with the essential BCs
    if c.get("init") == "rigid":
        c["ubc_nonzero"] = False
    c.setdefault("cost", 20.0 + 0.6 * c.get("nsteps", 0))
    return c


def build_cases(tier, seed):
    cases = []
    kinds = ["delaunay", "graded", "hole", "structured", "aniso", "shear"]
    dtk = ["random", "alternating", "ramp", "constant"]
    bck = ["free", "random", "edge", "roller"]
    if tier == "quick":
        ns = 20
        plan = [  # cls-specific: (matname, params, order, meshkind, bc, dt_kind)
            ("lin_linear", "random", 1, "delaunay", "free", "random"),
            ("neo_adagio", "random", 2, "graded", "edge", "random"),
            ("lin_linear", "corner_b", 3, "structured", "random", "alternating"),
            ("neo_coupled", "corner_a", 1, "hole", "random", "ramp"),
        ]
        for i, (m, prm, o, k, bc, dk) in enumerate(plan):
            cases.append(_case(seed, "momentum_general", i, matname=m, params=prm, order=o, meshkind=k, bc=bc, dt_kind=dk,
                               init="arbitrary", nsteps=ns, ubc_nonzero=(i == 2), incremental=(i == 3), tr="default" if i % 2 else "large"))
        plan = [(1, "hole", "free", "random"), (2, "delaunay", "edge", "alternating"), (3, "graded", "random", "random")]
        for i, (o, k, bc, dk) in enumerate(plan):
            cases.append(_case(seed, "trapezoid_energy_arbitrary", i, order=o, meshkind=k, bc=bc, dt_kind=dk, init="arbitrary",
                               nsteps=ns, ubc_nonzero=(i == 2), incremental=False, tr="large" if i % 2 else "default"))
        plan = [(2, "structured", "free", "random"), (1, "shear", "random", "ramp"), (2, "hole", "edge", "random")]
        for i, (o, k, bc, dk) in enumerate(plan):
            cases.append(_case(seed, "trapezoid_energy_consistent", i, order=o, meshkind=k, bc=bc, dt_kind=dk, init="consistent",
                               nsteps=ns, ubc_nonzero=False, incremental=(i == 1), tr="large"))
        plan = [("trapezoid", 2, "delaunay", "free", "random"), ("trapezoid", 1, "structured", "roller", "alternating"),
                ("random", 2, "graded", "free", "random")]
        for i, (prm, o, k, bc, dk) in enumerate(plan):
            cases.append(_case(seed, "rigid_translation", i, params=prm, order=o, meshkind=k, bc=bc, dt_kind=dk, init="rigid",
                               nsteps=ns, ubc_nonzero=False, incremental=False, tr="default" if i == 0 else "large"))
        for i in range(3):
            cases.append(_case(seed, "mass", i, order=1, meshkind="delaunay", nmeshes=7, cost=30.0))
        # the other options of create_dynamics_functions: axisymmetric function spaces, pressure projection 0/1, both
        AX = "axisymmetric"
        plan = [  # cls, matname, params, order, meshkind, bc, dt_kind, init, mode, pp, nearly incompressible
            ("axisym_momentum", "neo_adagio", "random", 2, "delaunay", "edge", "random", "arbitrary", AX, None, False),
            ("axisym_trapezoid_energy", "lin_linear", "trapezoid", 1, "graded", "random", "random", "consistent", AX, None, False),
            ("axisym_trapezoid_energy", "lin_linear", "trapezoid", 2, "structured", "free", "alternating", "arbitrary", AX, None, False),
            ("axisym_rigid_translation", "lin_linear", "trapezoid", 2, "delaunay", "roller", "random", "rigid", AX, None, False),
            ("pp_momentum", "neo_adagio", "random", 2, "hole", "random", "random", "arbitrary", "plane strain", 0, True),
            ("pp_momentum", "lin_linear", "corner_a", 3, "structured", "edge", "ramp", "arbitrary", "plane strain", 1, False),
            ("pp_momentum", "gent", "trapezoid", 2, "graded", "free", "random", "rigid", "plane strain", 0, False),
            ("axisym_pp_momentum", "neo_coupled", "random", 2, "delaunay", "random", "random", "arbitrary", AX, 0, False),
            ("axisym_pp_momentum", "lin_linear", "random", 2, "graded", "edge", "ramp", "arbitrary", AX, 1, True),
        ]
        # under-integrated function spaces (the library's customary 2(p-1) rule, and 2p-1): the consistent mass may be singular there;
        # the step only needs K + M/(beta dt^2) to be SPD, and the momentum clause is about the mass the library itself reports
        for i, (m, o, k, ui, bc, prm) in enumerate([("lin_linear", 1, "delaunay", "a", "edge", "random"), ("neo_adagio", 2, "graded", "a", "random", "trapezoid"),
                                                     ("lin_linear", 3, "delaunay", "a", "edge", "corner_a"), ("lin_linear", 2, "hole", "b", "random", "random")]):
            cases.append(_case(seed, "underintegrated_momentum", i, matname=m, params=prm, order=o, meshkind=k, bc=bc, dt_kind="random",
                               init="arbitrary", nsteps=ns, ubc_nonzero=False, incremental=False, tr="large", underint=ui))
        seen = {}
        for (cls, m, prm, o, k, bc, dk, init, mode, pp, inc) in plan:
            i = seen.get(cls, 0)
            seen[cls] = i + 1
            cases.append(_case(seed, cls, i, matname=m, params=prm, order=o, meshkind=k, bc=bc, dt_kind=dk, init=init, nsteps=ns,
                               ubc_nonzero=False, incremental=False, tr="large", mode=mode, pp=pp, incompressible=inc))
        return cases

    # ----------------------------------------------------------------- thorough
    rng0 = rng_of(derive_seed(seed, PROPERTY, "plan"))

    def steps(i):
        return [200, 60, 120, 30, 200, 80][i % 6]
    for i in range(180):
        m = ["lin_linear", "neo_adagio", "lin_gl", "neo_coupled", "lin_linear", "gent"][i % 6]
        cases.append(_case(seed, "momentum_general", i, matname=m, params=["random", "random", "corner_a", "corner_b", "random"][i % 5],
                           order=[1, 2, 3, 1, 2, 4][i % 6], meshkind=kinds[i % 6], bc=bck[i % 4], dt_kind=dtk[i % 4], init="arbitrary",
                           nsteps=steps(i) if m.startswith("lin_linear") else 40, ubc_nonzero=(i % 5 == 2), incremental=(i % 4 == 3),
                           tr=["large", "default"][i % 2]))
    for i in range(144):
        cases.append(_case(seed, "trapezoid_energy_arbitrary", i, order=[1, 2, 3, 2][i % 4], meshkind=kinds[(i + 1) % 6], bc=bck[(i + 1) % 4],
                           dt_kind=dtk[i % 4], init="arbitrary", nsteps=steps(i), ubc_nonzero=(i % 5 == 1), incremental=(i % 6 == 5),
                           tr=["large", "default"][i % 2]))
    for i in range(144):
        cases.append(_case(seed, "trapezoid_energy_consistent", i, order=[2, 1, 2, 3][i % 4], meshkind=kinds[(i + 2) % 6], bc=bck[i % 4],
                           dt_kind=dtk[(i + 1) % 4], init="consistent", nsteps=steps(i + 1), ubc_nonzero=False, incremental=(i % 6 == 4),
                           tr=["large", "default"][(i // 2) % 2]))
    for i in range(80):
        cases.append(_case(seed, "rigid_translation", i, params=["trapezoid", "trapezoid", "random"][i % 3], order=[1, 2, 3][i % 3],
                           meshkind=kinds[i % 6], bc=["free", "roller"][i % 2], dt_kind=dtk[i % 4], init="rigid", nsteps=[200, 100][i % 2],
                           ubc_nonzero=False, incremental=False, tr=["large", "default"][i % 2]))
    for i in range(96):
        cases.append(_case(seed, "mass", i, order=1, meshkind="delaunay", nmeshes=12, cost=50.0))
    AX = "axisymmetric"
    akinds = ["delaunay", "graded", "structured", "hole"]
    for i in range(24):
        m = ["neo_adagio", "lin_linear", "gent", "lin_gl", "neo_coupled", "lin_linear"][i % 6]
        cases.append(_case(seed, "axisym_momentum", i, matname=m, params=["random", "corner_a", "random", "corner_b"][i % 4], order=[1, 2, 3, 2][i % 4],
                           meshkind=akinds[i % 4], bc=bck[i % 4], dt_kind=dtk[i % 4], init="arbitrary", nsteps=60 if m == "lin_linear" else 30,
                           ubc_nonzero=(i % 5 == 2), incremental=(i % 4 == 3), tr=["large", "default"][i % 2], mode=AX))
    for i in range(24):
        cases.append(_case(seed, "axisym_trapezoid_energy", i, order=[1, 2, 3, 2][i % 4], meshkind=akinds[(i + 1) % 4], bc=bck[(i + 1) % 4],
                           dt_kind=dtk[i % 4], init=["arbitrary", "consistent"][i % 2], nsteps=[120, 60, 200, 40][i % 4], ubc_nonzero=(i % 5 == 1),
                           incremental=(i % 6 == 5), tr=["large", "default"][i % 2], mode=AX))
    for i in range(10):
        cases.append(_case(seed, "axisym_rigid_translation", i, params=["trapezoid", "random"][i % 2], order=[1, 2, 3][i % 3],
                           meshkind=akinds[i % 4], bc=["free", "roller"][i % 2], dt_kind=dtk[i % 4], init="rigid", nsteps=100,
                           ubc_nonzero=False, incremental=False, tr=["large", "default"][i % 2], mode=AX, pp=[None, None, 0, 1][i % 4]))
    for i in range(24):
        m = ["neo_adagio", "lin_linear", "gent", "neo_coupled", "lin_gl", "lin_linear"][i % 6]
        cases.append(_case(seed, "pp_momentum", i, matname=m, params=["random", "trapezoid", "corner_a"][i % 3], order=[2, 3, 2, 2][i % 4],
                           meshkind=kinds[i % 6], bc=bck[i % 4], dt_kind=dtk[(i + 1) % 4], init=["arbitrary", "arbitrary", "rigid"][i % 3], nsteps=30,
                           ubc_nonzero=(i % 7 == 3), incremental=(i % 5 == 4), tr=["large", "default"][i % 2], pp=i % 2, incompressible=(i % 4 < 2)))
    for i in range(24):
        m = ["lin_linear", "neo_adagio", "lin_linear", "gent"][i % 4]
        cases.append(_case(seed, "underintegrated_momentum", i, matname=m, params=["random", "trapezoid", "corner_a"][i % 3], order=[1, 2, 3, 2, 4, 1][i % 6],
                           meshkind=["delaunay", "graded", "hole", "shear"][i % 4], bc=["edge", "random"][i % 2], dt_kind=dtk[i % 4], init="arbitrary",
                           nsteps=40, ubc_nonzero=(i % 5 == 1), incremental=False, tr=["large", "default"][i % 2], underint=["a", "a", "b"][i % 3],
                           mode=["plane strain", "plane strain", "plane strain", "axisymmetric"][i % 4]))
    for i in range(16):
        m = ["neo_coupled", "lin_linear", "gent", "neo_adagio"][i % 4]
        cases.append(_case(seed, "axisym_pp_momentum", i, matname=m, params=["random", "corner_b"][i % 2], order=[2, 3][i % 2],
                           meshkind=akinds[i % 4], bc=bck[(i + 2) % 4], dt_kind=dtk[i % 4], init="arbitrary", nsteps=30,
                           ubc_nonzero=False, incremental=False, tr="large", mode=AX, pp=(i // 2) % 2, incompressible=(i % 4 >= 2)))
    return cases


# ====================================================================== worker side

def _dt_sequence(rng, kind, n, dt_star, hi_exp=1.5):
    """time steps spread over 3 decades around dt_star ~ 1/omega_max (hi_exp = 1.5); for finite-strain materials the upper end is
    kept at 2 dt_star (hi_exp = 0.3): the explicit Newmark predictor with dt >> 1/omega_max inverts elements (energy undefined)."""
    if kind == "constant":
        return onp.full(n, dt_star * 10.0 ** rng.uniform(-1.5, hi_exp))
    if kind == "random":
        return dt_star * 10.0 ** rng.uniform(-1.5, hi_exp, size=n)
    if kind == "alternating":
        a, b = dt_star * 10.0 ** rng.uniform(-1.5, -0.5), dt_star * 10.0 ** rng.uniform(hi_exp - 1.0, hi_exp)
        return onp.array([a if k % 2 == 0 else b for k in range(n)]) * 10.0 ** rng.uniform(-0.05, 0.05, size=n)
    lo, hi = sorted(dt_star * 10.0 ** rng.uniform(-1.5, hi_exp, size=2))
    seq = onp.geomspace(lo, hi * 1.0001, n)
    return seq if rng.random() < 0.5 else seq[::-1].copy()


def _field(rng, X, h, order):
    Xc = X.mean(axis=0)
    L = max(float(onp.ptp(X[:, 0])), float(onp.ptp(X[:, 1])), 1e-12)
    Y = (X - Xc) / L
    G = rng.standard_normal((2, 2))
    Q = rng.standard_normal((2, 3)) * 0.7
    U = (Y @ G.T + onp.stack([Y[:, 0] ** 2, Y[:, 0] * Y[:, 1], Y[:, 1] ** 2], axis=1) @ Q.T) * L
    U += rng.standard_normal(X.shape) * 0.3 * h / order ** 2
    U += rng.standard_normal(2) * L * 0.2
    return U


def _max_grad(U, conns, shapeGrads):
    G = onp.einsum("eai,eqaj->eqij", onp.asarray(U)[conns], shapeGrads)
    return float(onp.abs(G).max())


def _check_mass(res, dyn, fs, mesh, rho, quad_degree, order, label, axisym=False, beta=0.25):
    """mass clauses on one function space; returns (M_full numpy, area).  Axisymmetric function space: the measure is
    2 pi r dA, so sum M = rho * int 2 pi r dA = rho * 2 pi * sum_e A_e * r_centroid(e)  (exact for straight-sided triangles)."""
    import jax
    import jax.numpy as jnp
    from optimism import FunctionSpace, SparseMatrixAssembler
    from vlib.oracles import c15_newmark_ref as nref
    X = onp.asarray(mesh.coords)
    conns = onp.asarray(mesh.conns)
    nN = X.shape[0]
    simplex = conns[:, onp.asarray(mesh.parentElement.vertexNodes)]
    area = nref.polygon_area(X, simplex)
    dm0 = FunctionSpace.DofManager(fs, 2, [])
    Mel = dyn.compute_element_masses()
    M = onp.asarray(SparseMatrixAssembler.assemble_sparse_stiffness_matrix(Mel, mesh.conns, dm0).toarray())
    Mh = onp.asarray(jax.jit(jax.hessian(lambda V: dyn.compute_output_kinetic_energy(V)))(jnp.zeros((nN, 2)))).reshape(2 * nN, 2 * nN)
    mmax = float(onp.max(onp.abs(Mh)))
    res.bound("mass_assembled_vs_hessian_of_kinetic_energy", float(onp.max(onp.abs(M - Mh))), TOL_MASS_MAT * mmax, {"where": label})
    res.count("mass_hessian_vs_assembled_checks")
    # third library source: the inertial part of the algorithmic energy.  E_alg(U, UP) = SE(U) + KE(U - UP)/(beta dt^2), so
    # d2 E_alg / dUP2 = M / (beta dt^2) whatever the strain energy is.  Must be the same matrix for EVERY quadrature degree.
    dt_m = 0.5
    st_m = dyn.compute_initial_state()
    zero = jnp.zeros((nN, 2))
    Ma = onp.asarray(jax.jit(jax.hessian(lambda UP: dyn.compute_algorithmic_energy(zero, UP, st_m, dt_m)))(zero)).reshape(2 * nN, 2 * nN)
    Ma = Ma * (beta * dt_m * dt_m)
    res.bound("mass_of_algorithmic_energy_vs_assembled", float(onp.max(onp.abs(Ma - M))), TOL_MASS_MAT * mmax,
              {"where": label, "order": order, "quad": quad_degree, "quad_points": int(len(fs.quadratureRule)), "element_nodes": int(conns.shape[1])})
    res.count("mass_triple_checks")
    if len(fs.quadratureRule) < conns.shape[1]:
        res.count("mass_triple_checks_underintegrated")
    res.bound("mass_symmetric", float(onp.max(onp.abs(M - M.T))), TOL_MASS_MAT * mmax, {"where": label})
    want = rho * area
    if axisym:
        ar = onp.abs(nref.simplex_areas(X, simplex))
        want = rho * 2.0 * math.pi * float(onp.sum(ar * X[simplex][:, :, 0].mean(axis=1)))
    for comp in range(2):
        s = float(M[comp::2, comp::2].sum())
        res.bound("mass_sum_equals_density_times_area", abs(s - want), TOL_MASS_SUM * want * math.sqrt(nN),
                  {"where": label, "sum": s, "rho_area": want, "component": comp, "order": order, "quad": quad_degree})
        res.count("mass_sum_checks")
        if axisym:
            res.count("axisym_mass_sum_checks")
    res.bound("mass_components_uncoupled", float(onp.max(onp.abs(M[0::2, 1::2]))), 0.0, {"where": label})
    # kinetic energy of a rigid translation = 1/2 rho area |v|^2 (output function)
    v = onp.array([0.7, -1.3])
    T = float(dyn.compute_output_kinetic_energy(jnp.tile(jnp.array(v), (nN, 1))))
    res.bound("kinetic_energy_rigid", abs(T - 0.5 * want * float(v @ v)), 1e-12 * want * float(v @ v), {"where": label})
    if order == 1 and quad_degree >= 2 and not axisym:
        Mp1 = nref.p1_consistent_mass(X, conns, rho)
        res.bound("mass_vs_p1_closed_form", float(onp.max(onp.abs(M - Mp1))), TOL_MASS_MAT * float(onp.max(onp.abs(Mp1))), {"where": label})
        res.count("p1_mass_reference_checks")
    ev_min = float(onp.linalg.eigvalsh(0.5 * (M + M.T)).min())
    res.count("mass_positive_definite" if ev_min > 0 else "mass_not_positive_definite")
    return M, area


def _run_mass_case(case, res):
    import contextlib
    import io
    from optimism import FunctionSpace, QuadratureRule, Mechanics
    from vlib.gen import meshes
    rng = rng_of(case["seed"])
    kinds = ["delaunay", "graded", "hole", "structured", "aniso", "shear"]
    for k in range(int(case["nmeshes"])):
        order = int(rng.integers(1, 5)) if k >= 4 else k + 1
        kind = kinds[int(rng.integers(len(kinds)))]
        low = bool(rng.random() < 0.4)
        axisym = (k % 3 == 2)
        ms = cfg.mesh_spec(rng, kind, order, axisym=axisym, small=True)
        q = int(rng.choice(cfg.QUAD_LOW[order] if low else cfg.QUAD_ADEQUATE[order]))
        if k == 0:
            q = 2
        mesh = meshes.build(ms, rng_of(ms["seed"]))
        quad = QuadratureRule.create_quadrature_rule_on_triangle(degree=q)
        fs = FunctionSpace.construct_function_space(mesh, quad, "axisymmetric" if axisym else "cartesian")
        rho = cfg.loguniform(rng, 1e-3, 1e3)
        mat = {"name": "lin_linear", "E": cfg.loguniform(rng, 1e-2, 1e6), "nu": float(rng.uniform(0, 0.45)), "density": rho}
        with contextlib.redirect_stdout(io.StringIO()):
            m = cfg.build_material(mat)
        # a density / material study on ONE function space: another material's dynamics functions are created (and used) on
        # the same FunctionSpace object first; each object must keep reporting the mass of its own material afterwards
        rng_d = rng_of(case["seed"] + 7907 * (k + 1))
        rho_d = rho * cfg.loguniform(rng_d, 3.0, 300.0) ** (1 if rng_d.random() < 0.5 else -1)
        tagk = "mesh%d:%s:o%d:q%d%s" % (k, kind, order, q, ":axisym" if axisym else "")
        with contextlib.redirect_stdout(io.StringIO()):
            m_d = cfg.build_material(dict(mat, density=rho_d, E=mat["E"] * 3.0))
        dyn_d = Mechanics.create_dynamics_functions(fs, "axisymmetric" if axisym else "plane strain", m_d, Mechanics.NewmarkParameters(gamma=0.5, beta=0.25))
        _check_mass(res, dyn_d, fs, mesh, rho_d, q, order, tagk + ":first-material-on-shared-function-space", axisym=axisym, beta=0.25)
        dyn = Mechanics.create_dynamics_functions(fs, "axisymmetric" if axisym else "plane strain", m, Mechanics.NewmarkParameters(gamma=0.5, beta=0.25))
        _check_mass(res, dyn, fs, mesh, rho, q, order, tagk, axisym=axisym,
                    beta=0.25)
        _check_mass(res, dyn_d, fs, mesh, rho_d, q, order, tagk + ":first-material-again", axisym=axisym, beta=0.25)
        res.count("mass_shared_function_space")
        res.count("mass_meshes")
        res.count("mass_order:%d" % order)
        res.count("mass_low_quadrature" if low else "mass_adequate_quadrature")
        if mesh.conns.shape[0] >= 2:
            res.nontrivial = True
    return res


def run_case(case):
    res = Res(case)
    if case["cls"] == "mass":
        return _run_mass_case(case, res)
    import contextlib
    import io
    import jax
    import jax.numpy as jnp
    from optimism import FunctionSpace, QuadratureRule, Mechanics, SparseMatrixAssembler, Objective, EquationSolver
    from vlib.gen import meshes
    from vlib.oracles import c15_newmark_ref as nref

    rng = rng_of(case["seed"])
    beta, gamma = float(case["beta"]), float(case["gamma"])
    mat_spec = case["material"]
    rho, E = mat_spec["density"], mat_spec["E"]
    mode = case.get("mode", "plane strain")
    pp = case.get("pp")
    axisym = mode == "axisymmetric"
    # the energy clause (and the wide time-step range) needs a QUADRATIC strain energy: small-strain elasticity without the
    # (nonlinear) volume-average projection of the deformation gradient
    linear = mat_spec["name"] == "lin_linear" and pp is None
    trapezoid = (beta == 0.25 and gamma == 0.5)
    order = case["mesh"]["order"]
    init = case["init"]

    # ------------------------------------------------------------ mesh, BC pattern, function space
    mesh = meshes.build(case["mesh"], rng_of(case["mesh"]["seed"]))
    X = onp.asarray(mesh.coords)
    nN = X.shape[0]
    Lx, Ly = float(onp.ptp(X[:, 0])), float(onp.ptp(X[:, 1]))
    L = max(Lx, Ly)
    bc = case["bc"]
    mask = onp.zeros((nN, 2), bool)
    if bc == "random":
        mask = rng.random((nN, 2)) < rng.uniform(0.08, 0.3)
        if not mask.any():
            mask[0, 0] = True
    elif bc == "edge":
        d = rng.standard_normal(2)
        d /= onp.linalg.norm(d)
        s = X @ d
        mask[s < s.min() + 0.25 * (s.max() - s.min()), :] = True
    elif bc == "roller":
        sel = rng.random(nN) < 0.3
        sel[int(rng.integers(nN))] = True
        mask[sel, 0 if axisym else 1] = True     # rigid translation stays possible along the other axis (z for axisymmetry)
    if axisym and X[:, 0].min() <= 0:
        res.inconclusive("generator produced r <= 0 for an axisymmetric configuration")
        return res
    mesh = meshes.with_nodesets(mesh, {"bcx": onp.flatnonzero(mask[:, 0]), "bcy": onp.flatnonzero(mask[:, 1])})
    conns = onp.asarray(mesh.conns)
    quad = QuadratureRule.create_quadrature_rule_on_triangle(degree=case["quad"])
    fs = FunctionSpace.construct_function_space(mesh, quad, "axisymmetric" if axisym else "cartesian")
    ebcs = [] if bc == "free" else [FunctionSpace.EssentialBC("bcx", 0), FunctionSpace.EssentialBC("bcy", 1)]
    dm = FunctionSpace.DofManager(fs, 2, ebcs)
    if not onp.array_equal(onp.asarray(dm.isBc), mask):
        res.inconclusive("DofManager mask differs from the requested BC pattern (C14's subject)")
        return res
    unk = onp.asarray(dm.unknownIndices)
    nu = unk.size
    res.count("bc:free" if bc == "free" else "bc:constrained")
    res.count("bc_kind:" + bc)
    res.count("order:%d" % order)
    res.count("params:" + case["params"])
    res.count("mat:" + mat_spec["name"])
    res.count("meshkind:" + case["meshkind"])
    opt = ("axisym" if axisym else "plane") + ("_pp%d" % pp if pp is not None else "")
    res.count("option_configs:" + opt)

    with contextlib.redirect_stdout(io.StringIO()):
        mat = cfg.build_material(mat_spec)
    rng_d = rng_of(case["seed"] + 7907)
    if rng_d.random() < 0.5:
        # the function space has served another material before (density study on a shared mesh)
        with contextlib.redirect_stdout(io.StringIO()):
            mat_d = cfg.build_material(dict(mat_spec, density=rho * cfg.loguniform(rng_d, 3.0, 300.0) ** (1 if rng_d.random() < 0.5 else -1)))
        decoy = Mechanics.create_dynamics_functions(fs, mode, mat_d, Mechanics.NewmarkParameters(gamma=gamma, beta=beta),
                                                    pressureProjectionDegree=pp)
        decoy.compute_element_masses()
        res.count("stepping_after_other_material_on_same_function_space")
    dyn = Mechanics.create_dynamics_functions(fs, mode, mat, Mechanics.NewmarkParameters(gamma=gamma, beta=beta),
                                              pressureProjectionDegree=pp)
    st = dyn.compute_initial_state()

    # ------------------------------------------------------------ no dynamics function may overwrite the arrays it is handed
    if order <= 2:
        probe = rng_of(case["seed"] ^ 0x5a5a).standard_normal((3, nN, 2)) * 1e-3
        for as_np in (True, False):
            mk = (lambda a: onp.array(a, copy=True)) if as_np else (lambda a: jnp.array(a))
            a0, a1, a2, s0 = mk(probe[0]), mk(probe[1]), mk(probe[2]), mk(onp.asarray(st))
            # compute_algorithmic_energy is the one member the factory does not jit; un-jitted it indexes its argument with traced
            # indices, which plain numpy arrays do not support (JAX limitation, not a statement of the property) -> called through jit
            ealg = jax.jit(dyn.compute_algorithmic_energy)
            calls = [("compute_algorithmic_energy", lambda: ealg(a0, a1, s0, 0.37)),
                     ("compute_output_kinetic_energy", lambda: dyn.compute_output_kinetic_energy(a2)),
                     ("compute_output_strain_energy", lambda: dyn.compute_output_strain_energy(a0, s0, 0.37)),
                     ("compute_updated_internal_variables", lambda: dyn.compute_updated_internal_variables(a0, s0, 0.37)),
                     ("compute_element_hessians", lambda: dyn.compute_element_hessians(a0, a1, s0, 0.37)),
                     ("compute_output_energy_densities_and_stresses", lambda: dyn.compute_output_energy_densities_and_stresses(a0, s0, 0.37))]
            for name, fn in calls:
                fn()
                okk = (onp.array_equal(onp.asarray(a0), probe[0]) and onp.array_equal(onp.asarray(a1), probe[1])
                       and onp.array_equal(onp.asarray(a2), probe[2]) and onp.array_equal(onp.asarray(s0), onp.asarray(st)))
                res.expect("operands_unchanged", okk, {"function": name, "array_type": "numpy" if as_np else "jax"})
                res.count("operand_checks")
                res.count("function_operand_checks")

    # ------------------------------------------------------------ mass (all dofs), restricted to the unknowns
    M_full, area = _check_mass(res, dyn, fs, mesh, rho, case["quad"], order, "stepping_config", axisym=axisym, beta=beta)
    Mel = dyn.compute_element_masses()
    M_uu = onp.asarray(SparseMatrixAssembler.assemble_sparse_stiffness_matrix(Mel, mesh.conns, dm).toarray())
    res.bound("mass_assembled_with_bcs", float(onp.max(onp.abs(M_uu - M_full[onp.ix_(unk, unk)]))), TOL_MASS_MAT * float(onp.max(onp.abs(M_full))))
    evM = onp.linalg.eigvalsh(0.5 * (M_uu + M_uu.T))
    under = bool(case.get("underintegrated"))
    if under:
        res.count("underintegrated_configs")
        res.count("underintegrated_mass_" + ("singular" if not evM.min() > 1e-10 * evM.max() else "regular"))
    if not under and not evM.min() > 1e-10 * evM.max():
        # hypothesis of a well-posed initial-value problem (unique accelerations, energy a norm) not met: quadrature too low for this element
        res.count("mass_not_positive_definite_stepping_configs")
        res.vacuous("consistent mass not positive definite with quadrature degree %d on this element (min/max eigenvalue %.2e)"
                    % (case["quad"], evM.min() / evM.max()))
        return res

    # ------------------------------------------------------------ harness-side derivatives of the library's output energies
    shapeGrads = onp.asarray(fs.shapeGrads)
    shapes = onp.asarray(fs.shapes)
    h = math.sqrt(area / conns.shape[0])
    r_qp = onp.einsum("eqa,ea->eq", shapes, X[conns][..., 0])

    def smeasure(Uf):
        """largest displacement-gradient component; for axisymmetry also the hoop strain u_r / r at the quadrature points"""
        g = _max_grad(Uf, conns, shapeGrads)
        if axisym:
            ur = onp.einsum("eqa,ea->eq", shapes, onp.asarray(Uf)[conns][..., 0])
            g = max(g, float(onp.abs(ur / r_qp).max()))
        return g

    def rfield():
        Uf = _field(rng, X, h, order)
        if axisym:
            Uf[:, 0] -= Uf[:, 0].mean()      # no net radial shift: it would be a pure hoop strain of size shift / r
        return Uf

    def se_of(Uu, Ubc):
        return dyn.compute_output_strain_energy(dm.create_field(Uu, Ubc), st, 0.0)
    fint = jax.jit(jax.grad(se_of, 0))
    se_hess = jax.jit(jax.hessian(se_of, 0))

    # ------------------------------------------------------------ initial state
    Ubc_full = onp.zeros((nN, 2))
    strain = cfg.loguniform(rng, 1e-4, 3e-2) if linear else float(rng.uniform(0.005, 0.04))
    if case.get("ubc_nonzero") and bc != "free":
        Ub = rfield()
        Ub *= 0.3 * strain / max(smeasure(Ub), 1e-300)
        Ubc_full[mask] = Ub[mask]
        res.count("nonzero_constant_bc_values")
    Ubc = jnp.array(Ubc_full[mask])
    nu_ = mat_spec["nu"]
    Mwave = E * (1.0 - nu_) / ((1.0 + nu_) * (1.0 - 2.0 * nu_))     # P-wave modulus kappa + 4/3 mu: sets omega_max (large when nearly incompressible)
    dt_star = h / order * math.sqrt(rho / Mwave)
    dts = _dt_sequence(rng, case["dt_kind"], int(case["nsteps"]), dt_star, 1.5 if linear else 0.3)
    if init == "rigid":
        cvec = rng.standard_normal(2) * L * 10.0 ** rng.uniform(-2, 1)
        vvec = rng.standard_normal(2) * L / float(dts.sum()) * 10.0 ** rng.uniform(-1, 1.5)
        if axisym:
            cvec[0] = 0.0      # only the axial translation is a rigid motion of a body of revolution
            vvec[0] = 0.0
        elif bc == "roller":
            cvec[1] = 0.0
            vvec[1] = 0.0
        U0 = onp.tile(cvec, (nN, 1))
        V0 = onp.tile(vvec, (nN, 1))
        A0 = onp.zeros((nN, 2))
    else:
        U0 = rfield()
        U0 *= strain / max(smeasure(U0), 1e-300)
        V0 = rfield()
        vs = strain / max(smeasure(V0), 1e-300) / dt_star * 10.0 ** rng.uniform(-1.0, 0.5)
        if not linear:
            vs = min(vs, 0.05 / max(smeasure(V0), 1e-300) / float(dts.max()))
        V0 *= vs
        A0 = rfield()
        As = strain / max(smeasure(A0), 1e-300) / dt_star ** 2 * 10.0 ** rng.uniform(-1.0, 0.5)
        if not linear:
            As = min(As, 0.05 / max(smeasure(A0), 1e-300) / float(dts.max()) ** 2)
        A0 *= As
        U0[mask] = Ubc_full[mask]
        V0[mask] = 0.0
        A0[mask] = 0.0
    Uu = onp.asarray(U0.ravel()[unk])
    Vu = onp.asarray(V0.ravel()[unk])
    Au = onp.asarray(A0.ravel()[unk])
    K_uu = onp.asarray(se_hess(jnp.array(Uu), Ubc))
    absKalg0 = onp.abs(K_uu)
    if init == "consistent":
        f0 = onp.asarray(fint(jnp.array(Uu), Ubc))
        Au = onp.linalg.solve(M_uu, -f0)
        res.count("consistent_initial_accelerations")

    # ------------------------------------------------------------ the library's stepping recipe
    def energy(Uu_, p):
        U = dm.create_field(Uu_, p.bc_data)
        UP = dm.create_field(p.dynamic_data, p.bc_data)
        dt_ = p.time[0] - p.time[1]
        return dyn.compute_algorithmic_energy(U, UP, p.state_data, dt_)

    p = Objective.Params(Ubc, st, None, None, jnp.array([float(dts[0]), 0.0]), jnp.array(Uu))
    obj = Objective.Objective(energy, jnp.array(Uu), p)

    def field(xu):
        f = Ubc_full.copy().ravel() * 0.0
        f[unk] = onp.asarray(xu)
        return f.reshape(nN, 2)

    def energies(Uu_, Vu_):
        Uf = onp.asarray(dm.create_field(jnp.array(Uu_), Ubc))
        ke = float(dyn.compute_output_kinetic_energy(jnp.array(field(Vu_))))
        se = float(dyn.compute_output_strain_energy(jnp.array(Uf), st, 0.0))
        return ke, se

    ke0, se0 = energies(Uu, Vu)
    ke_ref = 0.5 * float(Vu @ (M_uu @ Vu))
    res.bound("kinetic_energy_output_vs_half_vMv", abs(ke0 - ke_ref), 1e-12 * max(ke_ref, 1e-300), {"ke": ke0, "ref": ke_ref})
    Elist = [ke0 + se0]
    r_prev = M_uu @ Au + onp.asarray(fint(jnp.array(Uu), Ubc))
    t = 0.0
    nconv = 0
    sumB = 0.0          # accumulated analytic bound from step 1 on
    B0 = None
    Emax = abs(Elist[0])
    worst_drift = 0.0
    dt_changes = 0
    for n, dt in enumerate(dts):
        dt = float(dt)
        U_old, V_old, A_old = Uu.copy(), Vu.copy(), Au.copy()       # the harness's own deep copies of the time-n state
        as_numpy = (n % 2 == 0)     # state handed to the library as writeable numpy arrays on even steps, as jax arrays on odd steps
        absKalg = absKalg0 + onp.abs(M_uu) / (beta * dt * dt)
        stepsize = float(onp.linalg.norm(U_old) + dt * onp.linalg.norm(V_old) + dt * dt * onp.linalg.norm(A_old)) + 1e-300
        wrap = (lambda a: onp.array(a, dtype=float, copy=True)) if as_numpy else (lambda a: jnp.array(onp.asarray(a)))

        def do_step(U_in, V_in, A_in):
            """the library's recipe on the arrays handed in; returns the new state, the flag, the solver tolerance and whether
            every array passed to predict / correct came back unchanged"""
            nonlocal p
            UuP_, VuP_ = dyn.predict(U_in, V_in, A_in, dt)
            UP_keep, VP_keep = onp.array(UuP_), onp.array(VuP_)
            same = [onp.array_equal(onp.asarray(U_in), U_old), onp.array_equal(onp.asarray(V_in), V_old), onp.array_equal(onp.asarray(A_in), A_old)]
            # admissible solver settings, scaled to the problem: |grad| < tol with tol = 1e-12 x gross force scale
            fscale_ = float(onp.linalg.norm(absKalg @ (onp.abs(UP_keep) + onp.abs(U_old)))) + 1e-300
            tol_ = SOLVER_REL_TOL * fscale_
            tr_size = 2.0 if case.get("tr") == "default" else 1e3 * stepsize
            settings = EquationSolver.get_settings(tol=tol_, max_trust_iters=300, max_cg_iters=60, min_tr_size=1e-14 * min(stepsize, 1.0),
                                                   tr_size=tr_size, use_incremental_objective=bool(case.get("incremental")), debug_info=False)
            p = Objective.param_index_update(p, 4, jnp.array([dt, 0.0]))
            p = Objective.param_index_update(p, 5, jnp.array(UP_keep))
            Un_, ok_ = EquationSolver.nonlinear_equation_solve(obj, jnp.array(UP_keep), p, settings, useWarmStart=False)
            Un_ = onp.array(Un_)
            corr_keep = Un_ - UP_keep
            c_in, vp_in, a_in = wrap(corr_keep), wrap(VP_keep), wrap(A_old)
            Vn_, An_ = dyn.correct(c_in, vp_in, a_in, dt)
            Vn_, An_ = onp.array(Vn_), onp.array(An_)
            same += [onp.array_equal(onp.asarray(c_in), corr_keep), onp.array_equal(onp.asarray(vp_in), VP_keep), onp.array_equal(onp.asarray(a_in), A_old)]
            return Un_, Vn_, An_, bool(ok_), tol_, UP_keep, same

        U_in, V_in, A_in = wrap(U_old), wrap(V_old), wrap(A_old)
        Uu_new, Vu_new, Au_new, ok, tol, UuP, same = do_step(U_in, V_in, A_in)
        names = ["predict:U", "predict:V", "predict:A", "correct:UCorrection", "correct:V", "correct:A"]
        res.expect("operands_unchanged", all(same), {"step": n, "array_type": "numpy" if as_numpy else "jax",
                                                     "overwritten": [nm for nm, ok_ in zip(names, same) if not ok_]})
        res.count("operand_checks", len(same))
        res.count("numpy_typed_steps" if as_numpy else "jax_typed_steps")
        if n in (0, 1) or n % 7 == 3:
            # take the step again from the very arrays handed in the first time: must reproduce bit for bit
            U2, V2, A2, ok2, _, _, _ = do_step(U_in, V_in, A_in)
            res.expect("repeated_step_reproduces", bool(ok2 == ok and onp.array_equal(U2, Uu_new) and onp.array_equal(V2, Vu_new) and onp.array_equal(A2, Au_new)),
                       {"step": n, "array_type": "numpy" if as_numpy else "jax",
                        "dU": float(onp.max(onp.abs(U2 - Uu_new))), "dV": float(onp.max(onp.abs(V2 - Vu_new))), "dA": float(onp.max(onp.abs(A2 - Au_new)))})
            res.count("repeated_steps")
            res.count("repeated_steps:" + ("numpy" if as_numpy else "jax"))
        t += dt
        res.count("steps_attempted")
        if not (onp.all(onp.isfinite(Uu_new)) and onp.all(onp.isfinite(Vu_new)) and onp.all(onp.isfinite(Au_new))):
            res.violate("nonfinite_state", {"step": n, "dt": dt, "ok": bool(ok)}, None)
            break
        # ---- update formulas (independent of whether the minimiser converged)
        eU, tU, eV, tV = nref.newmark_update_residuals(U_old, V_old, A_old, Uu_new, Vu_new, Au_new, dt, beta, gamma)
        res.bound("newmark_displacement_formula", eU, tU, {"step": n, "dt": dt, "beta": beta, "gamma": gamma})
        res.bound("newmark_velocity_formula", eV, tV, {"step": n, "dt": dt, "beta": beta, "gamma": gamma})
        res.count("formula_checks")
        if not ok:
            res.count("solver_failed_steps")
            try:
                gfail = float(onp.linalg.norm(onp.asarray(obj.gradient(jnp.array(Uu_new)))))
                res.ratio("solver_failed_step:|grad|/tol (information only)", gfail, tol)
                res.obs["last_failure"] = "step %d dt/dt*=%.3g |grad|/tol=%.3g finite=%s" % (n, dt / dt_star, gfail / tol, bool(onp.isfinite(gfail)))
            except Exception:  # noqa
                pass
            break
        nconv += 1
        res.count("solver_converged_steps")
        # ---- momentum balance at the new time
        f_new = onp.asarray(fint(jnp.array(Uu_new), Ubc))
        r_new = M_uu @ Au_new + f_new
        gross = float(onp.linalg.norm(absKalg @ (onp.abs(Uu_new) + onp.abs(onp.asarray(UuP)))))
        res.bound("momentum_balance", float(onp.linalg.norm(r_new)), tol * (1 + 1e-6) + 1e3 * EPS * gross,
                  {"step": n, "dt": dt, "dt_over_dtstar": dt / dt_star, "tol": tol, "gross": gross, "beta": beta, "gamma": gamma,
                   "inertia": float(onp.linalg.norm(M_uu @ Au_new)), "internal": float(onp.linalg.norm(f_new))})
        res.count("momentum_checks")
        res.count("steps_checked")
        res.count("steps:" + opt)
        if under:
            res.count("underintegrated_steps")
        if not linear:
            res.count("nonlinear_material_steps")
        if n > 0 and abs(dt - float(dts[n - 1])) > 1e-3 * dt:
            dt_changes += 1
            res.count("dt_changes")
        res.count("dt_decade:%+d" % int(math.floor(math.log10(dt / dt_star))))
        # ---- energy
        ke, se = energies(Uu_new, Vu_new)
        En = ke + se
        Emax = max(Emax, abs(En))
        if trapezoid and linear and init != "rigid":
            B = nref.energy_increment_bound(dt, V_old, Vu_new, r_prev, r_new)
            if n == 0:
                B0 = B
                if init == "consistent":
                    allowed = 4.0 * B0 + 200 * EPS * Emax
                    res.bound("energy_E1_equals_E0_consistent_A0", abs(En - Elist[0]), allowed,
                              {"E0": Elist[0], "E1": En, "dt": dt, "r0": float(onp.linalg.norm(r_prev))})
                    res.count("e1_equals_e0_checks")
                else:
                    res.count("E1_minus_E0_inconsistent_A0_nonzero" if abs(En - Elist[0]) > 1e-9 * Emax else "E1_equals_E0_by_chance")
            else:
                sumB += B
                E1 = Elist[1]
                allowed = 4.0 * sumB + 200 * EPS * Emax * (n + 1)
                drift = abs(En - E1)
                res.bound("energy_constant_from_first_step", drift, allowed,
                          {"step": n, "E1": E1, "En": En, "dt": dt, "dt_over_dtstar": dt / dt_star, "init": init})
                rel = drift / max(abs(E1), 1e-300)
                # DESIGN's figure, recorded as a closest call only (not deciding: with dt up to 30/omega_max the rounding-level
                # momentum residual is amplified by dt*omega; the analytic bound above accounts for exactly that)
                res.ratio("energy_relative_drift_vs_1e-9_per_100_steps(recorded, not enforced)", rel, 1e-9 * max(1.0, (n + 1) / 100.0))
                worst_drift = max(worst_drift, rel)
                res.count("energy_steps_consistent" if init == "consistent" else "energy_steps_arbitrary")
                if axisym:
                    res.count("axisym_energy_steps")
        Elist.append(En)
        # ---- rigid translation
        if init == "rigid":
            scale = float(onp.linalg.norm(cvec) + onp.linalg.norm(vvec) * t)
            Uex = field(onp.zeros(nu)) + (cvec + vvec * t)
            Uex[mask] = 0.0
            Uf = field(Uu_new)
            Vf = field(Vu_new)
            Vex = onp.tile(vvec, (nN, 1))
            Vex[mask] = 0.0
            res.bound("rigid_translation_displacement", float(onp.max(onp.abs(Uf - Uex))), TOL_RIGID * scale, {"step": n, "t": t, "dt": dt})
            res.bound("rigid_translation_velocity", float(onp.max(onp.abs(Vf - Vex))), TOL_RIGID * float(onp.linalg.norm(vvec)) * max(1.0, t / dt),
                      {"step": n, "t": t, "dt": dt})
            res.bound("rigid_translation_acceleration", float(onp.max(onp.abs(Au_new))), TOL_RIGID * float(onp.linalg.norm(vvec)) / dt * max(1.0, t / dt),
                      {"step": n, "t": t, "dt": dt})
            res.count("rigid_steps")
            if axisym or pp is not None:
                res.count("option_rigid_steps")
        Uu, Vu, Au, r_prev = Uu_new, Vu_new, Au_new, r_new
    if int(case["nsteps"]) >= 200 and nconv >= 200:
        res.count("long_histories_200")
    if nconv == 0:
        res.vacuous("the minimiser did not converge on the first step")
    moving = float(onp.linalg.norm(Vu)) > 0 and (init == "rigid" or float(onp.linalg.norm(Au)) > 0)
    if nconv >= 5 and dt_changes >= 1 and moving:
        res.nontrivial = True
    if nconv >= 5 and case["dt_kind"] == "constant" and moving:
        res.nontrivial = True
    return res


def finalize(results, tier):
    """Extra evidence: the table of stepping configurations executed."""
    table = []
    for r in results:
        c = r["case"]
        if c.get("cls") == "mass":
            table.append("mass | %s meshes -> %s (%d checks)" % (c.get("nmeshes"), r.get("status"), r.get("checks", 0)))
            continue
        table.append("%s | %s E=%.3g rho=%.3g | beta=%.4g gamma=%.4g | order %s %s quad %s | bc=%s%s | init=%s | dt=%s x%s | tr=%s%s -> %s (%d steps converged)" % (
            c.get("cls"), c["material"]["name"], c["material"]["E"], c["material"]["density"], c.get("beta"), c.get("gamma"),
            c["mesh"]["order"], c.get("meshkind"), c.get("quad"), c.get("bc"), " (non-zero constant values)" if c.get("ubc_nonzero") else "",
            c.get("init"), c.get("dt_kind"), c.get("nsteps"), c.get("tr"), " incremental-objective" if c.get("incremental") else "",
            r.get("status"), r.get("obs", {}).get("solver_converged_steps", 0)))
    return {"configurations": sorted(table)}
