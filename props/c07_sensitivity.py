"""C07 — sensitivities through the equilibrium solve equal implicit-function-theorem derivatives.

Runtime monitors (all on real executions of the code in VERIF_REPO):
  (a) small_*    jax.vjp / jax.grad through inverse.NonlinearSolve.nonlinear_solve and nonlinear_solve_with_state on
                 small convex parameterised energies; every returned cotangent is compared with the dense reference
                 -(H^-1 v)^T G_k (forward-mode jacfwd + numpy solve, vlib/oracles/c07_ift.py); the harness re-checks the
                 residual at the returned Uu, mutates objective.p between the forward and the backward pass, checks
                 None slots, the (zero) cotangent of the starting guess, and a Richardson finite difference through
                 plain forward solves;  *_chain: 2-3 load steps with state carried through p[1].
  (b) fe_*       the same monitors on FE energies (Neohookean / J2; design = nodal coordinates or element densities).
  (c) helper     MechanicsInverse vector-Jacobian helpers vs dense forward-mode Jacobians and finite differences over
                 a function space constructed *directly* on the moved mesh.
  (d) adjoint_space  construct_function_space_for_adjoint(moved coords) vs FunctionSpace.construct_function_space.
A recorder around EquationSolver.solve_trust_region_minimization (module attribute) reports how each adjoint solve ended.
"""
import math

import numpy as onp

from vlib.common import Res, derive_seed, rng_of, EPS

PROPERTY = "C07"
LEVEL = "exploration"
RULE = ("cases = (compiled configuration, seed). small: dimension 3..15, which of the slots 0/1/2/4 are populated, slot shapes; "
        "per case random SPD matrix (condition 1..100), couplings, slot values, starting guess and cotangents; both entry "
        "points x default/tight CG settings. fe: mesh x material x design kind, random boundary values, design, dead load. "
        "every field of Objective.Params is populated and read by the energies: 0 bc, 1 state, 2 design, 3 app data (coefficients), "
        "4 time, 5 dynamic data (Newmark-type inertia 0.5/(beta dt^2)(x-xd)^T M (x-xd) with dt from the time slot). "
        "every solve-class evaluation rebuilds the Objective around one of five preconditioner strategies (none / stale initial "
        "stiffness / Jacobi / identity / randomly rescaled), cycled by seed. "
        "helper: mesh x material (J2, rate-sensitive J2, HyperViscoelastic, MultiBranch, Neohookean) x time step kind (argument "
        "omitted, small, O(relaxation time), large), random displacements/states/cotangents. adjoint_space: mesh kind/order/mode, random node moves. "
        "Non-trivial = the forward solve moved away from its starting guess, the residual re-check passed, H is SPD and every "
        "populated slot has a non-zero reference cotangent (solve classes); yielded points present or non-affine move (helper/"
        "adjoint_space). Distinct = canonical hash of the case record.")
ASSUMPTIONS = [
    "CHOLMOD test double vlib/shims/sksparse (dense Cholesky) stands in for scikit-sparse",
    "dense reference: forward-mode jax.jacfwd of jax.grad(energy) + numpy.linalg.solve/eigvalsh (float64) are correct",
    "tolerance of a cotangent = ||G_k||_2 (10*max(cg_tol, cg_inexact_solve_ratio*||v||) + 1e-9*||v||)/lambda_min(H): the adjoint "
    "CG's own stopping rule times the conditioning, x10 safety, plus a rounding floor calibrated on the unchanged tree "
    "(observed <= 1e-12 of ||G||.||v||/lambda_min with tight settings; the floor 1e-9 is > 100x larger); applies only when the recorded "
    "adjoint solve ended 'interior'. Load-step chains: sum over steps of ||H_k dU_k/dtheta||_2 times the same per-step bound",
    "finite differences through forward solves (Richardson, 4 solves at tol 1e-11): allowed 1e-7 of the cotangent scale + 1e-9, "
    "calibrated (observed <= 5e-11 small, <= 2e-11 FE); skipped (counted) when the J2 yield set changes inside the stencil",
    "Objective closures (hessian_vec, vec_hessian, vec_jacobian_p0/1/2/4, jacobian_p_vec, jacobian_p2_vec) vs dense Jacobians: "
    "1e-11 * sum_j |J_ij||v_j| (rounding bound; observed <= 5e-16)",
    "the IFT comparison decides however the library obtained the adjoint: CG-derived bound when the recorder saw the adjoint CG end "
    "'interior', rounding floor alone when no adjoint CG solve was observed, vacuous only for a recorded iteration-cap exit",
    "non-exact preconditioner strategies are SPD by construction, so the solver's CG converges; they must not change any cotangent",
    "rate-dependent models: the energy-based helper products are not compared at dt = 0 (rate potentials divide by dt); the "
    "rate-sensitive J2 uses exponent m = 1 so that its kinetic potential is twice differentiable at zero plastic rate (elastic points)",
    "helper VJPs vs forward-mode dense Jacobians: allowed 1e-10 * max_i sum_j |J_ji||v_j| (rounding bound; observed <= 2e-14, J2 "
    "finite kinematics); helper finite differences over a directly constructed function space: 1e-6 (observed <= 9e-10)",
    "adjoint function space vs direct construction: allowed 1e-14 * max|array| (observed 0); its coordinate derivative vs Richardson "
    "differences of the direct constructor: 1e-7 (observed <= 2e-14)",
    "the energies of class fe are harness code assembled from optimism's Mechanics/FunctionSpace factories as in its inverse tests; "
    "sampled states at which the energy derivatives are not finite (inverted element) are vacuous",
]
REQUIRED = {
    "all": {
        "class:small_single": 8, "class:small_corner": 4, "corner_zero_cotangent": 1, "corner_converged_guess": 1,
        "corner_zero_params": 1, "corner_same_p": 1, "class:small_chain": 4, "class:small_legacy_chain": 2, "class:small_loadcases": 2, "loadcase_on_reused_objective:design": 6,
        "loadcase_on_reused_objective:state": 6, "class:fe": 2, "class:helper": 2,
        "class:adjoint_space": 2,
        "ift_cotangent_compared": 200, "slot0_compared": 40, "slot1_compared": 20, "slot2_compared": 40, "slot4_compared": 20,
        "entry_state": 20, "entry_design": 20, "settings_default": 20, "settings_tight": 20,
        "none_slot_checked": 8, "guess_cotangent_checked": 40, "residual_rechecked": 40,
        "adjoint_exit_interior": 80, "grad_qoi_compared": 20, "chain_gradient_compared": 8, "chain_steps": 16,
        "fd_through_solve": 8, "backward_after_p_mutation": 40,
        "fe_chain_gradient_compared": 2, "fe_plastic_points": 1,
        "objective_closure_compared": 40,
        "precond_none_compared": 10, "precond_stale_compared": 10, "precond_jacobi_compared": 10, "precond_identity_compared": 10,
        "precond_perturbed_compared": 10,
        "slot0_populated": 20, "slot1_populated": 10, "slot2_populated": 20, "slot4_populated": 10, "slot3_populated_and_read": 20,
        "slot5_populated_and_read": 20, "param_index_update_contract_evaluations": 40,
        "param_index_update_index0_checked": 20, "param_index_update_index1_checked": 20, "param_index_update_index2_checked": 20,
        "param_index_update_index3_checked": 20, "param_index_update_index4_checked": 20, "param_index_update_index5_checked": 20,
        "helper_product_compared": 60, "helper_fd_compared": 8, "helper_yielded_points": 1, "helper_evolving_points": 1,
        "helper_dt_nonzero_j2": 6, "helper_dt_nonzero_j2_rate": 6, "helper_dt_nonzero_visco": 6, "helper_dt_nonzero_multibranch": 6,
        "helper_dt_nonzero_hyperelastic": 2, "helper_j2_rate_dt_default": 1, "helper_visco_dt_default": 1, "helper_multibranch_dt_default": 1,
        "helper_prod_ivs_disp_vjp_dt_nonzero": 12, "helper_prod_ivs_prev_jacobian_dt_nonzero": 12, "helper_prod_ivs_coords_vjp_dt_nonzero": 9,
        "helper_prod_residual_ivs_vjp_dt_nonzero": 9, "helper_prod_residual_coords_vjp_dt_nonzero": 9,
        "helper_prod_residual3_coords_vjp_dt_nonzero": 9,
        "afs_arrays_compared": 12, "afs_derivative_compared": 2,
    },
    "quick": {},
    "thorough": {"class:small_search": 20, "search_children": 200, "ift_cotangent_compared": 5000, "chain_gradient_compared": 200, "fe_chain_gradient_compared": 20,
                 "helper_product_compared": 100, "afs_arrays_compared": 100},
}
WATCHDOG_S = {"quick": 2400, "thorough": 5 * 3600}
MAX_VACUOUS_FRACTION = 0.2

SAFETY = 10.0
RND = 1e-9
FD_TOL = 1e-7          # finite differences through forward solves / direct function-space construction
HELPER_FD_TOL = 1e-6   # finite differences of the J2 state update (root-find noise 1e-10*Y0 enters the stencil)
HELPER_TOL = 1e-10     # reverse-mode helper vs forward-mode dense Jacobian, relative to sum_j |J_ji||v_j|
D6_KEY = "reverse-rule-raises-TypeError-at-adjoint-solve"
LEGACY_KEY = "legacy-solve-backward-reads-nondesign-slots-from-mutated-objective"

# ----------------------------------------------------------------------------------------------------------------
# case generation (parent; no jax)
# ----------------------------------------------------------------------------------------------------------------

_SMALL_QUICK = [
    # n, nb, sshape, nd, tshape, slots
    (3, 1, [1, 1], 2, [], "0124"), (4, 2, [2, 1], 3, [2], "0124"), (5, 2, [1, 3], 2, [], "0124"), (6, 3, [2, 2], 4, [], "012"),
    (7, 1, [3, 1], 3, [], "024"), (8, 2, [2, 2], 5, [1], "0124"), (9, 4, [1, 2], 2, [], "014"), (10, 2, [2, 3], 6, [], "0124"),
    (12, 3, [3, 2], 4, [], "02"), (13, 2, [2, 2], 3, [2], "0124"), (15, 4, [2, 4], 8, [], "0124"), (5, 3, [2, 1], 2, [], "0"),
]
_FE_QUICK = [(4, 4, "neohookean", "coords"), (4, 3, "neohookean", "density"), (3, 3, "j2_small", "coords"), (3, 3, "j2_small", "density")]
_HELPER_QUICK = [({"kind": "structured", "nx": 3, "ny": 3}, "j2_small", 1), ({"kind": "delaunay", "nx": 3, "ny": 3, "seed": 5}, "neohookean", 2),
                 ({"kind": "structured", "nx": 3, "ny": 3}, "j2_rate", 1), ({"kind": "delaunay", "nx": 3, "ny": 3, "seed": 9}, "visco", 1),
                 ({"kind": "structured", "nx": 3, "ny": 2}, "multibranch", 1)]


def _small_cfgs(tier, seed):
    from vlib.gen.c07_problems import small_cfg
    cfgs = [small_cfg(*c) for c in _SMALL_QUICK]
    if tier == "thorough":
        rng = rng_of(derive_seed(seed, PROPERTY, "cfgs"))
        pats = ["0124", "0124", "0124", "012", "024", "014", "02", "01", "04", "0"]
        for _ in range(48):
            n = int(rng.integers(3, 16))
            cfgs.append(small_cfg(n, int(rng.integers(1, 5)), [int(rng.integers(1, 4)), int(rng.integers(1, 4))],
                                  int(rng.integers(2, 9)), [[], [], [1], [2], [3]][int(rng.integers(5))], pats[int(rng.integers(len(pats)))]))
    return cfgs


def build_cases(tier, seed):
    from vlib.gen.c07_problems import small_cfg_key, fe_cfg, fe_cfg_key
    cases = []
    quick = tier == "quick"
    cfgs = _small_cfgs(tier, seed)
    per_cfg = {"small_single": 3 if quick else 16, "small_chain": 1 if quick else 6, "small_legacy_chain": 1 if quick else 2,
               "small_legacy_bcstep": 1 if quick else 1, "small_loadcases": 1 if quick else 2}
    for ci, cfg in enumerate(cfgs):
        key = small_cfg_key(cfg)
        for cls, m in per_cfg.items():
            if cls in ("small_legacy_chain", "small_legacy_bcstep") and "2" not in cfg["slots"]:
                continue
            if cls == "small_legacy_bcstep" and (not quick and ci >= 24 or quick and ci % 3 != 0):
                continue
            if cls == "small_loadcases" and (not quick and ci >= 24 or quick and ci % 2 != 0):
                continue
            for i in range(m):
                cases.append({"cls": cls, "group": "s%02d" % ci, "cfg": cfg, "cost": 1.0 + cfg["n"] / 10.0,
                              "seed": derive_seed(seed, PROPERTY, cls, key, i)})
    kinds = ["zero_cotangent", "converged_guess", "zero_params", "same_p"]
    for ci, cfg in enumerate(cfgs):
        for j, kind in enumerate(kinds):
            if quick and (ci + j) % 4 != 0:
                continue
            cases.append({"cls": "small_corner", "group": "s%02d" % ci, "cfg": cfg, "cost": 1.0, "knobs": {"kind": kind},
                          "seed": derive_seed(seed, PROPERTY, "corner", small_cfg_key(cfg), kind)})
    if not quick:
        for ci, cfg in enumerate(cfgs):
            cases.append({"cls": "small_search", "group": "s%02d" % ci, "cfg": cfg, "cost": 12.0, "rounds": 16,
                          "seed": derive_seed(seed, PROPERTY, "search", small_cfg_key(cfg))})
    # FE configurations
    fes = [fe_cfg(*c) for c in _FE_QUICK]
    if not quick:
        fes += [fe_cfg(*c) for c in [(5, 4, "neohookean", "coords"), (3, 4, "neohookean_adagio", "coords"), (4, 4, "neohookean", "density"),
                                     (4, 3, "j2_small", "coords"), (3, 3, "j2_large", "coords"), (3, 4, "j2_large", "density"),
                                     (4, 4, "j2_small", "density"), (5, 3, "neohookean_adagio", "density")]]
    nfe = 2 if quick else 4
    for ci, cfg in enumerate(fes):
        j2 = cfg["material"].startswith("j2")
        for i in range(nfe if not (quick and j2) else 1):
            cases.append({"cls": "fe", "group": "f%02d" % ci, "cfg": cfg, "cost": 60.0 if j2 else 15.0,
                          "seed": derive_seed(seed, PROPERTY, "fe", fe_cfg_key(cfg), i)})
    # helper products
    helpers = list(_HELPER_QUICK)
    if not quick:
        helpers += [({"kind": "delaunay", "nx": 3, "ny": 4, "seed": 11}, "j2_small", 1), ({"kind": "structured", "nx": 3, "ny": 3}, "j2_large", 1),
                    ({"kind": "structured", "nx": 4, "ny": 3}, "neohookean_adagio", 1), ({"kind": "delaunay", "nx": 4, "ny": 3, "seed": 3, "hole": False}, "j2_small", 2),
                    ({"kind": "delaunay", "nx": 3, "ny": 3, "seed": 21}, "j2_rate", 2), ({"kind": "structured", "nx": 3, "ny": 3}, "visco", 2),
                    ({"kind": "delaunay", "nx": 3, "ny": 3, "seed": 4}, "multibranch", 1)]
    for ci, (spec, mat, qdeg) in enumerate(helpers):
        heavy = mat.startswith("j2") or mat in ("visco", "multibranch")
        # the dense second-order references of the rate-dependent models are expensive to compile: first-order (state
        # update) and second-order (residual) helper products run as separate groups; multibranch residuals: thorough only
        if mat in ("j2_rate", "visco", "j2_large"):
            parts = ["ivs", "res"]
        elif mat == "multibranch":
            parts = ["ivs_min"] if quick else ["ivs", "res"]
        else:
            parts = ["all"]
        for part in parts:
            for i in range((2 if quick else 8)):
                cases.append({"cls": "helper", "group": "h%02d%s" % (ci, part), "mesh": spec, "material": mat, "qdeg": qdeg, "part": part,
                              "cost": 40.0 if heavy else 8.0, "seed": derive_seed(seed, PROPERTY, "helper", ci, part, i)})
    # adjoint function space
    kinds = []
    for order in (1, 2) if quick else (1, 2, 3):
        for mode in ("cartesian", "axisymmetric"):
            for kind in ("structured", "delaunay"):
                kinds.append((order, mode, kind))
    for ci, (order, mode, kind) in enumerate(kinds):
        for i in range(2 if quick else 10):
            cases.append({"cls": "adjoint_space", "group": "a%d" % (ci % 4), "order": order, "mode": mode, "kind": kind, "cost": 3.0,
                          "seed": derive_seed(seed, PROPERTY, "afs", order, mode, kind, i)})
    return cases


# ----------------------------------------------------------------------------------------------------------------
# worker side
# ----------------------------------------------------------------------------------------------------------------

_PROBLEMS = {}
_SETTINGS = {}
_REC = []
_INSTALLED = []


def _install_recorder():
    """Observe every adjoint linear solve: NonlinearSolve calls EquationSolver.solve_trust_region_minimization through the
    module attribute with an infinite radius; the forward Newton-CG calls carry a finite radius and are ignored."""
    if _INSTALLED:
        return
    from optimism import EquationSolver as es
    orig = es.solve_trust_region_minimization

    def recorded(*a, **k):
        out = orig(*a, **k)
        try:
            tr = a[4] if len(a) == 6 else k.get("trSize", None)
            if tr is not None and not math.isfinite(float(tr)):
                _REC.append((str(out[2]), int(out[3])))
        except Exception:
            pass
        return out

    es.solve_trust_region_minimization = recorded
    _INSTALLED.append(orig)


def _settings(name):
    from optimism import EquationSolver as es
    if name not in _SETTINGS:
        if name == "default":
            _SETTINGS[name] = es.get_settings(debug_info=False)
        else:
            _SETTINGS[name] = es.get_settings(debug_info=False, tol=1e-11, cg_tol=1e-14, cg_inexact_solve_ratio=1e-12)
    return _SETTINGS[name]


def _problem(cfg):
    from vlib.gen import c07_problems as gp
    from vlib.oracles import c07_ift as ift
    import jax
    key = gp.small_cfg_key(cfg) if cfg["kind"] == "small" else gp.fe_cfg_key(cfg)
    if key not in _PROBLEMS:
        prob = gp.build_small_problem(cfg) if cfg["kind"] == "small" else gp.build_fe_problem(cfg)
        prob["derivs"] = ift.make_dense_derivs(prob["f"], prob["upd"])
        prob["upd_jit"] = jax.jit(prob["upd"]) if prob["upd"] is not None else None
        _PROBLEMS[key] = prob
    return _PROBLEMS[key]


def _np(x):
    return onp.asarray(x, dtype=float)


def _with_precond(prob, kind, x_ref, p_ref, rng):
    """Same problem, Objective rebuilt around a (non-)exact preconditioner strategy (see gen.c07_problems)."""
    from vlib.gen import c07_problems as gp
    import jax.numpy as np
    q = dict(prob)
    q["obj"] = gp.objective_with_precond(prob, kind, np.asarray(x_ref), p_ref, rng)
    q["precond"] = kind
    return q


def _precond_cycle(seed):
    from vlib.gen.c07_problems import PRECOND_KINDS
    off = int(seed) % len(PRECOND_KINDS)
    return [PRECOND_KINDS[(off + j) % len(PRECOND_KINDS)] for j in range(len(PRECOND_KINDS))]


def _exc_mechanism(e):
    if isinstance(e, TypeError) and "solve_trust_region_minimization" in str(e) and "positional argument" in str(e):
        return D6_KEY
    return None


def _solver(entry):
    from optimism.inverse import NonlinearSolve as NS
    return NS.nonlinear_solve_with_state if entry == "state" else NS.nonlinear_solve


def _adjoint_exits(res):
    """Consume the recorder; returns True iff every adjoint solve since the last call ended with its residual test."""
    ok = True
    for step, iters in _REC:
        name = "adjoint_exit_" + step.replace(" ", "_")
        res.count(name)
        res.count("adjoint_cg_iterations", iters)
        if step != "interior":
            ok = False
    n = len(_REC)
    del _REC[:]
    return ok, n


def _compare_slots(res, st, v, cp, p, sname, clause, mech=None, extra=None, direct=False):
    """cp: dict slot -> returned cotangent (or None); p: the parameters of the forward solve.
    direct=True: no adjoint CG solve was observed (the library obtained the adjoint some other way): the comparison still
    decides, with the rounding floor alone -- a direct solve has no iteration tolerance to appeal to."""
    s = _settings(sname)
    cg_tol, ratio = (0.0, 0.0) if direct else (s.cg_tol, s.cg_inexact_solve_ratio)
    ref = st.cotangents(v)
    vnorm = float(onp.linalg.norm(_np(v)))
    nz = True
    for k in (0, 1, 2, 4):
        got = cp.get(k, "absent")
        if isinstance(got, str):
            continue
        if p[k] is None:
            res.expect("none_slot_returned_none", got is None, {"slot": k, "got": repr(type(got))})
            res.count("none_slot_checked")
            continue
        if onp.size(p[k]) == 0:
            res.expect("empty_slot_shape", got is not None and tuple(onp.shape(got)) == tuple(onp.shape(p[k])), {"slot": k})
            continue
        if got is None:
            res.violate(clause, {"slot": k, "why": "cotangent is None for a populated slot"}, mech)
            continue
        got = _np(got)
        if got.shape != ref[k].shape:
            res.violate(clause, {"slot": k, "why": "shape", "got": list(got.shape), "want": list(ref[k].shape)}, mech)
            continue
        err = float(onp.linalg.norm(got - ref[k]))
        allowed = st.allowed(k, vnorm, cg_tol, ratio, SAFETY, RND)
        rn = float(onp.linalg.norm(ref[k]))
        d = {"slot": k, "settings": sname, "ref_norm": rn, "cond": st.lmax / st.lmin, "adjoint_cg_observed": not direct}
        if extra:
            d.update(extra)
        res.bound(clause + "_" + sname, err, allowed, d, mech)
        res.count("ift_cotangent_compared")
        res.count("slot%d_compared" % k)
        if not (rn > 10.0 * allowed):
            nz = False
    return nz


_PIU = {"n": 0, "bad": []}


def _install_param_update_contract():
    """Contract on Objective.param_index_update (module attribute, so the Objective's own closures go through it while they
    are traced): the result carries newParam at `index` and the IDENTICAL objects of p in every other field -- all six."""
    if _PIU.get("installed"):
        return
    from optimism import Objective
    orig = Objective.param_index_update

    def checked(p, index, newParam):
        out = orig(p, index, newParam)
        _PIU["n"] += 1
        try:
            ok = out is not None and len(out) == len(p) == 6 and out[index] is newParam and all(out[j] is p[j] for j in range(6) if j != index)
        except Exception:
            ok = False
        if not ok and len(_PIU["bad"]) < 5:
            _PIU["bad"].append({"index": int(index), "fields_kept": [bool(out is not None and j < len(out) and out[j] is p[j]) for j in range(6)]})
        return out

    Objective.param_index_update = checked
    _PIU["installed"] = True


def _param_update_direct(res, p):
    """Direct evaluation of the same contract for every index 0..5 on the fully populated parameter set of this case."""
    from optimism import Objective
    for idx in range(6):
        new = object() if p[idx] is None else p[idx]
        marker = ("marker", idx)
        out = Objective.param_index_update(p, idx, marker)
        ok = out is not None and len(out) == 6 and out[idx] is marker and all(out[j] is p[j] for j in range(6) if j != idx)
        res.expect("param_index_update_roundtrip", ok, {"index": idx, "fields_kept": [bool(out is not None and j < len(out) and out[j] is p[j]) for j in range(6)] if out is not None else None})
        res.count("param_index_update_index%d_checked" % idx)


def _slot_dependence(res, prob, x, p):
    """The energy genuinely reads the non-differentiable slots too: perturbing app data (3) / dynamic data (5) moves the residual."""
    import jax
    g0 = _np(prob["obj"].grad_x(x, p))
    for k in (3, 5):
        if p[k] is None:
            continue
        q = type(p)(*[jax.tree_util.tree_map(lambda z: 1.1 * z + 0.01, p[i]) if i == k else p[i] for i in range(6)])
        if float(onp.linalg.norm(_np(prob["obj"].grad_x(x, q)) - g0)) > 1e-8 * (1.0 + float(onp.linalg.norm(g0))):
            res.count("slot%d_populated_and_read" % k)
    for k in (0, 1, 2, 4):
        if p[k] is not None and onp.size(p[k]) > 0:
            res.count("slot%d_populated" % k)


def _drain_param_update_contract(res):
    n = _PIU["n"]
    _PIU["n"] = 0
    if n:
        res.count("param_index_update_contract_evaluations", n)
    bad, _PIU["bad"] = _PIU["bad"], []
    for b in bad:
        res.violate("param_index_update_contract", b)


def _closures(res, prob, st, x, p, rng):
    """The Objective's jitted derivative closures the reverse rules are assembled from, against the dense Jacobians
    (rounding-level agreement: same primal code, different differentiation mode)."""
    import jax.numpy as np
    obj = prob["obj"]
    obj.p = p
    n = st.n
    w = rng.standard_normal(n)
    wj = np.asarray(w)
    TOL = 1e-11
    hv = _np(obj.hessian_vec(x, wj))
    res.bound("objective_hessian_vec", float(onp.max(onp.abs(hv - st.H @ w))), TOL * float(onp.max(onp.abs(st.H) @ onp.abs(w))), {})
    vh = _np(obj.vec_hessian(x, wj)[0])
    res.bound("objective_vec_hessian", float(onp.max(onp.abs(vh - w @ st.H))), TOL * float(onp.max(onp.abs(w) @ onp.abs(st.H))), {})
    fns = {0: obj.vec_jacobian_p0, 1: obj.vec_jacobian_p1, 2: obj.vec_jacobian_p2, 4: obj.vec_jacobian_p4}
    for k in st.slots:
        got = _np(fns[k](x, wj)[0]).reshape(-1)
        ref = w @ st.G[k]
        res.bound("objective_vec_jacobian_p%d" % k, float(onp.max(onp.abs(got - ref))), TOL * max(float(onp.max(onp.abs(w) @ onp.abs(st.G[k]))), 1e-300), {})
        res.count("objective_closure_compared")
    for k, fn in ((0, obj.jacobian_p_vec), (2, obj.jacobian_p2_vec)):
        if k in st.slots:
            vp = rng.standard_normal(st.shape[k])
            got = _np(fn(x, np.asarray(vp))).reshape(-1)
            ref = st.G[k] @ vp.reshape(-1)
            res.bound("objective_jacobian_p%d_vec" % k, float(onp.max(onp.abs(got - ref))), TOL * max(float(onp.max(onp.abs(st.G[k]) @ onp.abs(vp.reshape(-1)))), 1e-300), {})
            res.count("objective_closure_compared")


def _single(res, prob, entry, sname, x0, p, p_before, p_after, vs, rng, require_forward=False):
    """One forward solve under jax.vjp, several pull-backs, one jax.grad of a nonlinear quantity of interest."""
    import jax
    import jax.numpy as np
    from vlib.oracles import c07_ift as ift
    obj = prob["obj"]
    s = _settings(sname)
    solve = _solver(entry)
    arg = p if entry == "state" else p[2]
    fn = lambda g, q: solve(obj, s, g, q)
    res.count("entry_" + entry)
    res.count("settings_" + sname)
    obj.p = p_before
    del _REC[:]
    try:
        Uu, pull = jax.vjp(fn, x0, arg)
    except Exception as e:  # noqa
        res.violate("derivative_exists", {"stage": "forward under jax.vjp", "entry": entry, "exc": "%s: %s" % (type(e).__name__, str(e)[:200])}, _exc_mechanism(e))
        return None
    d = prob["derivs"](Uu, p)
    st = ift.StepRef(d, p)
    gn = float(onp.linalg.norm(st.g))
    res.count("residual_rechecked")
    if not (gn < s.tol):
        res.count("forward_not_converged")
        if require_forward and not (gn < 1e3 * s.tol):
            # the identical call (same guess, same argument, same objective parameters) on a fresh Objective reached the
            # equilibrium; on the re-used Objective the point handed to the derivative rules is not an equilibrium of the
            # requested parameters, so no pull-back through it can be the implicit-function-theorem derivative
            res.violate("forward_equilibrium_on_reused_objective",
                        {"entry": entry, "settings": sname, "residual_norm": gn, "tol": float(s.tol), "precond": prob.get("precond", "none")})
        return None
    if not st.finite() or not (st.lmin > 0):
        res.count("hessian_not_spd")
        return None
    moved = float(onp.linalg.norm(_np(Uu) - _np(x0))) > 1e-6
    nontrivial = moved
    if sname == "tight" and entry == "state":
        _param_update_direct(res, p)
        _slot_dependence(res, prob, Uu, p)
        try:
            _closures(res, prob, st, Uu, p, rng)
        except Exception as e:  # noqa  -- a derivative closure of the Objective raises on a fully populated parameter set
            res.violate("derivative_exists", {"stage": "Objective closure (vec_jacobian_p*/jacobian_p*_vec/hessian products)", "entry": entry,
                                              "exc": "%s: %s" % (type(e).__name__, str(e)[:200])}, _exc_mechanism(e))
    for v in vs:
        obj.p = p_after          # a later load step has overwritten the objective's parameters before the backward pass
        res.count("backward_after_p_mutation")
        del _REC[:]
        try:
            ct = pull(np.asarray(v))
        except Exception as e:  # noqa
            res.violate("derivative_exists", {"stage": "pull-back", "entry": entry, "settings": sname,
                                              "exc": "%s: %s" % (type(e).__name__, str(e)[:200])}, _exc_mechanism(e))
            return None
        ok, nrec = _adjoint_exits(res)
        if nrec == 0:
            res.count("adjoint_solve_not_observed")
        g0 = _np(ct[0])
        res.expect("guess_cotangent_zero", g0.shape == _np(x0).shape and bool(onp.all(g0 == 0.0)), {"entry": entry, "max": float(onp.max(onp.abs(g0))) if g0.size else 0.0})
        res.count("guess_cotangent_checked")
        if not ok:
            res.count("adjoint_not_converged")
            continue
        cp = {k: ct[1][k] for k in (0, 1, 2, 4)} if entry == "state" else {2: ct[1]}
        nz = _compare_slots(res, st, v, cp, p, sname, "ift_cotangent", extra={"entry": entry, "via": "vjp", "precond": prob.get("precond", "none")}, direct=(nrec == 0))
        res.count("precond_%s_compared" % prob.get("precond", "none"))
        nontrivial = nontrivial and nz
    # jax.grad of q(U(p), p) = wq.sin(U) + sum_k c_k |p_k|^2/2
    wq = rng.standard_normal(prob["n"])
    cq = {k: float(rng.uniform(-1, 1)) for k in (0, 1, 2, 4)}

    def direct(q):
        if entry == "state":
            return sum(0.5 * cq[k] * np.sum(q[k] ** 2) for k in (0, 1, 2, 4) if q[k] is not None and onp.size(q[k]) > 0)
        return 0.5 * cq[2] * np.sum(q ** 2)

    def qoi(g, q):
        U = solve(obj, s, g, q)
        return np.sum(np.asarray(wq) * np.sin(U)) + direct(q), U

    obj.p = p_before
    del _REC[:]
    try:
        (val, U2), gr = jax.value_and_grad(qoi, argnums=(0, 1), has_aux=True)(x0, arg)
    except Exception as e:  # noqa
        res.violate("derivative_exists", {"stage": "jax.grad", "entry": entry, "exc": "%s: %s" % (type(e).__name__, str(e)[:200])}, _exc_mechanism(e))
        return {"st": st, "nontrivial": False}
    ok, nrec2 = _adjoint_exits(res)
    if nrec2 == 0:
        res.count("adjoint_solve_not_observed")
    st2 = ift.StepRef(prob["derivs"](U2, p), p)
    if ok and float(onp.linalg.norm(st2.g)) < s.tol and st2.finite() and st2.lmin > 0:
        vq = wq * onp.cos(_np(U2))
        if entry == "state":
            cp = {}
            for k in (0, 1, 2, 4):
                c = gr[1][k]
                if c is not None and p[k] is not None and onp.size(p[k]) > 0:
                    c = _np(c) - cq[k] * _np(p[k])
                cp[k] = c
        else:
            cp = {2: _np(gr[1]) - cq[2] * _np(p[2])}
        _compare_slots(res, st2, vq, cp, p, sname, "ift_cotangent", extra={"entry": entry, "via": "grad", "precond": prob.get("precond", "none")}, direct=(nrec2 == 0))
        res.count("grad_qoi_compared")
    return {"st": st, "nontrivial": bool(nontrivial)}


def _fd_through_solve(res, prob, p, Uu, st, ct, v, rng, h, active=None):
    """Richardson central difference of v.U(p + h*delta) over plain forward solves (no differentiation anywhere)
    against <library cotangent, delta>.  ct: dict slot -> cotangent (tight settings)."""
    import jax.numpy as np
    from optimism import EquationSolver as es
    from vlib.oracles import c07_ift as ift
    from vlib.gen.c07_problems import _quiet
    obj = prob["obj"]
    s = _settings("tight")
    slots = [k for k in st.slots if k in ct and ct[k] is not None]
    delta = {k: rng.standard_normal(onp.shape(p[k])) for k in slots}
    for k in slots:
        delta[k] = delta[k] / max(1e-300, float(onp.linalg.norm(delta[k])))
    sets = []

    def phi(hh):
        q = p
        for k in slots:
            q = ift.with_slot(q, k, np.asarray(_np(p[k]) + hh * delta[k]))
        with _quiet():
            U, okk = es.nonlinear_equation_solve(obj, np.asarray(Uu), q, s, useWarmStart=False)
        if active is not None:
            sets.append(active(U, q))
        if not okk:
            raise FloatingPointError("forward solve did not converge")
        return float(onp.dot(_np(v), _np(U)))

    try:
        fd, spread = ift.richardson_central(phi, h)
    except FloatingPointError:
        res.count("fd_forward_failed")
        return
    if active is not None and any(not onp.array_equal(sets[0], a) for a in sets[1:]):
        res.count("fd_skipped_yield_set_changed")
        return
    lib = sum(float(onp.sum(_np(ct[k]) * delta[k])) for k in slots)
    scale = sum(float(onp.linalg.norm(st.cotangents(v)[k])) for k in slots)
    res.bound("fd_through_solve", abs(lib - fd), FD_TOL * scale + 1e-9, {"lib": lib, "fd": fd, "richardson_spread": spread, "slots": slots})
    res.count("fd_through_solve")


def _chain(res, prob, entry, sname, x0, theta, app, scales, vs, w, clause="chain_gradient", legacy_mutate=None):
    """K load steps on one Objective inside a single jax.grad.
    theta: dict slot -> numpy value; step k uses p_k[slot] = scales[k][slot]*theta[slot], p_k[1] = state carried by upd.
    entry 'design': only slot 2 is differentiated; the other slots are written into objective.p by the harness before each
    solve (legacy_mutate=None keeps them constant over the steps)."""
    import jax
    import jax.numpy as np
    from optimism import Objective
    from vlib.oracles import c07_ift as ift
    obj = prob["obj"]
    s = _settings(sname)
    solve = _solver(entry)
    K = len(scales)
    upd = prob["upd_jit"]
    from vlib.gen.c07_problems import split_app
    appj, dynj = split_app(app)
    slots = sorted(theta.keys())
    dslots = slots if entry == "state" else [2]
    use_upd = entry == "state" and upd is not None and 1 in theta and onp.size(theta[1]) > 0
    const = {k: np.asarray(theta[k]) for k in slots}

    def params(k, th, S):
        g = lambda sl: (scales[k][sl] * th[sl] if sl in th else None)
        return Objective.Params(g(0), S if 1 in th else None, g(2), appj, g(4), dynj)

    def run(*args):
        th = dict(const)
        for sl, a in zip(dslots, args):
            th[sl] = a
        U = np.asarray(x0)
        S = th.get(1)
        q = 0.0
        Us, Ss, Ps = [], [], []
        for k in range(K):
            pk = params(k, th, S)
            if entry == "state":
                U = solve(obj, s, U, pk)
            else:
                obj.p = jax.tree_util.tree_map(jax.lax.stop_gradient, ift.with_slot(pk, 2, obj.p[2]))
                U = solve(obj, s, U, pk[2])
            q = q + np.dot(np.asarray(vs[k]), U)
            Us.append(U)
            Ps.append(pk)
            if use_upd:
                S = upd(U, pk)
                Ss.append(S)
        if use_upd and w is not None:
            q = q + np.sum(np.asarray(w) * S)
        return q, (Us, Ss)

    # objective.p before the chain: the first step's parameters with other values (a previous analysis)
    th0 = {k: np.asarray(theta[k]) for k in slots}
    obj.p = params(0, {k: 0.9 * th0[k] for k in slots}, 0.9 * th0[1] if 1 in th0 else None)
    del _REC[:]
    res.count("entry_" + entry)
    res.count("settings_" + sname)
    try:
        (val, (Us, Ss)), gr = jax.value_and_grad(run, argnums=tuple(range(len(dslots))), has_aux=True)(*[th0[k] for k in dslots])
    except Exception as e:  # noqa
        res.violate("derivative_exists", {"stage": "jax.grad over %d load steps" % K, "entry": entry,
                                          "exc": "%s: %s" % (type(e).__name__, str(e)[:200])}, _exc_mechanism(e))
        return None
    ok, nrec = _adjoint_exits(res)
    # dense reference at the returned U_k
    steps, S = [], (th0[1] if 1 in th0 else None)
    for k in range(K):
        pk = params(k, th0, S)
        d = prob["derivs"](Us[k], pk)
        st = ift.StepRef(d, pk)
        res.count("residual_rechecked")
        if not (float(onp.linalg.norm(st.g)) < s.tol):
            res.count("forward_not_converged")
            return None
        if not st.finite() or not (st.lmin > 0):
            res.count("hessian_not_spd")
            return None
        steps.append(st)
        if use_upd:
            S = Ss[k]
    if not ok:          # a recorded adjoint solve ran into its iteration cap: the tolerance hypothesis fails
        res.count("adjoint_not_converged")
        return None
    if nrec == 0:       # no adjoint CG solve observed at all: the comparison still decides, with the rounding floor alone
        res.count("adjoint_solve_not_observed")
    lay_p = params(0, th0, th0.get(1))
    lay, ntheta = {}, 0
    for sl in dslots:
        if lay_p[sl] is not None and onp.size(lay_p[sl]) > 0:
            lay[sl] = (ntheta, ntheta + int(onp.size(lay_p[sl])))
            ntheta += int(onp.size(lay_p[sl]))
    gref, info = ift.chain_reference(steps, lay, ntheta, scales, vs, w if use_upd else None)
    got = onp.zeros(ntheta)
    for sl, g in zip(dslots, gr):
        if sl in lay:
            a, b = lay[sl]
            got[a:b] = _np(g).reshape(-1)
    allowed = 0.0
    for k, st in enumerate(steps):
        rho = max(s.cg_tol, s.cg_inexact_solve_ratio * info["vt_norm"][k]) if nrec > 0 else 0.0
        allowed += info["amp"][k] * (SAFETY * rho + RND * info["vt_norm"][k]) / st.lmin
    allowed += 100.0 * info["self_mismatch"]
    err = float(onp.linalg.norm(got - gref))
    mech = None
    if legacy_mutate and entry == "design" and err > allowed:
        # honest-failure signature of the open finding: the returned gradient is the one obtained when every step's
        # backward pass is evaluated with the non-design slots objective.p holds at the END of the chain
        alt = []
        for k in range(K):
            pk = params(k, th0, th0.get(1))
            pl = params(K - 1, th0, th0.get(1))
            pa = ift.with_slot(pl, 2, pk[2])
            alt.append(ift.StepRef(prob["derivs"](Us[k], pa), pa))
        galt, _ = ift.chain_reference(alt, lay, ntheta, scales, vs, None)
        if float(onp.linalg.norm(got - galt)) <= allowed:
            mech = LEGACY_KEY
            res.count("legacy_signature_matched")
    res.bound(clause + "_" + sname, err, allowed, {"entry": entry, "settings": sname, "steps": K, "ref_norm": info["scale"],
                                     "reference_forward_vs_reverse": info["self_mismatch"]}, mech)
    res.count("chain_gradient_compared")
    res.count("precond_%s_compared" % prob.get("precond", "none"))
    res.count("chain_steps", K)
    # per-slot breakdown for the evidence
    for sl in lay:
        a, b = lay[sl]
        res.count("slot%d_compared" % sl)
        res.count("ift_cotangent_compared")
    return {"steps": steps, "Us": Us, "Ss": Ss, "info": info, "allowed": allowed, "got": got, "gref": gref, "lay": lay,
            "nontrivial": info["scale"] > 10.0 * allowed}


def _small_inputs(cfg, seed, knobs):
    """All inputs of a small_single evaluation from (seed, knobs).  knobs (all optional) steer the margin search and the
    corner classes: cond (condition number of A), sscale (scale of slot values), vscale (scale of cotangents), x0scale,
    kind in {None, 'zero_cotangent', 'converged_guess', 'zero_params', 'same_p'}."""
    import jax.numpy as np
    from vlib.gen import c07_problems as gp
    rng = rng_of(seed)
    a, cond = gp.small_coeffs(cfg, rng, cond=knobs.get("cond"))
    ss = float(knobs.get("sscale", 1.0))
    kind = knobs.get("kind")
    draws = [gp.small_slot_values(cfg, rng) for _ in range(3)]
    if kind == "zero_params":
        draws[0] = {k: 0.0 * v for k, v in draws[0].items()}
    if kind == "same_p":
        draws[1] = draws[0]
        draws[2] = draws[0]
    ps = [gp.make_params({k: ss * v for k, v in d.items()}, a) for d in draws]
    x0 = np.asarray(float(knobs.get("x0scale", 0.1)) * rng.standard_normal(cfg["n"]))
    return rng, a, cond, ps, x0


def _small_eval(res, prob, cfg, seed, knobs, combos, fd=True):
    import jax
    import jax.numpy as np
    from optimism import EquationSolver as es
    from vlib.gen.c07_problems import _quiet
    from vlib.oracles import c07_ift as ift
    rng, a, cond, (p, p_prev, p_next), x0 = _small_inputs(cfg, seed, knobs)
    kind = knobs.get("kind")
    if kind == "converged_guess":       # start the differentiated solve at the equilibrium itself
        prob["obj"].p = p
        with _quiet():
            x0, _ = es.nonlinear_equation_solve(prob["obj"], x0, p, _settings("tight"), useWarmStart=False)
    vscale = float(knobs.get("vscale", 1.0))
    nconv, nnt = 0, 0
    last = None
    base_prob = prob
    kinds = _precond_cycle(seed)
    for j, (entry, sname) in enumerate(combos):
        if entry == "design" and p[2] is None:
            continue
        prob = _with_precond(base_prob, knobs.get("precond", kinds[j % len(kinds)]), onp.zeros(cfg["n"]), p_prev, rng)
        vs = [vscale * rng.standard_normal(cfg["n"]) * 10.0 ** rng.uniform(-2, 2) for _ in range(2)]
        if kind == "zero_cotangent":
            vs = [onp.zeros(cfg["n"]), 1e-11 * rng.standard_normal(cfg["n"])]
        if entry == "state":
            pb, pa = p_prev, p_next
        else:   # the legacy entry point can only restore the design slot: the other slots stay what the objective holds
            pb, pa = ift.with_slot(p, 2, p_prev[2]), ift.with_slot(p, 2, p_next[2])
        out = _single(res, prob, entry, sname, x0, p, pb, pa, vs, rng)
        if out is not None:
            nconv += 1
            nnt += int(out["nontrivial"])
            if entry == "state" and sname == "tight":
                last = out["st"]
    prob = base_prob
    # finite differences through plain forward solves vs a tight pull-back
    if fd and last is not None and res.status == "held":
        s = _settings("tight")
        from optimism.inverse import NonlinearSolve as NS
        prob["obj"].p = p_prev
        v = rng.standard_normal(cfg["n"])
        Uu, pull = jax.vjp(lambda g, q: NS.nonlinear_solve_with_state(prob["obj"], s, g, q), x0, p)
        ct = pull(np.asarray(v))[1]
        _adjoint_exits(res)
        stt = ift.StepRef(prob["derivs"](Uu, p), p)
        _fd_through_solve(res, prob, p, Uu, stt, {k: ct[k] for k in (0, 1, 2, 4)}, v, rng, 3e-3)
    return nconv, nnt, cond


_ALL_COMBOS = [("state", "default"), ("state", "tight"), ("design", "default"), ("design", "tight")]


def _run_small_single(case, res):
    cfg = case["cfg"]
    prob = _problem(cfg)
    knobs = dict(case.get("knobs", {}))
    res.count("dim_%02d" % cfg["n"])
    res.count("slots_" + cfg["slots"])
    if knobs.get("kind"):
        res.count("corner_" + knobs["kind"])
    nconv, nnt, cond = _small_eval(res, prob, cfg, case["seed"], knobs, _ALL_COMBOS)
    res.count("cond_le_10" if cond <= 10 else "cond_gt_10")
    res.nontrivial = nnt >= 2 or (knobs.get("kind") == "zero_cotangent" and nconv >= 2)
    if nconv == 0 and res.status == "held":
        res.vacuous("no configuration reached a converged SPD equilibrium")
    return res


def _run_small_search(case, res):
    """Margin-guided mutation (thorough tier): hill-climb the generator knobs on the largest observed/allowed ratio of the
    cotangent comparison.  Every child is an ordinary evaluation whose violations count."""
    cfg = case["cfg"]
    prob = _problem(cfg)
    rng = rng_of(derive_seed(case["seed"], "search"))
    knobs = {"cond": 10.0 ** rng.uniform(0, 2), "sscale": 1.0, "vscale": 1.0, "x0scale": 0.1}
    combos = [("state", "default"), ("state", "tight"), ("design", "tight")]

    def ratio_of(k):
        scratch = Res(case)
        nconv, nnt, _ = _small_eval(scratch, prob, cfg, case["seed"], k, combos, fd=False)
        r = max([v for c, v in scratch.ratios.items() if c.startswith("ift_cotangent")] + [0.0])
        # merge
        res.checks += scratch.checks
        for c, v in scratch.ratios.items():
            if v > res.ratios.get(c, -1.0):
                res.ratios[c] = v
        for c, v in scratch.obs.items():
            res.obs[c] = res.obs.get(c, 0) + v
        for v in scratch.violations:
            res.violate(v["clause"], dict(v["detail"] or {}, knobs=k), v["mechanism"])
        return (r if nconv else -1.0), nnt

    best, nnt = ratio_of(knobs)
    first = best
    for _ in range(int(case.get("rounds", 16))):
        child = dict(knobs)
        which = ["cond", "sscale", "vscale", "x0scale"][int(rng.integers(4))]
        child[which] = float(knobs[which] * 10.0 ** rng.uniform(-0.7, 0.7))
        child["cond"] = float(min(max(child["cond"], 1.0), 1e6))
        child["sscale"] = float(min(max(child["sscale"], 1e-3), 5.0))
        child["x0scale"] = float(min(max(child["x0scale"], 0.0), 3.0))
        r, k = ratio_of(child)
        res.count("search_children")
        if r > best:
            best, knobs, nnt = r, child, max(nnt, k)
            res.count("search_improvements")
    res.obs["search_ratio_gain_log10_sum"] = res.obs.get("search_ratio_gain_log10_sum", 0) + (math.log10(best / first) if first > 0 and best > 0 else 0.0)
    res.nontrivial = nnt >= 1
    if best < 0 and res.status == "held":
        res.vacuous("search never reached a converged SPD equilibrium")
    return res


def _small_chain_inputs(cfg, rng):
    from vlib.gen import c07_problems as gp
    a, cond = gp.small_coeffs(cfg, rng)
    theta = gp.small_slot_values(cfg, rng)
    K = int(rng.integers(2, 4))
    x0 = 0.1 * rng.standard_normal(cfg["n"])
    vs = [rng.standard_normal(cfg["n"]) for _ in range(K)]
    w = rng.standard_normal(tuple(cfg["sshape"])) if "1" in cfg["slots"] else None
    return a, theta, K, x0, vs, w


def _run_small_chain(case, res):
    cfg = case["cfg"]
    prob = _problem(cfg)
    rng = rng_of(case["seed"])
    a, theta, K, x0, vs, w = _small_chain_inputs(cfg, rng)
    loads = onp.sort(rng.uniform(0.3, 1.2, size=K))
    scales = [{0: float(loads[k]), 2: 1.0, 4: float(k + 1)} for k in range(K)]
    nt = 0
    from vlib.gen import c07_problems as gp
    kinds = _precond_cycle(case["seed"])
    p_ref = gp.make_params(theta, a)
    for j, sname in enumerate(("default", "tight")):
        pk = _with_precond(prob, kinds[j], onp.zeros(cfg["n"]), p_ref, rng)
        out = _chain(res, pk, "state", sname, x0, theta, a, scales, vs, w)
        if out is not None and out["nontrivial"]:
            nt += 1
    res.count("chain_cases")
    if "1" in cfg["slots"]:
        res.count("chain_with_path_dependent_state")
    res.nontrivial = nt >= 1
    if nt == 0 and res.status == "held":
        res.vacuous("chain never reached converged SPD equilibria")
    return res


def _run_small_legacy(case, res, mutate):
    """Chain of the legacy entry point: the design changes from step to step (d_k = c_k d).  mutate=False keeps the
    non-design slots of objective.p fixed over the steps (the regime the legacy API can represent); mutate=True also
    advances the bc slot of objective.p between the steps, as a load-stepping driver would."""
    cfg = case["cfg"]
    prob = _problem(cfg)
    rng = rng_of(case["seed"])
    a, theta, K, x0, vs, w = _small_chain_inputs(cfg, rng)
    cs = rng.uniform(0.5, 1.5, size=K)
    if mutate:
        loads = onp.sort(rng.uniform(0.3, 1.2, size=K))
    else:
        loads = onp.ones(K) * rng.uniform(0.5, 1.2)
    scales = [{0: float(loads[k]), 2: float(cs[k]), 4: 1.0} for k in range(K)]
    nt = 0
    from vlib.gen import c07_problems as gp
    kinds = _precond_cycle(case["seed"])
    p_ref = gp.make_params(theta, a)
    for j, sname in enumerate(("tight", "default")):
        pk = _with_precond(prob, kinds[j], onp.zeros(cfg["n"]), p_ref, rng)
        out = _chain(res, pk, "design", sname, x0, theta, a, scales, vs, None,
                     clause="legacy_chain_bc_advanced" if mutate else "chain_gradient", legacy_mutate=mutate)
        if out is not None and out["nontrivial"]:
            nt += 1
    res.count("legacy_chain_bc_advanced_cases" if mutate else "legacy_chain_cases")
    res.nontrivial = nt >= 1
    if nt == 0 and res.status == "held":
        res.vacuous("chain never reached converged SPD equilibria")
    return res


def _run_small_loadcases(case, res):
    """Load-case study on ONE Objective: several load cases (bc / time / state slots differ, same design) are analysed from
    the same guess, through both entry points, after the same calls have been made on a fresh Objective each.  Whatever the
    re-used object remembers from the earlier load cases, every solve must hand the derivative rules the equilibrium of the
    parameters it was asked for, and the pulled-back cotangents must equal the IFT reference at that point."""
    import jax.numpy as np
    from vlib.oracles import c07_ift as ift
    cfg = case["cfg"]
    prob = _problem(cfg)
    rng, a, cond, (p, p1, p2), x0 = _small_inputs(cfg, case["seed"], {})
    kinds = _precond_cycle(case["seed"])
    cases_p = []
    for other, f in ((p, 1.0), (p1, 1.0), (p2, 1.0), (p1, -0.7)):
        pk = p
        for sl in (0, 1, 4):
            if p[sl] is not None and onp.size(p[sl]) > 0:
                pk = ift.with_slot(pk, sl, np.asarray(f * _np(other[sl])))
        cases_p.append(pk)
    nt = 0
    for ei, entry in enumerate(("design", "state")):
        if entry == "design" and p[2] is None:
            continue
        shared = _with_precond(prob, kinds[ei], onp.zeros(cfg["n"]), p, rng)
        for k, pk in enumerate(cases_p):
            vs = [rng.standard_normal(cfg["n"])]
            fresh = _with_precond(prob, kinds[ei], onp.zeros(cfg["n"]), p, rng)
            out_f = _single(res, fresh, entry, "tight", x0, pk, pk, pk, vs, rng)
            if out_f is None:
                res.count("loadcase_fresh_not_converged")
                continue
            out_s = _single(res, shared, entry, "tight", x0, pk, pk, pk, vs, rng, require_forward=True)
            res.count("loadcase_on_reused_objective")
            res.count("loadcase_on_reused_objective:" + entry)
            if out_s is not None and out_s["nontrivial"]:
                nt += 1
    res.nontrivial = nt >= 1
    if nt == 0 and res.status == "held":
        res.vacuous("no load case reached a converged SPD equilibrium")
    return res


# ------------------------------------------------------------------------------------------------------------ FE

def _run_fe(case, res):
    import jax
    import jax.numpy as np
    from vlib.gen import c07_problems as gp
    from vlib.oracles import c07_ift as ift
    cfg = case["cfg"]
    prob = _problem(cfg)
    fe = prob["fe"]
    rng = rng_of(case["seed"])
    j2 = cfg["material"].startswith("j2")
    amp = rng.uniform(0.04, 0.08) if j2 else rng.uniform(0.1, 0.25)
    theta, app = gp.fe_inputs(prob, rng, amp)
    K = 3 if j2 else 2
    n = prob["n"]
    x0 = onp.zeros(n)
    vs = [rng.standard_normal(n) for _ in range(K)]
    w = rng.standard_normal(fe["state0"].shape) if fe["has_state"] else None
    loads = [(k + 1.0) / K for k in range(K)]
    if j2:
        loads[-1] = loads[-2] * rng.uniform(0.55, 0.9)       # partial unloading: elastic step from a plastic state
    scales = [{0: float(loads[k]), 2: 1.0, 4: float(k + 1) / K} for k in range(K)]
    res.count("fe_" + cfg["material"])
    res.count("fe_design_" + cfg["design"])
    nt = 0
    out_t = None
    kinds = _precond_cycle(case["seed"])
    ref_vals = {0: 0.0 * theta[0], 1: fe["state0"], 2: theta[2], 4: onp.asarray(0.0)}
    p_ref = gp.make_params(ref_vals, app)       # undeformed, unloaded: the classical "initial stiffness"
    for j, sname in enumerate(("tight", "default")):
        pk = _with_precond(prob, kinds[j], x0, p_ref, rng)
        out = _chain(res, pk, "state", sname, x0, theta, app, scales, vs, w, clause="fe_chain_gradient")
        if out is not None:
            res.count("fe_chain_gradient_compared")
            if out["nontrivial"]:
                nt += 1
            if sname == "tight":
                out_t = out
    if out_t is not None and fe["has_state"]:
        eq = _np(out_t["Ss"][-1])[..., 0]
        npl = int(onp.sum(eq > 1e-8))
        res.count("fe_plastic_points", npl)
        res.count("fe_elastic_points", int(eq.size - npl))
    # single-step monitors at the last load level (state of the previous steps frozen): both entries, vjp + grad
    if out_t is not None and res.status == "held":
        Kl = K - 1
        S_prev = out_t["Ss"][Kl - 1] if (fe["has_state"] and Kl > 0) else (theta.get(1))
        vals = {0: scales[Kl][0] * theta[0], 2: theta[2], 4: scales[Kl][4] * theta[4]}
        vals[1] = _np(S_prev) if fe["has_state"] else theta[1]
        p = gp.make_params(vals, app)
        pv = dict(vals)
        pv[0] = 0.8 * vals[0]
        pv[2] = theta[2] + (0.01 * rng.standard_normal(theta[2].shape) if cfg["design"] == "coords" else 0.05 * rng.uniform(-1, 1, theta[2].shape))
        p_prev = gp.make_params(pv, app)
        pv2 = dict(vals)
        pv2[0] = 1.1 * vals[0]
        pv2[2] = theta[2] + (0.01 * rng.standard_normal(theta[2].shape) if cfg["design"] == "coords" else 0.05 * rng.uniform(-1, 1, theta[2].shape))
        pv2[4] = 0.5 * vals[4]
        p_next = gp.make_params(pv2, app)
        xg = np.asarray(_np(out_t["Us"][Kl - 1])) if Kl > 0 else np.asarray(x0)
        nsing = 0
        for entry in ("state", "design"):
            for sname in (("tight", "default") if entry == "design" else ("tight",)):
                vv = [rng.standard_normal(n) for _ in range(2)]
                if entry == "state":
                    pb, pa = p_prev, p_next
                else:
                    pb, pa = ift.with_slot(p, 2, p_prev[2]), ift.with_slot(p, 2, p_next[2])
                nsing += 1
                o1 = _single(res, _with_precond(prob, kinds[(1 + nsing) % len(kinds)], x0, p_ref, rng), entry, sname, xg, p, pb, pa, vv, rng)
                if o1 is not None and o1["nontrivial"]:
                    nt += 1
        # finite differences through forward solves (design + bc + time direction)
        if res.status == "held":
            from optimism.inverse import NonlinearSolve as NS
            s = _settings("tight")
            prob["obj"].p = p_prev
            v = rng.standard_normal(n)
            Uu, pull = jax.vjp(lambda g, q: NS.nonlinear_solve_with_state(prob["obj"], s, g, q), xg, p)
            ct = pull(np.asarray(v))[1]
            _adjoint_exits(res)
            stt = ift.StepRef(prob["derivs"](Uu, p), p)
            active = None
            if fe["has_state"]:
                updj = prob["upd_jit"]
                active = lambda U, q: onp.asarray(_np(updj(U, q))[..., 0] > _np(q[1])[..., 0] + 1e-12)
            _fd_through_solve(res, prob, p, Uu, stt, {k: ct[k] for k in (0, 2, 4)}, v, rng, 1e-3 if not j2 else 2e-4, active)
    res.count("fe_cases")
    res.nontrivial = nt >= 2
    if nt == 0 and res.status == "held":
        res.vacuous("FE chain never reached converged SPD equilibria")
    return res


# -------------------------------------------------------------------------------------------------------- helpers

_HELPERS = {}
_TAU = {"visco": 0.5, "multibranch": 1.0, "j2_rate": 1.0}
_DT_KINDS = ("default", "small", "tau", "large")


def _mat_kind(material):
    return {"j2_small": "j2", "j2_large": "j2", "j2_rate": "j2_rate", "visco": "visco", "multibranch": "multibranch"}.get(material, "hyperelastic")


def _helper_setup(case):
    import jax
    import jax.numpy as np
    from optimism import FunctionSpace as FS, QuadratureRule as QR, Mechanics, Interpolants, Mesh
    from optimism.inverse import MechanicsInverse as MI, AdjointFunctionSpace as AFS
    from vlib.gen import meshes
    from vlib.gen.c07_problems import make_material
    key = repr((sorted(case["mesh"].items()), case["material"], case["qdeg"]))
    if key in _HELPERS:
        return _HELPERS[key]
    mesh = meshes.build(dict(case["mesh"]), onp.random.default_rng(case["mesh"].get("seed", 0)))
    quad = QR.create_quadrature_rule_on_triangle(case["qdeg"])
    fs = FS.construct_function_space(mesh, quad)
    mat = make_material(case["material"])
    mf = Mechanics.create_mechanics_functions(fs, "plane strain", mat)
    shapeOnRef = Interpolants.compute_shapes(mesh.parentElement, quad.xigauss)
    H = {"mesh": mesh, "quad": quad, "fs": fs, "mat": mat, "mf": mf}
    H["ivf"] = MI.create_ivs_update_inverse_functions(fs, "plane strain", mat)
    stateful = int(onp.asarray(mf.compute_initial_state()).size) > 0
    H["stateful"] = stateful

    def mech_adj(X):
        return Mechanics.create_mechanics_functions(AFS.construct_function_space_for_adjoint(X, shapeOnRef, mesh, quad), "plane strain", mat)

    def mech_direct(X):   # independent of the adjoint function space: the library's ordinary constructor on the moved mesh
        return Mechanics.create_mechanics_functions(FS.construct_function_space(Mesh.mesh_with_coords(mesh, X), quad), "plane strain", mat)

    # the user-supplied energies of the residual helpers: their parameter object q is the time step
    def energy_pd(U, q, ivs, X):
        return mech_adj(X).compute_strain_energy(U, ivs, q)

    def energy_3(U, q, X):            # q = (ivs, dt)
        return mech_adj(X).compute_strain_energy(U, q[0], q[1])

    H["rf_pd"] = MI.create_path_dependent_residual_inverse_functions(energy_pd)
    H["rf"] = MI.create_residual_inverse_functions(energy_3)
    G = jax.grad(energy_pd, 0)
    # dense references: forward mode through the library's own update / energy at the SAME dt
    upd_on = lambda U, s, dt: mf.compute_updated_internal_variables(U, s, dt)
    upd_X = lambda U, s, X, dt: mech_adj(X).compute_updated_internal_variables(U, s, dt)
    # (two separately compiled pieces so that a case can ask for the first-order or the second-order part only)
    H["dense_ivs"] = jax.jit(lambda U, s, X, dt: {
        "upd_s": jax.jacfwd(upd_on, 1)(U, s, dt), "upd_u": jax.jacfwd(upd_on, 0)(U, s, dt), "upd_x": jax.jacfwd(upd_X, 2)(U, s, X, dt)})
    H["dense_ivs_min"] = jax.jit(lambda U, s, X, dt: {"upd_s": jax.jacfwd(upd_on, 1)(U, s, dt), "upd_u": jax.jacfwd(upd_on, 0)(U, s, dt)})
    if stateful:
        H["dense_res"] = jax.jit(lambda U, s, X, dt: {"res_s": jax.jacfwd(G, 2)(U, dt, s, X), "res_x": jax.jacfwd(G, 3)(U, dt, s, X)})
    else:
        H["dense_res"] = jax.jit(lambda U, s, X, dt: {"res_x": jax.jacfwd(G, 3)(U, dt, s, X)})
    H["direct_upd"] = jax.jit(lambda U, s, X, dt: mech_direct(X).compute_updated_internal_variables(U, s, dt))
    H["direct_res"] = jax.jit(lambda U, s, X, dt: jax.grad(lambda u: mech_direct(X).compute_strain_energy(u, s, dt))(U))
    H["upd"] = jax.jit(upd_on)
    _HELPERS[key] = H
    return H


def _prodbound(J, v):
    """max_i sum_j |J_ji||v_j| for J of shape v.shape + out.shape."""
    J = onp.abs(J).reshape(v.size, -1)
    return float(onp.max(onp.abs(v).reshape(-1) @ J)) if J.size else 0.0


def _finite(*arrs):
    return all(bool(onp.all(onp.isfinite(a))) for a in arrs)


def _run_helper(case, res):
    """Every MechanicsInverse helper product, for every time-step kind (argument omitted = library default 0.0, small,
    O(relaxation time), large), against forward-mode dense Jacobians of the library's own update / energy at the same dt."""
    import jax.numpy as np
    from vlib.oracles import c07_ift as ift
    H = _helper_setup(case)
    rng = rng_of(case["seed"])
    mesh, mf = H["mesh"], H["mf"]
    c = _np(mesh.coords)
    material = case["material"]
    mk = _mat_kind(material)
    j2 = material.startswith("j2")
    stateful = H["stateful"]
    tau = _TAU.get(material, 1.0)
    amp = rng.uniform(0.008, 0.05) if j2 else rng.uniform(0.05, 0.2)
    st0 = mf.compute_initial_state()
    G0 = amp * rng.standard_normal((2, 2))
    U0 = np.asarray(c @ G0.T + 0.2 * amp * rng.standard_normal(c.shape))
    st1 = H["upd"](U0, st0, tau * rng.uniform(0.5, 2.0)) if stateful else st0
    U = np.asarray(_np(U0) * rng.uniform(0.6, 1.5) + 0.3 * amp * rng.standard_normal(c.shape))
    hmin = float(onp.sqrt(onp.min(onp.abs(_tri_areas(c, onp.asarray(mesh.conns)[:, onp.asarray(mesh.parentElement.vertexNodes)])))))
    X = np.asarray(c + 0.1 * hmin * rng.uniform(-1, 1, size=c.shape))
    ne, nq, ns = (int(z) for z in st1.shape)
    TOL = HELPER_TOL
    part = case.get("part", "all")
    do_ivs = stateful and part in ("all", "ivs", "ivs_min")
    do_coords = part != "ivs_min"      # 'ivs_min': displacement and previous-state products only (cheapest compile)
    do_res = part in ("all", "res")
    rate_dependent = mk in ("j2_rate", "visco", "multibranch")
    res.count("helper_material_" + mk)
    if stateful and not _finite(_np(st1)):
        res.vacuous("pre-state not finite (inadmissible deformation)")
        return res
    if stateful:
        res.nontrivial = bool(onp.max(onp.abs(_np(st1) - _np(st0))) > 1e-8)
    else:
        res.nontrivial = True
    ncmp = 0
    for kind in _DT_KINDS:
        dt = {"default": 0.0, "small": 1e-3 * tau * rng.uniform(0.5, 2.0), "tau": tau * rng.uniform(0.5, 2.0), "large": 1e2 * tau * rng.uniform(0.5, 2.0)}[kind]
        ex = () if kind == "default" else (dt,)          # 'default': the helper is called WITHOUT its optional dt argument
        dense = {}
        if do_ivs:
            dense.update({k: _np(v) for k, v in H["dense_ivs" if do_coords else "dense_ivs_min"](U, st1, X, dt).items()})
        res_here = do_res and not (rate_dependent and dt == 0.0)   # rate potentials divide by dt: no smooth energy at dt = 0
        if do_res and not res_here:
            res.count("helper_energy_products_skipped_rate_model_at_dt0")
        if res_here:
            dense.update({k: _np(v) for k, v in H["dense_res"](U, st1, X, dt).items()})
        tag = {"kind": kind, "dt": dt, "material": material}

        def compare(name, got, ref, J, v):
            nonlocal ncmp
            if not _finite(ref, J):
                res.count("helper_reference_not_finite")      # e.g. rate potentials at dt = 0 (0/0): no smooth reference
                return False
            got = _np(got)
            ok = got.shape == ref.shape
            res.bound("helper_" + name, float(onp.max(onp.abs(got - ref))) if ok else float("inf"), TOL * max(_prodbound(J, v), 1e-300),
                      dict(tag, scale=float(onp.max(onp.abs(ref))) if ref.size else 0.0))
            res.count("helper_product_compared")
            res.count("helper_prod_" + name)
            res.count("helper_%s_dt_%s" % (mk, kind))
            if kind != "default":
                res.count("helper_dt_nonzero_" + mk)
                res.count("helper_prod_%s_dt_nonzero" % name)
            ncmp += 1
            return True

        vx = rng.standard_normal(c.shape)
        vxj = np.asarray(vx)
        av = rng.standard_normal(st1.shape)
        avj = np.asarray(av)
        v3 = r3 = None
        if do_ivs:
            st2 = _np(H["upd"](U, st1, dt))
            if j2:
                ny = int(onp.sum(st2[..., 0] > _np(st1)[..., 0] + 1e-12))
                res.count("helper_yielded_points", ny)
                res.count("helper_elastic_points", ne * nq - ny)
            elif kind != "default":
                res.count("helper_evolving_points", int(onp.sum(onp.max(onp.abs(st2 - _np(st1)), axis=-1) > 1e-10)))
            # (1) d(new ivs)/d(old ivs): block diagonal per quadrature point
            ref = dense["upd_s"]
            if _finite(ref):
                J1 = _np(H["ivf"].ivs_update_jac_ivs_prev(U, st1, *ex))
                blk = onp.stack([[ref[e, q, :, e, q, :] for q in range(nq)] for e in range(ne)])
                off = ref.copy()
                for e in range(ne):
                    for q in range(nq):
                        off[e, q, :, e, q, :] = 0.0
                sc = max(1.0, float(onp.max(onp.abs(blk))))
                res.bound("helper_ivs_prev_jacobian", float(onp.max(onp.abs(J1 - blk))) if J1.shape == blk.shape else float("inf"), TOL * sc * ns, dict(tag, shape=list(J1.shape)))
                res.expect("helper_ivs_prev_offdiagonal_zero", bool(onp.all(off == 0.0)), dict(tag, max=float(onp.max(onp.abs(off)))))
                res.count("helper_product_compared")
                res.count("helper_prod_ivs_prev_jacobian")
                res.count("helper_%s_dt_%s" % (mk, kind))
                if kind != "default":
                    res.count("helper_dt_nonzero_" + mk)
                    res.count("helper_prod_ivs_prev_jacobian_dt_nonzero")
            else:
                res.count("helper_reference_not_finite")
            # (2) vjp w.r.t. displacements
            compare("ivs_disp_vjp", H["ivf"].ivs_update_jac_disp_vjp(U, st1, avj, *ex), onp.einsum("eqs,eqsnd->nd", av, dense["upd_u"]), dense["upd_u"], av)
            # (3) vjp w.r.t. coordinates (moved coordinates X are an explicit argument of the helper)
            if do_coords:
                r3 = onp.einsum("eqs,eqsnd->nd", av, dense["upd_x"])
                v3 = _np(H["ivf"].ivs_update_jac_coords_vjp(U, st1, X, avj, *ex))
                if not compare("ivs_coords_vjp", v3, r3, dense["upd_x"], av):
                    v3 = None
        # (4) path-dependent residual helpers (their parameter object carries dt)
        if res_here and stateful:
            compare("residual_ivs_vjp", H["rf_pd"].residual_jac_ivs_prev_vjp(U, dt, st1, X, vxj), onp.einsum("nd,ndeqs->eqs", vx, dense["res_s"]), dense["res_s"], vx)
        ok5 = False
        if res_here:
            ref5 = onp.einsum("nd,ndme->me", vx, dense["res_x"])
            r5 = _np(H["rf_pd"].residual_jac_coords_vjp(U, dt, st1, X, vxj))
            ok5 = compare("residual_coords_vjp", r5, ref5, dense["res_x"], vx)
            # (5) non path-dependent residual helper (state and dt inside the parameter object)
            compare("residual3_coords_vjp", H["rf"].residual_jac_coords_vjp(U, (st1, dt), X, vxj), ref5, dense["res_x"], vx)
        # (6) Richardson finite differences over a function space constructed directly on the moved mesh, same dt
        if kind in ("default", "tau"):
            dX = rng.standard_normal(c.shape)
            dX /= onp.linalg.norm(dX)
            hh = 1e-4 * hmin
            Xn = _np(X)
            if ok5:
                fdr, _ = ift.richardson_central(lambda t: float(onp.sum(vx * _np(H["direct_res"](U, st1, np.asarray(Xn + t * dX), dt)))), hh)
                lib = float(onp.sum(r5 * dX))
                if math.isfinite(fdr):
                    res.bound("helper_fd_residual_coords", abs(lib - fdr), HELPER_FD_TOL * float(onp.linalg.norm(ref5)) + 1e-12, dict(tag, lib=lib, fd=fdr))
                    res.count("helper_fd_compared")
            if do_ivs and v3 is not None:
                act = []

                def phi(t):
                    s2 = _np(H["direct_upd"](U, st1, np.asarray(Xn + t * dX), dt))
                    if j2:
                        act.append(s2[..., 0] > _np(st1)[..., 0] + 1e-12)
                    return float(onp.sum(av * s2))
                fdu, _ = ift.richardson_central(phi, hh)
                if all(onp.array_equal(act[0], a) for a in act[1:]):
                    lib = float(onp.sum(v3 * dX))
                    res.bound("helper_fd_ivs_coords", abs(lib - fdu), HELPER_FD_TOL * float(onp.linalg.norm(r3)) + 1e-12, dict(tag, lib=lib, fd=fdu))
                    res.count("helper_fd_compared")
                else:
                    res.count("fd_skipped_yield_set_changed")
    if ncmp == 0 and res.status == "held":
        res.vacuous("no helper product had a finite dense reference (inadmissible deformation)")
    return res


def _tri_areas(c, t):
    a, b, d = c[t[:, 0]], c[t[:, 1]], c[t[:, 2]]
    return 0.5 * ((b[:, 0] - a[:, 0]) * (d[:, 1] - a[:, 1]) - (d[:, 0] - a[:, 0]) * (b[:, 1] - a[:, 1]))


# ----------------------------------------------------------------------------------------- adjoint function space

def _run_afs(case, res):
    import jax
    import jax.numpy as np
    from optimism import FunctionSpace as FS, QuadratureRule as QR, Interpolants, Mesh
    from optimism.inverse import AdjointFunctionSpace as AFS
    from vlib.gen import meshes
    from vlib.oracles import c07_ift as ift
    rng = rng_of(case["seed"])
    order, mode, kind = case["order"], case["mode"], case["kind"]
    spec = {"kind": kind, "nx": int(rng.integers(3, 6)), "ny": int(rng.integers(3, 5)), "order": order}
    if kind == "structured":
        spec["xext"] = [0.5, 1.5]
    else:
        spec["xshift"] = 0.5
        spec["graded"] = bool(rng.random() < 0.5)
    mesh = meshes.build(spec, rng)
    quad = QR.create_quadrature_rule_on_triangle(int(rng.integers(max(1, 2 * order - 2), 2 * order + 1)))
    c = _np(mesh.coords)
    verts = onp.asarray(mesh.conns)[:, onp.asarray(mesh.parentElement.vertexNodes)]
    hmin = float(onp.sqrt(onp.min(onp.abs(_tri_areas(c, verts)))))
    newc = c + 0.15 * hmin * rng.uniform(-1, 1, size=c.shape)
    if onp.min(_tri_areas(newc, verts)) <= 0:
        res.vacuous("moved mesh inverted an element")
        return res
    shapeOnRef = Interpolants.compute_shapes(mesh.parentElement, quad.xigauss)
    a = AFS.construct_function_space_for_adjoint(np.asarray(newc), shapeOnRef, mesh, quad, mode)
    b = FS.construct_function_space(Mesh.mesh_with_coords(mesh, np.asarray(newc)), quad, mode)
    for name in ("shapes", "vols", "shapeGrads"):
        x, y = _np(getattr(a, name)), _np(getattr(b, name))
        ok = x.shape == y.shape
        res.bound("afs_" + name, float(onp.max(onp.abs(x - y))) if ok else float("inf"), 1e-14 * max(1.0, float(onp.max(onp.abs(y)))), {"shape": list(x.shape)})
        res.count("afs_arrays_compared")
    res.expect("afs_mesh_coords", onp.array_equal(_np(a.mesh.coords), newc) and onp.array_equal(_np(b.mesh.coords), newc))
    res.expect("afs_mesh_conns", onp.array_equal(onp.asarray(a.mesh.conns), onp.asarray(b.mesh.conns))
               and onp.array_equal(onp.asarray(a.mesh.simplexNodesOrdinals), onp.asarray(b.mesh.simplexNodesOrdinals)))
    res.expect("afs_mesh_sets", a.mesh.blocks.keys() == b.mesh.blocks.keys() and all(onp.array_equal(onp.asarray(a.mesh.blocks[k]), onp.asarray(b.mesh.blocks[k])) for k in b.mesh.blocks)
               and (a.mesh.nodeSets is None) == (b.mesh.nodeSets is None) and (a.mesh.sideSets is None) == (b.mesh.sideSets is None))
    res.expect("afs_parent_element", a.mesh.parentElement is b.mesh.parentElement or
               (onp.array_equal(_np(a.mesh.parentElement.coordinates), _np(b.mesh.parentElement.coordinates)) and a.mesh.parentElement.degree == b.mesh.parentElement.degree))
    res.expect("afs_flags", bool(a.isAxisymmetric) == bool(b.isAxisymmetric) == (mode == "axisymmetric")
               and onp.array_equal(_np(a.quadratureRule.xigauss), _np(b.quadratureRule.xigauss)) and onp.array_equal(_np(a.quadratureRule.wgauss), _np(b.quadratureRule.wgauss)))
    res.count("afs_order%d" % order)
    res.count("afs_" + mode)
    res.count("afs_" + kind)
    # the rebuilt space must keep the coordinates differentiable: reverse-mode gradient of a random linear functional of
    # (vols, shapeGrads) through the adjoint constructor vs Richardson differences of the direct constructor
    w1 = rng.standard_normal(_np(b.vols).shape)
    w2 = rng.standard_normal(_np(b.shapeGrads).shape) * hmin

    def phi_adj(X):
        s = AFS.construct_function_space_for_adjoint(X, shapeOnRef, mesh, quad, mode)
        return np.sum(np.asarray(w1) * s.vols) + np.sum(np.asarray(w2) * s.shapeGrads)

    g = _np(jax.grad(phi_adj)(np.asarray(newc)))
    dX = rng.standard_normal(c.shape)
    dX /= onp.linalg.norm(dX)

    def phi_dir(t):
        s = FS.construct_function_space(Mesh.mesh_with_coords(mesh, np.asarray(newc + t * dX)), quad, mode)
        return float(onp.sum(w1 * _np(s.vols)) + onp.sum(w2 * _np(s.shapeGrads)))

    fd, _ = ift.richardson_central(phi_dir, 1e-3 * hmin)
    res.bound("afs_coordinate_derivative", abs(float(onp.sum(g * dX)) - fd), FD_TOL * float(onp.linalg.norm(g)) + 1e-12, {"lib": float(onp.sum(g * dX)), "fd": fd})
    res.count("afs_derivative_compared")
    res.nontrivial = True
    return res


def finalize(results, tier):
    """Extra evidence: compiled configurations seen, adjoint-solve exit histogram, tolerance constants in force."""
    cfgs, exits = {}, {}
    for r in results:
        c = r.get("case", {})
        key = c.get("cls", "_")
        if "cfg" in c:
            key += ":" + ",".join("%s=%s" % (k, c["cfg"][k]) for k in sorted(c["cfg"]) if k != "kind")
        elif c.get("cls") == "helper":
            key += ":%s:%s:q%s:%s" % (c["mesh"].get("kind"), c.get("material"), c.get("qdeg"), c.get("part", "all"))
        elif c.get("cls") == "adjoint_space":
            key += ":order%s:%s:%s" % (c.get("order"), c.get("mode"), c.get("kind"))
        cfgs[key] = cfgs.get(key, 0) + 1
        for k, v in r.get("obs", {}).items():
            if k.startswith("adjoint_exit_"):
                exits[k[len("adjoint_exit_"):]] = exits.get(k[len("adjoint_exit_"):], 0) + v
    out = {"compiled_configurations": len(cfgs), "cases_per_configuration": cfgs, "adjoint_solve_exits": exits,
           "tolerances": {"cg_bound_safety": SAFETY, "rounding_floor_rel": RND, "finite_difference_rel": FD_TOL,
                          "helper_fd_rel": HELPER_FD_TOL, "helper_vs_dense_rel": HELPER_TOL, "objective_closure_rel": 1e-11, "adjoint_space_rel": 1e-14}}
    miss = []
    if exits.get("interior", 0) == 0:
        miss.append("recorder around solve_trust_region_minimization never saw an adjoint solve end 'interior'")
    if miss:
        out["_missing"] = miss
    return out


def run_case(case):
    res = Res(case)
    _install_recorder()
    _install_param_update_contract()
    try:
        return _run_case(case, res)
    finally:
        _drain_param_update_contract(res)


def _run_case(case, res):
    cls = case["cls"]
    if cls in ("small_single", "small_corner"):
        return _run_small_single(case, res)
    if cls == "small_search":
        return _run_small_search(case, res)
    if cls == "small_chain":
        return _run_small_chain(case, res)
    if cls == "small_legacy_chain":
        return _run_small_legacy(case, res, False)
    if cls == "small_legacy_bcstep":
        return _run_small_legacy(case, res, True)
    if cls == "small_loadcases":
        return _run_small_loadcases(case, res)
    if cls == "fe":
        return _run_fe(case, res)
    if cls == "helper":
        return _run_helper(case, res)
    if cls == "adjoint_space":
        return _run_afs(case, res)
    res.inconclusive("unknown class " + cls)
    return res
