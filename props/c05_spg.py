"""C05 -- TrustRegionSPG: feasibility of every reported / returned iterate, descent, honest flag through the projected-
gradient measure, convex optimum, `project` and `project_onto_tr`.

Deciding monitors:
  1. CallbackRecorder + offline trace checker with the harness's OWN jit(f), jit(grad f) under the requested parameters:
     box feasibility of every reported x and of the returned x, descent, flag (|P(x-g)-x| < tol), convex optimum.
  2. icontract post-conditions on project / project_onto_tr / find_generalized_cauchy_point, installed on the module
     attributes: evaluated in direct calls (dedicated classes, incl. far points |x-xk|/trSize up to 1e14) AND in situ.
  3. Planted box-QP / box-convex optimum (x*, active faces and multipliers drawn first, linear term derived), cross-
     checked by an independent projected-Newton/active-set solve in numpy with a KKT certificate.
  4. RecordingObjective (call signature of the in-loop convergence exit; all-evaluations-finite) and sys.monitoring path
     observer (exits, step types, Cauchy-point branches, root-find branch of project_onto_tr): evidence / REQUIRED only.
"""
import math

import numpy as onp

from vlib.common import EPS, Res, derive_seed, rng_of

PROPERTY = "C05"
LEVEL = "exploration"
RULE = ("solve case = (objective family, dimension, box kind [finite/one-sided/free/degenerate/mixed], start kind [interior/"
        "face/vertex], entry point, monotone vs non-monotone SPG, settings class) stratified in the parent + continuous data "
        "from the case seed; direct-call case = a bundle of 60-400 seeded calls of project / project_onto_tr / "
        "find_generalized_cauchy_point. Non-trivial = the solver reported >= 2 distinct iterates (early-exit classes: took "
        "the exit they are built for; direct classes: at least one call where the projection moved the point).")
ASSUMPTIONS = [
    "CHOLMOD test double /verif/vlib/shims/sksparse (dense numpy Cholesky) stands in for scikit-sparse",
    "the harness's own jax.jit(f), jax.jit(jax.grad(f)) are the reference for objective values and gradients",
    "feasibility slack d = 8*eps*max(1,|x|,|bound|,|x_prev|) (the solver forms x_prev+z in floating point; with DESIGN's d = 8*eps*max(1,|x|,|bound|) the closest call on the unchanged tree was 0.93)",
    "ball slack: |y-xk| <= trSize*(1+1e-9) + 8*eps*(|xk|+|y|) (the second term is the rounding of forming y-xk; it only matters for trSize < ~1e-6*|xk|)",
    "Cauchy step: x+s is formed in floating point, so its feasibility slack is 8*eps*max(1,|x+s|,|bound|,|x|)",
    "descent slack 8*eps*max(1,|f_k|,|f_k+1|); flag clause |P(x-g)-x| < tol*(1+1e-9)",
    "convex clause on success: |x-x*| <= (1+L)/mu * tol*(1+1e-9) + 1e3*eps*cond*max(1,|x*|)  (error bound of the projected-"
    "gradient residual for a mu-strongly convex, L-smooth objective; mu, L known by construction)",
    "RuntimeError('No acceptable Cauchy point ...') is an admitted outcome => vacuous",
    "hypothesis 'feasible start': with the warm start of TrustRegionSPG.solve the start handed to the minimiser may leave the "
    "box => such executions are vacuous",
    "plain recorders on kouri_exact_line_search / nonmonotone_line_search (module attributes) count negative step lengths; they feed the "
    "structural classifier of finding D23 and a REQUIRED minimum, and change no behaviour",
    "settings_boundary class: tol = 0 violates the module's documented requirement spg_tol < tol; an exception of the solver there (brentq on a NaN "
    "point built from trSize/|g| = inf at an exactly zero gradient) is classified vacuous; whatever was reported is still checked",
    "path observer (sys.monitoring LINE + frame locals) is evidence only",
]
REQUIRED = {
    "all": {
        "solves": 150, "trace_points_checked": 800, "feasibility_points_checked": 1000, "descent_pairs_checked": 500,
        "flag_true_checked": 60, "flag_true_projection_decisive": 15, "flag_true_projection_decisive_in_loop": 10, "flag_false_seen": 20, "convex_optimum_checked": 25, "reference_solves_confirmed": 25,
        "contract_project_evals": 20000, "contract_project_onto_tr_evals": 3000, "contract_cauchy_point_evals": 800,
        "insitu_project_onto_tr_evals": 1000, "insitu_cauchy_point_evals": 300, "insitu_project_evals": 5000,
        "direct_project_calls": 1500, "direct_project_onto_tr_calls": 1500, "direct_cauchy_point_calls": 400,
        "ptr_far_point_calls": 300, "ptr_rootfind": 500, "ptr_inside": 500,
        "exit_converged_at_entry": 5, "exit_converged_in_loop": 50, "exit_radius_too_small": 3, "exit_iteration_cap": 10,
        "step_cauchy_pt": 3, "step_boundary": 50, "step_interior_": 20, "gcp_forward": 100, "gcp_backtrack": 30,
        "spg_monotone": 30, "spg_nonmonotone": 30, "contract_line_search_kouri_negative_step": 40, "contract_line_search_kouri_calls": 1000,
        "contract_line_search_nonmonotone_calls": 1000, "class:monotone_small_radius": 120, "class:load_sequence": 30, "class:settings_boundary": 30, "load_sequences": 30,
        "sequence_solves": 60, "sequence_p_changes": 40, "p_change_with_objective_drop_at_start": 15, "cold_restart_from_returned_array": 25,
        "cold_restart_after_converged_solve_with_objective_drop": 5, "tol_squared_is_zero_solves": 30, "exactly_stationary_iterate_while_unconverged": 15, "farflat_flag_true": 4,
        "box_finite": 20, "box_one_sided": 15, "box_free": 10, "box_degenerate": 15, "box_mixed": 20,
        "start_interior": 30, "start_face": 30, "start_vertex": 20, "entry_direct": 60, "entry_solve": 25,
        "returned_on_a_bound": 20, "reported_on_a_bound": 100,
        "class:convex_planted": 30, "class:broad": 60, "class:far_flat": 10, "class:exits": 30,
        "class:project_direct": 4, "class:project_onto_tr_direct": 4, "class:project_onto_tr_far": 4, "class:cauchy_direct": 4,
    },
    "quick": {},
    "thorough": {"solves": 5000, "trace_points_checked": 30000, "feasibility_points_checked": 30000, "descent_pairs_checked": 25000,
                 "flag_true_checked": 1500, "flag_true_projection_decisive": 500, "flag_true_projection_decisive_in_loop": 200,
                 "flag_false_seen": 1000, "convex_optimum_checked": 700, "reference_solves_confirmed": 1000,
                 "direct_project_calls": 90000, "direct_project_onto_tr_calls": 80000, "direct_cauchy_point_calls": 20000,
                 "ptr_far_point_calls": 20000, "insitu_project_onto_tr_evals": 500000, "insitu_cauchy_point_evals": 30000,
                 "exit_converged_at_entry": 400, "exit_converged_in_loop": 1000, "exit_radius_too_small": 100, "exit_iteration_cap": 1000,
                 "step_cauchy_pt": 200, "step_boundary": 5000, "step_interior_": 20000, "farflat_flag_true": 150,
                 "contract_line_search_kouri_negative_step": 100},
}
WATCHDOG_S = {"quick": 3600, "thorough": 6 * 3600}
MAX_VACUOUS_FRACTION = 0.25

D1_KEY = "D1_spg_convergence_test_on_trial_point_precedes_acceptance"
D23_KEY = "D23_spg_monotone_line_search_negative_step_length"

BROAD_FAMILIES = ("quad", "convex_nq", "quartic", "rosen", "cos", "wells", "rankdef", "flat_exp", "flat_rat")
DIMS = (1, 2, 3, 5, 8, 13, 20, 30)
BOX_KINDS = ("finite", "one_sided", "free", "degenerate", "mixed")
START_KINDS = ("interior", "face", "vertex")


def _pick(rng, seq):
    return seq[int(rng.integers(len(seq)))]


# ------------------------------------------------------------------------------------------------ case generation

def build_cases(tier, seed):
    rng = rng_of(derive_seed(seed, PROPERTY, "build"))
    mult = 1 if tier == "quick" else 24
    cases = []

    def add(cls, i, **kw):
        c = {"cls": cls, "seed": derive_seed(seed, PROPERTY, cls, i)}
        c.update(kw)
        c.setdefault("cost", 1.0 + 0.05 * c.get("n", 5))
        cases.append(c)

    for i in range(60 * mult):
        add("convex_planted", i, family=("quad", "convex_nq")[i % 2], n=DIMS[(i // 2) % len(DIMS)], box=BOX_KINDS[i % 5],
            start=START_KINDS[(i // 5) % 3], entry=("direct", "direct", "solve")[i % 3], nonmonotone=bool((i // 3) % 2),
            settings=("default", "random")[(i // 2) % 2], incremental=False)
    for i in range(110 * mult):
        fam = BROAD_FAMILIES[i % len(BROAD_FAMILIES)]
        n = _pick(rng, DIMS)
        if fam == "rosen":
            n = max(n, 2)
        box = _pick(rng, BOX_KINDS)
        if fam == "cos" and box in ("one_sided", "free", "mixed"):
            box = "finite"          # 0.5 x'Ax is unbounded below on an unbounded box (A indefinite)
        add("broad", i, family=fam, n=n, box=box, start=_pick(rng, START_KINDS), entry=_pick(rng, ("direct", "direct", "solve", "solve_warm")),
            nonmonotone=bool(i % 2), settings="random", incremental=False)
    for i in range(20 * mult):
        add("far_flat", i, family=("flat_exp", "flat_rat")[i % 2], n=(1, 1, 2, 3, 5, 8)[i % 6], box=("free", "one_sided", "finite")[i % 3],
            start="interior", entry=("direct", "solve")[i % 2], nonmonotone=bool((i // 2) % 2), settings="farflat", incremental=False)
    for i in range(45 * mult):
        kind = ("cap", "radius", "at_opt")[i % 3]
        add("exits", i, family=_pick(rng, ("quad", "convex_nq")) if kind == "at_opt" else _pick(rng, ("quartic", "rosen", "wells") if kind == "radius" else ("quartic", "rosen", "wells", "quad", "rankdef")),
            n=max(2, _pick(rng, DIMS)), box=_pick(rng, ("free", "free", "one_sided")) if kind == "radius" else _pick(rng, BOX_KINDS), start=_pick(rng, START_KINDS), entry="direct",
            nonmonotone=bool(i % 2), settings="exit_" + kind, incremental=False)
    for i in range(12 * mult):
        add("incremental", i, family=BROAD_FAMILIES[i % len(BROAD_FAMILIES)], n=max(2, _pick(rng, DIMS)), box=_pick(rng, ("finite", "mixed", "one_sided")),
            start=_pick(rng, START_KINDS), entry="direct", nonmonotone=bool(i % 2), settings="random", incremental=True)
    for i in range(16 * mult):
        # round-off floor: huge rank-deficient Hessian + tight tolerance (radius-too-small exit, rejected steps at the noise floor)
        add("roundoff_floor", i, family="rankdef", n=(5, 8, 13, 20)[i % 4], box=_pick(rng, ("finite", "mixed", "free")), start=_pick(rng, START_KINDS),
            entry="direct", nonmonotone=bool(i % 2), settings="roundoff", incremental=False, cost=3.0)
    # monotone SPG with a tiny trust region next to active bounds: project_onto_tr is not an orthogonal projection onto
    # box-intersect-ball, so the step s need not be a descent direction of the model and the Kouri exact step length can come
    # out NEGATIVE (exercises finding D23)
    for i in range(240 * (1 if tier == "quick" else 12)):
        add("monotone_small_radius", i, family=("quartic", "rosen", "wells", "quad", "cos")[i % 5], n=(2, 2, 3, 5, 8)[(i // 5) % 5],
            box=("one_sided", "finite", "mixed")[i % 3], start=("vertex", "face")[i % 2], entry="direct", nonmonotone=False,
            settings="small_radius", incremental=False)
    # ONE Objective object over 3-5 consecutive bound-constrained solves with changing parameters, restarts from the returned array
    for i in range(40 * mult):
        add("load_sequence", i, family=("valley", "quartic", "valley", "convex_nq")[i % 4], n=(2, 3, 5, 2)[(i // 4) % 4],
            box=("finite", "one_sided", "mixed", "free")[(i // 2) % 4], driver=("solve", "hand", "mixed", "solve_warm")[i % 4],
            interleave=("none", "other_point", "none", "other_p_same_point")[(i // 3) % 4], nonmonotone=bool((i // 5) % 2 == 0),
            incremental=False, settings="default" if i % 3 else "mild", cost=2.5)
    # tol = 0 / below the underflow of tol**2, exactly representable box-QPs (iterates land bit-exactly on the optimum / a vertex)
    for i in range(48 * mult):
        add("settings_boundary", i, family="quad", n=(1, 2, 3, 5)[(i // 2) % 4], variant=("interior_opt", "vertex_opt", "face_opt", "start_on_opt")[i % 4],
            tol=(0.0, 1e-200, 0.0, 1e-170)[(i // 4) % 4], nonmonotone=bool((i // 3) % 2), incremental=False, entry=("direct", "solve")[(i // 5) % 2],
            cost=0.8)
    # direct calls (bundles)
    nb = 8 if tier == "quick" else 256
    for i in range(nb):
        add("project_direct", i, ncalls=400, cost=1.0)
        add("project_onto_tr_direct", i, ncalls=250, cost=2.0)
        add("project_onto_tr_far", i, ncalls=120, cost=2.0)
        add("cauchy_direct", i, ncalls=120, cost=2.0)
    ngroups = 32 if tier == "quick" else 64
    for j, c in enumerate(cases):
        c["group"] = "g%d" % (j % ngroups)
    return cases


def draw_settings(kind, rng, nonmonotone, incremental):
    from vlib.common import loguniform
    kw = {"spg_use_nonmonotone": bool(nonmonotone), "use_incremental_objective": bool(incremental)}
    if kind == "default":
        return kw
    kw["debug_info"] = bool(rng.random() < 0.1)
    eta1 = float(loguniform(rng, 1e-12, 1e-2))
    eta2 = float(rng.uniform(max(2 * eta1, 0.02), 0.4))
    eta3 = float(rng.uniform(eta2 + 0.05, 0.95))
    kw.update(t1=float(rng.uniform(0.05, 0.9)), t2=float(rng.uniform(1.1, 4.0)), eta1=eta1, eta2=eta2, eta3=eta3)
    kw["tol"] = float(loguniform(rng, 1e-10, 1e-5))
    kw["tr_size"] = float(loguniform(rng, 1e-3, 1e3))
    kw["min_tr_size"] = float(min(loguniform(rng, 1e-12, 1e-2), 0.1 * kw["tr_size"]))
    kw["max_trust_iters"] = int(_pick(rng, (1, 2, 3, 5, 10, 20, 50, 100, 200)))
    kw["max_spg_iters"] = int(_pick(rng, (1, 2, 5, 10, 25)))
    kw["spg_inexact_solve_ratio"] = float(loguniform(rng, 1e-6, 1e-2))
    kw["spg_nonmonotone_iter_limit_to_enforce_decrease"] = int(_pick(rng, (1, 2, 5, 10)))
    kw["use_preconditioned_inner_product_for_spg"] = bool(rng.random() < 0.3)
    if rng.random() < 0.3:
        kw["min_spectral_step_length"] = float(loguniform(rng, 1e-12, 1e-4))
        kw["max_spectral_step_length"] = float(loguniform(rng, 1e2, 1e12))
    if rng.random() < 0.3:
        kw["cauchy_point_max_line_search_iters"] = int(_pick(rng, (5, 10, 25, 50)))
        kw["cauchy_point_sufficient_decrease_factor"] = float(loguniform(rng, 1e-6, 1e-1))
    if kind == "farflat":
        kw.update(tr_size=float(loguniform(rng, 20.0, 1e3)), max_trust_iters=int(_pick(rng, (20, 100))), max_spg_iters=int(_pick(rng, (10, 25))),
                  tol=float(loguniform(rng, 1e-10, 1e-6)))
    elif kind == "exit_cap":
        kw.update(max_trust_iters=int(_pick(rng, (1, 1, 2, 3))), tol=float(loguniform(rng, 1e-10, 1e-8)))
    elif kind == "exit_radius":
        kw.update(tr_size=float(loguniform(rng, 1e1, 1e3)), t1=float(rng.uniform(0.05, 0.5)), max_trust_iters=int(_pick(rng, (20, 100))),
                  tol=float(loguniform(rng, 1e-10, 1e-8)))
        kw["min_tr_size"] = float(kw["tr_size"] * rng.uniform(0.3, 0.95))
    elif kind == "small_radius":
        kw.update(tr_size=float(loguniform(rng, 1e-4, 1e-2)), min_tr_size=1e-10, max_trust_iters=int(_pick(rng, (3, 5, 10, 20))),
                  max_spg_iters=int(_pick(rng, (2, 5, 10, 25))), tol=float(loguniform(rng, 1e-10, 1e-8)),
                  spg_inexact_solve_ratio=float(loguniform(rng, 1e-10, 1e-6)))   # sub-iterations continue at the noise floor of project_onto_tr
    elif kind == "roundoff":
        kw.update(tol=float(loguniform(rng, 1e-10, 1e-9)), max_spg_iters=int(_pick(rng, (5, 25))), max_trust_iters=60,
                  tr_size=float(loguniform(rng, 1e-1, 1e3)), min_tr_size=float(loguniform(rng, 1e-10, 1e-6)))
    return kw


# ------------------------------------------------------------------------------------------------ worker side

_jits = {}
_mon = {}


def own_functions(fam):
    if fam not in _jits:
        import jax
        from vlib.gen import c01_objectives as G
        f = G.family(fam)
        _jits[fam] = (jax.jit(f), jax.jit(jax.grad(f, 0)))
    return _jits[fam]


def monitors():
    """Install (once per worker) the path observer and the contracts; returns (observer, contracts module, spg module)."""
    if "spg" not in _mon:
        from vlib import monitors_c01 as M
        from vlib import monitors_c05 as K
        try:
            _mon["obs"] = M.observer_for_spg()      # before wrapping: the observer needs the original code objects
        except Exception as e:  # noqa
            _mon["obs"] = None
            _mon["obs_err"] = repr(e)
        _mon["spg"] = K.install_contracts()
        _mon["K"] = K
    return _mon["obs"], _mon["K"], _mon["spg"]


def descent_slack(a, b):
    return 8.0 * EPS * max(1.0, abs(a), abs(b))


def fold_contract_counts(res, K, before, insitu):
    d = K.delta(before)
    for k, v in d.items():
        res.count("contract_" + k, v)
        if insitu and k.endswith("_evals"):
            res.count("insitu_" + k, v)
    return d


def spg_one_solve(res, case, obj, fam, p_req, x0, lb, ub, settings, entry, box_kind, start_kind, p_hand=None):
    """Run ONE bound-constrained solve on `obj` (possibly an Objective with a history) and check feasibility, descent and
    the flag under p_req.  entry: 'direct' (bound_constrained_trust_region_minimize; p_hand installed by hand when given),
    'solve' / 'solve_warm' (TrustRegionSPG.solve).  x0 may be the jax array a previous solve returned (passed untouched).
    Returns (x_ret numpy, x_ret as returned, flag, start, recorder, exit) or None when the execution is classified already."""
    import jax.numpy as np
    from vlib import monitors_c01 as M
    observer, K, spg = monitors()
    tol = float(settings.tol)
    log0 = len(obj.log)
    obj.gradient_budget = obj.gradient_calls + 4 * int(settings.max_trust_iters) + 10
    rec = M.CallbackRecorder()
    res.count("solves")
    res.count("entry_" + ("direct" if entry == "direct" else "solve"))
    res.count("box_" + box_kind)
    res.count("start_" + start_kind)
    res.count("family_" + fam)
    res.count("spg_nonmonotone" if case["nonmonotone"] else "spg_monotone")
    if observer is not None:
        observer.reset()
    before = K.snapshot()
    bounds = np.column_stack((np.asarray(lb), np.asarray(ub)))
    raised = None
    try:
        xin = x0 if hasattr(x0, "at") else np.asarray(x0)
        if entry == "direct":
            if p_hand is not None:
                obj.p = p_hand          # hand-rolled driver: install the requested parameters, then call the minimiser
            obj.update_precond(xin)
            n_pre = len(obj.log)
            x_ret, flag = spg.bound_constrained_trust_region_minimize(obj, xin, bounds, settings, callback=rec)
        else:
            n_pre = log0
            x_ret, flag = spg.solve(obj, xin, p_req, np.asarray(lb), np.asarray(ub), settings, callback=rec,
                                    useWarmStart=(entry == "solve_warm"), updatePrecond=True)
    except K.SPGContractError as e:
        raised = e
    except RuntimeError as e:
        if "No acceptable Cauchy point" in str(e):
            res.count("cauchy_point_runtime_error")
            cd = fold_contract_counts(res, K, before, True)
            if observer is not None:
                M.summarize(observer, res, (M.SPG_EXIT_NAMES, M.SPG_SUB_NAMES, M.PTR_NAMES))
            # what was reported up to here is still subject to feasibility / descent
            check_partial(res, fam, p_req, x0, rec, lb, ub, case, int(cd.get("line_search_negative_step", 0)))
            res.vacuous("RuntimeError: No acceptable Cauchy point (admitted outcome)")
            return None
        raised = e
    except M.LogicalBudgetExceeded as e:
        res.violate("solver_terminates", {"info": str(e), "max_trust_iters": int(settings.max_trust_iters)})
        return None
    except Exception as e:  # noqa
        raised = e
    if raised is not None and not isinstance(raised, K.SPGContractError):
        res.count("solver_raised")
        if obj.all_evaluations_finite(log0) and not isinstance(raised, MemoryError):
            res.violate("solver_returns", {"exception": type(raised).__name__, "message": str(raised)[:300], "n_reported": len(rec.xs),
                                           "family": fam, "box": box_kind})
            check_partial(res, fam, p_req, x0, rec, lb, ub, case)
        else:
            res.vacuous("solver raised %s after a non-finite evaluation: %s" % (type(raised).__name__, str(raised)[:120]))
        return None
    cdelta = fold_contract_counts(res, K, before, True)
    negative_steps = int(cdelta.get("line_search_negative_step", 0))
    exit_taken = None
    if observer is not None:
        exit_taken = M.summarize(observer, res, (M.SPG_EXIT_NAMES, M.SPG_SUB_NAMES, M.PTR_NAMES))
    if raised is not None:
        res.violate("insitu_" + raised.clause, {"detail": raised.detail, "n_reported": len(rec.xs), "family": fam, "box": box_kind})
        check_partial(res, fam, p_req, x0, rec, lb, ub, case)
        return None
    flag = bool(flag)

    # the start the minimiser was really given (after the optional warm start of `solve`)
    start = onp.asarray(x0, float)
    if entry != "direct":
        g_pts = [x for pos, kind, x in obj.points if kind == "gradient" and pos >= log0]
        if g_pts:
            start = g_pts[0]
        if K.box_excess(start, lb, ub) > 1.0 or not onp.all(onp.isfinite(start)):
            res.count("warm_start_left_the_box")
            res.vacuous("warm start moved the start point out of the box (hypothesis 'feasible start' not met)")
            return None

    fj, gj = own_functions(fam)
    pts = [start] + list(rec.xs)
    vals = [float(fj(np.asarray(x), p_req)) for x in pts]
    res.count("trace_points_checked", len(rec.xs))

    # feasibility of every reported iterate and of the returned point
    x_ret_jax = x_ret
    x_ret = onp.asarray(x_ret, float)
    for k, x in enumerate(list(rec.xs) + [x_ret]):
        # every iterate is FORMED as previous + step in floating point: the previous iterate's magnitude enters the slack
        ex = K.box_excess(x, lb, ub, base=pts[k] if k < len(rec.xs) else (pts[-2] if len(pts) > 1 else pts[-1]))
        # structural key of D23 (fixed in 946269a; kept so that a regression is named): feasibility fails in a solve running the MONOTONE (Kouri exact) step-length rule during which
        # that rule was observed to return a negative step length (only min(1, alpha) is applied, never max(0, .))
        mech = D23_KEY if (not case["nonmonotone"] and negative_steps > 0) else None
        ok = res.bound("feasibility_excess_over_slack", ex, 1.0,
                       {"which": "returned" if k == len(rec.xs) else "reported %d of %d" % (k + 1, len(rec.xs)), "violation_abs": K.box_violation_abs(x, lb, ub),
                        "box": box_kind, "family": fam, "flag": flag, "monotone_spg": not case["nonmonotone"],
                        "negative_step_lengths_observed": negative_steps}, mechanism=mech)
        if not ok and mech:
            res.count("d23_infeasible_iterate_after_negative_step_length")
        res.count("feasibility_points_checked")
        if onp.any((x == lb) | (x == ub)):
            res.count("reported_on_a_bound")
    if onp.any((x_ret == lb) | (x_ret == ub)):
        res.count("returned_on_a_bound")
    same = bool(rec.xs) and onp.array_equal(x_ret, rec.xs[-1], equal_nan=True) or (not rec.xs and onp.array_equal(x_ret, start))
    res.count("returned_is_last_reported" if same else "returned_differs_from_last_reported")

    # descent
    all_finite = obj.all_evaluations_finite(n_pre)
    if not case["incremental"]:
        last_call_is_gradient = bool(obj.log) and obj.log[-1][0] == "gradient"
        for i in range(1, len(vals)):
            a, bb = vals[i - 1], vals[i]
            res.count("descent_pairs_checked")
            bad = False
            if math.isfinite(a) and math.isfinite(bb):
                bad = not res.ratio("descent_increase_over_slack", max(0.0, bb - a), descent_slack(a, bb))
            elif all_finite:
                bad = True
            if bad:
                final = (i == len(vals) - 1)
                mech = None
                if final and flag and last_call_is_gradient:
                    mech = D1_KEY
                    res.count("d1_final_uphill_flag_true")
                res.violate("descent", {"position": i, "of": len(vals) - 1, "f_prev": a, "f_next": bb, "increase": bb - a, "flag": flag,
                                        "final": final, "last_call_is_gradient": last_call_is_gradient, "family": fam}, mechanism=mech)
    else:
        res.count("descent_not_asserted_incremental_mode")

    # honest flag: projected-gradient measure recomputed independently
    if flag:
        g = onp.asarray(gj(np.asarray(x_ret), p_req), float)
        chi = float(onp.linalg.norm(onp.clip(x_ret - g, lb, ub) - x_ret))
        res.bound("flag_true_projected_gradient", chi, tol * (1 + 1e-9), {"tol": tol, "chi": chi, "family": fam, "box": box_kind})
        res.count("flag_true_checked")
        if float(onp.linalg.norm(g)) >= tol:
            # success with a non-zero bound multiplier: only the PROJECTED measure can have produced this flag
            res.count("flag_true_projection_decisive")
            if bool(obj.log) and obj.log[-1][0] == "gradient":
                res.count("flag_true_projection_decisive_in_loop")     # ... by the in-loop convergence test on the trial point
    else:
        res.count("flag_false_seen")

    return x_ret, x_ret_jax, flag, start, rec, exit_taken


def run_solve_case(case, res):
    import jax.numpy as np
    from optimism import Objective as ObjMod
    from vlib import monitors_c01 as M
    from vlib.gen import c01_objectives as G
    from vlib.gen import c05_boxes as B

    observer, K, spg = monitors()
    rng = rng_of(case["seed"])
    fam, n, cls = case["family"], int(case["n"]), case["cls"]
    box_kind, start_kind = case["box"], case["start"]
    planted = (cls == "convex_planted") or (fam in G.CONVEX)
    opts = {"start": "random"}
    if fam in G.CONVEX:
        opts.update(cond=10.0 ** rng.uniform(0, 4 if cls == "convex_planted" else 6), scaled=bool(rng.random() < 0.2))
    if cls == "roundoff_floor":
        opts.update(scale=10.0 ** rng.uniform(6, 11))
    prob = G.gen_problem(fam, n, rng, opts)
    A, b, c = prob["A"], prob["b"], prob["c"]
    xstar = None
    if planted:
        xstar, lb, ub, gstar, state = B.plant_box_optimum(n, rng, box_kind, None)
        # linear term so that grad f(x*) = gstar:  grad = A x - b + (non-quadratic part)  =>  b = A x* + nq'(x*) - gstar
        zero_b = G.pack(A, onp.zeros(n), c)
        b = G.np_grad(fam, xstar, zero_b) - gstar
        ref = xstar
    else:
        ref = prob["x0"] if fam not in G.FLAT else onp.zeros(n)
        if fam == "rankdef":
            ref = prob["b"] + rng.standard_normal(n) * 10.0 ** rng.uniform(-1, 1)
        if case["settings"] == "small_radius":
            ref = ref * 10.0 ** rng.uniform(0.5, 1.5)      # far out: |grad f| / trSize >> 1
        lb, ub = B.gen_box(box_kind, ref, rng)
    data = G.pack(A, b, c)
    x0 = B.gen_start(start_kind, lb, ub, rng, ref=ref)
    if cls == "far_flat":
        v = rng.standard_normal(n)
        v = v / math.sqrt(v @ A @ v)
        x0 = onp.clip(v * rng.uniform(0.72, 1.3) / (math.sqrt(2.0) if fam == "flat_rat" else 1.0), lb, ub)
    if case["settings"] == "exit_at_opt" and xstar is not None:
        x0 = onp.array(xstar)
    kw = draw_settings(case["settings"], rng, case["nonmonotone"], case["incremental"])
    settings = spg.get_settings(**kw)
    tol = float(settings.tol)
    p_req = ObjMod.Params(np.asarray(data))
    entry = case["entry"]
    if entry == "direct":
        p_init = p_req
    else:
        b2 = b + rng.standard_normal(n) * 0.3
        if fam in ("rosen", "wells", "flat_exp", "flat_rat"):
            c2 = list(c)
            c2[0] = c2[0] * rng.uniform(1.5, 3.0) + 0.01
            p_init = ObjMod.Params(np.asarray(G.pack(A * rng.uniform(1.2, 2.0) + 0.05 * onp.eye(n), b, c2)))
        else:
            p_init = ObjMod.Params(np.asarray(G.pack(A, b2, c)))

    Rec = M.recording_objective()
    obj = Rec(G.family(fam), np.asarray(x0), p_init)
    out = spg_one_solve(res, case, obj, fam, p_req, x0, lb, ub, settings, entry, box_kind, start_kind)
    if out is None:
        return res
    x_ret, x_ret_jax, flag, start, rec, exit_taken = out

    distinct = 0
    prev = start
    for x in rec.xs:
        if not onp.array_equal(x, prev):
            distinct += 1
        prev = x
    res.count("accepted_or_reported_moves", distinct)
    if cls == "far_flat" and flag:
        res.count("farflat_flag_true")
    res.nontrivial = distinct >= 2 or (cls == "exits" and exit_taken in ("exit_converged_at_entry", "exit_radius_too_small", "exit_iteration_cap")) \
        or (cls == "far_flat" and distinct >= 1)

    # convex problems: a success-flagged point is the bound-constrained minimiser
    if planted and fam in G.CONVEX:
        mu, L, cond = prob["mu"], prob["L"], prob["cond"]
        value = lambda x: G.np_value(fam, x, data)      # noqa: E731  (numpy replicas, independent of JAX)
        grad = lambda x: G.np_grad(fam, x, data)        # noqa: E731
        hess = lambda x: G.np_hess(fam, x, data)        # noqa: E731
        xref, chi_ref = B.reference_box_solve(value, grad, hess, 0.5 * (onp.clip(x0, lb, ub) + xstar), lb, ub)
        scale = max(1.0, float(onp.linalg.norm(xstar)))
        # certificates: for a mu-strongly convex, L-smooth objective |z - x_true| <= (1+L)/mu * |P(z - g(z)) - z|
        chi_planted = B.projected_gradient_norm(xstar, grad(xstar), lb, ub)      # rounding level by construction
        kappa = (1.0 + L) / mu
        rounding = 1e3 * EPS * cond * scale
        agree = float(onp.linalg.norm(xref - xstar))
        res.ratio("reference_vs_planted_optimum_over_certificates", agree, kappa * (chi_ref + chi_planted) + rounding)
        if chi_planted > 0.01 * tol:
            res.count("planted_certificate_above_1pct_of_tol")     # the convex clause is correspondingly weaker there (rounding floor of grad f)
        if not (agree <= kappa * (chi_ref + chi_planted) + rounding):
            res.inconclusive("harness: independent reference solve contradicts the planted optimum (chi_ref %.3g, chi_planted %.3g, |dx| %.3g, kappa %.3g)"
                             % (chi_ref, chi_planted, agree, kappa))
            return res
        res.count("reference_solves_confirmed")
        if flag:
            err = float(onp.linalg.norm(x_ret - xstar))
            allowed = kappa * (tol * (1 + 1e-9) + chi_planted) + rounding
            res.bound("convex_distance_to_box_minimiser", err, allowed, {"mu": mu, "L": L, "tol": tol, "box": box_kind, "family": fam, "n": n})
            res.count("convex_optimum_checked")
        else:
            res.count("convex_not_flagged_success")
    return res


def check_partial(res, fam, p_req, x0, rec, lb, ub, case, negative_steps=0):
    """Feasibility of whatever was reported before the solver raised."""
    from vlib import monitors_c05 as K
    prev = [onp.asarray(x0, float)] + list(rec.xs)
    mech = D23_KEY if (not case["nonmonotone"] and negative_steps > 0) else None
    for k, x in enumerate(rec.xs):
        ex = K.box_excess(x, lb, ub, base=prev[k])
        res.bound("feasibility_excess_over_slack", ex, 1.0, {"which": "reported %d of %d (solver raised later)" % (k + 1, len(rec.xs)),
                                                              "violation_abs": K.box_violation_abs(x, lb, ub),
                                                              "negative_step_lengths_observed": negative_steps}, mechanism=mech)
        res.count("feasibility_points_checked")


# ---------------------------------------------------------------------------------------------- direct-call bundles

def rand_box(rng, n, center):
    from vlib.gen import c05_boxes as B
    return B.gen_box(_pick(rng, BOX_KINDS), center, rng, width_decades=(-3.0, 1.0))


def run_project_direct(case, res):
    import jax.numpy as np
    from vlib.gen import c05_boxes as B
    observer, K, spg = monitors()
    rng = rng_of(case["seed"])
    moved = 0
    before = K.snapshot()
    for k in range(int(case["ncalls"])):
        n = int(_pick(rng, (1, 2, 3, 5, 8, 13, 30)))
        center = rng.standard_normal(n) * 10.0 ** rng.uniform(-2, 3)
        lb, ub = rand_box(rng, n, center)
        kind = k % 5
        x = center + rng.standard_normal(n) * 10.0 ** rng.uniform(-4, 4)
        if kind == 1:      # exactly on bounds / one ulp around them
            fin_l = onp.isfinite(lb)
            x = onp.where(fin_l, lb, x)
            j = int(rng.integers(n))
            x[j] = onp.nextafter(x[j], (-onp.inf, onp.inf)[int(rng.integers(2))])
        elif kind == 2:    # astronomically far
            x = center + rng.standard_normal(n) * 10.0 ** rng.uniform(8, 300)
        elif kind == 3:    # inside
            x = B.gen_start("interior", lb, ub, rng, ref=center)
        bounds = np.column_stack((np.asarray(lb), np.asarray(ub)))
        res.count("direct_project_calls")
        try:
            y = onp.asarray(spg.project(np.asarray(x), bounds), float)
        except K.SPGContractError as e:
            res.violate("direct_" + e.clause, {"detail": e.detail, "kind": kind})
            continue
        except Exception as e:  # noqa -- the property says the projection returns a point
            res.violate("project_returns", {"exception": type(e).__name__, "message": str(e)[:200]})
            continue
        # oracle by definition: no feasible point is closer than the result (numpy.clip is THE nearest point; plus sampled competitors)
        want = onp.clip(x, lb, ub)
        res.expect("project_equals_clip", onp.array_equal(y, want), {"max_abs_diff": float(onp.max(onp.abs(y - want))), "kind": kind})
        dist = float(onp.linalg.norm(x - y))
        if math.isfinite(dist):
            for _ in range(3):
                z = B.gen_start(_pick(rng, START_KINDS), lb, ub, rng, ref=x if rng.random() < 0.5 else center)
                dz = float(onp.linalg.norm(x - z))
                res.ratio("project_distance_vs_feasible_competitor", dist, dz * (1 + 8 * EPS) + 1e-300)
                if dist > dz * (1 + 8 * EPS):
                    res.violate("project_minimal_distance", {"dist_result": dist, "dist_competitor": dz})
        if not onp.array_equal(y, x):
            moved += 1
    fold_contract_counts(res, K, before, False)
    res.count("project_calls_that_moved_the_point", moved)
    res.nontrivial = moved > 0
    return res


def _ptr_case(rng, far):
    from vlib.gen import c05_boxes as B
    n = int(_pick(rng, (1, 2, 3, 5, 8, 13)))
    center = rng.standard_normal(n) * 10.0 ** rng.uniform(-1, 1)
    lb, ub = rand_box(rng, n, center)
    xk = B.gen_start(_pick(rng, START_KINDS), lb, ub, rng, ref=center)
    D = 10.0 ** rng.uniform(-6, 2)
    if far:
        ratio = 10.0 ** rng.uniform(6, 14)
    else:
        ratio = 10.0 ** rng.uniform(-3, 6)
    v = rng.standard_normal(n)
    v = v / onp.linalg.norm(v)
    x = xk + v * D * ratio
    return n, lb, ub, xk, D, x, ratio


def run_ptr_direct(case, res, far):
    import jax.numpy as np
    observer, K, spg = monitors()
    rng = rng_of(case["seed"])
    if observer is not None:
        observer.reset()
    before = K.snapshot()
    K.worst(reset=True)
    active = 0
    for k in range(int(case["ncalls"])):
        n, lb, ub, xk, D, x, ratio = _ptr_case(rng, far)
        bounds = np.column_stack((np.asarray(lb), np.asarray(ub)))
        res.count("direct_project_onto_tr_calls")
        if far:
            res.count("ptr_far_point_calls")
        try:
            y = onp.asarray(spg.project_onto_tr(np.asarray(x), np.asarray(xk), bounds, D), float)
        except K.SPGContractError as e:
            res.violate("direct_" + e.clause, {"detail": e.detail, "far": far})
            continue
        except Exception as e:  # noqa -- the property says the projection returns a point in both sets
            res.violate("project_onto_tr_returns", {"exception": type(e).__name__, "message": str(e)[:200], "ratio": ratio})
            continue
        # explicit oracle next to the contract (the same clauses, evaluated by the harness on the returned value)
        ex = K.box_excess(y, lb, ub)
        rr = float(onp.linalg.norm(y - xk)) / D
        res.bound("ptr_box_excess_over_slack", ex, 1.0, {"ratio_in": ratio, "n": n})
        res.bound("ptr_radius_ratio", rr, K.ball_allowed(D, xk, y) / D, {"ratio_in": ratio, "n": n, "trSize": D})
        # when the plain box projection is already inside the ball, that projection must be returned
        pb = onp.clip(x, lb, ub)
        if onp.linalg.norm(pb - xk) <= D * (1 - 1e-9):
            res.expect("ptr_inactive_ball_returns_box_projection", onp.array_equal(y, pb), {"ratio_in": ratio})
        else:
            active += 1
    w = K.worst()
    res.ratio("ptr_worst_radius_over_allowed_seen_by_contract", w["ball"], 1.0)
    fold_contract_counts(res, K, before, False)
    if observer is not None:
        from vlib import monitors_c01 as M
        M.summarize(observer, res, (M.PTR_NAMES,))
    res.count("ptr_calls_with_active_ball", active)
    res.nontrivial = active > 0
    return res


def run_cauchy_direct(case, res):
    import jax.numpy as np
    from vlib.gen import c05_boxes as B
    observer, K, spg = monitors()
    rng = rng_of(case["seed"])
    if observer is not None:
        observer.reset()
    before = K.snapshot()
    s0 = spg.get_settings()
    moved = 0
    for k in range(int(case["ncalls"])):
        n = int(_pick(rng, (1, 2, 3, 5, 8)))
        Mx = rng.standard_normal((n, n))
        H = Mx @ Mx.T / n + 0.1 * onp.eye(n) - (0.8 * onp.eye(n) if k % 3 == 0 else 0.0)
        center = rng.standard_normal(n)
        lb, ub = rand_box(rng, n, center)
        x = B.gen_start(_pick(rng, START_KINDS), lb, ub, rng, ref=center)
        g = rng.standard_normal(n) * 10.0 ** rng.uniform(-2, 2)
        D = 10.0 ** rng.uniform(-3, 3)
        a0 = 10.0 ** rng.uniform(-4, 2)
        Hj = np.asarray(H)
        bounds = np.column_stack((np.asarray(lb), np.asarray(ub)))
        res.count("direct_cauchy_point_calls")
        try:
            alpha, s = spg.find_generalized_cauchy_point(np.asarray(x), np.asarray(g), lambda v: Hj @ v, bounds, a0, D, s0)
        except K.SPGContractError as e:
            res.violate("direct_" + e.clause, {"detail": e.detail})
            continue
        except RuntimeError as e:
            if "No acceptable Cauchy point" in str(e):
                res.count("cauchy_point_runtime_error")
                continue
            raise
        s = onp.asarray(s, float)
        ex = K.box_excess(x + s, lb, ub, base=x)
        res.bound("gcp_box_excess_over_slack", ex, 1.0, {"n": n})
        res.bound("gcp_radius_ratio", float(onp.linalg.norm(s)) / D, K.ball_allowed(D, x, x + s) / D, {"n": n, "trSize": D})
        # evidence only: sufficient decrease of the model at the returned step
        m = 0.5 * s @ H @ s + g @ s
        res.count("gcp_sufficient_decrease_holds" if m <= s0.cauchy_point_sufficient_decrease_factor * (g @ s) + 1e-12 * abs(g @ s) else "gcp_sufficient_decrease_fails")
        if onp.any(s != 0):
            moved += 1
    fold_contract_counts(res, K, before, False)
    if observer is not None:
        from vlib import monitors_c01 as M
        M.summarize(observer, res, (M.PTR_NAMES,))
    res.nontrivial = moved > 0
    return res


def run_sequence_case(case, res):
    """Shared-object history: one Objective, several solves with changing load (slot 0) / design (slot 2), each started from
    exactly the array the previous solve returned, on a fixed box."""
    import jax.numpy as np
    from optimism import Objective as ObjMod
    from vlib import monitors_c01 as M
    from vlib.common import loguniform
    from vlib.gen import c01_objectives as G
    from vlib.gen import c05_boxes as B

    observer, K, spg = monitors()
    rng = rng_of(case["seed"])
    fam, n = case["family"], int(case["n"])
    nsteps = int(rng.integers(3, 6))
    if fam == "valley":
        A = onp.zeros((n, n))
        c = [float(loguniform(rng, 0.3, 1.0)), 1.0]
        x0 = onp.full(n, 1.0) + rng.standard_normal(n) * 0.3
        direction = onp.zeros(n)
        direction[0] = 1.0
        b = onp.zeros(n)
        design = 1.0
        step_scale = 1.0
    else:
        prob = G.gen_problem(fam, n, rng, {"start": "random", "cond": 10.0 ** rng.uniform(0, 3)})
        A, b, c, x0 = prob["A"], onp.array(prob["b"]), prob["c"], onp.array(prob["x0"])
        direction = rng.standard_normal(n)
        direction /= onp.linalg.norm(direction)
        design = None
        step_scale = float(loguniform(rng, 0.3, 3.0))
    lb, ub = B.gen_box(case["box"], x0, rng, width_decades=(-0.5, 1.0))
    x0 = onp.clip(x0, lb, ub)

    def params(bv, dv):
        d = np.asarray(G.pack(A, bv, c))
        return ObjMod.Params(bc_data=d) if dv is None else ObjMod.Params(bc_data=d, design_data=np.asarray([dv]))

    kw = {"debug_info": False, "spg_use_nonmonotone": bool(case["nonmonotone"]), "max_trust_iters": 40}
    if case["settings"] == "mild":
        kw.update(tr_size=float(loguniform(rng, 0.5, 8.0)), tol=float(loguniform(rng, 1e-9, 1e-6)), max_spg_iters=int(_pick(rng, (10, 25))))
    settings = spg.get_settings(**kw)
    Rec = M.recording_objective()
    p_prev = params(b + 0.37 * direction, None if design is None else design * 1.3)
    obj = Rec(G.family(fam), np.asarray(x0), p_prev)
    fj, gj = own_functions(fam)
    x_cur = np.asarray(x0)
    res.count("load_sequences")
    prev_flag = None
    for k in range(nsteps):
        if k > 0:
            if design is not None and rng.random() < 0.25:
                design = design * float(rng.uniform(0.7, 1.4))
                res.count("sequence_p_change_design")
            else:
                b = b + direction * step_scale * float(rng.uniform(0.5, 1.5)) * (-1.0 if rng.random() < 0.2 else 1.0)
        p_k = params(b, design)
        drv = case["driver"] if case["driver"] != "mixed" else _pick(rng, ("solve", "hand", "solve_warm"))
        if k > 0 and case["interleave"] == "other_point":
            xo = onp.clip(onp.asarray(x_cur) + rng.standard_normal(n), lb, ub)
            obj.value(np.asarray(xo))
            obj.gradient(np.asarray(xo))
            res.count("interleaved_other_point")
        elif k > 0 and case["interleave"] == "other_p_same_point":
            keep = obj.p
            obj.p = params(b - 2.0 * step_scale * direction, None if design is None else design * 0.8)
            obj.value(x_cur)
            obj.gradient(x_cur)
            obj.p = keep
            res.count("interleaved_other_p_same_point")
        if k > 0:
            res.count("sequence_p_changes")
            if float(fj(x_cur, p_k)) < float(fj(x_cur, p_prev)):
                res.count("p_change_with_objective_drop_at_start")
                if drv in ("solve", "hand") and prev_flag:
                    res.count("cold_restart_after_converged_solve_with_objective_drop")
            if drv in ("solve", "hand"):
                res.count("cold_restart_from_returned_array")
        res.count("sequence_solves")
        res.count("sequence_driver_" + drv)
        out = spg_one_solve(res, case, obj, fam, p_k, x_cur, lb, ub, settings, "direct" if drv == "hand" else drv, case["box"], "interior",
                            p_hand=p_k if drv == "hand" else None)
        if out is None:
            return res
        x_np, x_jax, flag, start, rec, exit_taken = out
        if K.box_excess(x_np, lb, ub) > 1.0 or not onp.all(onp.isfinite(x_np)):
            break
        x_cur = x_jax
        p_prev = p_k
        prev_flag = flag
    res.nontrivial = True
    return res


def run_boundary_case(case, res):
    """tol = 0 (or so small that tol**2 underflows) on exactly representable box-QPs: diagonal Hessian with entries 1/4, 1, 4,
    16, integer optimum / bounds / start, so iterates land bit-exactly on stationary points of the bound-constrained problem."""
    import jax.numpy as np
    from optimism import Objective as ObjMod
    from vlib import monitors_c01 as M
    from vlib.gen import c01_objectives as G

    observer, K, spg = monitors()
    rng = rng_of(case["seed"])
    n, variant = int(case["n"]), case["variant"]
    a = onp.array([_pick(rng, (0.25, 1.0, 4.0, 16.0)) for _ in range(n)])
    if rng.random() < 0.5:
        a[:] = a[0]
    xu = rng.integers(-4, 5, n).astype(float)          # unconstrained minimiser
    lb = xu - rng.integers(1, 4, n).astype(float)
    ub = xu + rng.integers(1, 4, n).astype(float)
    if variant in ("vertex_opt", "face_opt"):
        m = onp.ones(n, bool) if variant == "vertex_opt" else (rng.random(n) < 0.5)
        if not m.any():
            m[0] = True
        side = rng.random(n) < 0.5
        lb = onp.where(m & side, xu + 1.0, lb)          # unconstrained minimiser below the lower bound -> active lower bound
        ub = onp.where(m & ~side, xu - 1.0, ub)
        lb = onp.where(m & ~side, ub - 3.0, lb)
        ub = onp.where(m & side, lb + 3.0, ub)
    xopt = onp.clip(xu, lb, ub)                          # separable problem: the box optimum is the clipped unconstrained one
    x0 = onp.clip(xopt + rng.integers(-2, 3, n).astype(float), lb, ub)
    if variant == "start_on_opt":
        x0 = onp.array(xopt)
    data = G.pack(onp.diag(a), a * xu, [0.0])
    settings = spg.get_settings(tol=float(case["tol"]), max_trust_iters=int(_pick(rng, (10, 30))), debug_info=False,
                                spg_use_nonmonotone=bool(case["nonmonotone"]))
    res.count("tol_squared_is_zero_solves")
    res.count("exact_box_qp_" + variant)
    p_req = ObjMod.Params(np.asarray(data))
    p_init = p_req if case["entry"] == "direct" else ObjMod.Params(np.asarray(G.pack(onp.diag(a), a * xu + 1.0, [0.0])))
    Rec = M.recording_objective()
    obj = Rec(G.family("quad"), np.asarray(x0), p_init)
    out = spg_one_solve(res, case, obj, "quad", p_req, x0, lb, ub, settings, case["entry"], "finite", "interior")
    if out is None:
        return res
    x_np, x_jax, flag, start, rec, exit_taken = out
    fj, gj = own_functions("quad")
    for x in [start] + list(rec.xs):
        g = onp.asarray(gj(np.asarray(x), p_req))
        if onp.all(onp.isfinite(x)) and not onp.any(onp.clip(x - g, lb, ub) - x):
            res.count("exactly_stationary_iterate_while_unconverged")
            break
    res.nontrivial = True
    return res


def run_case(case):
    res = Res(case)
    cls = case["cls"]
    if cls == "project_direct":
        return run_project_direct(case, res)
    if cls == "project_onto_tr_direct":
        return run_ptr_direct(case, res, far=False)
    if cls == "project_onto_tr_far":
        return run_ptr_direct(case, res, far=True)
    if cls == "cauchy_direct":
        return run_cauchy_direct(case, res)
    if cls == "load_sequence":
        return run_sequence_case(case, res)
    if cls == "settings_boundary":
        return run_boundary_case(case, res)
    return run_solve_case(case, res)


def finalize(results, tier):
    """Extra coverage keys: per-family status counts, exits per class, reported-iterate histogram."""
    fam, exits, hist = {}, {}, {"0": 0, "1": 0, "2-5": 0, "6-20": 0, "21+": 0}
    for r in results:
        c = r.get("case", {})
        f = c.get("family")
        if f is None:
            continue
        d = fam.setdefault(f, {})
        d[r.get("status", "?")] = d.get(r.get("status", "?"), 0) + 1
        o = r.get("obs", {})
        e = exits.setdefault(c.get("cls", "_"), {})
        for k, v in o.items():
            if k.startswith("exit_"):
                e[k] = e.get(k, 0) + v
        m = o.get("accepted_or_reported_moves")
        if m is not None:
            b = "0" if m == 0 else "1" if m == 1 else "2-5" if m <= 5 else "6-20" if m <= 20 else "21+"
            hist[b] += 1
    return {"per_family_status": fam, "exits_per_class": exits, "distinct_reported_iterates_histogram": hist}
