"""C19 — load stepping: warm start = exact linear predictor; diagonal scaling is transparent; parameters are handed over.

Monitors
  * reference-model monitor for `WarmStart.warm_start_increment` (and the jax-safe variant): dense H (jacfwd of the
    harness's own gradient), dense dg/dp (jacfwd), numpy solve; residual clause from scipy.cg's stopping rule
    (rtol 1e-5), error clause with the condition number, landing clause for quadratic energies.  Direct calls *and*
    in situ: the module attribute `WarmStart.warm_start_increment` is wrapped by a recorder, so the calls made inside the
    four drivers are checked offline against the same oracle (and their count is a required minimum).
  * scaling: the solve through ScaledObjective (stiffness-derived scaling over 0..6 decades) must reach the dense
    reference solution when it reports success; the unscaled solve is compared only when it reports success itself.
  * after each step of 2..6-step sequences through nonlinear_equation_solve / TrustRegionSPG.solve /
    bound_constrained_solve / augmented_lagrange_solve (warm start on/off, preconditioner refresh on/off):
    objective.p equals the requested p slot by slot, and the success flag agrees with the gradient norm /
    projected-gradient norm / [grad L_A; Fischer-Burmeister] norm recomputed by the harness under the REQUESTED p.
"""
import contextlib
import io

import numpy as onp

from vlib.common import Res, derive_seed, rng_of

PROPERTY = "C19"
LEVEL = "exploration"
RULE = ("case = (class, energy family quad/nl, dimension 3..8, stiffness scaling over 0..6 decades, load path of 1..6 steps "
        "changing slot 0 every step and slots 1, 2, 4 sometimes, driver, plain vs scaled objective, warm start on/off, "
        "preconditioner refresh on/off / stale / Jacobi, tolerance). Non-trivial = at least one warm-start increment with "
        "a non-zero parameter change was checked against the dense oracle, or at least two load steps with changed "
        "parameters were solved and their flag/p hand-over checked; distinct = canonical hash of the case parameters.")
ASSUMPTIONS = [
    "CHOLMOD test double /verif/vlib/shims/sksparse (dense numpy Cholesky) stands in for scikit-sparse",
    "dense oracle: jacfwd of the harness's own gradient of the energy twin (+ the C1 augmented-Lagrangian penalty for "
    "constrained objects), cross-checked at run time against closed-form numpy derivatives",
    "warm-start tolerance = scipy.sparse.linalg.cg's stopping rule ||H dx - b|| <= 1e-5 ||b|| (WarmStart passes no rtol), "
    "hence ||dx - dx_ref|| <= 1e-5 cond(H) ||dx_ref||; rounding allowance 64 eps x magnitude",
    "solution clauses: flag True means ||S^-1 g|| < tol, so ||S (x - x_ref)|| <= tol / lambda_min(S^-1 H S^-1) "
    "(Hessian >= A for the nl family); box QPs: ||xbar - xbar*|| <= (1 + L)/mu x projected-gradient norm",
    "flag clause: True => measure < tol, False => measure >= tol (both solvers return False only at a point that failed "
    "their convergence test), each with a relative 1e-9 + 64 eps x magnitude band for the re-evaluation",
    "a driver that ends in the solver's NameError('Loadstep failed to converge') is an honest failure (step vacuous)",
]
CLASSES = ["param_update", "warm_direct_plain", "warm_direct_scaled", "warm_direct_constrained", "warm_direct_jaxsafe",
           "scaled_vs_unscaled_nes", "scaled_vs_unscaled_spg", "seq_nes", "seq_spg", "seq_bcs", "seq_al",
           "warm_ladder_direct", "seq_ladder"]
INC_LADDER = [-14, -12, -10, -8, -6, -4, -2, 0]
SCALE_LADDER_DIRECT = [-12, -8, -4, 4, 8, 12]
SCALE_LADDER_SEQ = [-12, -6, 3]
REQUIRED = {
    "all": dict([("class:" + c, 1 if c == "param_update" else 16) for c in CLASSES] + [
        ("param_update_checks", 36),
        ("warm_direct_checked", 120), ("warm_direct_index0", 80), ("warm_direct_index2", 20), ("warm_direct_jaxsafe", 16),
        ("warm_direct_landing_checked", 25), ("warm_direct_prehistory_foreign_p", 60), ("warm_direct_zero_change", 4), ("warm_direct_multi_iteration_cg", 30),
        ("insitu_warm_start_calls", 200), ("insitu_landing_checked", 15), ("insitu_linearisation_point_checked", 200),
        ("entry_point_checked_warm", 200), ("entry_point_checked_cold", 200),
        ("warm_nl_scaled_nonzero:nes", 12), ("warm_nl_scaled_nonzero:spg", 8), ("warm_nl_scaled_nonzero:bcs", 8),
        ("warm_nl_nonzero:al", 15),
    ] + [("ladder_direct_inc:1e%d" % e, 5) for e in INC_LADDER] + [("ladder_direct_inc:mixed", 5)]
      + [("ladder_direct_scale:1e%d" % e, 6) for e in SCALE_LADDER_DIRECT]
      + [("ladder_direct_kind:%s" % k, 8) for k in ("plain:slot0", "plain:slot2", "scaled:slot0", "scaled:slot2",
                                                     "constrained:slot0", "jaxsafe:slot0")]
      + [("ladder_seq_inc:1e%d" % e, 3) for e in INC_LADDER] + [("ladder_seq_inc:mixed", 3)]
      + [("ladder_seq_scale:1e%d" % e, 3) for e in SCALE_LADDER_SEQ]
      + [("ladder_seq_driver:%s" % d, 8) for d in ("nes", "spg", "bcs", "al")] + [
        ("scaled_solution_checked", 100), ("unscaled_solution_checked", 100), ("reference_certified", 200), ("scaling_decades_ge3", 25),
        ("steps:nes:warm", 40), ("steps:nes:cold", 40), ("steps:spg:warm", 40), ("steps:spg:cold", 40),
        ("steps:bcs:warm", 40), ("steps:bcs:cold", 40), ("steps:al:warm", 40), ("steps:al:cold", 40),
        ("steps_no_refresh", 80), ("steps_scaled_objective", 120),
        ("flag_true_checked", 500), ("p_slots_checked", 500), ("steps_slot2_changed", 60), ("steps_time_changed", 60),
    ]),
}
WATCHDOG_S = {"quick": 1800, "thorough": 4 * 3600}
MIN_SCALED_SUCCESS = 0.9

_REC = []
_ENTRY = []          # points at which a minimiser was entered during the current driver call


def build_cases(tier, seed):
    quick = tier == "quick"
    per = {"warm_direct_plain": 48, "warm_direct_scaled": 56, "warm_direct_constrained": 32, "warm_direct_jaxsafe": 24,
           "scaled_vs_unscaled_nes": 56, "scaled_vs_unscaled_spg": 40, "seq_nes": 64, "seq_spg": 64, "seq_bcs": 56, "seq_al": 40}
    if not quick:
        per = {k: v * 30 for k, v in per.items()}
    cases = [{"cls": "param_update", "group": "g0", "seed": derive_seed(seed, PROPERTY, "param_update", 0), "cost": 0.2}]
    gi = 0
    for cls, cnt in per.items():
        for i in range(cnt):
            s = derive_seed(seed, PROPERTY, cls, i)
            rng = rng_of(derive_seed(s, "params"))
            c = {"cls": cls, "seed": s, "group": "g%d" % (gi % 32), "cost": 1.0}
            gi += 1
            c["n"] = int(rng.integers(3, 9))
            c["family"] = ["quad", "nl"][i % 2]
            c["tol"] = [1e-8, 1e-10, 1e-6][(i // 2) % 3]
            if cls.startswith("warm_direct"):
                c["index"] = 2 if (cls in ("warm_direct_plain", "warm_direct_scaled") and i % 3 == 2) else 0
                c["at_solution"] = bool(rng.random() < 0.75)
                c["other_slots_change"] = bool(rng.random() < 0.2)
                c["zero_change"] = bool(i % 12 == 7)
                c["decades"] = 0 if cls == "warm_direct_plain" else int(rng.choice([0, 2, 4, 6]))
                c["precond"] = ["fresh", "stale", "jacobi"][i % 3] if cls in ("warm_direct_scaled", "warm_direct_jaxsafe") else ["fresh", "stale"][i % 2]
                if cls == "warm_direct_constrained":
                    c["front_end"] = bool(i % 2)
                    c["scaled"] = bool(i % 4 >= 2)
                if cls == "warm_direct_jaxsafe":
                    c["scaled"] = bool(i % 2)
            elif cls.startswith("scaled_vs_unscaled"):
                c["decades"] = [0, 2, 4, 6][i % 4]
                if cls.endswith("spg"):
                    c["family"] = "quad" if i % 4 else "nl"
            else:
                c["steps"] = int(rng.integers(2, 7))
                c["warm"] = bool(i % 2)
                c["family"] = ["quad", "nl"][(i // 2) % 2]
                c["tol"] = float(rng.choice([1e-8, 1e-10, 1e-6]))
                c["refresh"] = bool(rng.random() < 0.7)
                c["scaled"] = bool((i // 4) % 2) if cls != "seq_al" else False
                c["decades"] = int(rng.choice([0, 1, 3])) if not c["scaled"] else int(rng.choice([2, 4, 6]))
                c["slot0_only"] = bool((i // 8) % 2 == 0)
                if cls == "seq_al":
                    c["second_order"] = bool((i // 2) % 2)
                    c["precond_before_warm"] = bool((i // 4) % 2 == 0)
                    c["decades"] = 0
                if cls == "seq_bcs":
                    c["second_order"] = bool((i // 4) % 2)
                    c["css"] = float(rng.choice([1.0, 0.5, 4.0])) if c["scaled"] else 1.0
            cases.append(c)
    # ---- increment-size / data-scale ladder (fine load stepping, cut-back steps, tiny or huge parameter data)
    # (the nl family is not scale-homogeneous: its (p2.p2) x'A2 x term makes the Hessian numerically singular for huge
    #  data, outside the property's SPD hypothesis, so data scales > 1 use the quadratic family; tiny scales use both)
    reps = 1 if quick else 20
    combos = [("warm_direct_plain", 0), ("warm_direct_plain", 2), ("warm_direct_scaled", 0), ("warm_direct_scaled", 2),
              ("warm_direct_constrained", 0), ("warm_direct_jaxsafe", 0)]
    rungs = [(e, 0, False) for e in INC_LADDER] + [(-10, 0, True)]
    rungs += [(e, ps, False) for ps in SCALE_LADDER_DIRECT for e in (-2, 0)]
    i = 0
    for rep in range(reps):
        for kind, index in combos:
            for inc_exp, ps, mixed in rungs:
                s = derive_seed(seed, PROPERTY, "warm_ladder_direct", i)
                rng = rng_of(derive_seed(s, "params"))
                c = {"cls": "warm_ladder_direct", "kind": kind, "seed": s, "group": "l%d" % (i % 32), "cost": 0.7,
                     "n": int(rng.integers(3, 9)), "family": ["quad", "nl"][i % 2] if ps <= 0 else "quad", "tol": 1e-8, "index": index,
                     "inc_exp": inc_exp, "pscale_exp": ps, "mixed": mixed, "at_solution": bool(rng.random() < 0.75),
                     "other_slots_change": False, "zero_change": False,
                     "decades": 0 if kind == "warm_direct_plain" else int(rng.choice([0, 2, 4, 6])),
                     "precond": ["fresh", "stale", "jacobi"][i % 3] if kind in ("warm_direct_scaled", "warm_direct_jaxsafe") else ["fresh", "stale"][i % 2]}
                if kind == "warm_direct_constrained":
                    c["front_end"] = bool(i % 2)
                    c["scaled"] = bool((i // 2) % 2)
                if kind == "warm_direct_jaxsafe":
                    c["scaled"] = bool(i % 2)
                cases.append(c)
                i += 1
    srungs = [(e, 0, False) for e in INC_LADDER] + [(-10, 0, True)] + [(e, ps, False) for ps in SCALE_LADDER_SEQ for e in (-2,)]
    i = 0
    for rep in range(reps):
        for drv in ("nes", "spg", "bcs", "al"):
            for inc_exp, ps, mixed in srungs:
                s = derive_seed(seed, PROPERTY, "seq_ladder", i)
                rng = rng_of(derive_seed(s, "params"))
                c = {"cls": "seq_ladder", "drv": drv, "seed": s, "group": "m%d" % (i % 32), "cost": 1.5,
                     "n": int(rng.integers(3, 9)), "family": ["quad", "nl"][i % 2] if ps <= 0 else "quad",
                     "tol": float(rng.choice([1e-8, 1e-6])),
                     "steps": int(rng.integers(2, 5)), "warm": True, "refresh": bool(rng.random() < 0.7),
                     "scaled": bool((i // 2) % 2) if drv != "al" else False, "slot0_only": bool(rng.random() < 0.5),
                     "inc_exp": inc_exp, "pscale_exp": ps, "mixed": mixed}
                c["decades"] = int(rng.choice([2, 4, 6])) if c["scaled"] else int(rng.choice([0, 1, 3]))
                if drv == "al":
                    c["second_order"] = bool((i // 2) % 2)
                    c["precond_before_warm"] = bool(i % 2)
                    c["decades"] = 0
                if drv == "bcs":
                    c["second_order"] = bool((i // 4) % 2)
                    c["css"] = float(rng.choice([1.0, 0.5, 4.0])) if c["scaled"] else 1.0
                cases.append(c)
                i += 1
    return cases


# ------------------------------------------------------------------------------------------------ worker helpers

def _install_recorder():
    from optimism import WarmStart
    if getattr(WarmStart.warm_start_increment, "_c19_recorder", False):
        return
    orig = WarmStart.warm_start_increment

    def recorded_warm_start_increment(objective, x, pNew, index=0):
        rec = {"objective": objective, "x": onp.array(x, dtype=float), "p_old": objective.p, "p_new": pNew, "index": index,
               "lam": onp.array(objective.lam, dtype=float) if hasattr(objective, "lam") else None,
               "kappa": onp.array(objective.kappa, dtype=float) if hasattr(objective, "kappa") else None}
        dx = orig(objective, x, pNew, index)
        rec["dx"] = onp.array(dx, dtype=float)
        _REC.append(rec)
        return dx

    recorded_warm_start_increment._c19_recorder = True
    WarmStart.warm_start_increment = recorded_warm_start_increment

    # entry-point recorder for the bound-constrained minimiser (called through the module global by TrustRegionSPG.solve)
    from optimism import TrustRegionSPG
    orig_spg = TrustRegionSPG.bound_constrained_trust_region_minimize

    def recorded_bound_constrained_trust_region_minimize(objective, x, bounds, settings, callback=None):
        _ENTRY.append(onp.array(x, dtype=float))
        return orig_spg(objective, x, bounds, settings, callback=callback)

    TrustRegionSPG.bound_constrained_trust_region_minimize = recorded_bound_constrained_trust_region_minimize


def _recording_solver(solver):
    """solver_algorithm wrapper for nonlinear_equation_solve: records the point the minimiser is entered at."""
    def recorded_solver(objective, x, settings, callback=None):
        _ENTRY.append(onp.array(x, dtype=float))
        return solver(objective, x, settings, callback=callback)
    return recorded_solver


def _entry_callback(x, p):
    """AL / bound-constrained front end: the public callback is invoked with the current iterate at the start of every
    outer iteration; the first invocation is the point the solve starts from."""
    _ENTRY.append(onp.array(x, dtype=float))


def _params(pt):
    import jax.numpy as np
    from optimism import Objective
    p0, p1, p2, p3, t = pt
    return Objective.Params(np.array(p0), np.array(p1), np.array(p2), p3, np.array(float(t)))


def _pvals(p):
    return onp.array(p[0], dtype=float), onp.array(p[2], dtype=float), float(p[4])


def _make_f(E):
    from vlib.gen import c19_energies as gen
    energy = gen.energy_jax(E)

    def f(x, p):
        return energy(x, p[0], p[2], p[4])

    return f


def _make_ps(E, jacobi=False):
    from scipy.sparse import csc_matrix
    from optimism import Objective
    from vlib.gen import c19_energies as gen

    class StiffnessPrecond(Objective.PrecondStrategy):
        def __init__(self):
            pass

        def initialize(self, x, p):
            p0, p2, t = _pvals(p)
            H = gen.hess_np(E, onp.array(x, dtype=float), p0, p2, t)
            self.K = csc_matrix(onp.diag(onp.diag(H))) if jacobi else csc_matrix(H)

    return StiffnessPrecond()


def _cg_iters(text):
    out = []
    for line in text.splitlines():
        if line.startswith("num warm start cg iters ="):
            try:
                out.append(int(line.split("=")[1]))
            except ValueError:
                pass
    return out


def _twin_selfcheck(res, twin, xbar, pv, lam=None, kap=None):
    """jax twin vs closed-form numpy gradient / Hessian (unconstrained part) at one point; disagreement => inconclusive."""
    from vlib.gen import c19_energies as gen
    g, H, J0, J2 = twin.derivs(xbar, pv[0], pv[1], pv[2], lam, kap)
    gn = twin.grad_np(xbar, pv[0], pv[1], pv[2], lam, kap)
    scale = float(onp.linalg.norm(twin.grad_mag_np(xbar, pv[0], pv[1], pv[2], lam, kap))) + 1e-300
    ok = onp.linalg.norm(g - gn) <= 1e-10 * scale
    if twin.con is None:
        x = twin.sinv * xbar
        Hn = twin.sinv[:, None] * gen.hess_np(twin.E, x, pv[0], pv[1], pv[2]) * twin.sinv[None, :]
        J0n = twin.sinv[:, None] * gen.dgdp0_np(twin.E, x, pv[0], pv[1], pv[2])
        J2n = twin.sinv[:, None] * gen.dgdp2_np(twin.E, x, pv[0], pv[1], pv[2])
        ok = ok and onp.allclose(H, Hn, rtol=1e-9, atol=1e-12 * onp.abs(Hn).max()) \
            and onp.allclose(J0, J0n, rtol=1e-9, atol=1e-12 * (onp.abs(J0n).max() + 1e-300)) \
            and onp.allclose(J2, J2n, rtol=1e-9, atol=1e-12 * (onp.abs(J2n).max() + 1e-300))
    res.count("oracle_twin_selfchecks")
    if not ok:
        res.inconclusive("oracle twins disagree (jacfwd vs closed form)")
    return ok


def _check_record(res, rec, twin, p_prev, p_req, prefix):
    """One recorded warm_start_increment call against the dense oracle."""
    from vlib.oracles import c19_dense as orc
    ok, slot = orc.slots_equal(rec["p_new"], p_req)
    res.expect(prefix + "warm_start_gets_requested_p", ok, {"slot": slot})
    if p_prev is not None:
        ok, slot = orc.slots_equal(rec["p_old"], p_prev)
        res.expect(prefix + "objective_p_is_previous_request", ok, {"slot": slot})
    p0o, p2o, to = _pvals(rec["p_old"])
    g, H, J0, J2 = twin.derivs(rec["x"], p0o, p2o, to, rec["lam"], rec["kappa"])
    idx = rec["index"]
    if idx == 0:
        ref = orc.warm_start_reference(H, J0, p0o, onp.array(rec["p_new"][0], dtype=float))
    else:
        ref = orc.warm_start_reference(H, J2, p2o, onp.array(rec["p_new"][2], dtype=float))
    if ref["lmin"] <= 0:
        res.vacuous("Hessian not positive definite at the warm-start point")
        return None
    orc.check_warm_start(res, rec["dx"], H, ref, prefix)
    return ref


def _measure(twin, kind, xbar, pv, lam=None, kap=None, kappa0=None, bounds=None):
    from vlib.oracles import c19_dense as orc
    g = twin.grad_np(xbar, pv[0], pv[1], pv[2], lam, kap)
    gm = twin.grad_mag_np(xbar, pv[0], pv[1], pv[2], lam, kap)
    rounding = 64 * orc.EPS * float(onp.linalg.norm(gm)) * len(xbar) ** 0.5
    if kind == "grad":
        return float(onp.linalg.norm(g)), rounding
    if kind == "pg":
        return float(onp.linalg.norm(onp.clip(xbar - g, bounds[0], bounds[1]) - xbar)), rounding + 8 * orc.EPS * float(onp.linalg.norm(xbar))
    c = twin.cons_np(xbar, pv[0])
    phi = orc.fb_residual(c, lam, kappa0)
    cm = onp.abs(twin.con["G"]) @ onp.abs(xbar) + onp.abs(twin.con["h"]) + onp.abs(twin.con["F"]) @ onp.abs(pv[0])
    return float(onp.linalg.norm(onp.concatenate([g, phi]))), rounding + 64 * orc.EPS * float(onp.linalg.norm(kappa0 * cm))


def _check_flag(res, flag, meas, rounding, tol, detail):
    band = 1e-9 * tol + rounding
    if flag:
        res.bound("flag_true_means_converged_under_requested_p", meas, tol + band, detail)
        res.count("flag_true_checked")
    else:
        # solver says "not converged": the requested-p measure must not be below tol
        res.expect("flag_false_means_not_converged_under_requested_p", meas >= tol - band, dict(detail, measure=meas, tol=tol))
        res.count("flag_false_checked")


def _ref(res, E, p0, p2, t):
    """Dense reference solution with its certificate (relative stationarity); None if it cannot be certified."""
    from vlib.gen import c19_energies as gen
    x = gen.solve_np(E, p0, p2, t)
    if not gen.reference_residual(E, x, p0, p2, t) <= 1e-14:
        res.count("reference_uncertified")
        return None
    res.count("reference_certified")
    return x


def _scaling_of(obj, n):
    return onp.array(getattr(obj, "scaling", 1.0), dtype=float) * onp.ones(n)


# ------------------------------------------------------------------------------------------------ classes

def _run_param_update(case, res):
    import jax.numpy as np
    from optimism import Objective
    rng = rng_of(case["seed"])
    for trial in range(12):
        vals = [np.array(rng.standard_normal(int(rng.integers(1, 5)))) if rng.random() < 0.8 else None for _ in range(6)]
        p = Objective.Params(*vals)
        for index in range(6):
            new = np.array(rng.standard_normal(3))
            q = Objective.param_index_update(p, index, new)
            ok = q is not None and len(q) == 6 and all((q[j] is new) if j == index else (q[j] is p[j]) for j in range(6))
            res.expect("param_index_update_replaces_exactly_one_slot", ok, {"index": index})
            res.expect("param_index_update_leaves_input_untouched", all(p[j] is vals[j] for j in range(6)))
            res.count("param_update_checks")
    res.nontrivial = True
    return res


def _run_warm_direct(case, res):
    import jax.numpy as np
    from optimism import Objective, WarmStart
    from optimism.ConstrainedObjective import ConstrainedObjective
    from optimism import BoundConstrainedObjective as BCO
    from vlib.gen import c19_energies as gen
    from vlib.oracles import c19_dense as orc

    rng = rng_of(case["seed"])
    cls = case.get("kind", case["cls"])
    n = case["n"]
    E = gen.make_energy(rng, n, case["family"], case["decades"])
    index = case["index"]
    ladder = "inc_exp" in case
    if ladder:
        path = gen.load_path_ladder(rng, 1, case["inc_exp"], 10.0 ** case["pscale_exp"], mixed=case["mixed"])
    else:
        path = gen.load_path(rng, 1, slot0_only=False)
    old, new = list(path[0]), list(path[1])
    if not case["other_slots_change"]:
        # only the slot under test changes
        for j in (0, 1, 2, 4):
            if j != index:
                new[j] = old[j]
    if index == 2:
        if ladder:
            new[2] = gen.ladder_increment(rng, old[2], case["inc_exp"], case["mixed"])
        else:
            new[2] = old[2] + rng.standard_normal(gen.NP2) * 0.5
    if case["zero_change"]:
        new[index] = onp.array(old[index])
    p_old, p_new = _params(old), _params(new)
    pvo = (old[0], old[2], old[4])
    f = _make_f(E)
    xsol = gen.solve_np(E, *pvo)
    x = xsol if case["at_solution"] else xsol + rng.standard_normal(n) * 0.3 / E["dofscale"]
    buf = io.StringIO()
    lam = kap = None
    con = None
    with contextlib.redirect_stdout(buf):
        if cls == "warm_direct_plain":
            obj = Objective.Objective(f, np.array(x), p_old)
            S = onp.ones(n)
        elif cls in ("warm_direct_scaled", "warm_direct_jaxsafe") and (cls == "warm_direct_scaled" or case["scaled"]):
            obj = Objective.ScaledObjective(f, np.array(x), p_old, _make_ps(E, jacobi=case["precond"] == "jacobi"))
            S = _scaling_of(obj, n)
        elif cls == "warm_direct_jaxsafe":
            obj = Objective.Objective(f, np.array(x), p_old)
            S = onp.ones(n)
        else:
            m = int(rng.integers(1, 4))
            if case["front_end"]:
                idx = onp.sort(rng.choice(n, size=m, replace=False))
                obj = BCO.BoundConstrainedObjective(f, np.array(x), p_old, np.array(idx),
                                                    precondStrategy=_make_ps(E) if case["scaled"] else None)
                S = _scaling_of(obj, n)
                G = onp.zeros((m, n))
                G[onp.arange(m), idx] = 1.0
                con = {"G": G, "h": onp.zeros(m), "F": onp.zeros((m, gen.NP0))}
                obj.lam = np.array(onp.abs(rng.standard_normal(m)) * (rng.random(m) < 0.7))
                obj.kappa = np.array(10.0 ** rng.uniform(-1, 1, m))
            else:
                con = gen.make_linear_constraints(rng, E, m, x)
                G, h, F = np.array(con["G"]), np.array(con["h"]), np.array(con["F"])

                def cfun(xx, p):
                    return G @ xx - h + F @ p[0]

                lam0 = onp.abs(rng.standard_normal(m)) * (rng.random(m) < 0.7)
                kap0 = 10.0 ** rng.uniform(-1, 1, m)
                obj = ConstrainedObjective(f, cfun, np.array(x), p_old, np.array(lam0), np.array(kap0))
                S = onp.ones(n)
            lam = onp.array(obj.lam, dtype=float)
            kap = onp.array(obj.kappa, dtype=float)
        xbar = S * x
        # preconditioner: exact at (x, p_old), or built at a different point (stale but SPD)
        if case["precond"] == "stale":
            obj.update_precond(np.array(xbar + S * rng.standard_normal(n) * 1.0 / E["dofscale"]))
        else:
            obj.update_precond(np.array(xbar))
        # evaluation history: the same objective has been evaluated at exactly this point under OTHER parameters before
        # (a design / load study re-starting from one state); the parameters are then put back.  Whatever the object
        # remembers from those calls, the increment must be the one for (x, p_old) -> p_new.
        rng2 = rng_of(case["seed"] + 104729)
        if rng2.random() < 0.6:
            alt = list(old)
            alt[0] = old[0] + rng2.standard_normal(len(old[0])) * 0.5
            alt[2] = old[2] + rng2.standard_normal(gen.NP2) * 0.8
            alt[4] = float(old[4]) + float(rng2.uniform(0.1, 0.5))
            p_keep = obj.p
            obj.p = _params(alt)
            xa = np.array(xbar)
            for _ in range(int(rng2.integers(1, 3))):
                obj.value(xa)
                obj.gradient(xa)
                obj.hessian_vec(xa, np.array(rng2.standard_normal(n)))
            obj.p = p_keep
            res.count("warm_direct_prehistory_foreign_p")
        del _REC[:]
        if cls == "warm_direct_jaxsafe":
            dx = WarmStart.warm_start_increment_jax_safe(obj, np.array(xbar), p_new[0])
            rec = {"x": xbar, "p_old": obj.p, "p_new": p_new, "index": 0, "lam": None, "kappa": None, "dx": onp.array(dx, dtype=float)}
            res.count("warm_direct_jaxsafe")
        else:
            if index == 0 and rng.random() < 0.5:
                dx = WarmStart.warm_start_increment(obj, np.array(xbar), p_new)
            else:
                dx = WarmStart.warm_start_increment(obj, np.array(xbar), p_new, index=index)
            res.expect("recorder_saw_the_call", len(_REC) == 1)
            rec = _REC[-1] if _REC else None
    if rec is None:
        return res
    its = _cg_iters(buf.getvalue())
    if its and its[-1] >= 2:
        res.count("warm_direct_multi_iteration_cg")
    res.count("cg_iterations", sum(its))
    twin = orc.Twin(E, sinv=1.0 / S, con=con)
    if not _twin_selfcheck(res, twin, xbar, pvo, lam, kap):
        return res
    ok, slot = orc.slots_equal(obj.p, p_old)
    res.expect("warm_start_does_not_change_objective_p", ok, {"slot": slot})
    ref = _check_record(res, rec, twin, None, p_new, "direct_")
    if ref is None:
        return res
    res.count("warm_direct_checked")
    if ladder and float(onp.linalg.norm(ref["b"])) > 0:
        res.count("ladder_direct_inc:%s" % ("mixed" if case["mixed"] else "1e%d" % case["inc_exp"]))
        res.count("ladder_direct_scale:1e%d" % case["pscale_exp"])
        res.count("ladder_direct_kind:%s:slot%d" % (cls[12:], index))
    res.count("warm_direct_index%d" % index)
    res.count("precond_" + case["precond"])
    changed = float(onp.linalg.norm(ref["b"])) > 0
    if not changed:
        res.expect("zero_parameter_change_gives_zero_increment", float(onp.linalg.norm(rec["dx"])) == 0.0, {"dx": rec["dx"][:12]})
        res.count("warm_direct_zero_change")
    # landing: quadratic energy, x = solution under p_old, only the slot under test changed
    if E["family"] == "quad" and case["at_solution"] and not case["other_slots_change"] and con is None and changed:
        xnew = _ref(res, E, new[0], new[2], new[4])
        if xnew is None or gen.reference_residual(E, xsol, *pvo) > 1e-14:
            return res
        target = S * xnew
        step = float(onp.linalg.norm(target - xbar))
        allowed = orc.CG_RTOL * ref["cond"] * step + 1e3 * orc.EPS * ref["cond"] * (float(onp.linalg.norm(target)) + float(onp.linalg.norm(xbar)))
        res.bound("quadratic_landing", float(onp.linalg.norm(xbar + rec["dx"] - target)), allowed,
                  {"cond": ref["cond"], "step": step})
        res.count("warm_direct_landing_checked")
    res.nontrivial = changed
    return res


def _solution_clause(res, name, counter, xbar, xbar_ref, allowed, detail):
    res.bound(name, float(onp.linalg.norm(xbar - xbar_ref)), allowed, detail)
    res.count(counter)


def _run_scaled_vs_unscaled(case, res):
    import jax.numpy as np
    from optimism import Objective, EquationSolver as es, TrustRegionSPG as spg
    from vlib.gen import c19_energies as gen
    from vlib.oracles import c19_dense as orc

    rng = rng_of(case["seed"])
    n = case["n"]
    E = gen.make_energy(rng, n, case["family"], case["decades"])
    path = gen.load_path(rng, 1)
    pc, pn = path[0], path[1]
    p_c, p_n = _params(pc), _params(pn)
    pvn = (pn[0], pn[2], pn[4])
    f = _make_f(E)
    x0c = gen.solve_np(E, pc[0], pc[2], pc[4])
    use_spg = case["cls"].endswith("spg")
    tol = case["tol"]
    xun = _ref(res, E, *pvn)
    if xun is None:
        res.inconclusive("dense reference solution could not be certified")
        return res
    if use_spg:
        w = onp.abs(xun) + 0.1 / E["dofscale"]
        lb = xun - w * rng.choice([0.5, -0.3, 2.0], n)
        ub = lb + w * rng.choice([0.2, 1.0, 3.0], n)
        lb = onp.where(rng.random(n) < 0.15, -onp.inf, lb)
        ub = onp.where(rng.random(n) < 0.15, onp.inf, ub)
        xstart = onp.clip(x0c, lb, ub)
    else:
        lb = ub = None
        xstart = x0c + rng.standard_normal(n) * 0.1 / E["dofscale"]
    buf = io.StringIO()
    out = {}
    with contextlib.redirect_stdout(buf):
        for which in ("scaled", "unscaled"):
            if which == "scaled":
                obj = Objective.ScaledObjective(f, np.array(x0c), p_c, _make_ps(E))
            else:
                obj = Objective.Objective(f, np.array(x0c), p_c)
            if use_spg:
                st = spg.get_settings(tol=tol, debug_info=False)
                try:
                    x, flag = spg.solve(obj, np.array(xstart), p_n, np.array(lb), np.array(ub), st, useWarmStart=False)
                except RuntimeError as e:
                    if "No acceptable Cauchy point" not in str(e):
                        raise
                    out[which] = None
                    continue
            else:
                st = es.get_settings(tol=tol, debug_info=False)
                x, flag = es.nonlinear_equation_solve(obj, np.array(xstart), p_n, st, useWarmStart=False)
            out[which] = (obj, onp.array(x, dtype=float), bool(flag))
    Hn = gen.hess_np(E, xun, *pvn)
    for which in ("scaled", "unscaled"):
        if out[which] is None:
            res.count("spg_raised_no_cauchy_point")
            res.count("solves_%s_failed" % which)
            continue
        obj, x, flag = out[which]
        S = _scaling_of(obj, n)
        res.expect("scaling_positive_finite", bool(onp.all(onp.isfinite(S)) and onp.all(S > 0)), {"scaling": S[:12]})
        if which == "scaled":
            Sexp = onp.sqrt(onp.diag(gen.hess_np(E, x0c, pc[0], pc[2], pc[4])))
            res.count("scaling_matches_stiffness_model" if onp.allclose(S, Sexp, rtol=1e-12) else "scaling_differs_from_stiffness_model")
            if onp.log10(S.max() / S.min()) >= 1.5:
                res.count("scaling_decades_ge3")
        twin = orc.Twin(E, sinv=1.0 / S)
        ok, slot = orc.slots_equal(obj.p, p_n)
        res.expect("objective_p_is_requested_p", ok, {"slot": slot, "which": which})
        res.count("p_slots_checked")
        xbar = S * x
        bounds = (S * lb, S * ub) if use_spg else None
        meas, rnd = _measure(twin, "pg" if use_spg else "grad", xbar, pvn, bounds=bounds)
        _check_flag(res, flag, meas, rnd, tol, {"which": which, "driver": "spg" if use_spg else "nes"})
        res.count("solves_%s_%s" % (which, "ok" if flag else "failed"))
        if not flag:
            continue
        # reference solution in the scaled variable of this object
        Abar = E["A"] / S[:, None] / S[None, :]
        ev = onp.linalg.eigvalsh(0.5 * (Abar + Abar.T))
        mubar = float(ev[0])
        Hbar = Hn / S[:, None] / S[None, :]
        evH = onp.linalg.eigvalsh(0.5 * (Hbar + Hbar.T))
        condbar = float(evH[-1] / evH[0])
        if use_spg:
            if E["family"] != "quad":
                continue
            q = ((1.0 + pn[4]) * (E["B"] @ pn[0]) + E["C"] @ pn[2]) / S
            yref, cert = orc.box_qp_reference(Abar, q, bounds[0], bounds[1])
            if cert > 1e-9 * (1 + float(onp.linalg.norm(q))):
                res.count("box_reference_uncertified")
                continue
            Lbar = float(ev[-1])
            allowed = (1.0 + Lbar) / mubar * (tol + cert) + 1e3 * orc.EPS * condbar * float(onp.linalg.norm(yref))
            nact = int(onp.sum((yref <= bounds[0]) | (yref >= bounds[1])))
            res.count("box_reference_active_bounds", nact)
        else:
            yref = S * xun
            allowed = tol / mubar + 1e3 * orc.EPS * condbar * float(onp.linalg.norm(yref))
        _solution_clause(res, "%s_solve_reaches_dense_reference" % which, "%s_solution_checked" % which, xbar, yref, allowed,
                         {"which": which, "mubar": mubar, "cond": condbar, "tol": tol, "decades": case["decades"]})
    oks = {w: bool(out[w] is not None and out[w][2]) for w in out}
    if oks["scaled"] and oks["unscaled"]:
        res.count("both_solves_succeeded")
    elif oks["scaled"]:
        res.count("only_scaled_solve_succeeded")
    res.nontrivial = oks["scaled"]
    if not oks["scaled"] and not oks["unscaled"]:
        res.vacuous("neither solve reported success")
    return res


def _run_sequence(case, res):
    import jax.numpy as np
    from optimism import Objective, EquationSolver as es, TrustRegionSPG as spg, AlSolver
    from optimism import BoundConstrainedObjective as BCO, BoundConstrainedSolver as BCS
    from optimism.ConstrainedObjective import ConstrainedObjective
    from vlib.gen import c19_energies as gen
    from vlib.oracles import c19_dense as orc

    rng = rng_of(case["seed"])
    drv = case.get("drv", case["cls"][4:])
    ladder = "inc_exp" in case
    n = case["n"]
    E = gen.make_energy(rng, n, case["family"], case["decades"])
    if ladder:
        path = gen.load_path_ladder(rng, case["steps"], case["inc_exp"], 10.0 ** case["pscale_exp"], mixed=case["mixed"],
                                    slot0_only=case["slot0_only"])
    else:
        path = gen.load_path(rng, case["steps"], slot0_only=case["slot0_only"])
    f = _make_f(E)
    pc = path[0]
    p_c = _params(pc)
    x0c = gen.solve_np(E, pc[0], pc[2], pc[4])
    tol = case["tol"]
    warm, refresh = case["warm"], case["refresh"]
    con = None
    kappa0 = None
    lb = ub = None
    buf = io.StringIO()
    with contextlib.redirect_stdout(buf):
        if drv in ("nes", "spg"):
            if case["scaled"]:
                obj = Objective.ScaledObjective(f, np.array(x0c), p_c, _make_ps(E))
            else:
                obj = Objective.Objective(f, np.array(x0c), p_c)
            S = _scaling_of(obj, n)
            if drv == "spg":
                w = onp.abs(x0c) + 0.3 / E["dofscale"]
                if warm:
                    # the predictor ignores the box and TrustRegionSPG.solve does not project it back (it raises
                    # "No acceptable Cauchy point" from an infeasible start), so warm sequences get a box that contains
                    # the whole unconstrained load path with a margin (bounds present and scaled, but inactive)
                    xs_path = onp.array([gen.solve_np(E, q[0], q[2], q[4]) for q in path])
                    span = xs_path.max(axis=0) - xs_path.min(axis=0)
                    lb = xs_path.min(axis=0) - 0.5 * span - w * rng.choice([0.3, 1.0, 3.0], n)
                    ub = xs_path.max(axis=0) + 0.5 * span + w * rng.choice([0.3, 1.0, 3.0], n)
                else:
                    lb = x0c - w * rng.choice([0.3, 1.0, 3.0], n)
                    ub = x0c + w * rng.choice([0.3, 1.0, 3.0], n)
                lb = onp.where(rng.random(n) < 0.15, -onp.inf, lb)
                ub = onp.where(rng.random(n) < 0.15, onp.inf, ub)
        elif drv == "bcs":
            m = int(rng.integers(1, n))
            idx = onp.sort(rng.choice(n, size=m, replace=False))
            x0c = onp.abs(x0c) + 0.1 / E["dofscale"]
            obj = BCO.BoundConstrainedObjective(f, np.array(x0c), p_c, np.array(idx), constraintStiffnessScaling=case["css"],
                                                precondStrategy=_make_ps(E) if case["scaled"] else None)
            S = _scaling_of(obj, n)
            G = onp.zeros((m, n))
            G[onp.arange(m), idx] = 1.0
            con = {"G": G, "h": onp.zeros(m), "F": onp.zeros((m, gen.NP0))}
            kappa0 = onp.array(obj.kappa, dtype=float)
        else:
            m = int(rng.integers(1, 4))
            con = gen.make_linear_constraints(rng, E, m, x0c)
            Gj, hj, Fj = np.array(con["G"]), np.array(con["h"]), np.array(con["F"])

            def cfun(xx, p):
                return Gj @ xx - hj + Fj @ p[0]

            kappa0 = 10.0 ** rng.uniform(-0.5, 1.5, m)
            obj = ConstrainedObjective(f, cfun, np.array(x0c), p_c, np.array(onp.abs(rng.standard_normal(m))), np.array(kappa0))
            S = onp.ones(n)
        if not refresh or drv == "al":
            obj.update_precond(np.array(S * x0c))          # caller's job when the drivers do not refresh
    res.expect("scaling_positive_finite", bool(onp.all(onp.isfinite(S)) and onp.all(S > 0)), {"scaling": S[:12]})
    if case["scaled"]:
        res.count("sequences_scaled_objective")
    twin = orc.Twin(E, sinv=1.0 / S, con=con)
    if drv in ("nes", "spg"):
        sset = (es if drv == "nes" else spg).get_settings(tol=tol, debug_info=False)
    else:
        alS = AlSolver.get_settings(use_second_order_update=case["second_order"], tol=tol)
        subS = es.get_settings(tol=tol, debug_info=False)
    x = np.array(x0c)
    prev_req = p_c
    prev_pt = pc
    changed_steps = 0
    selfchecked = False
    for k in range(1, len(path)):
        pt = path[k]
        p_req = _params(pt)
        pv = (pt[0], pt[2], pt[4])
        del _REC[:]
        del _ENTRY[:]
        flag = None
        raised = False
        # what the harness hands over: the previous step's returned solution; in the variable the objective works in
        # that is S * x.  Multiplier state the predictor must be linearised with (bcs resets kappa before the warm start).
        x_in = onp.array(x, dtype=float)
        xbar_exp = S * x_in
        lam_before = onp.array(obj.lam, dtype=float) if con is not None else None
        kap_before = (onp.array(kappa0, dtype=float) if drv == "bcs" else onp.array(obj.kappa, dtype=float)) if con is not None else None
        with contextlib.redirect_stdout(buf):
            try:
                if drv == "nes":
                    x, flag = es.nonlinear_equation_solve(obj, x, p_req, sset, useWarmStart=warm, updatePrecond=refresh,
                                                          solver_algorithm=_recording_solver(es.trust_region_minimize))
                elif drv == "spg":
                    x, flag = spg.solve(obj, x, p_req, np.array(lb), np.array(ub), sset, useWarmStart=warm, updatePrecond=refresh)
                elif drv == "bcs":
                    x = BCS.bound_constrained_solve(obj, x, p_req, alS, subS, callback=_entry_callback, useWarmStart=warm,
                                                    updatePrecond=refresh)
                    flag = True
                else:
                    x = AlSolver.augmented_lagrange_solve(obj, x, p_req, alS, subS, callback=_entry_callback, useWarmStart=warm,
                                                          updatePrecond=refresh,
                                                          updatePrecondBeforeWarmStart=case["precond_before_warm"])
                    flag = True
            except NameError as e:
                if "failed to converge" not in str(e):
                    raise
                raised = True
            except RuntimeError as e:
                if "No acceptable Cauchy point" not in str(e):
                    raise
                raised = True
                res.count("spg_raised_no_cauchy_point")
        recs = list(_REC)
        res.count("insitu_warm_start_calls", len(recs))
        res.expect("warm_start_called_iff_requested", len(recs) == (1 if warm else 0), {"calls": len(recs), "warm": warm, "driver": drv})
        lam = onp.array(obj.lam, dtype=float) if con is not None else None
        kap = onp.array(obj.kappa, dtype=float) if con is not None else None
        for rec in recs:
            if not selfchecked:
                selfchecked = True
                if not _twin_selfcheck(res, twin, rec["x"], _pvals(rec["p_old"]), rec["lam"], rec["kappa"]):
                    return res
            ref = _check_record(res, rec, twin, prev_req, p_req, "insitu_")
            if ref is None:
                return res
            # the driver must linearise at the current solution expressed in the objective's own variable
            res.bound("insitu_warm_start_linearised_at_current_solution", float(onp.linalg.norm(rec["x"] - xbar_exp)),
                      16 * orc.EPS * float(onp.linalg.norm(xbar_exp)) + 1e-300,
                      {"driver": drv, "step": k, "x_given": rec["x"][:8], "x_expected": xbar_exp[:8], "scaling": S[:8]})
            res.count("insitu_linearisation_point_checked")
            if float(onp.linalg.norm(ref["b"])) > 0:
                res.nontrivial = True
                if ladder:
                    res.count("ladder_seq_inc:%s" % ("mixed" if case["mixed"] else "1e%d" % case["inc_exp"]))
                    res.count("ladder_seq_scale:1e%d" % case["pscale_exp"])
                    res.count("ladder_seq_driver:%s" % drv)
            # landing in situ: quadratic, unconstrained, only slot 0 differs from the previous request
            if (drv == "nes" and E["family"] == "quad" and onp.array_equal(pt[2], prev_pt[2]) and pt[4] == prev_pt[4]):
                yold = _ref(res, E, prev_pt[0], prev_pt[2], prev_pt[4])
                ynew = _ref(res, E, *pv)
                if yold is None or ynew is None:
                    continue
                yold, ynew = S * yold, S * ynew
                allowed = float(onp.linalg.norm(rec["x"] - yold)) * (1 + 1e-9) + orc.CG_RTOL * ref["cond"] * float(onp.linalg.norm(ynew - yold)) \
                    + 1e3 * orc.EPS * ref["cond"] * (float(onp.linalg.norm(ynew)) + float(onp.linalg.norm(yold)))
                res.bound("insitu_quadratic_landing", float(onp.linalg.norm(rec["x"] + rec["dx"] - ynew)), allowed, {"cond": ref["cond"], "step": k})
                res.count("insitu_landing_checked")
        # where the minimiser is entered: the given point (cold) / the dense linear predictor from that point (warm)
        if _ENTRY:
            entry = _ENTRY[0]
            scale = float(onp.linalg.norm(xbar_exp))
            if not warm:
                res.bound("solver_entered_at_given_point", float(onp.linalg.norm(entry - xbar_exp)), 16 * orc.EPS * scale + 1e-300,
                          {"driver": drv, "step": k})
                res.count("entry_point_checked_cold")
            else:
                p0o, p2o, to = prev_pt[0], prev_pt[2], prev_pt[4]
                g_, H_, J0_, J2_ = twin.derivs(xbar_exp, p0o, p2o, to, lam_before, kap_before)
                pref = orc.warm_start_reference(H_, J0_, p0o, pt[0])
                if pref["lmin"] > 0:
                    nrm = float(onp.linalg.norm(pref["dx_ref"]))
                    rounding = 64 * orc.EPS * (float(onp.linalg.norm(onp.abs(H_) @ onp.abs(pref["dx_ref"]))) + float(onp.linalg.norm(pref["bmag"]))) * n ** 0.5
                    allowed = orc.CG_RTOL * pref["cond"] * nrm + rounding / pref["lmin"] + 16 * orc.EPS * (scale + nrm)
                    res.bound("solver_entered_at_dense_predictor", float(onp.linalg.norm(entry - (xbar_exp + pref["dx_ref"]))), allowed,
                              {"driver": drv, "step": k, "cond": pref["cond"], "predictor_norm": nrm, "scaling": S[:8]})
                    res.count("entry_point_checked_warm")
                    spread = float(S.max() / S.min())
                    if E["family"] == "nl" and spread >= 10.0 and scale > 0 and nrm > 0:
                        res.count("warm_nl_scaled_nonzero:%s" % drv)
                    if E["family"] == "nl" and nrm > 0:
                        res.count("warm_nl_nonzero:%s" % drv)
        else:
            res.count("entry_point_not_observed")
        if raised:
            res.count("driver_raised_not_converged")
            if k == 1:
                res.vacuous("driver raised its documented failure exception (no normal return) at the first step")
            break
        # --- after the step: parameters handed over, flag refers to them
        ok, slot = orc.slots_equal(obj.p, p_req)
        res.expect("objective_p_is_requested_p", ok, {"slot": slot, "driver": drv, "step": k, "warm": warm})
        res.count("p_slots_checked")
        xr = onp.array(x, dtype=float)
        res.expect("returned_point_finite", bool(onp.all(onp.isfinite(xr))), {"x": xr[:12]})
        xbar = S * xr
        if drv == "nes":
            meas, rnd = _measure(twin, "grad", xbar, pv)
        elif drv == "spg":
            meas, rnd = _measure(twin, "pg", xbar, pv, bounds=(S * lb, S * ub))
        else:
            meas, rnd = _measure(twin, "kkt", xbar, pv, lam, kap, kappa0)
        _check_flag(res, bool(flag), meas, rnd, tol, {"driver": drv, "step": k, "warm": warm, "refresh": refresh})
        res.count("steps:%s:%s" % (drv, "warm" if warm else "cold"))
        if not refresh:
            res.count("steps_no_refresh")
        if case["scaled"]:
            res.count("steps_scaled_objective")
        if not onp.array_equal(pt[2], prev_pt[2]):
            res.count("steps_slot2_changed")
        if pt[4] != prev_pt[4]:
            res.count("steps_time_changed")
        if not onp.array_equal(pt[0], prev_pt[0]):
            changed_steps += 1
        else:
            res.count("steps_repeated_load")
        # solution clause for the unconstrained driver (scaling is transparent)
        if drv == "nes" and flag:
            Abar = E["A"] / S[:, None] / S[None, :]
            mubar = float(onp.linalg.eigvalsh(0.5 * (Abar + Abar.T))[0])
            xref = _ref(res, E, *pv)
            if xref is None:
                prev_req, prev_pt = p_req, pt
                continue
            Hbar = gen.hess_np(E, xref, *pv) / S[:, None] / S[None, :]
            evH = onp.linalg.eigvalsh(0.5 * (Hbar + Hbar.T))
            allowed = tol / mubar + 1e3 * orc.EPS * float(evH[-1] / evH[0]) * float(onp.linalg.norm(S * xref))
            which = "scaled" if case["scaled"] else "unscaled"
            _solution_clause(res, "%s_solve_reaches_dense_reference" % which, "%s_solution_checked" % which, xbar, S * xref, allowed,
                             {"driver": drv, "step": k, "mubar": mubar, "tol": tol})
        prev_req = p_req
        prev_pt = pt
    if changed_steps >= 2:
        res.nontrivial = True
    return res


def run_case(case):
    res = Res(case)
    _install_recorder()
    cls = case["cls"]
    if cls == "param_update":
        return _run_param_update(case, res)
    if cls.startswith("warm_direct") or cls == "warm_ladder_direct":
        return _run_warm_direct(case, res)
    if cls.startswith("scaled_vs_unscaled"):
        return _run_scaled_vs_unscaled(case, res)
    return _run_sequence(case, res)


def finalize(results, tier):
    ok = failed = 0
    for r in results:
        o = r.get("obs", {})
        ok += o.get("solves_scaled_ok", 0)
        failed += o.get("solves_scaled_failed", 0)
    out = {"scaled_solves": "%d succeeded / %d reported failure" % (ok, failed)}
    if ok + failed and ok / (ok + failed) < MIN_SCALED_SUCCESS:
        out["_missing"] = ["scaled solves reporting success %d/%d < %.0f%%" % (ok, ok + failed, 100 * MIN_SCALED_SUCCESS)]
    return out
