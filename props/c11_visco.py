"""C11 -- viscoelastic models: non-negative dissipation, isochoric viscous flow, monotone relaxation, virgin limits.

Monitor: a state-trace checker.  The harness drives the real `compute_state_new`, `compute_material_qoi` and
`compute_energy_density` of HyperViscoelastic (1 branch) and MultiBranchHyperViscoelastic (3 branches) along random
loading histories followed by hold phases with random time-step sequences, and checks each record against an
independent numpy reference (vlib/oracles/c11_numpy.py): W_eq, Hencky strains of every branch from the state, the
stored non-equilibrium energy, and the closed forms of the two virgin limits.
"""
import json
import math

import numpy as onp

from vlib.common import Res, derive_seed, rng_of
from vlib.oracles import c11_numpy as ref
from vlib.gen import c11_histories as gen

PROPERTY = "C11"
LEVEL = "exploration"
RULE = ("case = (model in {single branch, three branches}; constants G_eq in [1e-2,1e2], K/G in [0.7,1e4], G_neq/G_eq in [1e-2,1e2], "
        "tau in [1e-2,1e2], baked into the compiled model as Python floats or passed as traced arguments; loading kind in {walk, ramp, "
        "jump, cyclic, uniaxial (repeated stretches, generic axis), tiny (strains 1e-10..1e-5), large_jump / large_ramp (principal stretches 0.1..10 in an arbitrary "
        "frame with rotations up to 180 degrees, det F in [0.5,2]), large_shear (simple shear gamma up to 5)}; every other traced-constant case has G_eq in [1e-6,1e9] and "
        "tau in [1e-4,1e4]; form in {plane, 3d}; 4 histories per case of 3-15 load steps "
        "followed by 5-15 hold steps; every dt in [1e-6 tau_min, 1e6 tau_max] (extremes, around tau, log-uniform); hold dt sequences "
        "random / increasing / decreasing / alternating extremes / constant). Non-trivial = some hold step strictly lowered the stored "
        "non-equilibrium energy of a deformed state; distinct = canonical hash of the case parameters.")
ASSUMPTIONS = [
    "numpy reference (W_eq of the compressible neo-Hookean equilibrium branch, Hencky strain via numpy.linalg.eigh) is correct",
    "stored non-equilibrium energy is observed through the library as W(H, state, dt = 1e-12 tau_min) - W_eq_numpy(H) (deciding) and recomputed from the state in numpy (second, independent channel); both must be monotone",
    "'tends to' is operationalised as |W - limit| <= 10 * (dt/tau_min resp. tau_max/dt) * sum_i G_i |dev E|^2 + rounding at ratios 1e-6 and 1e-9 (a first-order scheme deviates by exactly 1x)",
    "rounding bounds: W_eq evaluated to 20 eps * (sum of magnitudes of its terms); strain measure absolute error ~ eps (1+|E|) cond(Fv) seen through the branch stress; det: 1e-13 * steps * |Fv|_2^3",
    "the comparison with the documented backward-Euler/exponential-map scheme is reported as a diagnostic ratio only (the property does not prescribe the integrator)",
    "D8 (batched eigen-solver at repeated eigenvalues) is an open known finding: only batched-vs-single disagreements on steps where some branch's trial Ce has a repeated eigenvalue pair (gap < 1e-8 |lambda|max and < 1e-3 of the spread) in a non-axis-aligned frame are attributed to it",
]
WATCHDOG_S = {"quick": 1800, "thorough": 4 * 3600}
MAX_VACUOUS_FRACTION = 0.05

D8_KEY = "D8:batched-eigen-repeated-nonaxis"
MODELS = [("single", 1), ("three", 3)]
NH = 4
TIERS = {
    "quick": dict(nb=3, cb=2, nt=2, ct=3),
    "thorough": dict(nb=6, cb=80, nt=6, ct=80),
}


def _required():
    req = {"steps": 6000, "hold_steps": 2500, "load_steps": 2000, "dissipation_checks": 6000, "det_checks": 8000, "monotone_checks": 2500,
           "strict_decrease_steps": 1500, "limit_checks_dt0": 1500, "limit_checks_dtinf": 1500, "batched_steps": 6000,
           "dt_ratio_le_1e-5": 300, "dt_ratio_ge_1e5": 300, "dt_ratio_mid": 1000, "hold_seq:random": 10, "hold_seq:increasing": 5,
           "hold_seq:decreasing": 5, "hold_seq:alternating": 5, "hold_seq:constant": 5, "mode:baked": 30, "mode:traced": 30,
           "form:plane": 20, "form:3d": 20, "repeated_pair_inputs_single": 100, "model:single:steps": 2500, "model:three:steps": 2500}
    for sb in ("logstretch_le1", "logstretch_1to2", "logstretch_gt2"):
        for tb in ("dt_fast", "dt_mid", "dt_slow"):
            req["%s:%s" % (sb, tb)] = 60
    req.update({"branch_trial_devlog_gt1:dt_over_tau_gt1": 40, "branch_trial_devlog_gt1:dt_over_tau_le1": 25, "rotation_gt_90deg_steps": 100,
                "G_scale:lt_1e-2": 3, "G_scale:1e-2_to_1e2": 30, "G_scale:1e2_to_1e6": 3, "G_scale:gt_1e6": 3, "tau_min_lt_1e-2": 8, "tau_max_gt_1e2": 8})
    for k in gen.KINDS:
        req["class:" + k] = 12
    return req


REQUIRED = {"all": _required()}


def build_cases(tier, seed):
    T = TIERS[tier]
    cases = []

    def add(kind, group, model, nb, mode, consts, i, first):
        s = derive_seed(seed, PROPERTY, kind, model, mode, i, json.dumps(consts, sort_keys=True))
        r = rng_of(s)
        nload, nhold = int(r.integers(3, 16)), int(r.integers(5, 16))
        cases.append({"cls": kind, "group": group, "cost": 0.004 * NH * (nload + nhold) + ((18.0 if nb == 3 else 10.0) if first else 0.0), "seed": s,
                      "model": model, "nbranch": nb, "mode": mode, "consts": consts, "kind": kind,
                      "form": str(r.choice(["plane", "3d"])), "nload": nload, "nhold": nhold, "nh": NH})

    for model, nb in MODELS:
        for j in range(T["nb"]):
            cr = rng_of(derive_seed(seed, PROPERTY, "consts", model, j))
            consts = gen.reference_constants(nb) if j == 0 else gen.random_constants(cr, nb)
            first = True
            for kind in gen.KINDS:
                for i in range(T["cb"]):
                    add(kind, "%s/B%d" % (model, j), model, nb, "baked", consts, i, first)
                    first = False
        for g in range(T["nt"]):
            first = True
            for kind in gen.KINDS:
                for i in range(T["ct"]):
                    cr = rng_of(derive_seed(seed, PROPERTY, "tconsts", model, g, kind, i))
                    # every other traced case: absolute stiffness scale over 15 decades, relaxation times over 8
                    add(kind, "%s/T%d" % (model, g), model, nb, "traced", gen.random_constants(cr, nb, wide=(i + g) % 2 == 1), g * 100000 + i, first)
                    first = False
    return cases


# ------------------------------------------------------------------ compiled library functions (worker)

_CACHE = {}


def _props(nb, c):
    p = {"equilibrium bulk modulus": c["K"], "equilibrium shear modulus": c["G"]}
    if nb == 1:
        p.update({"non equilibrium shear modulus": c["Gn"][0], "relaxation time": c["tau"][0]})
    else:
        for i in range(nb):
            p["non equilibrium shear modulus %d" % (i + 1)] = c["Gn"][i]
            p["relaxation time %d" % (i + 1)] = c["tau"][i]
    return p


def _module(nb):
    from optimism.material import HyperViscoelastic, MultiBranchHyperViscoelastic
    return HyperViscoelastic if nb == 1 else MultiBranchHyperViscoelastic


def _fns(case):
    """(upd, W, qoi, updB, init_state): the real library functions, jitted; signature (H, state, dt)."""
    import jax
    import jax.numpy as np
    nb, mode, consts = case["nbranch"], case["mode"], case["consts"]
    mod = _module(nb)
    if mode == "baked":
        key = (nb, mode, json.dumps(consts, sort_keys=True))
        if key not in _CACHE:
            m = mod.create_material_model_functions(_props(nb, consts))
            _CACHE[key] = (jax.jit(m.compute_state_new), jax.jit(m.compute_energy_density), jax.jit(m.compute_material_qoi),
                           jax.jit(jax.vmap(m.compute_state_new)), onp.asarray(m.compute_initial_state(), dtype=float))
        return _CACHE[key]
    key = (nb, mode)
    if key not in _CACHE:
        def model(p):
            c = {"K": p[0], "G": p[1], "Gn": [p[2 + 2 * i] for i in range(nb)], "tau": [p[3 + 2 * i] for i in range(nb)]}
            return mod.create_material_model_functions(_props(nb, c))
        m0 = mod.create_material_model_functions(_props(nb, gen.reference_constants(nb)))
        _CACHE[key] = (jax.jit(lambda p, H, s, dt: model(p).compute_state_new(H, s, dt)),
                       jax.jit(lambda p, H, s, dt: model(p).compute_energy_density(H, s, dt)),
                       jax.jit(lambda p, H, s, dt: model(p).compute_material_qoi(H, s, dt)),
                       jax.jit(jax.vmap(lambda p, H, s, dt: model(p).compute_state_new(H, s, dt), in_axes=(None, 0, 0, 0))),
                       onp.asarray(m0.compute_initial_state(), dtype=float))
    u, w, q, ub, init = _CACHE[key]
    flat = [consts["K"], consts["G"]]
    for i in range(nb):
        flat += [consts["Gn"][i], consts["tau"][i]]
    p = np.array([float(x) for x in flat])
    return (lambda H, s, dt: u(p, H, s, dt)), (lambda H, s, dt: w(p, H, s, dt)), (lambda H, s, dt: q(p, H, s, dt)), \
        (lambda H, s, dt: ub(p, H, s, dt)), init


# ------------------------------------------------------------------ checks

def _n2(A):
    return float(onp.linalg.norm(A, 2))


def _check_limits(res, mdl, W, init, H):
    """Virgin limits at deformation H: dt -> 0 (instantaneous) and dt -> infinity (equilibrium)."""
    weq = float(mdl.w_eq(H))
    neq, d2 = mdl.neq_scale_virgin(H)
    rnd = 20 * ref.EPS * mdl.w_eq_magnitude(H) + 200 * ref.EPS * neq + 50 * ref.EPS * 2 * sum(mdl.Gn) * math.sqrt(d2) * (1.0 + float(onp.linalg.norm(H)))
    tmin, tmax = min(mdl.tau), max(mdl.tau)
    prev = None
    for x in (1e-3, 1e-6, 1e-9):
        w = float(W(H, init, x * tmin))
        dev_ = abs(w - (weq + neq))
        if x < 1e-3:
            res.bound("limit_dt_to_0", dev_, 10 * x * neq + rnd, {"H": H, "dt_over_tau_min": x, "W": w, "W_instantaneous": weq + neq, "W_eq": weq})
            res.count("limit_checks_dt0")
        if prev is not None:   # approach must not get worse by more than rounding
            res.bound("limit_dt_to_0_approach", dev_ - prev, rnd + 1e-300, {"H": H, "dt_over_tau_min": x})
        prev = dev_
    prev = None
    for X in (1e3, 1e6, 1e9):
        w = float(W(H, init, X * tmax))
        dev_ = abs(w - weq)
        if X > 1e3:
            res.bound("limit_dt_to_inf", dev_, 10 / X * neq + rnd, {"H": H, "dt_over_tau_max": X, "W": w, "W_eq": weq})
            res.count("limit_checks_dtinf")
        if prev is not None:
            res.bound("limit_dt_to_inf_approach", dev_ - prev, rnd + 1e-300, {"H": H, "dt_over_tau_max": X})
        prev = dev_


def run_case(case):
    res = Res(case)
    mdl = ref.Model(case["nbranch"], case["consts"])
    upd, W, qoi, updB, init = _fns(case)
    B, nb = case["nh"], case["nbranch"]
    hist, seqs = [], []
    for i in range(B):
        h, seq = gen.make_history(rng_of(derive_seed(case["seed"], "hist", i)), case["kind"], case["form"], mdl.tau, case["nload"], case["nhold"])
        hist.append(h)
        seqs.append(seq)
        res.count("hold_seq:" + seq)
    n = len(hist[0])
    st = [init.copy() for _ in range(B)]
    alive = [True] * B
    stored_prev = [None] * B       # (library channel, numpy channel) at the previous hold point
    tmin, tmax = min(mdl.tau), max(mdl.tau)
    dt_obs = 1e-12 * tmin
    res.count("mode:" + case["mode"])
    import math as _m
    lg, lt0, lt1 = _m.log10(mdl.G), _m.log10(tmin), _m.log10(tmax)
    res.count("G_scale:" + ("lt_1e-2" if lg < -2 else "1e-2_to_1e2" if lg <= 2 else "1e2_to_1e6" if lg <= 6 else "gt_1e6"))
    if lt0 < -2:
        res.count("tau_min_lt_1e-2")
    if lt1 > 2:
        res.count("tau_max_gt_1e2")
    res.count("form:" + case["form"])
    res.count("histories", B)
    strict = 0
    for k in range(n):
        Hs = [onp.asarray(hist[i][k][0], dtype=float) for i in range(B)]
        dts = [float(hist[i][k][1]) for i in range(B)]
        stB = onp.asarray(updB(onp.stack(Hs), onp.stack(st), onp.asarray(dts)), dtype=float)
        for i in range(B):
            if not alive[i]:
                continue
            H, dt, phase = Hs[i], dts[i], hist[i][k][2]
            ctx = {"history": i, "step": k, "phase": phase, "dt": dt, "dt_over_tau": [dt / t for t in mdl.tau]}
            res.count("steps")
            res.count("model:%s:steps" % case["model"])
            res.count(phase + "_steps")
            rmin, rmax = dt / tmax, dt / tmin
            res.count("dt_ratio_le_1e-5" if rmax <= 1e-5 else "dt_ratio_ge_1e5" if rmin >= 1e5 else "dt_ratio_mid")
            # size of the deformation (largest |log principal stretch| of F) x time-step band
            sv = onp.linalg.svd(H + onp.eye(3), compute_uv=False)
            mlog = float(onp.max(onp.abs(onp.log(sv))))
            sband = "logstretch_gt2" if mlog > 2.0 else "logstretch_1to2" if mlog > 1.0 else "logstretch_le1"
            tband = "dt_fast" if rmax <= 0.1 else "dt_slow" if rmin >= 10.0 else "dt_mid"
            res.count("%s:%s" % (sband, tband))
            if float(onp.max(onp.abs(onp.asarray(H)))) > 0 and float(onp.linalg.norm(H + onp.eye(3) - onp.diag(onp.diag(H + onp.eye(3))))) > 0:
                Rm = (H + onp.eye(3)) @ onp.linalg.inv(ref.symf((H + onp.eye(3)).T @ (H + onp.eye(3)), onp.sqrt))
                if float(onp.trace(Rm)) < 1.0:       # rotation angle > 90 degrees
                    res.count("rotation_gt_90deg_steps")
            for b, Fv in enumerate(mdl.branch_states(st[i])):
                Eb, _ = mdl.hencky(H, Fv)
                if float(onp.max(onp.abs(ref.dev(Eb)))) > 1.0:
                    res.count("branch_trial_devlog_gt1:%s" % ("dt_over_tau_gt1" if dt / mdl.tau[b] > 1.0 else "dt_over_tau_le1"))
            # trial quantities (numpy) ------------------------------------------------
            neq_old, _, rb_old = mdl.stored_neq(H, st[i])
            gaps = [ref.spectral_info(mdl.hencky(H, Fv)[1]) for Fv in mdl.branch_states(st[i])]
            rep = ref.d8_class(gaps)
            if any(g[0] < 1e-8 and g[0] < 1e-3 * g[2] for g in gaps):
                res.count("repeated_pair_inputs_single")
            # 1. dissipation reported by the library -----------------------------------
            d = float(qoi(H, st[i], dt))
            scale = neq_old + rb_old + 1e-300
            res.bound("dissipation_nonnegative", max(0.0, -d) if math.isfinite(d) else float("nan"), 1e-14 * scale, dict(ctx, dissipation=d, scale=scale))
            res.count("dissipation_checks")
            if d > 0:
                res.count("dissipation_positive")
            # 2. update, finite, isochoric --------------------------------------------
            new = onp.asarray(upd(H, st[i], dt), dtype=float)
            if not onp.all(onp.isfinite(new)):
                res.checks += 1
                res.violate("finite_state", dict(ctx, H=H, state_old=st[i], state_new=new), None)
                alive[i] = False
                continue
            gross = False
            for b, Fv in enumerate(mdl.branch_states(new)):
                dv = abs(float(onp.linalg.det(Fv)) - 1.0)
                res.bound("isochoric_detFv", dv, 1e-13 * (k + 1) * max(1.0, _n2(Fv) ** 3), dict(ctx, branch=b))
                res.count("det_checks")
                gross = gross or not (dv < 1e-3) or not (_n2(Fv) < 1e6)
            if gross:   # not a usable viscous distortion any more (violation recorded above): the history ends here
                alive[i] = False
                res.count("histories_ended_by_gross_violation")
                continue
            # diagnostic: distance from the documented scheme (never a verdict)
            ref_new, ref_d = mdl.reference_update(H, st[i], dt)
            res.ratio("diag_state_vs_documented_scheme", float(onp.max(onp.abs(ref_new - new))), 1e-11 * max(1.0, float(onp.max(onp.abs(new)))))
            res.ratio("diag_dissipation_vs_documented_scheme", abs(ref_d - d), 1e-11 * abs(ref_d) + rb_old + 1e-300)
            # 3. stored non-equilibrium energy after the step; monotone along the hold ---
            w_obs = float(W(H, new, dt_obs))
            weq = float(mdl.w_eq(H))
            s_lib = w_obs - weq
            s_np, _, rb_new = mdl.stored_neq(H, new)
            rnd_lib = 20 * ref.EPS * mdl.w_eq_magnitude(H) + rb_new + 1e-13 * abs(s_np)
            res.ratio("diag_stored_energy_channels_agree", abs(s_lib - s_np), rnd_lib + 1e-11 * abs(s_np) + 1e-300)
            if phase == "hold":
                p_lib, p_np, p_rb = stored_prev[i]
                res.bound("monotone_relaxation", s_lib - p_lib, rnd_lib + p_rb + 1e-13 * (abs(w_obs) + abs(weq)) + 1e-300,
                          dict(ctx, stored_before=p_lib, stored_after=s_lib, W_obs=w_obs, W_eq=weq))
                res.bound("monotone_relaxation_state", s_np - p_np, rb_new + p_rb + 1e-13 * abs(p_np) + 1e-300,
                          dict(ctx, stored_before=p_np, stored_after=s_np))
                res.count("monotone_checks")
                if s_np < p_np - (rb_new + p_rb) and p_np > 0:
                    res.count("strict_decrease_steps")
                    strict += 1
            stored_prev[i] = (s_lib, s_np, rb_new)
            # 4. virgin limits at this deformation (every load step and the first hold step)
            if phase == "load" or hist[i][k - 1][2] == "load":
                _check_limits(res, mdl, W, init, H)
            # 5. batched replica (cross-check) -----------------------------------------
            tolB = 1e-12 * max(1.0, float(onp.max(onp.abs(new))))
            # two valid evaluations of an eigenvector-based tensor function differ by the conditioning of the eigenvectors,
            # ~ eps / (relative eigenvalue gap); below gap 1e-8 the D8 class takes over
            gmin = min(g[0] for g in gaps)
            if gmin < 1e-2:
                tolB += 256 * 2.220446049250313e-16 / max(gmin, 1e-8) * max(1.0, float(onp.max(onp.abs(new))))
            dB = float(onp.max(onp.abs(stB[i] - new))) if onp.all(onp.isfinite(stB[i])) else float("nan")
            mech = D8_KEY if rep else None
            res.count("batched_steps")
            if rep:
                res.count("batched_steps_in_D8_class")
            res.bound("batched_equals_single" + ("[D8 class]" if mech else ""), dB, tolB,
                      dict(ctx, min_rel_gap=min(g[0] for g in gaps), H=H, state_old=st[i]), mech)
            st[i] = new
    if strict > 0:
        res.nontrivial = True
    return res


def on_exception(case, exc, res):
    """An exception raised from inside the library for an admissible input refutes the property (the update must
    succeed); anything raised by the harness itself stays inconclusive."""
    import traceback
    frames = traceback.extract_tb(exc.__traceback__)
    lib = [f for f in frames if "/optimism/" in f.filename.replace("\\", "/")]
    if not lib:
        return False
    res.checks += 1
    res.violate("library_call_raised", {"exception": "%s: %s" % (type(exc).__name__, str(exc)[:300]),
                                        "where": "%s:%d %s" % (lib[-1].filename, lib[-1].lineno, lib[-1].name)}, None)
    return True
