"""C10 — stress and tangent from autodiff equal numerical derivatives of the energy density.

Monitor: 8th-order central differences of the *jitted energy* (primal only: never touches custom_root, the custom JVP
rules or safe_sqrt's rule) against jax.grad and jax.jvp(jax.grad) of the library's compute_energy_density:
  first derivative   FD of W along the 9 basis directions             vs  P = dW/dH
  second derivative  FD of the autodiff P along 6 random directions   vs  T(V) = d/ds P(H+sV)      (full 3x3 tensor)
  second derivative  second-difference of W along the same directions vs  V:T(V)                   (lower accuracy)
Two stencil widths (h, h/2) must agree, and the regime (J2: yielding or not, observed through compute_state_new;
phase-field: sign of log J) must be identical at the centre and at every stencil point, else the direction is
discarded and counted.  Points are generated in explicit spectral classes of the tensor that reaches the eigen-solver.
The single compiled call is the deciding mode; a batched replica of the distinct class must agree with it.
"""
import math
import os

import numpy as onp

from vlib.common import Res, derive_seed, rng_of, EPS, haar_so3, loguniform
from vlib.gen import c08_models as Z

PROPERTY = "C10"
LEVEL = "exploration"
D12_KEY = "D12:second-derivative-eigen-strain-repeated-stretches"
KF = "[known-class]"
BREP = 16

TOL1 = 1e-8      # first derivative, relative to |P| + mu*ell
TOL2 = 1e-7      # second derivative from FD of the autodiff gradient, relative to the largest tangent modulus seen
TOL2W = 1e-5     # second derivative from W alone (second differences amplify rounding by 1/h^2)
AGREE = 0.1      # the two stencil widths must agree to this fraction of the tolerance

RULE = ("case = (model/option, spectral class, seed) -> one random admissible constant set, one random loading history driven through the "
        "library's compute_state_new (state-carrying models), and a few deformation points whose elastic stretch (the tensor handed to the "
        "eigen-solver, Ce = Fe^T Fe computed by the harness from F and the state) is in the class {reference, distinct, exactly repeated pair "
        "axis-aligned / in-plane / generic, triple, near-degenerate gap 10^-k}; J2 points are placed at 0.15-0.8 (elastic) or 1.2-20 (yielding) "
        "times the current flow stress. Non-trivial = at least one direction of a point survived the regime and stencil-agreement filters "
        "away from the reference state; distinct = canonical hash of the case parameters. Unit systems: 30 % of the cases move every stress-like "
        "constant by 10^k (k in -12..12); 'scale_sweep' cases repeat one dimensionless material and the same points (J2: two forced-yielding, one "
        "elastic, distinct spectrum) at modulus 2^k / 10^k over 1e-12..1e12 with the full finite-difference oracle at every scale and per-band "
        "minimum counts (in particular yielding tangents at 3*mu >= 1e10).")
ASSUMPTIONS = [
    "8th-order central differences of the jitted primal energy with step h = ell/25 (ell = distance to the nearest regime switch / strain "
    "scale of the point) are accurate to << 1e-8 relative inside one regime; enforced per direction by requiring agreement of the widths h "
    "and h/2 to 0.1 x tolerance (disagreeing directions are discarded and counted, capped by REQUIRED minimum counts of kept directions)",
    "tolerances: first derivative 1e-8*(|P|+mu*ell); second derivative 1e-7*max_V|T(V)| via FD of the autodiff gradient and 1e-5*max_V|T(V)| via "
    "second differences of W; for nearly repeated eigenvalues (relative gap g) the second-derivative bound is max(1e-7, 1e3*eps/g) as in DESIGN",
    "yield classification is read from the library's own compute_state_new (eqps advanced or not) at every stencil point",
    "the library factories only do arithmetic on the numeric property values, so they can be traced (one compilation per configuration)",
    "phase-field threshold model with phase>0 is only C^1 across tr(E)=0 (tension/compression split): stencils that straddle it are discarded",
]
_EIG = [n for n in Z.NAMES if Z.CONFIGS[n]["eig"]]
_J2 = [n for n in Z.NAMES if Z.is_j2(n)]
REQUIRED = {
    "all": {
        "first_dirs_kept": 3000, "second_dirs_kept": 2000, "second_w_dirs_kept": 1000,
        "second_dirs_kept:yielding:distinct": 150, "second_dirs_kept:elastic:distinct": 150,
        "first_dirs_kept:yielding": 400, "first_dirs_kept:elastic": 400,
        "second_dirs_kept:relaxing:distinct": 40,
        "points:reference": len(Z.NAMES),
        "known_class_second_evals": 200, "pow_near_repeated_first_evals": 100,
        "batched_replica_points": 100, "mechanics_output_points": 8,
        "nonvirgin_state_points": 100,
        # absolute-scale sweep of the constants (same dimensionless material in unit systems 1e-12 .. 1e12)
        "scale_sweep_points": 300, "cases_with_random_unit_system": 30,
        "band:>=1e10:second_dirs_kept:yielding": 150, "band:<1e-6:second_dirs_kept:yielding": 100,
        "band:>=1e10:second_dirs_kept:elastic": 100, "band:>=1e10:first_dirs_kept": 1000,
    },
    "thorough": {"gap_sweep_points": 500},
}
for _b in Z.SCALE_BANDS:
    REQUIRED["all"]["band:%s:second_dirs_kept" % _b] = 200
    REQUIRED["all"]["band:%s:first_dirs_kept" % _b] = 300
for _c in Z.SPECTRAL_CLASSES:
    REQUIRED["all"]["class:" + _c] = 20
WATCHDOG_S = {"quick": 2400, "thorough": 4 * 3600}
MAX_VACUOUS_FRACTION = 0.2

C1 = [4.0 / 5.0, -1.0 / 5.0, 4.0 / 105.0, -1.0 / 280.0]
C2_0 = -205.0 / 72.0
C2 = [8.0 / 5.0, -1.0 / 5.0, 8.0 / 315.0, -1.0 / 560.0]
CANCELLING = {"neo_adagio", "neo_coupled", "gent", "visco1", "visco3"}


def build_cases(tier, seed):
    quick = tier == "quick"
    mult = 1 if quick else 40
    plan = [("reference", 1, 3), ("distinct", 6, 4), ("pair_axis", 2, 3), ("pair_inplane", 2, 3), ("pair_generic", 2, 3), ("triple", 1, 3)]
    cases = []
    for name in Z.NAMES:
        heavy = 3.0 if (Z.is_j2(name) or name == "visco3") else 1.0
        for cls, ncase, npts in plan:
            n = ncase * (mult if cls != "reference" else max(1, mult // 6))
            for i in range(n):
                sd = derive_seed(seed, PROPERTY, cls, name, i)
                cases.append({"cls": cls, "cfg": name, "group": name, "npts": npts, "cost": npts * heavy + (40.0 * heavy if (cls == "reference" and i == 0) else 0.0),
                              "seed": sd, "scale": Z.random_case_scale(rng_of(derive_seed(sd, "unit system")))})
        for i in range(1 if quick else 6):
            sd = derive_seed(seed, PROPERTY, "batched_replica", name, i)
            cases.append({"cls": "batched_replica", "cfg": name, "group": name, "cost": 12.0 * heavy if i == 0 else 2.0,
                          "seed": sd, "scale": Z.random_case_scale(rng_of(derive_seed(sd, "unit system")))})
        # the same dimensionless material and the same points in 14 unit systems (modulus 2^k, 10^k over 1e-12 .. 1e12)
        for i in range(1 if quick else 12):
            cases.append({"cls": "scale_sweep", "cfg": name, "group": name, "scales": Z.SWEEP_SCALES, "cost": 1.5 * len(Z.SWEEP_SCALES) * heavy,
                          "seed": derive_seed(seed, PROPERTY, "scale_sweep", name, i)})
        if Z.CONFIGS[name]["eig"]:
            ks = [6, 10] if quick else list(range(5, 15))
            for k in ks:
                for i in range(1 if quick else 4):
                    cases.append({"cls": "gap_sweep", "cfg": name, "group": name, "k": k, "npts": 2 if quick else 4, "cost": 3.0 * heavy,
                                  "seed": derive_seed(seed, PROPERTY, "gap_sweep", name, k, i)})
    for j, name in enumerate(["neo_adagio", "le_log", "j2_large_voce", "j2_small_lin"]):
        for i in range(1 if quick else 5):
            cases.append({"cls": "mechanics_output", "cfg": name, "group": "mech:" + name, "cost": 15.0,
                          "seed": derive_seed(seed, PROPERTY, "mechanics_output", name, i), "scale": [1.0, 1e-9, 2.0 ** 37, 1e6][(i + j) % 4]})
    only = os.environ.get("VERIF_ONLY_CFG")  # debugging / mutation runs only (use together with --only so that no evidence is written)
    if only:
        cases = [c for c in cases if only in c["cfg"]]
    return cases


# ------------------------------------------------------------------------------------------------------------------
_CACHE = {}


def _fns(name):
    if name in _CACHE:
        return _CACHE[name]
    import jax
    W = Z.energy_fn(name)
    P = jax.grad(W)

    def T(H, state, dt, cvec, aux, V):
        return jax.jvp(lambda h: P(h, state, dt, cvec, aux), (H,), (V,))[1]
    out = {"W": jax.jit(W), "P": jax.jit(P), "T": jax.jit(T), "S": jax.jit(Z.state_new_fn(name)), "_P": P, "_T": T}
    _CACHE[name] = out
    return out


def _batched(name):
    f = _fns(name)
    if "Pb" not in f:
        import jax
        f["Pb"] = jax.jit(jax.vmap(f["_P"], (0, 0, None, None, 0)))
        f["Tb"] = jax.jit(jax.vmap(f["_T"], (0, 0, None, None, 0, 0)))
    return f


class _Eval:
    """Single-call evaluation of W / P / regime at perturbed points, with caching of the regime per point."""

    def __init__(self, name, f, state, dt, cvec, aux, res):
        import jax.numpy as np
        self.np = np
        self.name, self.f, self.res = name, f, res
        self.state_np = onp.asarray(state, float)
        self.state = np.asarray(self.state_np)
        self.dt = dt
        self.cvec = np.asarray(onp.asarray(cvec, float))
        self.aux_np = onp.asarray(aux, float)
        self.aux = np.asarray(self.aux_np)
        self.j2 = Z.is_j2(name)
        self.pf = Z.CONFIGS[name]["family"] == "PhaseFieldThreshold" and self.aux_np[0] > 0.0
        self.small_pf = Z.CONFIGS[name]["opts"].get("kinematics") == "small deformations"

    def W(self, X):
        self.res.count("W_evals")
        return float(self.f["W"](self.np.asarray(X), self.state, self.dt, self.cvec, self.aux))

    def P(self, X):
        self.res.count("P_evals")
        return onp.asarray(self.f["P"](self.np.asarray(X), self.state, self.dt, self.cvec, self.aux))

    def T(self, X, V):
        return onp.asarray(self.f["T"](self.np.asarray(X), self.state, self.dt, self.cvec, self.aux, self.np.asarray(V)))

    def regime(self, X):
        """0 elastic / 1 yielding for J2 (from the library's compute_state_new); sign of the volumetric strain for the degraded
        phase-field model; 0 otherwise.  None if the library returned a non-finite state."""
        if self.j2:
            self.res.count("regime_evals")
            sn = onp.asarray(self.f["S"](self.np.asarray(X), self.state, self.dt, self.cvec, self.aux))
            if not onp.isfinite(sn).all():
                return None
            return int(sn[0] - self.state_np[0] > 0.0)
        if self.pf:
            if self.small_pf:
                return int(onp.trace(X) > 0.0)
            return int(onp.linalg.det(X + onp.eye(3)) > 1.0)
        return 0


def _stencil(ev, H, V, h, what, reg0):
    """values at H + k h V, k=-4..4 (k=0 omitted for first differences); None if a stencil point changes regime."""
    vals = {}
    for k in range(-4, 5):
        if k == 0:
            continue
        X = H + (k * h) * V
        if ev.regime(X) != reg0:
            return None
        vals[k] = ev.W(X) if what == "W" else ev.P(X)
    return vals


def _d1(vals, h):
    return sum(C1[k - 1] * (vals[k] - vals[-k]) for k in range(1, 5)) / h


def _d2(vals, v0, h):
    return (C2_0 * v0 + sum(C2[k - 1] * (vals[k] + vals[-k]) for k in range(1, 5))) / (h * h)


def _mechanism(name, order, cls, info):
    """Structural classifier of the open finding (clause + model family + spectral class; nothing else).

    D12: second-derivative clause, strain measure built on the eigen-solver (log or pow), tensor handed to it has a repeated or nearly
         repeated (designed relative gap < 1e-8) eigenvalue pair, not the reference state.
    (D13 -- pow_symm's first-derivative rule at repeated / nearly repeated eigenvalues -- is fixed in /repo, commit 8e49354: every
    first-derivative evaluation is must-hold; the evaluations in the former D13 class are counted as `pow_near_repeated_first_evals`.)
    """
    eig = Z.CONFIGS[name]["eig"]
    if eig is None or cls == "reference":
        return None
    g = info.get("designed_gap")
    if g is None:
        return None
    if order == 2 and g < 1e-8:
        return D12_KEY
    return None


def _former_d13_class(name, cls, info):
    g = info.get("designed_gap")
    return Z.CONFIGS[name]["eig"] == "pow" and cls != "reference" and g is not None and g <= 1e-6


def _check_point(res, name, pt, cvec, tagcls, ndir2=6, rng=None, band=None):
    """All derivative checks at one point. pt: dict(H, state, dt, aux, ell, info, cls)."""
    f = _fns(name)
    H, state, dt, aux, ell, info = pt["H"], pt["state"], pt["dt"], pt["aux"], pt["ell"], pt["info"]
    cls = pt["cls"]
    mu, kappa = Z.moduli(name, cvec)
    ev = _Eval(name, f, state, dt, cvec, aux, res)
    reg0 = ev.regime(H)
    if reg0 is None:
        res.count("points_nonfinite_state")
        return False
    W0 = ev.W(H)
    P0 = ev.P(H)
    if not (math.isfinite(W0) and onp.isfinite(P0).all()):
        # the energy must be finite at an admissible point (no known finding covers a non-finite energy); a non-finite autodiff stress next
        # to a finite energy is a failed first-derivative clause
        res.expect("finite_energy_and_stress", False, {"cfg": name, "cls": cls, "H": H, "state": state, "cvec": list(cvec), "W": W0, "P": P0},
                   _mechanism(name, 1, cls, info) if math.isfinite(W0) else None)
        return False
    regname = {0: "elastic", 1: "yielding"}[reg0] if ev.j2 else ("relaxing" if Z.is_visco(name) and onp.abs(onp.asarray(state) - Z.initial_state(name)).max() > 1e-8 else "hyper")
    gap = info.get("designed_gap")
    det = {"cfg": name, "cls": cls, "regime": regname, "H": H, "state": state, "dt": dt, "aux": aux, "cvec": list(cvec), "ell": ell,
           "designed_gap": gap, "computed_gap": pt.get("computed_gap")}
    h1, h2 = ell / 25.0, ell / 50.0
    kept_any = False
    # ---------------------------------------------------------------- first derivative, 9 basis directions
    scaleP = float(onp.linalg.norm(P0)) + mu * ell
    tol1 = TOL1 * scaleP
    m1 = _mechanism(name, 1, cls, info)
    d13cls = _former_d13_class(name, cls, info)
    worst1 = 0.0
    for i in range(3):
        for j in range(3):
            V = onp.zeros((3, 3))
            V[i, j] = 1.0
            a = _stencil(ev, H, V, h1, "W", reg0)
            b = _stencil(ev, H, V, h2, "W", reg0) if a is not None else None
            if a is None or b is None:
                res.count("first_dirs_discarded_regime")
                continue
            da, db = _d1(a, h1), _d1(b, h2)
            if not (abs(da - db) <= AGREE * tol1):
                res.count("first_dirs_discarded_stencil")
                continue
            err = abs(da - P0[i, j])
            worst1 = max(worst1, err / scaleP)
            res.bound("first_derivative" + (KF if m1 else ""), err, tol1, dict(det, component=[i, j], fd=da, fd_half=db, autodiff=P0[i, j], scale=scaleP), m1)
            res.count("first_dirs_kept")
            res.count("first_dirs_kept:" + regname)
            if band:
                res.count("band:%s:first_dirs_kept" % band)
            if d13cls:
                res.count("pow_near_repeated_first_evals")
            kept_any = True
    # ---------------------------------------------------------------- second derivative, random directions
    dirs = []
    for _ in range(ndir2):
        V = rng.standard_normal((3, 3))
        if rng.random() < 0.3:
            V = 0.5 * (V + V.T)
        dirs.append(V / onp.linalg.norm(V))
    TV = [ev.T(H, V) for V in dirs]
    finiteT = all(onp.isfinite(t).all() for t in TV)
    scaleT = max([float(onp.linalg.norm(t)) for t in TV if onp.isfinite(t).all()] + [mu])
    m2 = _mechanism(name, 2, cls, info)
    bound2 = TOL2
    if gap is not None and gap > 0:
        bound2 = max(TOL2, 1e3 * EPS / gap)
    tol2 = bound2 * scaleT
    tol2w = max(TOL2W, bound2) * scaleT
    hw1, hw2 = ell / 8.0, ell / 16.0
    worst2 = 0.0
    kept2 = 0
    for V, t in zip(dirs, TV):
        a = _stencil(ev, H, V, h1, "P", reg0)
        b = _stencil(ev, H, V, h2, "P", reg0) if a is not None else None
        if a is None or b is None:
            res.count("second_dirs_discarded_regime")
        else:
            da, db = _d1(a, h1), _d1(b, h2)
            if not (float(onp.abs(da - db).max()) <= AGREE * TOL2 * scaleT):
                res.count("second_dirs_discarded_stencil")
            else:
                err = float(onp.abs(da - t).max()) if onp.isfinite(t).all() else float("inf")
                worst2 = max(worst2, err / scaleT)
                res.bound("second_derivative" + (KF if m2 else ""), err, tol2,
                          dict(det, V=V, fd=da, autodiff=t, scale=scaleT, rel_err=err / scaleT), m2)
                kept2 += 1
                if band:
                    res.count("band:%s:second_dirs_kept" % band)
                    res.count("band:%s:second_dirs_kept:%s" % (band, regname))
                res.count("second_dirs_kept")
                res.count("second_dirs_kept:%s:%s" % (regname, tagcls))
                if m2:
                    res.count("known_class_second_evals")
                kept_any = True
        # from W alone
        a = _stencil(ev, H, V, hw1, "W", reg0)
        b = _stencil(ev, H, V, hw2, "W", reg0) if a is not None else None
        if a is None or b is None:
            res.count("second_w_dirs_discarded_regime")
            continue
        da, db = _d2(a, W0, hw1), _d2(b, W0, hw2)
        if not (abs(da - db) <= AGREE * TOL2W * scaleT):
            res.count("second_w_dirs_discarded_stencil")
            continue
        vtv = float((V * t).sum())
        res.bound("second_derivative_from_W" + (KF if m2 else ""), abs(da - vtv), tol2w,
                  dict(det, V=V, fd=da, fd_half=db, autodiff=vtv, scale=scaleT), m2)
        res.count("second_w_dirs_kept")
    if not finiteT:
        res.count("nonfinite_tangent_points")
    res.count("points:" + cls)
    res.count("points_regime:" + regname)
    if kept_any and cls != "reference":
        res.nontrivial = True
    if ev.j2 and reg0 == 1 and tagcls == "distinct" and kept2 > 0:
        res.count("yielding_distinct_points:" + name)
    pt["_worst"] = (worst1, worst2)
    pt["_centre"] = (W0, P0, TV[0], regname)
    return True


# ------------------------------------------------------------------------------------------------------------------
# point generation
# ------------------------------------------------------------------------------------------------------------------

def _history_state(res, name, cvec, rng, virgin_prob=0.3):
    """State reached by a random history through the library's compute_state_new (or the virgin state)."""
    st0 = Z.initial_state(name)
    if Z.CONFIGS[name]["state"] in ("none", "pf") or rng.random() < virgin_prob:
        return st0, False
    f = _fns(name)
    hist = Z.gen_history(name, cvec, rng, int(rng.integers(2, 8)))
    states = Z.run_history(name, cvec, hist, f["S"])
    if states[-1] is None:
        res.count("history_nonfinite_state")
        k = len(states) - 1
        res.obs.setdefault("nonfinite_state_witness", []).append(
            {"cfg": name, "cvec": list(cvec), "H": hist[k][0].tolist(), "dt": hist[k][1],
             "state_before": (states[k - 1] if k > 0 else st0).tolist()})
        return st0, False
    st = states[-1]
    moved = bool(onp.abs(st - st0).max() > 1e-9)
    return st, moved


def _make_point(res, name, cls, cvec, rng, gap=None, force=None):
    """Deformation point of spectral class `cls` for configuration `name` (see module docstring)."""
    cfg = Z.CONFIGS[name]
    mu, kappa = Z.moduli(name, cvec)
    I = onp.eye(3)
    aux = onp.zeros(4)
    dt = Z.sample_dt(name, cvec, rng)
    pf = cfg["family"] == "PhaseFieldThreshold"
    if pf and cls != "reference":
        u = rng.random()
        aux[0] = 0.0 if u < 0.3 else (0.3 if u < 0.6 else float(rng.uniform(0.05, 0.9)))
        aux[1:] = rng.standard_normal(3)
    if cls == "reference":
        st = Z.initial_state(name)
        if Z.is_j2(name):
            ell = 0.2 * cvec[2] / (math.sqrt(6.0) * mu)
        else:
            ell = 3e-2
        return dict(H=onp.zeros((3, 3)), state=st, dt=dt, aux=aux, ell=ell, cls=cls, info=dict(designed_gap=0.0, axis_exact=True, frame="diag"))
    seth = cfg.get("kin") == "seth"
    pairlike = cls in ("pair_axis", "pair_inplane", "pair_generic", "triple")
    # ---- state
    u = rng.random()
    if seth and pairlike and u < 0.67:
        # virgin or (below) coaxial one-step state; the remaining third takes a generic history state, whose plastic strain is not
        # coaxial with C -- only then do the off-diagonal (relative-difference) entries of pow_symm's derivative reach the stress
        st, moved = Z.initial_state(name), False
        coax = u < 0.33
    else:
        st, moved = _history_state(res, name, cvec, rng)
        coax = False
    # ---- target elastic strain
    if Z.is_j2(name):
        eq = float(st[0])
        Y = Z.flow_stress(name, cvec, eq)
        ey = Y / (math.sqrt(6.0) * mu)  # deviatoric log-strain norm at yield
        u_reg = rng.random()
        if (u_reg < 0.5 and force is None) or force == "elastic":
            fac = float(rng.uniform(0.15, 0.8))
            ell = 0.2 * ey
        else:
            fac = float(loguniform(rng, 1.2, 20.0))
            ell = 0.2 * ey * min(1.0, fac - 1.0)
            if cfg["hard"] in ("voce", "pow"):
                ell = min(ell, 0.2 * cvec[4])
        dn = min(fac * ey, 0.5)
        vol = float(rng.uniform(-1, 1)) * 2.0 * dn
    else:
        lo = 3e-2 if name in CANCELLING else 1e-2
        dn = float(loguniform(rng, lo, 0.4 if name == "gent" else 0.6))
        vol = float(rng.uniform(-0.3, 0.3))
        if pf and aux[0] > 0 and abs(vol) < 0.05:
            vol = 0.05 if vol >= 0 else -0.05
        ell = min(max(dn, lo), 0.1)
        if pf and aux[0] > 0:
            ell = min(ell, 0.5 * abs(vol))
    if cls == "triple":
        dn = 0.0
        if abs(vol) < 1e-3:
            vol = 1e-3
    Ue, info = Z.spectral_stretch(cls, rng, dn, vol, gap)
    Re = I if (cls in ("pair_axis", "triple")) else haar_so3(rng)
    # ---- compose with the state
    stt = cfg["state"]
    if stt in ("j2_large", "visco1", "visco3"):
        tens = Z.state_tensors(name, st)
        A = tens[int(rng.integers(len(tens)))]
        F = Re @ Ue @ A
        if moved:
            info["axis_exact"] = False
    elif stt == "j2_small" and not seth:
        Ee = _logm_sym(Ue)
        ep = Z.state_tensors(name, st)[0]
        K = rng.standard_normal((3, 3))
        F = I + Ee + ep + 0.3 * dn * 0.5 * (K - K.T)
    elif seth:
        if pairlike:
            if coax:
                # coaxial one-step history: load along the same eigenframe beyond yield, then place the point on the same ray
                f = _fns(name)
                w, Vv = onp.linalg.eigh(Ue)
                e = onp.log(w)
                dev = e - e.mean()
                nd = onp.linalg.norm(dev)
                if nd > 0:
                    ey0 = cvec[2] / (math.sqrt(6.0) * mu)
                    e1 = e.mean() + dev / nd * min(0.4, ey0 * float(rng.uniform(1.5, 4.0)))
                    U1 = (Vv * onp.exp(e1)) @ Vv.T
                    st1 = Z.run_history(name, cvec, [(U1 - I, dt)], f["S"])[0]
                    if st1 is not None and st1[0] > 0:
                        st, moved = st1, True
                        res.count("seth_coaxial_states")
            F = Re @ Ue
        else:
            # generic state: choose the total Seth-Hill strain E = Ee + ep, U = (I + E/2)^2  (m = 1/4)
            Ee = _logm_sym(Ue)
            ep = Z.state_tensors(name, st)[0]
            Et = Ee + ep
            w, Vv = onp.linalg.eigh(0.5 * (Et + Et.T))
            w = onp.maximum(1.0 + 0.5 * w, 0.2)
            U = (Vv * (w ** 2)) @ Vv.T
            F = Re @ U
            C = F.T @ F
            info = dict(designed_gap=Z.rel_gap(C), axis_exact=False, frame="generic")
    else:
        F = Re @ Ue
    H = F - I
    if name == "gent":
        J = onp.linalg.det(F)
        i1 = J ** (-2.0 / 3.0) * float((F * F).sum()) - 3.0
        cvec[2] = max(cvec[2], 2.0 * i1 + 0.5)
    gaps = [Z.rel_gap(C) for C in Z.eig_tensors(name, H, st)]
    cg = min(gaps) if gaps else None
    if Z.is_j2(name):
        # distance to the yield switch from the harness's own closed-form trial state (independent of the library)
        fobs = _j2_yield_ratio(name, cvec, H, st)
        if abs(fobs - 1.0) < 0.12:
            res.count("points_resampled_near_yield_switch")
            return None
        Yc = Z.flow_stress(name, cvec, float(st[0]))
        ell = 0.2 * Yc / (math.sqrt(6.0) * mu) * min(1.0, abs(fobs - 1.0))
        if fobs > 1.0 and cfg["hard"] in ("voce", "pow"):
            ell = min(ell, 0.2 * cvec[4])
        ell = min(ell, 0.05)
    if moved:
        res.count("nonvirgin_state_points")
    return dict(H=H, state=st, dt=dt, aux=aux, ell=ell, cls=cls, info=info, computed_gap=cg)


def _j2_yield_ratio(name, cvec, H, st):
    """trial Mises stress / current flow stress, in numpy, from the definitions of the three kinematics options."""
    cfg = Z.CONFIGS[name]
    mu, _ = Z.moduli(name, cvec)
    I = onp.eye(3)
    F = H + I
    if cfg["kin"] == "large":
        Ee = 0.5 * _logm_sym(Z.eig_tensors(name, H, st)[0])
    elif cfg["kin"] == "small":
        Ee = 0.5 * (H + H.T) - Z.state_tensors(name, st)[0]
    else:
        w, V = onp.linalg.eigh(F.T @ F)
        Ee = 2.0 * ((V * w ** 0.25) @ V.T - I) - Z.state_tensors(name, st)[0]
    d = Ee - onp.trace(Ee) / 3.0 * I
    return math.sqrt(6.0) * mu * float(onp.linalg.norm(d)) / Z.flow_stress(name, cvec, float(st[0]))


def _logm_sym(U):
    w, V = onp.linalg.eigh(0.5 * (U + U.T))
    return (V * onp.log(w)) @ V.T


def _class_consistent(res, name, pt):
    """The harness recomputes the tensor that reaches the eigen-solver and confirms the designed spectral class."""
    cg = pt.get("computed_gap")
    if cg is None or pt["cls"] == "reference":
        return True
    g = pt["info"].get("designed_gap", 0.0)
    if pt["cls"] == "distinct":
        if cg < 1e-5:
            res.count("distinct_points_skipped_small_gap")
            return False
        pt["info"]["designed_gap"] = cg
        return True
    ok = abs(cg - g) <= 1e-3 * g + 1e-13
    if not ok:
        res.count("class_construction_mismatch")
    return ok


# ------------------------------------------------------------------------------------------------------------------

def _run_points(res, case, rng):
    name, cls = case["cfg"], case["cls"]
    gap = 10.0 ** (-case["k"]) if cls == "gap_sweep" else None
    cvec = Z.sample_consts(name, rng, yield_strain=float(loguniform(rng, 1e-3, 3e-2)) if Z.is_j2(name) else None)
    cvec = _apply_case_scale(res, name, cvec, case)
    band = Z.scale_band(name, cvec)
    curve = []
    for ip in range(case["npts"]):
        c = cls
        if cls == "gap_sweep":
            c = ["pair_generic", "pair_inplane"][ip % 2]
        pt = None
        for _ in range(10):
            pt = _make_point(res, name, c, cvec, rng, gap)
            if pt is not None and _class_consistent(res, name, pt):
                break
            pt = None
        if pt is None:
            continue
        tagcls = "distinct" if c == "distinct" else ("reference" if c == "reference" else "repeated")
        ok = _check_point(res, name, pt, cvec, tagcls, rng=rng, band=band)
        if ok and cls == "gap_sweep":
            res.count("gap_sweep_points")
            curve.append([case["k"], Z.CONFIGS[name]["eig"], pt["_worst"][0], pt["_worst"][1]])
    if curve:
        res.obs["curve"] = curve


def _apply_case_scale(res, name, cvec, case):
    sc = float(case.get("scale", 1.0))
    if sc != 1.0:
        res.count("cases_with_random_unit_system")
        return Z.scale_consts(name, cvec, sc)
    return cvec


def _run_scale_sweep(res, case, rng):
    """The same dimensionless material (leading modulus normalised to 1) and the same deformation points evaluated with every
    stress-like constant multiplied by s, s in powers of two and ten over 1e-12 .. 1e12.  The deciding clauses are the ordinary
    finite-difference ones at every scale; W/s, P/s, T/s against the scale-1 values are recorded as a diagnostic (closest_calls
    `scale_homogeneity_*`, no verdict) together with the number of bitwise-exact power-of-two replicas."""
    name = case["cfg"]
    allc = {}
    forces = ["yielding", "elastic", "yielding"] if Z.is_j2(name) else [None]
    for s in case["scales"]:
        r = rng_of(case["seed"])  # identical random stream at every scale
        cv = Z.sample_consts(name, r, yield_strain=float(loguniform(r, 1e-3, 3e-2)) if Z.is_j2(name) else None)
        cv = Z.scale_consts(name, Z.normalize_consts(name, cv), s)
        band = Z.scale_band(name, cv)
        centres = []
        for force in forces:
            pt = None
            for _ in range(10):
                pt = _make_point(res, name, "distinct", cv, r, None, force=force)
                if pt is not None and _class_consistent(res, name, pt):
                    break
                pt = None
            if pt is None:
                centres.append(None)
                continue
            ok = _check_point(res, name, pt, cv, "distinct", rng=r, band=band)
            centres.append((pt["H"], pt["_centre"]) if ok else None)
            if ok:
                res.count("scale_sweep_points")
                res.count("scale_sweep_points:" + band)
        allc[s] = centres
    base = allc.get(1.0)
    if base is None:
        return
    for s, centres in allc.items():
        if s == 1.0:
            continue
        pow2 = math.frexp(s)[0] == 0.5
        for b, c in zip(base, centres):
            if b is None or c is None or not onp.array_equal(b[0], c[0]) or b[1][3] != c[1][3]:
                res.count("scale_homogeneity_points_not_comparable")
                continue
            (W1, P1, T1, _), (Ws, Ps, Ts, _) = b[1], c[1]
            res.ratio("scale_homogeneity_W(diagnostic)", abs(Ws / s - W1), 1e-9 * abs(W1) + 1e-300)
            res.ratio("scale_homogeneity_P(diagnostic)", float(onp.abs(Ps / s - P1).max()), 1e-9 * float(onp.abs(P1).max()) + 1e-300)
            res.ratio("scale_homogeneity_T(diagnostic)", float(onp.abs(Ts / s - T1).max()), 1e-7 * float(onp.abs(T1).max()) + 1e-300)
            res.count("scale_homogeneity_points_compared")
            if pow2 and Ws / s == W1 and onp.array_equal(Ps / s, P1) and onp.array_equal(Ts / s, T1):
                res.count("pow2_bitwise_exact_replicas")
            elif pow2:
                res.count("pow2_replicas_equal_to_rounding_only")


def _run_batched_replica(res, case, rng):
    """jit(vmap) replica of the distinct class must reproduce the single-call stress and tangent."""
    import jax.numpy as np
    name = case["cfg"]
    cvec = Z.sample_consts(name, rng, yield_strain=float(loguniform(rng, 3e-3, 3e-2)) if Z.is_j2(name) else None)
    cvec = _apply_case_scale(res, name, cvec, case)
    pts = []
    guard = 0
    while len(pts) < BREP and guard < 10 * BREP:
        guard += 1
        pt = _make_point(res, name, "distinct", cvec, rng)
        if pt is None:
            continue
        cg = pt.get("computed_gap")
        if cg is not None and cg < 1e-4:
            continue
        pts.append(pt)
    if len(pts) < BREP:
        res.vacuous("could not build a batch of well separated points")
        return
    f = _batched(name)
    dt = pts[0]["dt"]
    Hs = onp.array([p["H"] for p in pts])
    Ss = onp.array([p["state"] for p in pts])
    As = onp.array([p["aux"] for p in pts])
    Vs = rng.standard_normal((BREP, 3, 3))
    Vs /= onp.linalg.norm(Vs, axis=(1, 2))[:, None, None]
    c = np.asarray(onp.asarray(cvec, float))
    Pb = onp.asarray(f["Pb"](np.asarray(Hs), np.asarray(Ss), dt, c, np.asarray(As)))
    Tb = onp.asarray(f["Tb"](np.asarray(Hs), np.asarray(Ss), dt, c, np.asarray(As), np.asarray(Vs)))
    mu, kappa = Z.moduli(name, cvec)
    for i in range(BREP):
        P1 = onp.asarray(f["P"](np.asarray(Hs[i]), np.asarray(Ss[i]), dt, c, np.asarray(As[i])))
        T1 = onp.asarray(f["T"](np.asarray(Hs[i]), np.asarray(Ss[i]), dt, c, np.asarray(As[i]), np.asarray(Vs[i])))
        det = {"cfg": name, "i": i, "H": Hs[i], "state": Ss[i], "cvec": list(cvec)}
        cg = pts[i].get("computed_gap")
        rel = 1e-11 + (100.0 * EPS / cg if cg else 0.0)  # eigenvector error of the batched eigen-solver is ~eps/gap (D8, benign regime)
        res.bound("batched_vs_single_stress", float(onp.abs(Pb[i] - P1).max()), rel * (float(onp.linalg.norm(P1)) + mu * pts[i]["ell"]), det)
        res.bound("batched_vs_single_tangent", float(onp.abs(Tb[i] - T1).max()), 10.0 * rel * max(float(onp.linalg.norm(T1)), mu), det)
        res.count("batched_replica_points")
    res.nontrivial = True


def _run_mechanics_output(res, case, rng):
    """The stress output of the mechanics front end (value_and_grad of the energy density w.r.t. the displacement gradient, evaluated
    at every quadrature point of a small mesh) against finite differences of the single-point energy at the same gradient."""
    import jax.numpy as np
    from optimism import Mesh, FunctionSpace, QuadratureRule, Mechanics
    name = case["cfg"]
    cvec = Z.sample_consts(name, rng, yield_strain=float(loguniform(rng, 3e-3, 3e-2)) if Z.is_j2(name) else None)
    cvec = _apply_case_scale(res, name, cvec, case)
    model = Z.build_model(name, [float(x) for x in cvec])
    mesh = Mesh.construct_structured_mesh(3, 3, [0.0, 1.0], [0.0, 1.0])
    quad = QuadratureRule.create_quadrature_rule_on_triangle(degree=1)
    fs = FunctionSpace.construct_function_space(mesh, quad)
    mech = Mechanics.create_mechanics_functions(fs, "plane strain", model)
    mu, kappa = Z.moduli(name, cvec)
    amp = 0.1 if not Z.is_j2(name) else 3.0 * cvec[2] / (math.sqrt(6.0) * mu)
    coords = onp.asarray(mesh.coords)
    G = rng.standard_normal((2, 2)) * amp
    U = coords @ G.T + 0.15 * amp * rng.standard_normal(coords.shape)
    st = mech.compute_initial_state()
    dt = 1.0
    Wout, Pout = mech.compute_output_energy_densities_and_stresses(np.asarray(U), st, dt)
    Wout, Pout = onp.asarray(Wout), onp.asarray(Pout)
    conns = onp.asarray(mesh.conns)
    res.expect("mechanics_output_shape", Pout.shape == Wout.shape + (3, 3), {"W": list(Wout.shape), "P": list(Pout.shape)})
    if Pout.shape != Wout.shape + (3, 3):
        return
    f = _fns(name)
    st0 = Z.initial_state(name)
    n = 0
    for e in range(conns.shape[0]):
        X = coords[conns[e]]
        u = U[conns[e]]
        D = onp.array([X[1] - X[0], X[2] - X[0]]).T
        g2 = onp.array([u[1] - u[0], u[2] - u[0]]).T @ onp.linalg.inv(D)  # constant gradient of a linear triangle
        H = onp.zeros((3, 3))
        H[:2, :2] = g2
        gaps = [Z.rel_gap(C) for C in Z.eig_tensors(name, H, st0)]
        if gaps and min(gaps) < 1e-3:
            continue
        ev = _Eval(name, f, st0, dt, cvec, onp.zeros(4), res)
        reg0 = ev.regime(H)
        ell = 0.02 * amp
        h = ell / 25.0
        Pfd = onp.full((3, 3), onp.nan)
        good = True
        for i in range(3):
            for j in range(3):
                V = onp.zeros((3, 3))
                V[i, j] = 1.0
                a = _stencil(ev, H, V, h, "W", reg0)
                if a is None:
                    good = False
                    break
                Pfd[i, j] = _d1(a, h)
            if not good:
                break
        if not good:
            res.count("mechanics_points_discarded_regime")
            continue
        sc = float(onp.linalg.norm(Pfd)) + mu * ell
        res.bound("mechanics_output_energy", abs(Wout[e, 0] - ev.W(H)), 1e-11 * (abs(Wout[e, 0]) + mu * amp * amp) + 64 * EPS * (mu + kappa),
                  {"cfg": name, "elem": e})
        res.bound("mechanics_output_stress", float(onp.abs(Pout[e, 0] - Pfd).max()), TOL1 * sc,
                  {"cfg": name, "elem": e, "H": H, "P_out": Pout[e, 0], "P_fd": Pfd, "cvec": list(cvec)})
        res.count("mechanics_output_points")
        if reg0 == 1:
            res.count("mechanics_output_points_yielding")
        n += 1
    res.nontrivial = n > 0


def run_case(case):
    res = Res(case)
    rng = rng_of(case["seed"])
    cls = case["cls"]
    if cls == "batched_replica":
        _run_batched_replica(res, case, rng)
    elif cls == "mechanics_output":
        _run_mechanics_output(res, case, rng)
    elif cls == "scale_sweep":
        _run_scale_sweep(res, case, rng)
    else:
        _run_points(res, case, rng)
    return res


def finalize(results, tier):
    """Near-degenerate sweep as an error curve (max relative error of the first / second derivative per decade of gap and strain family),
    and the list of J2 configurations whose actively yielding distinct-spectrum tangent was compared."""
    curve = {}
    yl = set()
    for r in results:
        for k, fam, e1, e2 in r.get("obs", {}).get("curve", []) or []:
            key = "%s:gap=1e-%02d" % (fam, k)
            c = curve.setdefault(key, {"n": 0, "first_max_rel_err": 0.0, "second_max_rel_err": 0.0, "eps_over_gap": EPS * 10.0 ** k})
            c["n"] += 1
            c["first_max_rel_err"] = max(c["first_max_rel_err"], e1)
            c["second_max_rel_err"] = max(c["second_max_rel_err"], e2)
        for k, v in r.get("obs", {}).items():
            if k.startswith("yielding_distinct_points:") and v:
                yl.add(k.split(":", 1)[1])
    wit = []
    for r in results:
        wit.extend(r.get("obs", {}).get("nonfinite_state_witness", []) or [])
    out = {"gap_sweep_error_curve": curve, "j2_configs_with_yielding_distinct_tangent": sorted(yl),
           "nonfinite_state_witnesses(compute_state_new; not a C10 clause)": wit[:10]}
    missing = []
    need = [n for n in Z.NAMES if Z.is_j2(n)]
    lack = [n for n in need if n not in yl]
    if lack:
        missing.append("no actively yielding distinct-spectrum tangent compared for " + ",".join(lack))
    if missing:
        out["_missing"] = missing
    return out
