"""C03 — the function space reproduces polynomials and integrates them exactly on any mesh; divergence theorem.

Monitor: assertions on FunctionSpace.shapes / shapeGrads / vols and on the values returned by interpolate_to_points,
compute_field_gradient, integrate_over_block, integrate_function_on_edges (and Surface.integrate_function_on_surface
on linear meshes), against an independent reference (vlib/oracles/c03_exact.py): collapsed-coordinate Gauss-Jacobi
integrals per triangle in long double, shoelace areas, boundary edges from an independent edge-count dict.
"""
import math

import numpy as onp

from vlib.common import Res, derive_seed, rng_of, EPS

PROPERTY = "C03"
LEVEL = "exploration"
RULE = ("classes: mesh (jittered-Delaunay triangulation +/- hole, graded, rotated / anisotropic (aspect <= 30) / sheared placement, then x -> s*x + b with s over "
        "1e-8..1e8 (generic and power-of-two) and offsets |b| up to 1e7 element heights, random cyclic rotation of connectivity rows, shuffled elements, two random blocks; elevated by the library to order 1..5 with/without "
        "bubble, or built directly by the harness from the reference node coordinates; on each: 2-D rules of several degrees from 1..10, Cartesian and axisymmetric, the full monomial basis x^i y^j up to the relevant "
        "degree, and the divergence theorem over the independently extracted closed boundary (outer loop and hole) with 1-D rules of degree 0..25); "
        "ref2d (reference triangle: every order +/- bubble at the points of every rule, the element nodes and random interior points; every 2-D rule "
        "against i!j!/(i+j+2)!); ref1d (1-D rules of degree 0..25 incl. the padded variant, line elements of order 1..5). "
        "Non-trivial = mesh has >= 2 elements and an interior edge (reference classes: always); distinct = canonical hash of the case parameters.")
ASSUMPTIONS = [
    "reference integrals: 14x14 collapsed Gauss-Jacobi rule from scipy roots in long double (self-checked against i!j!/(i+j+2)! to 1e-14 in every worker)",
    "a quadrature point's physical position is the affine image of its reference position; reference domain = triangle (1,0),(0,1),(0,0) as documented in QuadratureRule",
    "higher-order meshes: 3 of 4 are built by the harness from parentElement.coordinates alone (affine images, geometric node merging, shuffled numbering; "
    "no vertex/face/interior index table used), 1 of 4 by the library's own order elevation, taken as returned: nodal values are sampled at its own node coordinates and every clause is judged against "
    "the geometry of the simplex mesh that was put in; a failed structural check of it is only counted (library_mesh_structural_check_failed, C13's clause)",
    "tolerances: shape sums / reproduced values 50*eps*(order+1)^2*scale (scale = max |monomial| over the mesh nodes; 1 for partition of unity; "
    "max |coordinate| for quadrature-point positions); gradients the same divided by the element's smallest altitude (DESIGN's rounding bound x safety)",
    "integrals: 1e-13 relative to (sum of |quadrature volumes|) * max|integrand| (tables carry 15-16 digits); 1-D rules 1e-13 absolute on [0,1]",
    "axisymmetric clause as read by DESIGN.md: exactness is asserted when deg(p)+1 <= rule degree (integrand incl. the 2*pi*r weight within the rule's degree); "
    "for deg(p) = rule degree the error is only reported (report_only.* ratios are not verdicts)",
    "reference-triangle evaluation points: the points of every tabulated rule, the element nodes (values only) and random points with all barycentric "
    "coordinates >= 1e-6 and y <= 0.9 (vander2d's collapsed coordinate amplifies gradient rounding by 1/(1-y) towards the vertex (0,1); the tabulated "
    "rules reach 1-y = 0.041 and are checked as they are; calibrated: 5e-13 gradient error at 1-y = 5.5e-5 for order 5)",
]
REQUIRED = {
    "all": {
        "pou_points": 2000, "gradsum_points": 2000, "repro_value_evals": 20000, "repro_grad_evals": 20000,
        "vol_sum_checks": 20, "exact_integrals_cartesian": 500, "exact_integrals_axisym": 300, "integrate_over_block_calls": 500,
        "divergence_checks": 200, "divergence_with_hole": 10, "divergence_field_u": 50, "divergence_field_u_coupled_rows": 50, "surface_module_checks": 10,
        "mesh_order1": 2, "mesh_order2": 2, "mesh_order3": 2, "mesh_order4": 2, "mesh_order5": 2, "mesh_bubble": 4,
        "mesh_elevated_by_library": 4, "mesh_elevated_by_harness": 10,
        "scale_band_tiny": 6, "scale_band_small": 3, "scale_band_unit": 6, "scale_band_big": 3, "scale_band_large": 6,
        "offset_over_h_ge_1e4": 6, "offset_over_h_ge_1e6": 2, "meshes_with_element_area_below_5e-11": 6,
        "user_rule_same_size_as_library_rule": 8, "padded_rule1d_on_edges": 6,
        "quad2d_degree_1": 1, "quad2d_degree_2": 1, "quad2d_degree_3": 1, "quad2d_degree_4": 1, "quad2d_degree_5": 1, "quad2d_degree_6": 1,
        "quad2d_degree_7": 1, "quad2d_degree_8": 1, "quad2d_degree_9": 1, "quad2d_degree_10": 1,
        "rule1d_degrees_checked": 26, "rule1d_padded_degrees_checked": 10, "ref2d_rule_monomials": 200,
        "ref2d_elements": 9, "ref1d_elements": 5, "oracle_selfcheck": 1,
        "class:mesh": 10, "class:ref2d": 1, "class:ref1d": 1,
    },
}
WATCHDOG_S = {"quick": 1800, "thorough": 4 * 3600}

C_SHAPE = 50.0          # * eps * (order+1)^2 * scale
TOL_INT = 1e-13

N_MESH = {"quick": 60, "thorough": 3000}


def build_cases(tier, seed):
    cases = []
    n = N_MESH[tier]
    for i in range(n):
        order = 1 + i % 5
        bubble = bool(order >= 2 and (i // 5) % 2 == 1)
        # every mesh case takes three (quick) / five (thorough) 2-D degrees and two/four 1-D degrees, rotating through 1..10 and 0..25
        nq = 3 if tier == "quick" else 5
        qdegs = sorted({(i * 3 + 7 * k) % 10 + 1 for k in range(nq)} | {min(10, max(1, 2 * order)) if i % 2 else 10})
        n1 = 2 if tier == "quick" else 4
        q1degs = sorted({(i * 2 + 13 * k) % 26 for k in range(n1)})
        cases.append({"cls": "mesh", "i": i, "tier": tier, "order": order, "bubble": bubble, "qdegs": qdegs, "q1degs": q1degs,
                      "elevation": "library" if (i // 5) % 4 == 3 else "harness",
                      "group": "o%d%s_%d" % (order, "b" if bubble else "", (i // 10) % 2), "cost": 1.0 + 0.6 * order,
                      "seed": derive_seed(seed, PROPERTY, "mesh", i)})
    nref = 1 if tier == "quick" else 16
    for i in range(nref):
        for order in range(1, 6):
            for bubble in (False, True):
                if bubble and order == 1:
                    continue
                cases.append({"cls": "ref2d", "i": i, "order": order, "bubble": bubble, "group": "r%d" % ((i * 9 + order) % 32), "cost": 0.5,
                              "seed": derive_seed(seed, PROPERTY, "ref2d", i, order, bubble)})
        cases.append({"cls": "ref1d", "i": i, "group": "r%d" % (i % 32), "cost": 0.5, "seed": derive_seed(seed, PROPERTY, "ref1d", i)})
    return cases


def monos(deg):
    return [(d - j, j) for d in range(deg + 1) for j in range(d + 1)]


_SELF = {}


def _jit(f):
    """One XLA compilation per evaluated functional instead of one per primitive (eager vmap compiles ~140 tiny kernels)."""
    import jax
    import os
    return f if os.environ.get("C03_NOJIT") else jax.jit(f)


def _selfcheck(res, X):
    """The reference rule must reproduce the closed-form integrals on the unit triangle; otherwise the harness is broken."""
    if "v" not in _SELF:
        _SELF["v"] = X.selfcheck()
    if not _SELF["v"] <= 1e-14:
        res.inconclusive("reference Gauss-Jacobi rule failed its self-check: %g" % _SELF["v"])
    res.count("oracle_selfcheck")


def _pw(x, k):
    return onp.ones_like(x) if k == 0 else x ** int(k)


# ------------------------------------------------------------------------------------------------ reference element classes

def run_ref1d(case, res, rng):
    from optimism import Interpolants, QuadratureRule
    worst = 0.0
    for deg in range(0, 26):
        q = QuadratureRule.create_quadrature_rule_1D(deg)
        x, w = onp.asarray(q.xigauss, dtype=onp.longdouble), onp.asarray(q.wgauss, dtype=onp.longdouble)
        for k in range(deg + 1):
            err = abs(float((w * x ** k).sum() - onp.longdouble(1) / (k + 1)))
            worst = max(worst, err)
            res.bound("rule1d.exact_on_unit_interval", err, TOL_INT, {"degree": deg, "monomial": k, "npts": int(x.size)})
        res.count("rule1d_degrees_checked")
    for deg in range(0, 10):
        q = QuadratureRule.create_padded_quadrature_rule_1D(deg)
        x, w = onp.asarray(q.xigauss, dtype=onp.longdouble), onp.asarray(q.wgauss, dtype=onp.longdouble)
        for k in range(deg + 1):
            err = abs(float((w * _pw(x, k)).sum() - onp.longdouble(1) / (k + 1)))
            res.bound("rule1d_padded.exact_on_unit_interval", err, TOL_INT, {"degree": deg, "monomial": k})
        res.count("rule1d_padded_degrees_checked")
    # line elements
    for p in range(1, 6):
        pe = Interpolants.make_parent_element_1d(p)
        nodes = onp.asarray(pe.coordinates, dtype=float)
        pts = onp.concatenate([nodes, rng.uniform(0, 1, size=40)] + [onp.asarray(QuadratureRule.create_quadrature_rule_1D(d).xigauss) for d in (1, 4, 9, 25)])
        sh = Interpolants.compute_shapes(pe, pts)
        N, dN = onp.asarray(sh.values), onp.asarray(sh.gradients)        # (nNodes, nPts)
        tol = C_SHAPE * EPS * (p + 1) ** 2
        res.bound("line.partition_of_unity", onp.abs(N.sum(axis=0) - 1).max(), tol, {"order": p})
        res.bound("line.derivative_sum_zero", onp.abs(dN.sum(axis=0)).max(), tol, {"order": p})
        res.bound("line.kronecker_at_nodes", onp.abs(N[:, :len(nodes)] - onp.eye(len(nodes))).max(), tol, {"order": p})
        for k in range(p + 1):
            res.bound("line.reproduce_value", onp.abs(_pw(nodes, k) @ N - _pw(pts, k)).max(), tol, {"order": p, "monomial": k})
            ex = k * _pw(pts, k - 1) if k > 0 else 0 * pts
            res.bound("line.reproduce_derivative", onp.abs(_pw(nodes, k) @ dN - ex).max(), tol, {"order": p, "monomial": k})
        res.count("ref1d_elements")
    res.nontrivial = True


def _ref_points(rng, pe):
    from optimism import QuadratureRule
    ref = onp.asarray(pe.coordinates, dtype=float)
    pts = [ref]
    for d in range(1, 11):
        pts.append(onp.asarray(QuadratureRule.create_quadrature_rule_on_triangle(d).xigauss, dtype=float))
    lam = rng.dirichlet([1.0, 1.0, 1.0], size=150)
    lam = onp.vstack([lam, rng.dirichlet([0.05, 1.0, 1.0], size=30), rng.dirichlet([1.0, 0.05, 0.05], size=30)])
    lam = onp.maximum(lam, 1e-6)
    lam = lam / lam.sum(axis=1, keepdims=True)
    R = onp.array([[1.0, 0.0], [0.0, 1.0], [0.0, 0.0]])
    P = lam @ R
    # vander2d's collapsed coordinate has a 1/(1-y) derivative at the vertex (0,1): rounding in the gradients is amplified by that
    # factor there.  The tabulated quadrature points reach 1-y = 0.041 (checked as they are); random points are kept at 1-y >= 0.1.
    pts.append(P[P[:, 1] <= 0.9])
    return ref, onp.vstack(pts)


def run_ref2d(case, res, rng):
    from fractions import Fraction
    from optimism import Interpolants, QuadratureRule
    from vlib.oracles import c03_exact as X
    p, bubble = case["order"], case["bubble"]
    pe = Interpolants.make_parent_element_2d_with_bubble(p) if bubble else Interpolants.make_parent_element_2d(p)
    ref, pts = _ref_points(rng, pe)
    sh = Interpolants.compute_shapes(pe, pts)
    N, dN = onp.asarray(sh.values), onp.asarray(sh.gradients)          # (nPts, nNodes), (nPts, nNodes, 2)
    tol = C_SHAPE * EPS * (p + 1) ** 2
    det = {"order": p, "bubble": bubble}
    nn = len(ref)                         # the first nn points are the element nodes: values only (see ASSUMPTIONS)
    res.bound("ref.partition_of_unity", onp.abs(N.sum(axis=1) - 1).max(), tol, det)
    res.bound("ref.gradient_sum_zero", onp.abs(dN[nn:].sum(axis=1)).max(), tol, det)
    res.bound("ref.kronecker_at_nodes", onp.abs(N[:nn] - onp.eye(nn)).max(), tol, det)
    res.count("pou_points", len(pts))
    res.count("gradsum_points", len(pts) - nn)
    for (i, j) in monos(p):
        m = _pw(ref[:, 0], i) * _pw(ref[:, 1], j)
        ex = _pw(pts[:, 0], i) * _pw(pts[:, 1], j)
        res.bound("ref.reproduce_value", onp.abs(N @ m - ex).max(), tol, dict(det, monomial=[i, j]))
        gx = i * _pw(pts[:, 0], i - 1) * _pw(pts[:, 1], j) if i > 0 else 0 * ex
        gy = j * _pw(pts[:, 0], i) * _pw(pts[:, 1], j - 1) if j > 0 else 0 * ex
        g = onp.einsum("qak,a->qk", dN, m)
        eg = onp.maximum(onp.abs(g[:, 0] - gx), onp.abs(g[:, 1] - gy))
        res.bound("ref.reproduce_gradient", eg[nn:].max(), tol, dict(det, monomial=[i, j]))
        # observation only: gradients evaluated exactly at the element nodes (not quadrature points, outside the property)
        res.ratio("report_only.gradient_at_element_nodes(not asserted)", eg[:nn].max(), tol)
        res.checks -= 1
        res.count("repro_value_evals", len(pts))
        res.count("repro_grad_evals", len(pts) - nn)
    res.count("ref2d_elements")
    if bubble:
        res.count("ref2d_bubble_elements")
    # the tabulated rules on the reference triangle against the closed form (done once per order-1 case to avoid repetition)
    if p == 1:
        for D in range(1, 11):
            q = QuadratureRule.create_quadrature_rule_on_triangle(D)
            x, w = onp.asarray(q.xigauss, dtype=onp.longdouble), onp.asarray(q.wgauss, dtype=onp.longdouble)
            for (i, j) in monos(D):
                exq = X.unit_triangle_exact(i, j)
                err = abs(float((w * _pw(x[:, 0], i) * _pw(x[:, 1], j)).sum() - onp.longdouble(exq.numerator) / onp.longdouble(exq.denominator)))
                res.bound("rule2d.exact_on_reference_triangle", err, TOL_INT * 0.5, {"degree": D, "monomial": [i, j], "npts": int(w.size)})
                res.count("ref2d_rule_monomials")
    _selfcheck(res, X)
    res.nontrivial = True


# ------------------------------------------------------------------------------------------------ mesh class

def _mesh_spec(rng, i, tier="quick"):
    # a handful of grid sizes only: eager JAX compiles every primitive once per array shape, so shapes are recycled within a worker
    sizes = [(3, 3), (4, 4), (3, 4), (4, 5), (5, 5), (4, 3), (5, 4)] + ([(6, 6), (7, 5), (3, 8)] if tier == "thorough" else [])
    nx, ny = sizes[int(rng.integers(0, len(sizes)))]
    spec = {"nx": nx, "ny": ny, "hole": (i % 4 == 1), "graded": (i % 5 == 3),
            "affine_kind": [None, "rot", "aniso", "shear"][(i // 2) % 4],
            "xshift": float(rng.uniform(0.0, 3.0)) if i % 2 == 0 else None}
    if spec["hole"]:
        spec["nx"] = spec["ny"] = 5
    # absolute-scale sweep x -> s*x + b ("arbitrary ... sizes"): s over 1e-8..1e8 (generic and power-of-two factors), offsets b with
    # |b| = R*h_min, R up to 1e7 (h_min/|b| >= 1e-7 is what float64 still resolves), max |coordinate| kept <= 1e8 (x^25 must not overflow)
    mode = i % 8
    u = rng.uniform
    if mode == 0:
        scale, R = 1.0, 0.0
    elif mode == 1:
        scale, R = 10.0 ** u(-8, -5), 0.0
    elif mode == 2:
        scale, R = 10.0 ** u(5, 8), 0.0
    elif mode == 3:
        scale, R = (10.0 ** u(-5, -1) if (i // 8) % 2 == 0 else 10.0 ** u(1, 5)), 0.0
    elif mode == 4:
        k = int(rng.integers(17, 27))
        scale, R = (2.0 ** -k if (i // 8) % 2 == 0 else 2.0 ** k), 0.0
    elif mode == 5:
        scale, R = 10.0 ** u(-8, -5), 10.0 ** u(2, 7)
    elif mode == 6:
        scale, R = 10.0 ** u(-0.5, 0.5), 10.0 ** u(4, 7)
    else:
        scale, R = (10.0 ** u(-5, -1) if (i // 8) % 2 == 0 else 10.0 ** u(1, 4)), 10.0 ** u(2, 6)
    spec["scale"] = float(scale)
    spec["offset_ratio"] = float(R)
    spec["offset_angle"] = float(u(0, 2 * math.pi))
    return spec


def _build_mesh(rng, spec, order, bubble, elevation):
    from optimism import Mesh
    from vlib.gen import meshes, c03_meshes
    import jax.numpy as jnp
    aff = meshes.random_affine(rng, spec["affine_kind"]) if spec["affine_kind"] else None
    pts, tri = meshes.random_simplex_data(rng, spec["nx"], spec["ny"], hole=spec["hole"], graded=spec["graded"], affine=aff)
    if spec["xshift"] is not None:
        pts = pts + onp.array([spec["xshift"] - pts[:, 0].min(), 0.0])       # r >= xshift >= 0: a proper axisymmetric domain
    pts = pts * spec["scale"]
    if spec["offset_ratio"] > 0:
        from vlib.oracles import c03_exact
        hmin = float(c03_exact.min_altitude(pts, tri).min())
        bmag = min(spec["offset_ratio"] * hmin, 1e8 - float(onp.abs(pts).max()))
        pts = pts + bmag * onp.array([math.cos(spec["offset_angle"]), math.sin(spec["offset_angle"])])
    nE = len(tri)
    lab = rng.integers(0, 2, size=nE)
    lab[0], lab[-1] = 0, 1
    blocks = {"A": jnp.array(onp.where(lab == 0)[0]), "B": jnp.array(onp.where(lab == 1)[0])}
    if order == 1:
        mesh = meshes.make_mesh(pts, tri, blocks)
    elif elevation == "library":
        mesh = Mesh.create_higher_order_mesh_from_simplex_mesh(meshes.make_mesh(pts, tri, blocks), order, useBubbleElement=bubble)
    else:
        mesh = c03_meshes.build_high_order_mesh(rng, pts, tri, order, bubble, blocks)
    return pts, tri, mesh


def _bary_of_ref_points(pe, xi):
    """Barycentric coordinates of reference points w.r.t. the reference vertices (1,0), (0,1), (0,0)."""
    xi = onp.asarray(xi, dtype=float)
    return onp.column_stack((xi[:, 0], xi[:, 1], 1.0 - xi[:, 0] - xi[:, 1]))


def run_mesh(case, res, rng):
    import jax
    import jax.numpy as jnp
    from optimism import FunctionSpace, QuadratureRule, Surface
    from vlib.gen import meshes
    from vlib.oracles import c03_exact as X
    i, p, bubble = case["i"], case["order"], case["bubble"]
    spec = _mesh_spec(rng, i, case.get("tier", "quick"))
    elevation = case.get("elevation", "library")
    if p > 1 and elevation == "library":
        res.count("mesh_elevated_by_library")            # attempts: a broken elevation must not starve the required count
    try:
        pts, tri, mesh = _build_mesh(rng, spec, p, bubble, elevation)
    except Exception as e:  # noqa
        if p > 1 and elevation == "library":
            res.count("library_elevation_raised")
            res.vacuous("the library's order elevation raised %s: no function space to judge" % type(e).__name__)
            return
        raise
    nE = len(tri)
    coords = onp.asarray(mesh.coords, dtype=float)
    conns = onp.asarray(mesh.conns)
    pe = mesh.parentElement
    # The geometry every clause is judged against is the simplex mesh that was put in (pts, tri): element e is the affine image of
    # the reference triangle with (1,0), (0,1), (0,0) -> pts[tri[e]].  Harness-built meshes must agree with it exactly; a mesh
    # elevated by the library is taken as returned (that is the only way a user gets one): a structural defect of it is counted
    # as an observation (C13's clause) and the C03 clauses are judged on it regardless.
    refc = onp.asarray(pe.coordinates, dtype=float)
    Vn = onp.array([int(onp.argmin(onp.abs(refc - onp.array(v)).sum(axis=1))) for v in ((1.0, 0.0), (0.0, 1.0), (0.0, 0.0))])
    vtri = tri
    area_e = onp.asarray(X.shoelace_area(pts, tri), dtype=float)
    lam_all = onp.column_stack((refc[:, 0], refc[:, 1], 1.0 - refc[:, 0] - refc[:, 1]))
    img = onp.einsum("ak,ekd->ead", lam_all, pts[tri])
    valid = conns.ndim == 2 and conns.shape == (nE, refc.shape[0]) and conns.min() >= 0 and conns.max() < len(coords)
    valid = bool(valid) and onp.array_equal(coords[conns[:, Vn]], pts[tri]) and \
        float(onp.abs(img - coords[conns]).max()) <= 1e-13 * (float(onp.abs(coords).max()) + 1e-300) * 10 and len(onp.unique(conns)) == len(coords)
    if not valid:
        if p > 1 and elevation == "library":
            res.count("library_mesh_structural_check_failed")
        else:
            res.inconclusive("harness built an invalid mesh")
            return
    if not (p > 1 and elevation == "library"):
        res.count("mesh_elevated_by_" + ("none" if p == 1 else elevation))
    coords_g = pts                                        # geometry arrays for the oracle: the input simplex mesh
    area = float(area_e.sum())
    h_e = X.min_altitude(coords_g, vtri)
    sides = meshes.boundary_sides(tri)
    if nE >= 2 and (3 * nE - len(sides)) // 2 >= 1:
        res.nontrivial = True
    res.count("mesh_order%d" % p)
    sc = spec["scale"]
    band = "tiny" if sc < 1e-5 else "small" if sc < 0.1 else "unit" if sc <= 10 else "big" if sc <= 1e5 else "large"
    res.count("scale_band_" + band)
    offr = float(onp.abs(pts).max() / h_e.min())
    if offr >= 1e4:
        res.count("offset_over_h_ge_1e4")
    if offr >= 1e6:
        res.count("offset_over_h_ge_1e6")
    if float(area_e.min()) < 5e-11:
        res.count("meshes_with_element_area_below_5e-11")
    if bubble:
        res.count("mesh_bubble")
    if spec["hole"]:
        res.count("mesh_with_hole")
    for k in ("graded", "affine_kind"):
        if spec[k]:
            res.count("mesh_%s" % (spec[k] if k == "affine_kind" else k))
    det0 = {"order": p, "bubble": bubble, "nE": nE, "spec": {k: v for k, v in spec.items() if v}}
    tolS = C_SHAPE * EPS * (p + 1) ** 2
    _selfcheck(res, X)

    mon_p = monos(p)
    Unod = onp.column_stack([_pw(coords[:, 0], a) * _pw(coords[:, 1], b) for a, b in mon_p])       # (nNodes, nMono)
    Uscale = onp.abs(Unod).max(axis=0)
    Uj = jnp.array(Unod)
    blocks = [mesh.blocks["A"], mesh.blocks["B"]]

    # rules as objects: after the library's rule of a degree, a USER rule with the same number of points and the same degree
    # of exactness (the library's points carried along by a symmetry of the reference triangle: other points / another order,
    # same weights).  Every clause below works from the point table of the rule object actually handed to the library.
    rule_list = []
    user_done = False
    for D in case["qdegs"]:
        rule_list.append((D, "library"))
        if not user_done and D >= 2:
            rule_list.append((D, ["reflected", "rotated"][int(case["seed"]) % 2]))
            user_done = True
    for D, variant in rule_list:
        quad = QuadratureRule.create_quadrature_rule_on_triangle(D)
        if variant != "library":
            xg = onp.asarray(quad.xigauss, dtype=float)
            xg2 = xg[:, ::-1].copy() if variant == "reflected" else onp.column_stack([1.0 - xg[:, 0] - xg[:, 1], xg[:, 0]])
            quad = QuadratureRule.QuadratureRule(jnp.array(xg2), quad.wgauss)
            res.count("user_rule_same_size_as_library_rule")
        nq = len(quad)
        det = dict(det0, quad_degree=D, nq=nq, rule=variant)
        fs = FunctionSpace.construct_function_space(mesh, quad)
        fsa = FunctionSpace.construct_function_space(mesh, quad, mode2D="axisymmetric")
        res.count("quad2d_degree_%d" % D)
        shapes, grads, vols = onp.asarray(fs.shapes), onp.asarray(fs.shapeGrads), onp.asarray(fs.vols)
        volsa = onp.asarray(fsa.vols)
        # (a) partition of unity / zero gradient sum at every quadrature point
        res.bound("mesh.partition_of_unity", onp.abs(shapes.sum(axis=2) - 1).max(), tolS, det)
        gs = onp.abs(grads.sum(axis=2)).max(axis=(1, 2)) * h_e
        res.bound("mesh.gradient_sum_zero", gs.max(), tolS, dict(det, elem=int(onp.argmax(gs))))
        res.count("pou_points", nE * nq)
        res.count("gradsum_points", nE * nq)
        # independent physical quadrature points
        lam = _bary_of_ref_points(pe, quad.xigauss)
        Xq = onp.einsum("qk,ekd->eqd", lam, coords_g[vtri])
        Xq_lib = onp.asarray(FunctionSpace.interpolate_to_points(fs, mesh.coords))
        cs = onp.abs(coords).max()
        res.bound("mesh.quadrature_point_positions", onp.abs(Xq_lib - Xq).max(), tolS * cs, det)
        # (b, c) monomial reproduction through the real interpolation / gradient operators
        Uq = onp.asarray(FunctionSpace.interpolate_to_points(fs, Uj))                 # (nE, nq, nMono)
        Gq = onp.asarray(FunctionSpace.compute_field_gradient(fs, Uj))               # (nE, nq, nMono, 2)
        for k, (a, b) in enumerate(mon_p):
            ex = _pw(Xq[..., 0], a) * _pw(Xq[..., 1], b)
            ev = onp.abs(Uq[..., k] - ex).max()
            res.bound("mesh.reproduce_value", ev, tolS * Uscale[k], dict(det, monomial=[a, b]))
            gx = a * _pw(Xq[..., 0], a - 1) * _pw(Xq[..., 1], b) if a > 0 else 0 * ex
            gy = b * _pw(Xq[..., 0], a) * _pw(Xq[..., 1], b - 1) if b > 0 else 0 * ex
            eg = onp.maximum(onp.abs(Gq[..., k, 0] - gx), onp.abs(Gq[..., k, 1] - gy)).max(axis=1) * h_e
            res.bound("mesh.reproduce_gradient", eg.max(), tolS * Uscale[k], dict(det, monomial=[a, b], elem=int(onp.argmax(eg))))
        res.count("repro_value_evals", nE * nq * len(mon_p))
        res.count("repro_grad_evals", nE * nq * len(mon_p) * 2)
        # (d) volumes
        res.bound("mesh.volume_sum_is_area", abs(float(vols.sum()) - area), TOL_INT * area, det)
        res.count("vol_sum_checks")
        # (e) exact integration of the full monomial basis up to the rule's degree
        mon_D = monos(D)
        ref_c, _ = X.monomial_integrals(coords_g, vtri, mon_D, r_weight=False)
        ref_a, _ = X.monomial_integrals(coords_g, vtri, mon_D, r_weight=True)
        A_e = jnp.array([float(a) for a, _ in mon_D])
        B_e = jnp.array([float(b) for _, b in mon_D])

        sv = jnp.zeros((nE, nq, 1))

        def make_integ(fspace):
            def one(a, b):
                f = lambda u, dudx, q, x, dt: x[0] ** a * x[1] ** b          # noqa: E731
                return sum(FunctionSpace.integrate_over_block(fspace, Uj[:, :1], sv, 0.0, f, blk) for blk in blocks)
            return _jit(jax.vmap(one))
        lib_c = onp.asarray(make_integ(fs)(A_e, B_e))
        lib_a = onp.asarray(make_integ(fsa)(A_e, B_e))
        res.count("integrate_over_block_calls", 4 * len(mon_D))
        vs, vsa = float(onp.abs(vols).sum()), float(onp.abs(volsa).sum())
        for k, (a, b) in enumerate(mon_D):
            fq = _pw(Xq_lib[..., 0], a) * _pw(Xq_lib[..., 1], b)
            fmax = float(onp.abs(fq).max())
            d2 = dict(det, monomial=[a, b])
            res.bound("mesh.exact_integral_cartesian", abs(lib_c[k] - ref_c[k]), TOL_INT * vs * fmax, d2)
            res.bound("mesh.exact_integral_cartesian_by_hand", abs(float((vols * fq).sum()) - ref_c[k]), TOL_INT * vs * fmax, d2)
            res.count("exact_integrals_cartesian")
            if a + b + 1 <= D:
                res.bound("mesh.exact_integral_axisymmetric", abs(lib_a[k] - ref_a[k]), TOL_INT * vsa * fmax, d2)
                res.bound("mesh.exact_integral_axisymmetric_by_hand", abs(float((volsa * fq).sum()) - ref_a[k]), TOL_INT * vsa * fmax, d2)
                res.count("exact_integrals_axisym")
            else:
                res.ratio("report_only.axisymmetric_at_rule_degree(not asserted)", abs(lib_a[k] - ref_a[k]), TOL_INT * vsa * fmax)
                res.checks -= 1
                res.count("axisym_reported_only")
        if vsa > 0:
            res.bound("mesh.axisymmetric_volume_sum", abs(float(volsa.sum()) - ref_a[0]), TOL_INT * vsa, det)

    # ---------------------------------------------------------------- divergence theorem over the closed boundary
    edges = jnp.array(onp.array(sides, dtype=int))
    segs = onp.array([[tri[e][s], tri[e][(s + 1) % 3]] for e, s in sides])
    perim = float(onp.linalg.norm(pts[segs[:, 1]] - pts[segs[:, 0]], axis=1).sum())
    bnodes = onp.unique(segs)
    quadS = QuadratureRule.create_quadrature_rule_on_triangle(1)
    fs1 = FunctionSpace.construct_function_space(mesh, quadS)
    q1list = []
    padded_done = False
    for q1d in case["q1degs"]:
        q1list.append((q1d, False))
        if not padded_done and q1d <= 9:
            q1list.append((q1d, True))      # the library's jit-able padded rule (always 5 entries) of the same degree
            padded_done = True
    for q1d, padded in q1list:
        q1 = QuadratureRule.create_padded_quadrature_rule_1D(q1d) if padded else QuadratureRule.create_quadrature_rule_1D(q1d)
        if padded:
            res.count("padded_rule1d_on_edges")
        res.count("rule1d_on_edges_degrees_seen")
        res.obs["rule1d_on_edges_degree_%02d" % q1d] = 1
        low = monos(min(q1d, 5))
        fields = [((a, b), (0, 0), 1.0, 0.0) for a, b in low] + [((0, 0), (c, d), 0.0, 1.0) for c, d in low]
        for a, b in {(q1d, 0), (0, q1d), (q1d // 2, q1d - q1d // 2)}:
            fields += [((a, b), (b, a), 1.0, 1.0)]
        fields += [((int(rng.integers(0, q1d + 1)), 0), (0, int(rng.integers(0, q1d + 1))), 1.0, -1.0)]
        ab = jnp.array([[f[0][0], f[0][1], f[1][0], f[1][1], f[2], f[3]] for f in fields], dtype=float)

        def flux(row):
            fn = lambda u, Xp, n: row[4] * Xp[0] ** row[0] * Xp[1] ** row[1] * n[0] + row[5] * Xp[0] ** row[2] * Xp[1] ** row[3] * n[1]   # noqa: E731
            return FunctionSpace.integrate_function_on_edges(fs1, fn, Uj, q1, edges)
        lhs = onp.asarray(_jit(jax.vmap(flux))(ab))
        lhs_s = None
        if p == 1:
            def flux_s(row):
                fn = lambda Xp, n: row[4] * Xp[0] ** row[0] * Xp[1] ** row[1] * n[0] + row[5] * Xp[0] ** row[2] * Xp[1] ** row[3] * n[1]   # noqa: E731
                return Surface.integrate_function_on_surface(q1, edges, mesh, fn)
            lhs_s = onp.asarray(_jit(jax.vmap(flux_s))(ab))
        for k, ((a, b), (c, d), cx, cy) in enumerate(fields):
            tx = [(cx, a, b)] if cx else []
            ty = [(cy, c, d)] if cy else []
            div_terms = ([(cx * a, a - 1, b)] if cx and a > 0 else []) + ([(cy * d, c, d - 1)] if cy and d > 0 else [])
            rhs, _ = X.integrate_poly_terms(coords_g, vtri, div_terms) if div_terms else (0.0, 0.0)
            ref_flux, ref_abs = X.edge_flux_terms(pts, segs, tx, ty)
            Fmax = max(abs(cx) * (onp.abs(_pw(pts[bnodes, 0], a) * _pw(pts[bnodes, 1], b)).max() if cx else 0.0),
                       abs(cy) * (onp.abs(_pw(pts[bnodes, 0], c) * _pw(pts[bnodes, 1], d)).max() if cy else 0.0))
            scale = perim * Fmax
            d3 = dict(det0, rule1d_degree=q1d, F=[[cx, a, b], [cy, c, d]])
            # the harness's two references must agree with each other (divergence theorem for the exact integrals)
            if abs(ref_flux - rhs) > 1e-14 * scale * 20:
                res.inconclusive("reference flux and reference divergence integral disagree: %r" % ((ref_flux, rhs, scale),))
            res.bound("mesh.divergence_theorem", abs(lhs[k] - rhs), TOL_INT * scale, d3)
            res.count("divergence_checks")
            if spec["hole"]:
                res.count("divergence_with_hole")
            if lhs_s is not None:
                res.bound("mesh.divergence_theorem_surface_module", abs(lhs_s[k] - rhs), TOL_INT * scale, d3)
                res.count("surface_module_checks")
        # fields built from the nodal field u (edge interpolation with the line element), u = all monomials of degree <= order:
        #   F = (wx.u + (vx.u) x, wy.u + (vy.u) y).  The v-part couples the interpolated field with the quadrature-point position,
        #   so a field sampled at the wrong point of the edge is visible; it raises the degree on the edge to order+1.
        if q1d >= p:
            nm = len(mon_p)
            Z = onp.zeros((nm, nm))
            I = onp.eye(nm)
            rows = [onp.hstack([I, Z, Z, Z]), onp.hstack([Z, I, Z, Z]), onp.hstack([rng.standard_normal((2, 2 * nm)), onp.zeros((2, 2 * nm))])]
            if q1d >= p + 1:
                rows += [onp.hstack([Z, Z, I, Z]), onp.hstack([Z, Z, Z, I]), rng.standard_normal((2, 4 * nm))]
                res.count("divergence_field_u_coupled_rows", 2 * nm + 2)
            W = onp.vstack(rows)

            def flux_u(wrow):
                fn = lambda u, Xp, n: (jnp.dot(wrow[:nm], u) + jnp.dot(wrow[2 * nm:3 * nm], u) * Xp[0]) * n[0] \
                    + (jnp.dot(wrow[nm:2 * nm], u) + jnp.dot(wrow[3 * nm:], u) * Xp[1]) * n[1]   # noqa: E731
                return FunctionSpace.integrate_function_on_edges(fs1, fn, Uj, q1, edges)
            lhs_u = onp.asarray(_jit(jax.vmap(flux_u))(jnp.array(W)))
            cs = float(onp.abs(pts[bnodes]).max())
            for k in range(W.shape[0]):
                div_terms = []
                Fm = 0.0
                for m, (a, b) in enumerate(mon_p):
                    wx, wy, vx, vy = W[k, m], W[k, nm + m], W[k, 2 * nm + m], W[k, 3 * nm + m]
                    if a > 0 and wx != 0:
                        div_terms.append((wx * a, a - 1, b))
                    if b > 0 and wy != 0:
                        div_terms.append((wy * b, a, b - 1))
                    if vx != 0:
                        div_terms.append((vx * (a + 1), a, b))
                    if vy != 0:
                        div_terms.append((vy * (b + 1), a, b))
                    Fm += (abs(wx) + abs(wy) + (abs(vx) + abs(vy)) * cs) * Uscale[m]
                rhs, _ = X.integrate_poly_terms(coords_g, vtri, div_terms) if div_terms else (0.0, 0.0)
                res.bound("mesh.divergence_theorem_field_u", abs(lhs_u[k] - rhs), TOL_INT * perim * Fm, dict(det0, rule1d_degree=q1d, row=k))
                res.count("divergence_field_u")
                res.count("divergence_checks")


def finalize(results, tier):
    seen = set()
    for r in results:
        for k in r.get("obs", {}):
            if k.startswith("rule1d_on_edges_degree_"):
                seen.add(int(k[-2:]))
    missing = []
    if len(seen) < 26:
        missing.append("1-D rule degrees used on physical edges: %d of 26" % len(seen))
    return {"rule1d_degrees_on_edges": sorted(seen), "_missing": missing}


def run_case(case):
    res = Res(case)
    rng = rng_of(case["seed"])
    cls = case["cls"]
    if cls == "mesh":
        run_mesh(case, res, rng)
    elif cls == "ref2d":
        run_ref2d(case, res, rng)
    elif cls == "ref1d":
        run_ref1d(case, res, rng)
    else:
        res.inconclusive("unknown class " + cls)
    return res
