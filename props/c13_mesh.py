"""C13 — mesh construction, order elevation, merging and reading keep meshes valid.

Monitor: every Mesh tuple (and every create_edges table) returned by the real functions is handed to a pure-numpy
structural validator (vlib/oracles/c13_validate.py) and compared member-by-member with what the harness put in.
Files for the readers are written by the harness itself (netCDF4 / json) into a temporary directory.
"""
import os
import shutil
import tempfile

import numpy as onp

from vlib.common import Res, derive_seed, rng_of

PROPERTY = "C13"
LEVEL = "exploration"
RULE = ("cases are seeded members of six classes: structured (Nx,Ny in 2..9, order 1..5 +/- bubble); every class places its meshes by x -> s*x + b, s over 1e-8..1e8 (generic and "
        "power-of-two), offsets |b| up to 1e7 element sizes; "
        "elevate (jittered-Delaunay mesh +/- hole, graded, rotated/anisotropic/sheared placement, random cyclic rotation of every connectivity row, "
        "shuffled element order; each base mesh elevated to order 2..5 with and without bubble, with copied node sets / node sets from side sets); "
        "edges (create_edges on structured and Delaunay meshes up to ~250 elements, numpy and jax input); combine (pairs and chains of three linear "
        "meshes with 1-3 blocks, node/side sets or None, names disjoint / equal / mixed, empty sets); exodus (tri3/tri6 files in Exodus node order with "
        "shuffled node numbers, 1-3 blocks, named / unnamed / partly named sets, with/without elem_num_map, netCDF3/4, int32/int64); json. "
        "Non-trivial = the mesh under test has >= 2 elements and >= 1 interior edge; distinct = canonical hash of the case parameters.")
ASSUMPTIONS = [
    "the numpy validator (independent edge dict on sorted vertex pairs, shoelace areas, barycentric affine image, multiset comparison) is correct",
    "input meshes from the harness generators are valid CCW triangulations (asserted by the same validator before use)",
    "coordinate tolerance 1e-13*(diameter+max|coord|) (about 450 eps); duplicate-node threshold 1e-9*diameter; everything else exact",
    "an exception raised by a library call on a valid input counts as a violation (no mesh produced)",
    "read_json_mesh returns blocks=None by design (the JSON layout has no block table); that is reported, not flagged",
    "Exodus files written with netCDF4 follow the layout of optimism/test/*.exo (dimension/variable names, 1-based indices, S1 name tables)",
]
REQUIRED = {
    "all": {
        "meshes_validated": 100, "shared_edges_checked": 1000, "edge_tables_checked": 30, "boundary_edge_rows_checked": 200,
        "elev_order2": 10, "elev_order3": 10, "elev_order4": 10, "elev_order5": 10, "elev_bubble": 20, "elev_rotated_rows": 10, "elev_hole": 3,
        "elev_nodesets_from_sidesets": 5, "elev_copy_nodesets": 5,
        "merge_equal_block_names": 5, "merge_equal_nodeset_names": 5, "merge_equal_sideset_names": 5, "merge_disjoint_names": 5,
        "merge_members_compared": 200, "merge_chain3": 3, "merge_then_elevate": 5,
        "exodus_tri3": 5, "exodus_tri6": 5, "exodus_unnamed_sets": 3, "exodus_named_sets": 3, "exodus_no_elem_map": 3, "exodus_elem_map": 3,
        "exodus_multi_block": 5, "exodus_tri6_midside_checked": 100, "read_members_compared": 200, "json_files": 5,
        "structured_meshes": 10, "scale_tiny_meshes": 20, "scale_large_meshes": 20, "scale_mid_meshes": 20, "offset_meshes": 15,
        "class:structured": 5, "merge_operand_checked_numpy_backed": 20, "exodus_files_with_10_or_more_nodesets": 4, "exodus_files_with_10_or_more_sidesets": 4, "edges_meshes_over_1365_triangles": 2, "edges_gapped_node_numbering": 10, "edges_tiny_tables": 60, "merge_repeated_with_same_operands": 10, "class:elevate": 5, "class:edges": 5, "class:combine": 5, "class:exodus": 5, "class:json": 3,
    },
}
WATCHDOG_S = {"quick": 1800, "thorough": 4 * 3600}

N_CASES = {
    "quick": {"structured": 60, "elevate": 64, "edges": 64, "combine": 128, "exodus": 128, "json": 48},
    "thorough": {"structured": 2000, "elevate": 3200, "edges": 2400, "combine": 8000, "exodus": 8000, "json": 2000},
}
COST = {"structured": 2.0, "elevate": 6.0, "edges": 0.5, "combine": 0.5, "exodus": 0.5, "json": 0.3}


def build_cases(tier, seed):
    cases = []
    for cls, n in N_CASES[tier].items():
        for i in range(n):
            cases.append({"cls": cls, "i": i, "tier": tier, "group": "g%d" % (len(cases) % 32), "cost": COST[cls],
                          "seed": derive_seed(seed, PROPERTY, cls, i)})
    return cases


# ------------------------------------------------------------------------------------------------ helpers

def _call(res, clause, fn, *a, **k):
    """Run a library call that must succeed on valid input; an exception is a violation (and returns None)."""
    try:
        return fn(*a, **k)
    except Exception as e:  # noqa
        res.violate(clause + ".raised", {"exception": type(e).__name__, "message": str(e)[:300]})
        return None


def _jnp():
    import jax.numpy as jnp
    return jnp


def _scale_offset(rng, i):
    """Absolute-scale sweep x -> s*x + b by case index: s over 1e-8..1e8 (generic and power-of-two factors), offsets of up to 1e7 element
    sizes (what float64 still resolves), max |coordinate| kept <= 1e8.  Returns (scale, offset_ratio)."""
    u = rng.uniform
    mode = i % 6
    if mode == 0:
        return 1.0, 0.0
    if mode == 1:
        return 10.0 ** u(-8, -5), 0.0
    if mode == 2:
        return 10.0 ** u(5, 8), 0.0
    if mode == 3:
        k = int(rng.integers(10, 27))
        return (2.0 ** -k if (i // 6) % 2 == 0 else 2.0 ** k), 0.0
    if mode == 4:
        return 10.0 ** u(-0.5, 0.5), 10.0 ** u(3, 7)
    return (10.0 ** u(-8, -3) if (i // 6) % 2 == 0 else 10.0 ** u(1, 4)), 10.0 ** u(2, 6)


def _apply_scale_offset(rng, pts, tri, scale, offset_ratio):
    from vlib.oracles import c03_exact
    pts = onp.asarray(pts, dtype=float) * scale
    if offset_ratio > 0:
        hmin = float(c03_exact.min_altitude(pts, tri).min())
        bmag = min(offset_ratio * hmin, 1e8 - float(onp.abs(pts).max()))
        th = rng.uniform(0, 2 * onp.pi)
        pts = pts + bmag * onp.array([onp.cos(th), onp.sin(th)])
    return pts


def _count_scale(res, pts, tri, scale):
    from vlib.oracles import c03_exact
    res.count("scale_tiny_meshes" if scale < 1e-5 else "scale_large_meshes" if scale > 1e5 else "scale_mid_meshes")
    if float(onp.abs(pts).max()) / float(c03_exact.min_altitude(pts, tri).min()) >= 1e4:
        res.count("offset_meshes")


def _base_spec(rng, i, small=True, tier="quick"):
    """Stratified random description of a simplex mesh (by case index i)."""
    lo, hi = ((3, 6) if tier == "quick" else (3, 8)) if small else (4, 13)
    spec = {"nx": int(rng.integers(lo, hi)), "ny": int(rng.integers(lo, hi)),
            "hole": (i % 4 == 1), "graded": (i % 5 == 2), "rotate_rows": (i % 8 != 7),
            "affine_kind": [None, "rot", "aniso", "shear"][(i // 2) % 4]}
    spec["scale"], spec["offset_ratio"] = (float(v) for v in _scale_offset(rng, i))
    if spec["hole"]:
        spec["nx"] = max(spec["nx"], 5)
        spec["ny"] = max(spec["ny"], 5)
    return spec


def _simplex_data(rng, spec, shift=None):
    from vlib.gen import meshes
    aff = meshes.random_affine(rng, spec["affine_kind"]) if spec.get("affine_kind") else None
    pts, tri = meshes.random_simplex_data(rng, spec["nx"], spec["ny"], hole=spec["hole"], graded=spec["graded"], affine=aff,
                                          rotate_rows=spec["rotate_rows"])
    if shift is not None:
        pts = pts + onp.asarray(shift)
    pts = _apply_scale_offset(rng, pts, tri, spec.get("scale", 1.0), spec.get("offset_ratio", 0.0))
    return pts, tri


def _rand_blocks(rng, nE, names):
    """Random partition of the elements into len(names) non-empty, non-contiguous blocks."""
    k = min(len(names), nE)
    lab = onp.concatenate([onp.arange(k), rng.integers(0, k, size=nE - k)])
    rng.shuffle(lab)
    return {names[j]: onp.where(lab == j)[0] for j in range(k)}


def _to_j(d):
    jnp = _jnp()
    if d is None:
        return None
    return {k: jnp.array(onp.asarray(v, dtype=int)) for k, v in d.items()}


def _nontrivial(res, info):
    if info is not None and info["conns"].shape[0] >= 2 and info["n_interior_edges"] >= 1:
        res.nontrivial = True


# ------------------------------------------------------------------------------------------------ classes

def run_structured(case, res, rng):
    from optimism import Mesh
    from vlib.oracles import c13_validate as V
    i = case["i"]
    order = 1 + i % 5
    bubble = bool(order >= 2 and (i // 5) % 2 == 1)
    nx, ny = int(rng.integers(2, 10)), int(rng.integers(2, 10))
    if order >= 4:
        nx, ny = min(nx, 5), min(ny, 5)
    s, offr = _scale_offset(rng, i // 5 + i)
    wx, wy = rng.uniform(0.2, 3.0, size=2) * s
    if offr > 0:
        bmag = min(offr * min(wx / (nx - 1), wy / (ny - 1)), 1e8 - 3 * s)
        th = rng.uniform(0, 2 * onp.pi)
        x0, y0 = bmag * onp.cos(th), bmag * onp.sin(th)
        res.count("offset_meshes")
    else:
        x0, y0 = rng.uniform(-2, 2, size=2) * s
    res.count("scale_tiny_meshes" if s < 1e-5 else "scale_large_meshes" if s > 1e5 else "scale_mid_meshes")
    xext = [float(x0), float(x0 + wx)]
    yext = [float(y0), float(y0 + wy)]
    mesh = _call(res, "structured", Mesh.construct_structured_mesh, nx, ny, xext, yext, order, bubble)
    if mesh is None:
        return
    tag = "structured %dx%d order %d bubble %s" % (nx, ny, order, bubble)
    info = V.validate_mesh(res, mesh, tag, expect_degree=order, expect_bubble=bubble)
    if info is None:
        return
    _nontrivial(res, info)
    res.count("structured_meshes")
    res.count("structured_order%d" % order)
    nE = 2 * (nx - 1) * (ny - 1)
    res.expect("structured.counts", info["conns"].shape[0] == nE and len(set(info["tri"].ravel().tolist())) == nx * ny,
               {"tag": tag, "nE": int(info["conns"].shape[0]), "expected": nE})
    # the vertex nodes are exactly the grid points, the elements tile the rectangle
    gx, gy = onp.meshgrid(onp.linspace(xext[0], xext[1], nx), onp.linspace(yext[0], yext[1], ny))
    grid = onp.column_stack((gx.ravel(), gy.ravel()))
    vert = info["coords"][onp.unique(info["tri"].ravel())]
    a = grid[onp.lexsort((grid[:, 0], grid[:, 1]))]
    b = vert[onp.lexsort((vert[:, 0], vert[:, 1]))]
    res.bound("structured.grid_points", float(onp.abs(a - b).max()) if a.shape == b.shape else onp.inf, 1e-13 * info["scale"], {"tag": tag})
    area = (xext[1] - xext[0]) * (yext[1] - yext[0])
    res.bound("structured.area_sum", abs(float(info["area"].sum()) - area), 1e-13 * info["scale"] ** 2, {"tag": tag})
    blocks = mesh.blocks
    res.expect("structured.block_covers_all", blocks is not None and V.multiset(onp.concatenate([V.A(b) for b in blocks.values()])) == list(range(nE)),
               {"tag": tag})
    ec_et = _call(res, "edges", Mesh.create_edges, mesh.conns[:, V.A(mesh.parentElement.vertexNodes)])
    if ec_et is not None:
        V.check_edge_table(res, info["coords"], info["tri"], ec_et[0], ec_et[1], tag)


def _check_elevated(res, V, base_info, base_mesh, new, order, bubble, tag, copy_ns, from_ss):
    info = V.validate_mesh(res, new, tag, expect_degree=order, expect_bubble=bubble)
    if info is None:
        return None
    # element e keeps its vertices (coordinates, in the same local order), so sets and blocks keep their meaning
    res.expect("elev.vertices_kept", info["tri"].shape == base_info["tri"].shape
               and onp.array_equal(info["coords"][info["tri"]], base_info["coords"][base_info["tri"]]), {"tag": tag})
    res.expect("elev.blocks_kept", set(new.blocks) == set(base_mesh.blocks)
               and all(V.multiset(new.blocks[k]) == V.multiset(base_mesh.blocks[k]) for k in base_mesh.blocks), {"tag": tag})
    if base_mesh.sideSets is not None:
        res.expect("elev.sidesets_kept", new.sideSets is not None and set(new.sideSets) == set(base_mesh.sideSets)
                   and all(V.multiset(new.sideSets[k]) == V.multiset(base_mesh.sideSets[k]) for k in base_mesh.sideSets), {"tag": tag})
    if copy_ns and base_mesh.nodeSets is not None:
        # copied node sets must still name the same points
        same = new.nodeSets is not None and set(new.nodeSets) == set(base_mesh.nodeSets) and all(
            V.A(new.nodeSets[k]).shape == V.A(base_mesh.nodeSets[k]).shape and
            onp.array_equal(info["coords"][V.A(new.nodeSets[k]).astype(int)], base_info["coords"][V.A(base_mesh.nodeSets[k]).astype(int)])
            for k in base_mesh.nodeSets)
        res.expect("elev.copied_nodesets_same_points", bool(same), {"tag": tag})
        res.count("elev_copy_nodesets")
    if from_ss and base_mesh.sideSets is not None:
        ok = new.nodeSets is not None and set(new.nodeSets) == set(base_mesh.sideSets)
        if ok:
            for name, ss in base_mesh.sideSets.items():
                want = set()
                for e, s in V.A(ss).reshape(-1, 2):
                    # geometric definition: the nodes of element e that lie on its side s
                    a = info["coords"][info["tri"][e, s]]
                    b = info["coords"][info["tri"][e, (s + 1) % 3]]
                    X = info["coords"][info["conns"][e]]
                    d = b - a
                    off = onp.abs((X[:, 0] - a[0]) * d[1] - (X[:, 1] - a[1]) * d[0]) / onp.linalg.norm(d)
                    want |= set(info["conns"][e][off <= 1e-12 * info["scale"]].tolist())
                got = V.A(new.nodeSets[name])
                ok = ok and set(got.tolist()) == want and len(set(got.tolist())) == got.size
        res.expect("elev.nodesets_from_sidesets", bool(ok), {"tag": tag})
        res.count("elev_nodesets_from_sidesets")
    res.count("elev_order%d" % order)
    if bubble:
        res.count("elev_bubble")
    res.count("elevated_meshes")
    return info


def run_elevate(case, res, rng, tier):
    from optimism import Mesh
    from vlib.gen import meshes, c13_meshfiles as G
    from vlib.oracles import c13_validate as V
    i = case["i"]
    spec = _base_spec(rng, i, small=True, tier=case.get("tier", "quick"))
    pts, tri = _simplex_data(rng, spec)
    nE = len(tri)
    mode = i % 3          # 0: plain, 1: node sets copied, 2: node sets from side sets
    nodeSets = G.random_node_sets(rng, len(pts), ["nsA", "nsB"]) if mode == 1 else None
    sideSets = G.random_side_sets(rng, tri, ["ssA", "ssB", "ssC"]) if mode in (1, 2) else None
    blocks = _rand_blocks(rng, nE, ["b0", "b1"][: 1 + i % 2])
    base = meshes.make_mesh(pts, tri, _to_j(blocks), _to_j(nodeSets), _to_j(sideSets))
    tagb = "delaunay %s nE=%d" % ({k: v for k, v in spec.items() if v}, nE)
    binfo = V.validate_mesh(res, base, "input " + tagb, expect_degree=1, expect_bubble=False)
    if binfo is None or res.status == "violated":
        res.inconclusive("harness produced an invalid input mesh")
        return
    _nontrivial(res, binfo)
    _count_scale(res, pts, tri, spec["scale"])
    if spec["rotate_rows"]:
        res.count("elev_rotated_rows")
    if spec["hole"]:
        res.count("elev_hole")
    res.expect("elev.order1_is_identity", Mesh.create_higher_order_mesh_from_simplex_mesh(base, 1) is base, {"tag": tagb})
    ec_et = _call(res, "edges", Mesh.create_edges, base.conns)
    if ec_et is not None:
        V.check_edge_table(res, pts, tri, ec_et[0], ec_et[1], tagb)
    for order in (2, 3, 4, 5):
        for bubble in (False, True):
            tag = "%s -> order %d bubble %s" % (tagb, order, bubble)
            new = _call(res, "elevate", Mesh.create_higher_order_mesh_from_simplex_mesh, base, order, useBubbleElement=bubble,
                        copyNodeSets=(mode == 1), createNodeSetsFromSideSets=(mode == 2))
            if new is None:
                continue
            _check_elevated(res, V, binfo, base, new, order, bubble, tag, mode == 1, mode == 2)


def run_edges(case, res, rng):
    from optimism import Mesh
    from vlib.oracles import c13_validate as V
    jnp = _jnp()
    i = case["i"]
    if i % 8 == 5:
        # tiny meshes (2..~40 triangles) under many node renumberings: the smallest admissible tables (the single-cell 2x2 mesh
        # first, as generated) and every way small node ids can sit next to the largest one
        from scipy.spatial import Delaunay
        subs = []
        m = Mesh.construct_structured_mesh(2, 2, [0.0, 1.0], [0.0, 1.0])
        subs.append((onp.asarray(m.coords), onp.asarray(m.conns), "tiny structured 2x2 as generated"))
        for j in range(14):
            if j % 2 == 0:
                nx, ny = [(2, 2), (2, 3), (3, 2), (3, 3), (4, 3), (3, 4), (4, 4)][int(rng.integers(7))]
                m = Mesh.construct_structured_mesh(nx, ny, [0.0, 1.0], [0.0, 1.0])
                p0, t0 = onp.asarray(m.coords), onp.asarray(m.conns)
                tg = "tiny structured %dx%d" % (nx, ny)
            else:
                npt = int(rng.integers(4, 22))
                p0 = rng.random((npt, 2))
                t0 = Delaunay(p0).simplices.astype(int)
                a, b, c = p0[t0[:, 0]], p0[t0[:, 1]], p0[t0[:, 2]]
                area = 0.5 * ((b[:, 0] - a[:, 0]) * (c[:, 1] - a[:, 1]) - (b[:, 1] - a[:, 1]) * (c[:, 0] - a[:, 0]))
                t0 = onp.where((area < 0)[:, None], t0[:, [0, 2, 1]], t0)
                t0 = t0[onp.abs(area) > 1e-9]
                used = onp.unique(t0)
                if len(t0) < 1 or len(used) != npt:
                    continue
                tg = "tiny delaunay %d points" % npt
            if j >= 2 or j % 2:
                perm = rng.permutation(len(p0))
                p1 = onp.empty_like(p0)
                p1[perm] = p0
                t1 = perm[t0]
                t1 = t1[rng.permutation(len(t1))]
                t1 = onp.array([onp.roll(r, int(k)) for r, k in zip(t1, rng.integers(0, 3, size=len(t1)))])
                tg += " renumbered"
            else:
                p1, t1 = p0, t0
            subs.append((p1, t1, tg))
        for k, (p1, t1, tg) in enumerate(subs):
            conns = jnp.array(t1) if (i + k) % 2 == 0 else onp.array(t1)
            ec_et = _call(res, "edges", Mesh.create_edges, conns)
            if ec_et is None:
                return
            V.check_edge_table(res, p1, t1, ec_et[0], ec_et[1], tg)
            res.count("edges_tiny_tables")
        res.nontrivial = True
        return
    if i % 16 == 7:
        nx, ny = [(30, 26), (41, 35), (55, 52), (28, 27)][(i // 16) % 4]      # 1450 / 2720 / 5508 / 1404 triangles
        m = Mesh.construct_structured_mesh(nx, ny, [0.0, 1.0], [0.0, float(rng.uniform(0.3, 2))])
        pts, tri = onp.asarray(m.coords), onp.asarray(m.conns)
        tri = tri[rng.permutation(len(tri))]
        tri = onp.array([onp.roll(r, int(k)) for r, k in zip(tri, rng.integers(0, 3, size=len(tri)))])
        tag = "structured-large %dx%d shuffled" % (nx, ny)
        res.count("edges_meshes_over_1365_triangles")
    elif i % 4 == 3:
        nx, ny = int(rng.integers(2, 12)), int(rng.integers(2, 12))
        m = Mesh.construct_structured_mesh(nx, ny, [0.0, 1.0], [0.0, float(rng.uniform(0.3, 2))])
        pts, tri = onp.asarray(m.coords), onp.asarray(m.conns)
        tag = "structured %dx%d" % (nx, ny)
    else:
        spec = _base_spec(rng, i, small=False)
        pts, tri = _simplex_data(rng, spec)
        tag = "delaunay %s nE=%d" % ({k: v for k, v in spec.items() if v}, len(tri))
        if spec["hole"]:
            res.count("edges_hole")
    if i % 3 == 1:
        # create_edges only sees a connectivity table: node numbers with gaps (a block of a larger mesh, a hole cut out while
        # keeping the node array) are as admissible as 0..n-1
        # an arbitrary injection of the node numbers into a larger range (no arithmetic pattern: deleted interior nodes,
        # blocks of a larger mesh)
        M = int(len(pts) * rng.uniform(1.2, 4.0)) + int(rng.integers(1, 30))
        newid = rng.choice(M, size=len(pts), replace=False)
        if i % 2:
            newid = onp.sort(newid)
        big = onp.full((M, 2), onp.nan)
        big[newid] = pts
        pts, tri = big, newid[tri]
        tag += " gapped-numbering(%d ids in 0..%d)" % (len(newid), M - 1)
        res.count("edges_gapped_node_numbering")
    conns = jnp.array(tri) if i % 2 == 0 else onp.array(tri)
    res.count("edges_input_jax" if i % 2 == 0 else "edges_input_numpy")
    ec_et = _call(res, "edges", Mesh.create_edges, conns)
    if ec_et is None:
        return
    V.check_edge_table(res, pts, tri, ec_et[0], ec_et[1], tag)
    ed = V.edge_dict(tri)
    if len(tri) >= 2 and any(len(v) == 2 for v in ed.values()):
        res.nontrivial = True


def _rand_linear_mesh(rng, i, k, names_mode, shift, scale=1.0, bvec=(0.0, 0.0)):
    """One operand of combine_mesh: (mesh, disp, description of what was put in)."""
    from optimism import Mesh
    from vlib.gen import meshes, c13_meshfiles as G
    jnp = _jnp()
    if rng.random() < 0.3:
        nx, ny = int(rng.integers(2, 5)), int(rng.integers(2, 5))
        m = Mesh.construct_structured_mesh(nx, ny, [shift[0] * scale + bvec[0], (shift[0] + 1.0) * scale + bvec[0]],
                                           [shift[1] * scale + bvec[1], (shift[1] + 1.0) * scale + bvec[1]])
        pts, tri = onp.asarray(m.coords), onp.asarray(m.conns)
        structured = True
    else:
        spec = {"nx": int(rng.integers(3, 6)), "ny": int(rng.integers(3, 6)), "hole": rng.random() < 0.2, "graded": rng.random() < 0.2,
                "rotate_rows": True, "affine_kind": None}
        if spec["hole"]:
            spec["nx"] = spec["ny"] = 5
        pts, tri = _simplex_data(rng, spec, shift=shift)
        pts = pts * scale + onp.asarray(bvec)
        structured = False
    nE = len(tri)
    # name pools: in 'equal' mode all operands draw the same names, in 'disjoint' mode names carry the operand index
    def names(prefix, n):
        if names_mode == "equal":
            return ["%s%d" % (prefix, j) for j in range(n)]
        if names_mode == "disjoint":
            return ["%s%d_m%d" % (prefix, j, k) for j in range(n)]
        return ["%s%d" % (prefix, j) if rng.random() < 0.5 else "%s%d_m%d" % (prefix, j, k) for j in range(n)]
    if structured and rng.random() < 0.5:
        blocks = {"block_0": onp.arange(nE)}          # the generator's own default name: the D9 witness
    else:
        blocks = _rand_blocks(rng, nE, names("blk", int(rng.integers(1, 4))))
    r = rng.random()
    nodeSets = None if r < 0.15 else G.random_node_sets(rng, len(pts), names("ns", int(rng.integers(1, 4))), allow_empty=True)
    r = rng.random()
    sideSets = None if r < 0.15 else G.random_side_sets(rng, tri, names("ss", int(rng.integers(1, 4))), allow_empty=True)
    # what file readers return: plain (writeable) numpy arrays for blocks and node sets; otherwise jax arrays.  The mesh gets its
    # own copies, so that the description below stays what was put in even if the library writes into its arguments.
    numpy_backed = rng.random() < 0.4
    conv = (lambda d: None if d is None else {k2: onp.array(v, copy=True) for k2, v in d.items()}) if numpy_backed else _to_j
    mesh = meshes.make_mesh(pts, tri, conv(blocks), conv(nodeSets), _to_j(sideSets))
    disp = rng.standard_normal(pts.shape)
    return mesh, jnp.array(disp), {"pts": pts, "tri": tri, "blocks": blocks, "nodeSets": nodeSets, "sideSets": sideSets, "disp": disp,
                                   "numpy_backed": numpy_backed}


def _expected_merge(a, b):
    """Specification of merging, on plain python/numpy data."""
    nN, nE = len(a["pts"]), len(a["tri"])
    out = {"pts": onp.vstack((a["pts"], b["pts"])), "tri": onp.vstack((a["tri"], b["tri"] + nN)), "disp": onp.vstack((a["disp"], b["disp"]))}
    blocks = {k: [int(v) for v in vals] for k, vals in a["blocks"].items()}
    for k, vals in b["blocks"].items():
        blocks.setdefault(k, []).extend(int(v) + nE for v in vals)
    out["blocks"] = blocks
    if a["nodeSets"] is None and b["nodeSets"] is None:
        out["nodeSets"] = None
    else:
        ns = {k: [int(v) for v in vals] for k, vals in (a["nodeSets"] or {}).items()}
        for k, vals in (b["nodeSets"] or {}).items():
            ns.setdefault(k, []).extend(int(v) + nN for v in vals)
        out["nodeSets"] = ns
    if a["sideSets"] is None and b["sideSets"] is None:
        out["sideSets"] = None
    else:
        ss = {k: [(int(e), int(s)) for e, s in onp.asarray(vals).reshape(-1, 2)] for k, vals in (a["sideSets"] or {}).items()}
        for k, vals in (b["sideSets"] or {}).items():
            ss.setdefault(k, []).extend((int(e) + nE, int(s)) for e, s in onp.asarray(vals).reshape(-1, 2))
        out["sideSets"] = ss
    return out


def _compare_sets(res, V, clause, got, want, tag, what):
    """got: dict name -> array (or None); want: dict name -> list (or None).  Multiset equality of members, exact key set."""
    if want is None:
        res.expect(clause + "_presence", got is None or len(got) == 0, {"tag": tag, "what": what})
        return
    if got is None:
        res.expect(clause + "_presence", False, {"tag": tag, "what": what, "got": None, "expected_names": sorted(want)})
        return
    res.expect(clause + "_names", set(got.keys()) == set(want.keys()), {"tag": tag, "what": what, "got": sorted(map(str, got.keys())), "expected": sorted(want)})
    for k, w in want.items():
        if k not in got:
            continue
        g = V.multiset(got[k])
        w = sorted(w)
        lost = len(w) - len(g)
        res.expect(clause + "_members", g == w, {"tag": tag, "what": what, "name": k, "n_got": len(g), "n_expected": len(w), "lost": lost,
                                                 "got_head": g[:8], "expected_head": w[:8]})
        res.count("%s_members_compared" % clause.split(".")[0], len(w))


def run_combine(case, res, rng):
    from optimism import Mesh
    from vlib.oracles import c13_validate as V
    i = case["i"]
    names_mode = ["equal", "disjoint", "mixed"][i % 3]
    nops = 3 if i % 8 == 5 else 2
    ops = []
    # all operands share one placement x -> s*x + b (they stay disjoint): absolute-scale sweep as in the other classes
    scale, offr = _scale_offset(rng, i // 3 + i)
    bmag = min(offr * 0.1 * scale, 1e8 - 10.0 * scale) if offr > 0 else 0.0
    th = rng.uniform(0, 2 * onp.pi)
    bvec = (bmag * onp.cos(th), bmag * onp.sin(th))
    res.count("scale_tiny_meshes" if scale < 1e-5 else "scale_large_meshes" if scale > 1e5 else "scale_mid_meshes")
    if offr >= 1e4:
        res.count("offset_meshes")
    for k in range(nops):
        shift = [2.5 * k + float(rng.uniform(0, 0.5)), float(rng.uniform(-1, 1))]
        ops.append(_rand_linear_mesh(rng, i, k, names_mode, shift, scale, bvec))
    for k, (m, _, d) in enumerate(ops):
        V.validate_mesh(res, m, "input operand %d" % k, expect_degree=1, expect_bubble=False)
    if res.status == "violated":
        res.inconclusive("harness produced an invalid input mesh")
        return
    cur_mesh, cur_disp, cur = ops[0]
    for k in range(1, nops):
        m2, d2, desc2 = ops[k]
        for kind in ("blocks", "nodeSets", "sideSets"):
            n1, n2 = set((cur[kind] or {}).keys()), set((desc2[kind] or {}).keys())
            short = {"blocks": "block", "nodeSets": "nodeset", "sideSets": "sideset"}[kind]
            if n1 & n2:
                res.count("merge_equal_%s_names" % short)
            if n1 and n2 and not (n1 & n2):
                res.count("merge_disjoint_names")
        tag = "combine[%s] step %d: nE %d+%d" % (names_mode, k, len(cur["tri"]), len(desc2["tri"]))
        out = _call(res, "merge", Mesh.combine_mesh, (cur_mesh, cur_disp), (m2, d2))
        if out is None:
            return
        merged, disp = out
        want = _expected_merge(cur, desc2)
        info = V.validate_mesh(res, merged, tag, expect_degree=1, expect_bubble=False)
        if info is None:
            return
        _nontrivial(res, info)
        res.expect("merge.coords", onp.array_equal(info["coords"], want["pts"]), {"tag": tag})
        res.expect("merge.conns", onp.array_equal(info["conns"], want["tri"]), {"tag": tag})
        res.expect("merge.disp", onp.array_equal(onp.asarray(disp), want["disp"]), {"tag": tag})
        _compare_sets(res, V, "merge.blocks", merged.blocks, want["blocks"], tag, "blocks")
        _compare_sets(res, V, "merge.nodesets", merged.nodeSets, want["nodeSets"], tag, "nodeSets")
        _compare_sets(res, V, "merge.sidesets", merged.sideSets, want["sideSets"], tag, "sideSets")
        # no element lost: the blocks of the result still cover every element exactly once
        allb = sorted(v for vals in ({k2: V.multiset(b) for k2, b in merged.blocks.items()}).values() for v in vals)
        res.expect("merge.no_element_lost", allb == list(range(info["conns"].shape[0])),
                   {"tag": tag, "in_blocks": len(allb), "elements": int(info["conns"].shape[0])})
        # the operands must come out of the call unchanged (a mesh is routinely merged more than once, and a reader's mesh is
        # still used after the merge)
        for who, (mm, dd) in (("first", (cur_mesh, cur)), ("second", (m2, desc2))):
            same = onp.array_equal(onp.asarray(mm.coords), dd["pts"]) and onp.array_equal(onp.asarray(mm.conns), dd["tri"])
            for kind in ("blocks", "nodeSets", "sideSets"):
                have, put = getattr(mm, kind), dd[kind]
                if (have is None) != (put is None):
                    same = False
                elif have is not None:
                    same = same and set(have.keys()) == set(put.keys()) and all(
                        onp.array_equal(onp.asarray(have[k2]).reshape(-1), onp.asarray(put[k2]).reshape(-1)) for k2 in put)
            res.expect("merge.operands_unchanged", same, {"tag": tag, "operand": who, "numpy_backed": bool(dd.get("numpy_backed"))})
            res.count("merge_operand_checked_numpy_backed" if dd.get("numpy_backed") else "merge_operand_checked_jax_backed")
        # merging the very same operands again must give the very same result
        if k == 1 and i % 2 == 0:
            out2 = _call(res, "merge", Mesh.combine_mesh, (cur_mesh, cur_disp), (m2, d2))
            if out2 is not None:
                again = V.validate_mesh(Res({}), out2[0], tag + " (repeat)", expect_degree=1, expect_bubble=False)
                ok = again is not None and onp.array_equal(again["coords"], info["coords"]) and onp.array_equal(again["conns"], info["conns"])
                res.expect("merge.repeat_identical", ok, {"tag": tag})
                _compare_sets(res, V, "merge.repeat_blocks", out2[0].blocks, want["blocks"], tag, "blocks")
                _compare_sets(res, V, "merge.repeat_nodesets", out2[0].nodeSets, want["nodeSets"], tag, "nodeSets")
                _compare_sets(res, V, "merge.repeat_sidesets", out2[0].sideSets, want["sideSets"], tag, "sideSets")
                res.count("merge_repeated_with_same_operands")
        cur_mesh, cur_disp = merged, disp
        cur = {"pts": want["pts"], "tri": want["tri"], "disp": want["disp"], "blocks": want["blocks"], "nodeSets": want["nodeSets"], "sideSets": want["sideSets"]}
        if k == 2:
            res.count("merge_chain3")
    res.count("merges")
    # a merged mesh is itself a simplex mesh: elevating it (two or three disjoint bodies) must again give a valid mesh
    if i % 4 == 0:
        order = 2 + (i // 4) % 2
        binfo = V.validate_mesh(Res({}), cur_mesh, "merged (pre-elevation)", expect_degree=1, expect_bubble=False)
        new = _call(res, "elevate", Mesh.create_higher_order_mesh_from_simplex_mesh, cur_mesh, order, copyNodeSets=(cur_mesh.nodeSets is not None))
        if new is not None and binfo is not None:
            _check_elevated(res, V, binfo, cur_mesh, new, order, False, "merged[%s] -> order %d" % (names_mode, order),
                            cur_mesh.nodeSets is not None, False)
            res.count("merge_then_elevate")


def _name_list(rng, mode, prefix, n):
    """mode: named / unnamed / partial.  Returns the names written to the file ('' = unnamed)."""
    if mode == "named":
        return ["%s_%c%s" % (prefix, 97 + j, "x" * int(rng.integers(0, 12))) for j in range(n)]
    if mode == "unnamed":
        return [""] * n
    return [("%s_%c" % (prefix, 97 + j)) if rng.random() < 0.5 else "" for j in range(n)]


def run_exodus(case, res, rng, tmpdir):
    from optimism import ReadExodusMesh
    from vlib.gen import c13_meshfiles as G
    from vlib.oracles import c13_validate as V
    i = case["i"]
    tri6 = (i % 2 == 1)
    spec = _base_spec(rng, i // 2, small=True)
    pts, tri = _simplex_data(rng, spec)
    nE = len(tri)
    if tri6:
        coords, exo = G.make_tri6(rng, pts, tri, shuffle_nodes=(i % 8 != 1))
    else:
        coords, exo = pts, tri
    nblk = 1 + (i // 2) % 3
    parts = G.random_partition(rng, nE, nblk)
    nblk = len(parts)
    name_mode = ["named", "unnamed", "partial"][(i // 4) % 3]
    bnames = _name_list(rng, name_mode, "blk", nblk)
    has_ns = (i % 7 != 3)
    has_ss = (i % 7 != 5)
    ns = ss = []
    if has_ns:
        many = (i % 8 == 3)      # every 8th file: two-digit numbers of sets (record names ..._ns10, _ns11 sort differently as strings)
        nn = _name_list(rng, name_mode, "ns", int(rng.integers(10, 16)) if many else int(rng.integers(1, 4)))
        if many:
            res.count("exodus_files_with_10_or_more_nodesets")
        d = G.random_node_sets(rng, len(coords), ["k%d" % j for j in range(len(nn))])
        ns = [(nn[j], d["k%d" % j]) for j in range(len(nn))]
    if has_ss:
        manys = (i % 8 == 5)
        sn = _name_list(rng, name_mode, "ss", int(rng.integers(10, 14)) if manys else int(rng.integers(1, 4)))
        if manys:
            res.count("exodus_files_with_10_or_more_sidesets")
        d = G.random_side_sets(rng, tri, ["k%d" % j for j in range(len(sn))])
        ss = [(sn[j], d["k%d" % j]) for j in range(len(sn))]
    with_map = (i // 3) % 2 == 0
    emap = (rng.permutation(nE) + int(rng.integers(1, 1000))) if with_map else None
    fmt = ["NETCDF3_64BIT_OFFSET", "NETCDF4", "NETCDF4_CLASSIC", "NETCDF3_CLASSIC"][(i // 2) % 4]
    int_type = "i8" if (fmt == "NETCDF4" and i % 3 == 0) else "i4"
    etype = (["TRI6", "tri6", "Tri6"] if tri6 else ["TRI3", "tri3", "TRI", "tri"])[int(rng.integers(0, 3 if tri6 else 4))]
    fn = os.path.join(tmpdir, "m%d.exo" % i)
    G.write_exodus(fn, coords, [exo[p] for p in parts], bnames, etype, ns, ss, emap, fmt=fmt, len_name=[256, 33][i % 2 if i % 3 else 0],
                   int_type=int_type, extras=(i % 5 != 4))
    tag = "exodus %s %s blocks=%d names=%s map=%s %s nE=%d" % (etype, fmt, nblk, name_mode, with_map, int_type, nE)
    mesh = _call(res, "read", ReadExodusMesh.read_exodus_mesh, fn)
    os.remove(fn)
    if mesh is None:
        return
    info = V.validate_mesh(res, mesh, tag, expect_degree=2 if tri6 else 1, expect_bubble=False)
    if info is None:
        return
    _nontrivial(res, info)
    res.count("exodus_tri6" if tri6 else "exodus_tri3")
    res.count("exodus_elem_map" if with_map else "exodus_no_elem_map")
    if nblk > 1:
        res.count("exodus_multi_block")
    if name_mode != "named" and (has_ns or has_ss):
        res.count("exodus_unnamed_sets")
    if name_mode != "unnamed" and (has_ns or has_ss):
        res.count("exodus_named_sets")
    res.count("exodus_files")
    res.expect("read.coords", onp.array_equal(info["coords"], coords), {"tag": tag})
    ok_shape = info["conns"].shape[0] == nE
    res.expect("read.no_element_lost", ok_shape, {"tag": tag, "got": int(info["conns"].shape[0]), "written": nE})
    if not ok_shape:
        return
    # element e (file order) is the same element: same node set; the vertex triple in the same order, so that side k of the
    # file is side k of the mesh (checked again per side-set entry below, independently of this)
    res.expect("read.element_node_sets", onp.array_equal(onp.sort(info["conns"], axis=1), onp.sort(exo, axis=1)), {"tag": tag})
    res.expect("read.vertex_order", onp.array_equal(info["tri"], exo[:, :3]), {"tag": tag})
    if tri6:
        F = info["F"]
        X = info["coords"]
        bad = 0
        for s in range(3):
            midn = info["conns"][:, F[s][1]]
            want = 0.5 * (X[exo[:, s]] + X[exo[:, (s + 1) % 3]])
            bad += int((onp.abs(X[midn] - want).max(axis=1) > 1e-13 * info["scale"]).sum())
            bad += int((midn != exo[:, 3 + s]).sum())
        res.expect("read.tri6_midside_geometry", bad == 0, {"tag": tag, "n_bad": bad})
        res.count("exodus_tri6_midside_checked", 3 * nE)
    # blocks: names (with the reader's documented defaults) and contiguous ranges in file order
    wantb = {}
    off = 0
    for j, p in enumerate(parts):
        wantb[bnames[j] or "block_%d" % (j + 1)] = list(range(off, off + len(p)))
        off += len(p)
    _compare_sets(res, V, "read.blocks", mesh.blocks, wantb, tag, "blocks")
    wantn = {(nm or "nodeset_%d" % (j + 1)): [int(v) for v in ids] for j, (nm, ids) in enumerate(ns)}
    _compare_sets(res, V, "read.nodesets", mesh.nodeSets, wantn if has_ns else None, tag, "nodeSets")
    wants = {(nm or "sideset_%d" % (j + 1)): [(int(e), int(s)) for e, s in es] for j, (nm, es) in enumerate(ss)}
    _compare_sets(res, V, "read.sidesets", mesh.sideSets, wants if has_ss else None, tag, "sideSets")
    # every side-set entry still denotes the same geometric edge (pins the vertex order / side numbering jointly)
    if has_ss and mesh.sideSets:
        bad = 0
        ntot = 0
        Vn = info["V"]
        for j, (nm, es) in enumerate(ss):
            got = mesh.sideSets.get(nm or "sideset_%d" % (j + 1))
            if got is None:
                continue
            got = V.A(got).reshape(-1, 2)
            if got.shape[0] != len(es):
                continue
            for (e, s), (e0, s0) in zip(got, es):      # same order as written
                ntot += 1
                if not (0 <= e < nE and 0 <= s <= 2):
                    bad += 1
                    continue
                a, b = info["conns"][e, Vn[s]], info["conns"][e, Vn[(s + 1) % 3]]
                if (int(a), int(b)) != (int(exo[e0, s0]), int(exo[e0, (s0 + 1) % 3])):
                    bad += 1
        res.expect("read.sideset_edges_same", bad == 0, {"tag": tag, "n_bad": bad, "n": ntot})
        res.count("read_side_edges_checked", ntot)
    # element id maps per block
    bm = mesh.block_maps
    wantm = {}
    off = 0
    full = onp.asarray(emap) if with_map else onp.arange(1, nE + 1)
    for j, p in enumerate(parts):
        wantm[bnames[j] or "block_%d" % (j + 1)] = full[off:off + len(p)].tolist()
        off += len(p)
    okm = bm is not None and set(bm.keys()) == set(wantm.keys()) and all(V.A(bm[k]).astype(int).tolist() == wantm[k] for k in wantm)
    res.expect("read.block_maps", bool(okm), {"tag": tag, "with_map": with_map})


def run_json(case, res, rng, tmpdir):
    from optimism import ReadMesh
    from vlib.gen import c13_meshfiles as G
    from vlib.oracles import c13_validate as V
    i = case["i"]
    spec = _base_spec(rng, i, small=True)
    pts, tri = _simplex_data(rng, spec)
    ns = G.random_node_sets(rng, len(pts), ["left", "top", "nodeset_5"][: 1 + i % 3], allow_empty=False)
    ss = G.random_side_sets(rng, tri, ["left", "bottom", "sideset_5"][: 1 + (i // 3) % 3])
    if i % 6 == 5:
        ns, ss = {}, {}
    fn = os.path.join(tmpdir, "m%d.json" % i)
    G.write_json_mesh(fn, pts, tri, ns, ss)
    tag = "json nE=%d nsets=%d/%d" % (len(tri), len(ns), len(ss))
    mesh = _call(res, "read", ReadMesh.read_json_mesh, fn)
    os.remove(fn)
    if mesh is None:
        return
    info = V.validate_mesh(res, mesh, tag, expect_degree=1, expect_bubble=False, blocks_required=False)
    if info is None:
        return
    _nontrivial(res, info)
    res.count("json_files")
    res.expect("read.coords", onp.array_equal(info["coords"], pts), {"tag": tag})
    res.expect("read.no_element_lost", info["conns"].shape[0] == len(tri), {"tag": tag})
    res.expect("read.vertex_order", onp.array_equal(info["conns"], tri), {"tag": tag})
    _compare_sets(res, V, "read.nodesets", mesh.nodeSets, {k: [int(v) for v in vals] for k, vals in ns.items()}, tag, "nodeSets")
    _compare_sets(res, V, "read.sidesets", mesh.sideSets, {k: [(int(e), int(s)) for e, s in vals] for k, vals in ss.items()}, tag, "sideSets")
    if mesh.blocks is not None:
        allb = sorted(v for b in mesh.blocks.values() for v in V.multiset(b))
        res.expect("read.blocks_cover", allb == list(range(len(tri))), {"tag": tag})


def run_case(case):
    res = Res(case)
    rng = rng_of(case["seed"])
    cls = case["cls"]
    if cls == "structured":
        run_structured(case, res, rng)
    elif cls == "elevate":
        run_elevate(case, res, rng, None)
    elif cls == "edges":
        run_edges(case, res, rng)
    elif cls == "combine":
        run_combine(case, res, rng)
    elif cls in ("exodus", "json"):
        tmpdir = tempfile.mkdtemp(prefix="c13_")
        try:
            (run_exodus if cls == "exodus" else run_json)(case, res, rng, tmpdir)
        finally:
            shutil.rmtree(tmpdir, ignore_errors=True)
    else:
        res.inconclusive("unknown class " + cls)
    return res
