"""C01 -- EquationSolver.trust_region_minimize / nonlinear_equation_solve: descent along the reported iterates, the
returned point is the last reported one, finiteness, honest success flag, success on well-conditioned convex problems.

Deciding monitors (all observe real executions of the code in VERIF_REPO):
  1. CallbackRecorder on the public `callback` + the start point captured by a thin `solver_algorithm` wrapper; the
     offline trace checker recomputes f and grad f with the harness's OWN jit(f) / jit(grad f) under the parameters the
     solve was asked for (never through objective.value, so a broken Objective / a missing `objective.p = p` cannot hide).
  2. RecordingObjective (subclass handed to the solver) logging every value/gradient/hessian_vec/apply_precond/
     update_precond call: decides "every objective evaluation was finite" and supplies the call signature of the
     in-loop convergence exit (last call is gradient(y); no value(x) re-evaluation follows).
  3. Planted minimisers + strong-convexity certificate |x - x*| <= |grad f(x)| / mu for the convex class, cross-checked
     by an independent dense Newton solve in numpy.
  4. sys.monitoring LINE observer on the solver's code objects: exits / step types / NaN-rho / preconditioner refreshes
     actually driven.  Evidence and REQUIRED minimum counts only -- never a verdict.
"""
import math
import os

import numpy as onp

from vlib.common import EPS, Res, derive_seed, rng_of

PROPERTY = "C01"
LEVEL = "exploration"
RULE = ("case = (objective family, dimension, start kind, entry point, preconditioner kind, inner product, objective mode, "
        "settings class) drawn stratified in the parent + continuous data (matrix, start, radii, thresholds, tolerances, "
        "iteration caps) drawn from the case seed in the worker. Non-trivial = the solver reported >= 2 distinct iterates "
        "(or, for the early-exit classes, took the exit the class is built for); distinct = canonical hash of the case.")
ASSUMPTIONS = [
    "CHOLMOD test double /verif/vlib/shims/sksparse (dense numpy Cholesky) stands in for scikit-sparse",
    "the harness's own jax.jit(f), jax.jit(jax.grad(f)) are the reference for objective values and gradients",
    "descent slack 8*eps*max(1,|f_k|,|f_k+1|) only absorbs a different compilation of f (the solver compares the same two float64 values)",
    "flag clause: ||grad f(x_ret; p_requested)|| < tol*(1+1e-9)",
    "convex clause: cond <= 1e4, dim <= 30, |x0| <= 1e3, lambda_max <= 1e3, default settings => flag True and "
    "|x-x*| <= 2*tol/mu + 100*eps*cond*max(1,|x*|) (strong convexity with mu known by construction)",
    "finiteness clause asserted unless the RecordingObjective saw a call with FINITE input and non-finite output (objective not finite everywhere); non-finite points constructed by the solver itself excuse nothing",
    "path observer (sys.monitoring LINE + frame locals) is evidence only",
    "C06's sub-problem contracts (vlib.monitors_c06, record mode) run in situ when available; their counters/closest calls appear "
    "under c06_insitu/ as evidence, their verdict belongs to C06 (a c06_insitu/ ratio above 1, e.g. in the 'D20 class' of the "
    "preconditioned-norm recurrence drift, is C06's open finding D20 and is NOT asserted here)",
]
REQUIRED = {
    "all": {
        "solves": 150, "trace_points_checked": 1000, "descent_pairs_checked": 500, "flag_true_checked": 60,
        "flag_false_seen": 30, "finiteness_checked": 150, "convex_success_checked": 30, "returned_is_last_checked": 150,
        "exit_converged_at_entry": 5, "exit_converged_in_loop": 50, "exit_radius_too_small": 10, "exit_iteration_cap": 10,
        "step_boundary": 50, "step_neg_curve": 15, "step_interior": 50, "nan_rho_shrinks": 10,
        "precond_refresh_0": 3, "precond_refresh_1": 5, "cauchy_outside": 10,
        "farflat_flag_true": 5, "incremental_mode_solves": 8, "entry_nes_warm": 8, "entry_nes_cold": 8, "entry_trm": 30,
        "precond_exact": 30, "precond_stale": 8, "precond_identity": 8, "ip_preconditioned": 20, "ip_euclidean": 30,
        "class:roundoff_floor": 20, "model_increase": 50, "model_and_objective_increase_at_acceptance_test": 50,
        "cap_exit_after_rejected_last_trial": 3, "class:settings_boundary": 100, "class:load_sequence": 40, "tol_squared_is_zero_solves": 60,
        "exactly_stationary_iterate_while_unconverged": 30, "solves_with_nonfinite_trial_point": 30, "load_sequences": 40, "sequence_solves": 150,
        "sequence_p_changes": 100, "p_change_with_objective_drop_at_start": 30, "cold_restart_from_returned_array": 50,
        "cold_restart_after_converged_solve_with_objective_drop": 15, "sequence_p_change_design": 5, "interleaved_other_point": 5,
        "interleaved_other_p_same_point": 5, "sequence_driver_hand": 20, "sequence_driver_nes_cold": 20, "sequence_driver_nes_warm": 10,
        "class:two_scale": 60, "class:long_valley": 8, "two_scale_solves": 60, "solves_with_one_step_objective_drop_ge_1e8": 30,
        "accepted_steps_right_after_a_drop_ge_1e8": 25, "solves_with_100_or_more_accepted_steps": 3, "report_preceded_by_value": 1000,
        "class:convex_default": 24, "class:far_flat": 12, "class:exits": 24, "class:barrier": 6, "class:incremental": 8,
    },
    "quick": {},
    "thorough": {"solves": 12000, "trace_points_checked": 40000, "descent_pairs_checked": 40000, "flag_true_checked": 2000,
                 "flag_false_seen": 1500, "finiteness_checked": 10000, "convex_success_checked": 1000,
                 "exit_converged_at_entry": 300, "exit_converged_in_loop": 2000, "exit_radius_too_small": 400, "exit_iteration_cap": 1000,
                 "step_boundary": 50000, "step_neg_curve": 700, "step_interior": 15000, "nan_rho_shrinks": 1000,
                 "model_increase": 4000, "model_and_objective_increase_at_acceptance_test": 4000,
                 "cap_exit_after_rejected_last_trial": 80, "farflat_flag_true": 240, "incremental_mode_solves": 300},
}
WATCHDOG_S = {"quick": 3600, "thorough": 6 * 3600}
MAX_VACUOUS_FRACTION = 0.25

D1_KEY = "D1_convergence_test_on_trial_point_precedes_acceptance"

BROAD_FAMILIES = ("quad", "convex_nq", "quartic", "rosen", "wells", "rankdef", "flat_exp", "flat_rat")
DIMS = (1, 2, 3, 5, 8, 13, 20, 30)


# ------------------------------------------------------------------------------------------------ case generation

def _pick(rng, seq):
    return seq[int(rng.integers(len(seq)))]


def build_cases(tier, seed):
    rng = rng_of(derive_seed(seed, PROPERTY, "build"))
    mult = 1 if tier == "quick" else 40
    cases = []

    def add(cls, i, **kw):
        c = {"cls": cls, "seed": derive_seed(seed, PROPERTY, cls, i)}
        c.update(kw)
        c.setdefault("cost", 1.0 + 0.05 * c.get("n", 5))
        cases.append(c)

    # (v) well-conditioned strictly convex, default settings, both entry points
    k = 0
    for i in range(36 * mult):
        fam = ("quad", "convex_nq")[i % 2]
        n = DIMS[(i // 2) % len(DIMS)] if i % 5 else 30
        entry = ("trm", "nes_cold", "nes_warm")[i % 3]
        start = ("random", "far", "random", "at_min", "far", "random")[(i // 3) % 6]
        add("convex_default", k, family=fam, n=n, entry=entry, start=start, precond="exact", ip=False, incremental=False,
            settings="default", scaled=bool(i % 7 == 3))
        k += 1
    # broad: all families x random admissible settings
    for i in range(150 * mult):
        fam = BROAD_FAMILIES[i % len(BROAD_FAMILIES)]
        n = _pick(rng, DIMS)
        if fam == "rosen":
            n = max(n, 2)
        entry = _pick(rng, ("trm", "trm", "nes_cold", "nes_warm"))
        start = _pick(rng, ("random", "random", "far", "saddle", "at_min") if fam in ("quartic", "wells") else ("random", "random", "random", "far"))
        precond = _pick(rng, ("exact", "exact", "stale", "identity"))
        add("broad", i, family=fam, n=n, entry=entry, start=start, precond=precond, ip=bool(rng.integers(2)),
            incremental=False, settings="random")
    # dedicated far-flat class (exercises D1): large radius, start on the slope of a bounded bump
    for i in range(24 * mult):
        add("far_flat", i, family=("flat_exp", "flat_rat")[i % 2], n=(1, 1, 2, 3, 5, 8)[i % 6], entry=("trm", "nes_cold")[i % 2],
            start="random", precond=("exact", "identity")[(i // 2) % 2], ip=False, incremental=False, settings="farflat")
    # early exits: iteration caps / radius floor / start at the minimiser
    for i in range(48 * mult):
        kind = ("cap", "radius", "at_min", "cap_retry")[i % 4]
        fam = _pick(rng, ("quad", "quartic", "rosen", "wells", "convex_nq", "rankdef")) if kind != "cap_retry" else _pick(rng, ("quartic", "wells"))
        n = max(2, _pick(rng, DIMS))
        add("exits", i, family=fam if kind != "at_min" else ("quad", "convex_nq", "rankdef")[(i // 4) % 3], n=n,
            entry=_pick(rng, ("trm", "nes_cold")), start="at_min" if kind == "at_min" else "random",
            precond=_pick(rng, ("exact", "identity")), ip=bool(rng.integers(2)), incremental=False, settings="exit_" + kind)
    # NaN-producing objective (log barrier): exercises the `not rho >= eta2` NaN path
    for i in range(14 * mult):
        add("barrier", i, family="barrier", n=_pick(rng, (1, 2, 3, 5, 8)), entry=("trm", "nes_cold")[i % 2], start="random",
            precond="exact", ip=False, incremental=False, settings="barrier")
    # incremental-objective mode: descent clause not asserted
    for i in range(18 * mult):
        fam = BROAD_FAMILIES[i % len(BROAD_FAMILIES)]
        add("incremental", i, family=fam, n=max(2, _pick(rng, DIMS)), entry=_pick(rng, ("trm", "nes_cold", "nes_warm")),
            start="random", precond=_pick(rng, ("exact", "identity")), ip=bool(rng.integers(2)), incremental=True,
            settings="random")
    # hostile preconditioning: stale / identity operator together with the preconditioned inner product, tiny CG budgets
    for i in range(30 * mult):
        fam = ("quartic", "wells", "quad", "rosen", "convex_nq", "rankdef")[i % 6]
        add("hostile_precond", i, family=fam, n=max(2, _pick(rng, DIMS)), entry=("trm", "nes_cold", "nes_warm")[i % 3],
            start=_pick(rng, ("random", "far", "saddle")) if fam in ("quartic", "wells") else "random",
            precond=("stale", "identity", "stale")[i % 3], ip=bool(i % 4 != 3), incremental=False, settings="hostile")
    # round-off floor: rank-deficient Hessian of norm 1e6..1e11 + quartic, tight (admissible) tolerance.  Near the minimiser the
    # curvature along the null space sinks below the rounding noise of H*v: CG reports 'neg curve', the model value comes
    # out POSITIVE (drives the rho re-signing branch) and the radius collapses (drives the radius-too-small exit).
    for i in range(40 * mult):
        add("roundoff_floor", i, family="rankdef", n=(5, 8, 13, 20)[i % 4], entry=("trm", "nes_cold")[i % 2], start="random",
            precond=("exact", "exact", "stale")[i % 3], ip=bool((i // 2) % 2), incremental=False, settings="roundoff", cost=3.0)
    # boundary of the admissible settings + exactly stationary iterates (gradient identically 0 while not converged)
    exact_variants = ("spd", "spd_single", "singular", "indefinite_saddle_start", "start_on_min", "spd_far")
    modes = ("default", "ip", "incremental", "small_window", "huge_radius")
    for i in range(60 * mult):
        add("settings_boundary", i, kind="exact", variant=exact_variants[i % 6], mode=modes[(i // 6) % 5], n=(1, 2, 3, 5, 8)[(i // 2) % 5],
            tol=(0.0, 0.0, 1e-200, 1e-170)[(i // 3) % 4], entry=("trm", "nes_cold")[i % 2], precond=("exact", "exact", "identity")[(i // 4) % 3],
            family="quad", cost=0.6)
    for i in range(40 * mult):
        add("settings_boundary", 1000000 + i, kind="stationary", family=("wells", "quartic", "rankdef", "flat_exp", "flat_rat", "cos", "quad", "convex_nq")[i % 8],
            n=_pick(rng, (1, 2, 3, 5, 8)), tol=(0.0, 1e-200, 0.0, 1e-170)[(i // 8) % 4], mode=modes[(i // 2) % 5],
            entry=("trm", "nes_cold")[i % 2], precond=("exact", "identity")[(i // 3) % 2], cost=0.6)
    extremes = ("tol_huge", "tr_huge", "tr_tiny", "etas_tiny", "etas_crowded", "t_extreme_fast", "t_extreme_slow", "tol_zero_generic")
    for i in range(48 * mult):
        add("settings_boundary", 2000000 + i, kind="extreme", extreme=extremes[i % 8], family=BROAD_FAMILIES[(i // 8) % len(BROAD_FAMILIES)],
            n=max(2, _pick(rng, (2, 3, 5, 8, 13))), entry=_pick(rng, ("trm", "nes_cold", "nes_warm")), precond=_pick(rng, ("exact", "identity")),
            mode=_pick(rng, ("default", "ip")), cost=1.0)
    # load sequences: ONE Objective object serves 3-6 consecutive solves with changing parameters; every next solve starts from
    # exactly the array the previous one returned
    for i in range(60 * mult):
        add("load_sequence", i, family=("valley", "valley", "quartic", "valley", "convex_nq", "rosen_as_valley")[i % 6].replace("rosen_as_valley", "valley"),
            n=(2, 2, 3, 5, 2, 3)[(i // 6) % 6], driver=("nes_cold", "hand", "nes_cold", "hand", "mixed", "nes_warm")[i % 6],
            interleave=("none", "none", "other_point", "none", "other_p_same_point", "none")[(i // 2) % 6],
            settings=("default", "default", "mild")[(i // 3) % 3], cost=2.5)
    # two-scale objectives: a stiff quadratic well (K = 1e6..1e16, removable in one Newton step) + an O(1) non-quadratic part;
    # the start sits where the stiff part dominates by 8-16 decades, and right after the big drop the next Newton trial overshoots
    # uphill by an amount below ulp(f_start): sensitive to any incrementally updated (instead of recomputed) objective value
    soft_kinds = ("sqrt", "sqrt", "sqrt", "quartic", "softplus", "sqrt_coupled")
    for i in range(96 * mult):
        add("two_scale", i, family="twoscale", soft=soft_kinds[i % 6], n=(2, 2, 3, 5, 8)[(i // 6) % 5], entry=("trm", "nes_cold")[i % 2],
            precond=("exact", "exact", "exact", "identity")[(i // 2) % 4], ip=bool((i // 3) % 2), settings=("default", "default", "perturbed")[(i // 5) % 3],
            cost=0.8)
    # long runs: hundreds of accepted steps along a slowly converging curved valley (drift in any state carried across iterations)
    for i in range(12 * mult):
        add("long_valley", i, family="rosen", n=(2, 3, 5, 8)[i % 4], entry=("trm", "nes_cold")[i % 2], precond=("exact", "identity")[(i // 2) % 2],
            ip=bool((i // 4) % 2), cost=6.0)
    ngroups = 32 if tier == "quick" else 64
    for j, c in enumerate(cases):
        c["group"] = "g%d" % (j % ngroups)
    return cases


def draw_settings(kind, rng, n):
    """Keyword arguments for EquationSolver.get_settings, drawn over the admissible set."""
    from vlib.common import loguniform
    if kind == "default":
        return {}
    kw = {"debug_info": bool(rng.random() < 0.1)}
    eta1 = float(loguniform(rng, 1e-12, 1e-2))
    eta2 = float(rng.uniform(max(2 * eta1, 0.02), 0.4))
    eta3 = float(rng.uniform(eta2 + 0.05, 0.95))
    kw.update(t1=float(rng.uniform(0.05, 0.9)), t2=float(rng.uniform(1.1, 4.0)), eta1=eta1, eta2=eta2, eta3=eta3)
    kw["tol"] = float(loguniform(rng, 1e-10, 1e-4))
    kw["tr_size"] = float(loguniform(rng, 1e-3, 1e3))
    kw["min_tr_size"] = float(min(loguniform(rng, 1e-12, 1e-2), 0.1 * kw["tr_size"]))
    kw["max_trust_iters"] = int(_pick(rng, (1, 2, 3, 5, 10, 20, 50, 100, 200)))
    kw["max_cg_iters"] = int(_pick(rng, (1, 2, 5, 10, 25, 50)))
    kw["max_cumulative_cg_iters"] = int(_pick(rng, (3, 10, 50, 1000, 1000)))
    kw["cg_inexact_solve_ratio"] = float(loguniform(rng, 1e-8, 1e-2))
    if kind == "farflat":
        kw.update(tr_size=float(loguniform(rng, 20.0, 1e3)), max_trust_iters=int(_pick(rng, (20, 100))),
                  max_cg_iters=int(_pick(rng, (10, 50))), tol=float(loguniform(rng, 1e-10, 1e-6)))
    elif kind == "exit_cap":
        kw.update(max_trust_iters=int(_pick(rng, (1, 1, 2, 3))), tol=float(loguniform(rng, 1e-10, 1e-8)))
    elif kind == "exit_radius":
        # radius floor close below the initial radius: a couple of rejected steps end the solve
        kw.update(min_tr_size=float(kw["tr_size"] * rng.uniform(0.3, 0.95)), t1=float(rng.uniform(0.05, 0.5)),
                  max_trust_iters=int(_pick(rng, (20, 100))), tol=float(loguniform(rng, 1e-10, 1e-8)))
        if rng.random() < 0.5:
            kw["tr_size"] = float(loguniform(rng, 1e1, 1e3))   # oversized region on a non-quadratic => rejections
            kw["min_tr_size"] = float(kw["tr_size"] * rng.uniform(0.3, 0.95))
    elif kind == "exit_cap_retry":
        # iteration cap reached right after the radius-too-small retry: the last trial point was REJECTED (x != y at the exit)
        kw.update(tr_size=float(loguniform(rng, 1e1, 1e3)), t1=float(rng.uniform(0.05, 0.3)), max_trust_iters=int(_pick(rng, (1, 1, 2))),
                  tol=float(loguniform(rng, 1e-10, 1e-8)), max_cg_iters=int(_pick(rng, (10, 25, 50))))
        kw["min_tr_size"] = float(kw["tr_size"] * rng.uniform(0.5, 0.95))
    elif kind == "barrier":
        kw.update(tr_size=float(loguniform(rng, 1.0, 1e2)), max_trust_iters=int(_pick(rng, (20, 100))), min_tr_size=1e-10)
    elif kind == "roundoff":
        kw.update(tol=float(loguniform(rng, 1e-10, 1e-9)), max_cg_iters=int(_pick(rng, (5, 25, 50))), max_trust_iters=60,
                  max_cumulative_cg_iters=1000, tr_size=float(loguniform(rng, 1e-1, 1e3)), min_tr_size=float(loguniform(rng, 1e-10, 1e-6)))
    elif kind == "hostile":
        kw.update(max_cg_iters=int(_pick(rng, (1, 2, 3, 5))), max_cumulative_cg_iters=int(_pick(rng, (2, 3, 5, 10))),
                  max_trust_iters=int(_pick(rng, (20, 50, 100))))
    return kw


# ------------------------------------------------------------------------------------------------ worker side

_jits = {}
_observer = {}


def own_functions(fam):
    """The harness's own compiled f and grad f (independent of the Objective instance under test)."""
    if fam not in _jits:
        import jax
        from vlib.gen import c01_objectives as G
        f = G.family(fam)
        _jits[fam] = (jax.jit(f), jax.jit(jax.grad(f, 0)))
    return _jits[fam]


def get_observer():
    if "o" not in _observer:
        from vlib import monitors_c01 as M
        try:
            _observer["o"] = M.observer_for_trust_region_minimize()
        except Exception as e:  # noqa -- evidence only; REQUIRED counters will then be missing => inconclusive
            _observer["o"] = None
            _observer["err"] = repr(e)
        # C06's contracts on the sub-problem solvers, installed in situ (optional; written by another module).  They are
        # EVIDENCE for C01 (counters / closest calls under the prefix c06_insitu/): C06 owns their verdict.
        _observer["c06"] = None
        if os.environ.get("VERIF_C01_C06_INSITU", "1") != "0":
            try:
                from vlib import monitors_c06
                monitors_c06.install_contracts(mode="record", subspace=False)
                _observer["c06"] = monitors_c06
            except ImportError:
                pass
            except Exception as e:  # noqa
                _observer["c06_err"] = repr(e)
    return _observer["o"]


def while_iteration_bound(s):
    """Rigorous upper bound on the number of passes through the acceptance loop of trust_region_minimize for admissible
    settings (eta1 <= eta2, 0 < t1 < 1 < t2, min_tr_size < tr_size): a rejected trial step has rho < eta1 <= eta2 (or NaN),
    hence always shrinks the radius by t1, and the inner loop ends once the radius is below min_tr_size; the radius grows by
    t2 at most once per outer iteration (only accepted steps can have rho > eta3)."""
    N = int(s.max_trust_iters)
    a = max(0.0, math.log(float(s.tr_size) / float(s.min_tr_size))) / math.log(1.0 / float(s.t1))
    b = math.log(float(s.t2)) / math.log(1.0 / float(s.t1))
    return int(N * (a + 3.0) + 0.5 * N * (N + 1) * b) + 10


PRACTICAL_WHILE_CAP = 20000


def fold_c06(res, c06):
    """C06's in-situ log -> evidence counters of this case (never a C01 verdict)."""
    log = c06.LOG
    for k, n in log.counters.items():
        res.count("c06_insitu/" + k, n)
    for clause, r in log.ratios.items():
        k = "c06_insitu/" + clause
        if r > res.ratios.get(k, -1.0) and math.isfinite(r):
            res.ratios[k] = r
    res.count("c06_insitu/oracle_checks", log.checks)
    if log.violations:
        res.count("c06_insitu/violations_recorded_for_C06", len(log.violations))
    log.reset()


def descent_slack(a, b):
    return 8.0 * EPS * max(1.0, abs(a), abs(b))


def check_trace(res, fam, p_req, start, rec, x_ret, flag, tol, obj, log_start, incremental, assert_finite=True):
    """Offline trace checker: clauses (i)-(iv). Returns dict of facts."""
    import jax.numpy as np
    fj, gj = own_functions(fam)
    xs = rec.xs
    pts = [onp.asarray(start, float)] + list(xs)
    vals = [float(fj(np.asarray(x), p_req)) for x in pts]
    res.count("trace_points_checked", len(xs))
    facts = {"n_reported": len(xs), "f_start": vals[0], "f_end": vals[-1]}

    # (ii) the returned point is the last reported iterate (the start point when nothing was reported)
    x_ret = onp.asarray(x_ret, float)
    last = pts[-1]
    same = x_ret.shape == last.shape and bool(onp.array_equal(x_ret, last, equal_nan=True))
    res.expect("returned_is_last_reported", same,
               {"n_reported": len(xs), "max_abs_diff": float(onp.max(onp.abs(x_ret - last))) if x_ret.shape == last.shape else "shape",
                "flag": bool(flag)})
    res.count("returned_is_last_checked")

    # evidence (never a verdict): the objective call that immediately precedes each report -- on the unchanged tree an accepted step
    # is reported right after a fresh value(x) evaluation, the in-loop convergence exit right after gradient(y)
    for pos in rec.pos:
        kind = obj.log[pos - 1][0] if 0 < pos <= len(obj.log) else "none"
        res.count("report_preceded_by_" + kind)

    # (iv) finiteness
    # hypothesis of the finiteness clause: "the objective is finite everywhere" -- refuted only by a call with a finite input
    # and a non-finite output; NaN/inf points the SOLVER constructed and then evaluated do not excuse a non-finite iterate
    all_finite_evals = obj.finite_on_finite_inputs(log_start)
    facts["all_evals_finite"] = all_finite_evals
    nf_in = obj.nonfinite_inputs(log_start)
    if nf_in:
        res.count("solver_evaluated_objective_at_nonfinite_point", nf_in)
        res.count("solves_with_nonfinite_trial_point")
    if all_finite_evals and assert_finite:
        bad = [i for i, x in enumerate(xs) if not onp.all(onp.isfinite(x))]
        res.expect("reported_iterates_finite", not bad and bool(onp.all(onp.isfinite(x_ret))),
                   {"first_nonfinite_report": bad[:3], "n_reported": len(xs)})
        res.count("finiteness_checked")
    else:
        res.count("finiteness_not_asserted_nonfinite_evaluation_seen")
        nf = sum(1 for k, fi, fo in obj.log[log_start:] if k == "apply_precond" and not fi)
        if nf:
            res.count("nonfinite_preconditioner_inputs", nf)     # the solver handed NaN/inf to apply_precond (CG overflow)

    # (i) descent along reported iterates (value-based mode only)
    ups = []
    if not incremental:
        for i in range(1, len(vals)):
            a, b = vals[i - 1], vals[i]
            res.count("descent_pairs_checked")
            if math.isfinite(a) and math.isfinite(b):
                # ratio: increase relative to the slack (closest call); negative increases count as 0
                ok = res.ratio("descent_increase_over_slack", max(0.0, b - a), descent_slack(a, b))
                if not ok:
                    ups.append(i)
            elif all_finite_evals:
                # own f non-finite at a reported point although the solver never saw a non-finite number
                ups.append(i)
        last_call_is_gradient = bool(obj.log) and obj.log[-1][0] == "gradient"
        for i in ups:
            a, b = vals[i - 1], vals[i]
            final = (i == len(vals) - 1)
            mech = None
            if final and bool(flag) and last_call_is_gradient:
                # structural key of D1: the ONLY tolerated increase is at the last reported iterate of a run that
                # returned True straight from the convergence test on the trial point (no value(x) re-evaluation).
                mech = D1_KEY
                res.count("d1_final_uphill_flag_true")
            res.violate("descent", {"position": i, "of": len(vals) - 1, "f_prev": a, "f_next": b, "increase": b - a,
                                    "flag": bool(flag), "final": final, "last_call_is_gradient": last_call_is_gradient},
                        mechanism=mech)
    else:
        res.count("descent_not_asserted_incremental_mode")
    facts["ups"] = ups

    # (iii) honest flag
    if flag:
        g = onp.asarray(gj(np.asarray(x_ret), p_req))
        gn = float(onp.linalg.norm(g))
        res.bound("flag_true_gradient_norm", gn, tol * (1 + 1e-9), {"tol": tol, "gnorm": gn, "n_reported": len(xs)})
        res.count("flag_true_checked")
        facts["gnorm"] = gn
    else:
        res.count("flag_false_seen")
    return facts


def one_solve(res, obj, fam, p_req, x0, settings, entry, pk, x_stale, incremental, p_hand=None):
    """Run ONE solve on `obj` (possibly an Objective with a history) and check clauses (i)-(iv) under p_req.

    entry: 'trm' (trust_region_minimize called by the harness; p_hand, when given, is installed by hand first),
           'nes_cold' / 'nes_warm' (nonlinear_equation_solve).  pk: exact / stale / identity / keep (leave the preconditioner).
    x0 may be a jax array (passed through untouched, e.g. the array a previous solve returned) or a numpy array.
    Returns (facts, x_ret, flag, start, exit_taken, recorder) or None when the execution was classified already."""
    import jax.numpy as np
    from optimism import EquationSolver as es
    from vlib import monitors_c01 as M
    from vlib.gen import c01_objectives as G
    log0 = len(obj.log)
    observer = get_observer()
    c06 = _observer.get("c06")
    if c06 is not None:
        c06.LOG.reset()
    rec = M.CallbackRecorder()
    starts = []

    def solver_algorithm(objective, x, s, callback=None):
        starts.append((onp.array(x, dtype=float, copy=True), len(objective.log)))
        if observer is not None:
            observer.reset()
        return es.trust_region_minimize(objective, x, s, callback=callback)

    per_pass = 2 if incremental else 1
    rigorous = per_pass * while_iteration_bound(settings) + 2
    budget = min(rigorous, per_pass * PRACTICAL_WHILE_CAP)
    calls0 = obj.gradient_calls
    obj.gradient_budget = calls0 + budget
    res.count("solves")
    res.count("entry_" + entry)
    res.count("precond_" + pk)
    res.count("ip_preconditioned" if settings.use_preconditioned_inner_product_for_cg else "ip_euclidean")
    res.count("family_" + fam)
    if incremental:
        res.count("incremental_mode_solves")
    try:
        if entry == "trm":
            if p_hand is not None:
                obj.p = p_hand          # hand-rolled driver: install the requested parameters, then call the minimiser
            if pk != "keep":
                obj.update_precond(np.asarray(x_stale if pk == "stale" else x0))
            x_ret, flag = solver_algorithm(obj, x0 if hasattr(x0, "at") else np.asarray(x0), settings, callback=rec)
        else:
            update = pk not in ("stale", "keep")
            if pk == "stale":
                obj.update_precond(np.asarray(x_stale))
            x_ret, flag = es.nonlinear_equation_solve(obj, x0 if hasattr(x0, "at") else np.asarray(x0), p_req, settings, solver_algorithm=solver_algorithm,
                                                      callback=rec, useWarmStart=(entry == "nes_warm"), updatePrecond=update)
    except M.LogicalBudgetExceeded as e:
        res.count("logical_budget_exceeded")
        if obj.gradient_calls - calls0 > rigorous:
            res.violate("solver_terminates", {"gradient_calls": obj.gradient_calls - calls0, "rigorous_bound": rigorous, "n_reported": len(rec.xs),
                                              "info": "more acceptance-loop passes than the settings admit: the solver does not return"})
        else:
            res.inconclusive("practical iteration cap of the harness hit (%s) below the rigorous bound %d" % (e, rigorous))
        return None
    except Exception as e:  # noqa
        finite = obj.all_evaluations_finite(log0)
        res.count("solver_raised")
        if fam in G.FINITE_EVERYWHERE and finite and not isinstance(e, MemoryError):
            res.violate("solver_returns", {"exception": type(e).__name__, "message": str(e)[:300], "n_reported": len(rec.xs)})
        else:
            res.vacuous("solver raised %s after a non-finite evaluation: %s" % (type(e).__name__, str(e)[:120]))
        return None
    flag = bool(flag)
    if not starts:
        res.violate("solver_algorithm_called", {"info": "nonlinear_equation_solve never called solver_algorithm"})
        return None
    start, log_start = starts[-1]
    if not onp.all(onp.isfinite(start)):
        res.vacuous("warm start produced a non-finite start point")
        return None

    if c06 is not None:
        fold_c06(res, c06)
    exit_taken = None
    if observer is not None:
        exit_taken = M.summarize(observer, res, (M.TRM_EXIT_NAMES, M.DOGLEG_NAMES, M.CG_NAMES))
        acc = [vals for tag, vals in observer.events if tag == "accept_test"]
        if exit_taken == "exit_iteration_cap" and acc and not acc[-1].get("willAccept"):
            res.count("cap_exit_after_rejected_last_trial")
        for tag, vals in observer.events:
            if tag == "accept_test" and (vals.get("modelObjective") or 0.0) > 0:
                res.count("model_increase_at_acceptance_test")
                if (vals.get("realObjective") or 0.0) > 0:
                    res.count("model_and_objective_increase_at_acceptance_test")
    facts = check_trace(res, fam, p_req, start, rec, x_ret, flag, float(settings.tol), obj, log_start, incremental, assert_finite=True)
    return facts, x_ret, flag, start, exit_taken, rec



def _mode_kwargs(mode):
    return {"default": {}, "ip": {"use_preconditioned_inner_product_for_cg": True}, "incremental": {"use_incremental_objective": True},
            "small_window": {"tr_size": 0.5, "min_tr_size": 1e-3}, "huge_radius": {"tr_size": 1e6}}[mode]


def _count_stationary(res, fam, p_req, start, rec, settings):
    """Evidence: did the solver sit on an EXACTLY stationary point (own gradient identically 0) without being converged?"""
    import jax.numpy as np
    fj, gj = own_functions(fam)
    if float(settings.tol) ** 2 > 0.0:
        return
    for x in [start] + list(rec.xs):
        if onp.all(onp.isfinite(x)) and not onp.any(onp.asarray(gj(np.asarray(x), p_req))):
            res.count("exactly_stationary_iterate_while_unconverged")
            return


def run_boundary_case(case, res):
    """Boundary of the admissible settings (tol = 0 / below the underflow of tol**2 / huge, radii and thresholds at their
    extremes) and exactly stationary iterates: exactly representable quadratics on which Newton lands bit-exactly on the
    minimiser, starts on minimisers / saddles / maximisers / singular minimisers."""
    import jax.numpy as np
    from optimism import EquationSolver as es
    from optimism import Objective as ObjMod
    from vlib import monitors_c01 as M
    from vlib.common import loguniform
    from vlib.gen import c01_objectives as G

    rng = rng_of(case["seed"])
    kind, fam, n = case["kind"], case["family"], int(case["n"])
    kw = {"debug_info": False}
    incremental = False
    if kind in ("exact", "stationary"):
        kw.update(_mode_kwargs(case["mode"]))
        kw.update(tol=float(case["tol"]), max_trust_iters=int(_pick(rng, (10, 30))))
        incremental = bool(kw.get("use_incremental_objective", False))
    if kind == "exact":
        variant = case["variant"]
        a = onp.array([_pick(rng, (0.25, 1.0, 4.0, 16.0)) for _ in range(n)])
        if variant == "spd_single":
            a[:] = a[0]
        xs = rng.integers(-4, 5, n).astype(float)
        off = rng.integers(-1, 2, n).astype(float)
        if not off.any():
            off[int(rng.integers(n))] = 1.0
        if variant == "spd_far":
            off = off * 8.0
        if variant == "singular":
            a[:] = a[0]
            z = rng.random(n) < 0.5
            if n > 1 and z.all():
                z[0] = False
            if n == 1:
                z[:] = False
            a = onp.where(z, 0.0, a)
        if variant == "indefinite_saddle_start":
            neg = rng.random(n) < 0.5
            if not neg.any():
                neg[int(rng.integers(n))] = True
            a = onp.where(neg, -a, a)
            off[:] = 0.0
        if variant == "start_on_min":
            off[:] = 0.0
        A = onp.diag(a)
        b = a * xs                      # exact: small integers times powers of four
        x0 = xs + off
        data = G.pack(A, b, [0.0])
        res.count("exact_quadratic_" + variant)
    elif kind == "stationary":
        prob = G.gen_problem(fam, n if fam != "rosen" else max(n, 2), rng, {"start": "random", "cond": 10.0 ** rng.uniform(0, 3)})
        A, b, c = prob["A"], prob["b"], prob["c"]
        if fam in ("wells", "flat_exp", "flat_rat"):
            x0 = onp.zeros(n)                                   # local maximiser of the wells / minimiser of the bumps: grad = 0 exactly
        elif fam in ("quartic", "cos"):
            b = onp.zeros(n)
            x0 = onp.zeros(n)                                   # saddle (indefinite A, no linear term)
        elif fam == "rankdef":
            x0 = onp.array(b)                                   # minimiser with singular Hessian
        else:
            x0 = onp.array(prob["xstar"])                       # planted minimiser (gradient at rounding level, maybe exactly 0)
        data = G.pack(A, b, c)
        res.count("stationary_start_" + fam)
    else:
        ext = case["extreme"]
        prob = G.gen_problem(fam, n, rng, {"start": "random", "cond": 10.0 ** rng.uniform(0, 4)})
        data, x0 = prob["data"], onp.array(prob["x0"])
        kw.update(_mode_kwargs(case["mode"]))
        kw.update(max_trust_iters=20, tol=float(loguniform(rng, 1e-10, 1e-6)))
        if ext == "tol_huge":
            kw["tol"] = float(_pick(rng, (1e3, 1e10, 1e150)))
        elif ext == "tr_huge":
            kw.update(tr_size=float(_pick(rng, (1e8, 1e12))))
        elif ext == "tr_tiny":
            kw.update(tr_size=1e-8, min_tr_size=1e-12)
        elif ext == "etas_tiny":
            kw.update(eta1=1e-300, eta2=1e-200, eta3=1e-100)
        elif ext == "etas_crowded":
            kw.update(eta1=0.97, eta2=0.98, eta3=0.99)
        elif ext == "t_extreme_fast":
            kw.update(t1=0.01, t2=100.0)
        elif ext == "t_extreme_slow":
            tr = float(loguniform(rng, 1e-1, 1e1))
            kw.update(t1=0.99, t2=1.0001, tr_size=tr, min_tr_size=0.05 * tr, max_trust_iters=10)
        elif ext == "tol_zero_generic":
            kw.update(tol=float(_pick(rng, (0.0, 1e-200))), max_trust_iters=int(_pick(rng, (10, 30))))
        res.count("extreme_" + ext)
    settings = es.get_settings(**kw)
    if float(settings.tol) ** 2 == 0.0:
        res.count("tol_squared_is_zero_solves")
    p_req = ObjMod.Params(np.asarray(data))
    entry, pk = case["entry"], case["precond"]
    p_init = p_req
    if entry != "trm":
        Ai, bi, ci = G.unpack_np(data, n)
        p_init = ObjMod.Params(np.asarray(G.pack(Ai, bi + 1.0, ci)))
    Rec = M.recording_objective()
    obj = Rec(G.family(fam), np.asarray(x0), p_init, M.identity_precond_strategy(n) if pk == "identity" else None)
    out = one_solve(res, obj, fam, p_req, x0, settings, entry, pk, x0, incremental)
    if out is None:
        return res
    facts, x_ret, flag, start, exit_taken, rec = out
    _count_stationary(res, fam, p_req, start, rec, settings)
    res.nontrivial = True
    return res


def run_sequence_case(case, res):
    """One Objective object, 3-6 consecutive solves with changing parameters (load ramp in slot 0, design change in slot 2,
    increases and decreases); every next solve starts from exactly the array the previous solve returned.  Each solve is
    judged under the parameters requested for THAT solve, start point included in the descent chain."""
    import jax.numpy as np
    from optimism import EquationSolver as es
    from optimism import Objective as ObjMod
    from vlib import monitors_c01 as M
    from vlib.common import loguniform
    from vlib.gen import c01_objectives as G

    rng = rng_of(case["seed"])
    fam, n = case["family"], int(case["n"])
    nsteps = int(rng.integers(3, 7))
    if fam == "valley":
        A = onp.zeros((n, n))
        c = [float(loguniform(rng, 0.3, 1.0)), 1.0]
        x0 = onp.full(n, 1.0) + rng.standard_normal(n) * 0.3
        if rng.random() < 0.5:
            x0[0] = -1.2
        direction = onp.zeros(n)
        direction[0] = 1.0
        if rng.random() < 0.4:
            direction = rng.standard_normal(n)
            direction /= onp.linalg.norm(direction)
        b = onp.zeros(n)
        design = 1.0
        step_scale = 1.0
    else:
        prob = G.gen_problem(fam, n, rng, {"start": "random", "cond": 10.0 ** rng.uniform(0, 3)})
        A, b, c, x0 = prob["A"], onp.array(prob["b"]), prob["c"], onp.array(prob["x0"])
        direction = rng.standard_normal(n)
        direction /= onp.linalg.norm(direction)
        design = None
        step_scale = float(loguniform(rng, 0.3, 3.0))

    def params(bv, dv):
        d = np.asarray(G.pack(A, bv, c))
        return ObjMod.Params(bc_data=d) if dv is None else ObjMod.Params(bc_data=d, design_data=np.asarray([dv]))

    kw = {"debug_info": False}
    if case["settings"] == "mild":
        kw.update(tr_size=float(loguniform(rng, 0.5, 8.0)), max_trust_iters=int(_pick(rng, (50, 100, 200))), tol=float(loguniform(rng, 1e-9, 1e-6)),
                  eta1=float(loguniform(rng, 1e-10, 1e-4)), t1=float(rng.uniform(0.2, 0.5)), t2=float(rng.uniform(1.5, 2.5)))
    settings = es.get_settings(**kw)
    Rec = M.recording_objective()
    p_prev = params(b + 0.37 * direction, None if design is None else design * 1.3)       # construction parameters (never requested)
    obj = Rec(G.family(fam), np.asarray(x0), p_prev)
    fj, gj = own_functions(fam)
    x_cur = np.asarray(x0)
    res.count("load_sequences")
    prev_flag = None
    for k in range(nsteps):
        # parameter change for this step
        change = "load"
        if k > 0:
            if design is not None and rng.random() < 0.25:
                design = design * float(rng.uniform(0.7, 1.4))
                change = "design"
            else:
                b = b + direction * step_scale * float(rng.uniform(0.5, 1.5)) * (-1.0 if rng.random() < 0.2 else 1.0)
        p_k = params(b, design)
        drv = case["driver"] if case["driver"] != "mixed" else _pick(rng, ("nes_cold", "hand", "nes_warm"))
        # interleaved evaluations on the shared object between solves
        if k > 0 and case["interleave"] == "other_point":
            xo = onp.asarray(x_cur) + rng.standard_normal(n)
            obj.value(np.asarray(xo))
            obj.gradient(np.asarray(xo))
            obj.hessian_vec(np.asarray(xo), np.asarray(rng.standard_normal(n)))
            res.count("interleaved_other_point")
        elif k > 0 and case["interleave"] == "other_p_same_point":
            keep = obj.p
            obj.p = params(b - 2.0 * step_scale * direction, None if design is None else design * 0.8)
            obj.value(x_cur)
            obj.gradient(x_cur)
            obj.p = keep
            res.count("interleaved_other_p_same_point")
        # facts about the hand-over (own f, independent of the object under test)
        f_new = float(fj(x_cur, p_k))
        f_old = float(fj(x_cur, p_prev))
        if k > 0:
            res.count("sequence_p_changes")
            res.count("sequence_p_change_" + change)
            if f_new < f_old:
                res.count("p_change_with_objective_drop_at_start")
                if drv in ("nes_cold", "hand") and prev_flag:
                    res.count("cold_restart_after_converged_solve_with_objective_drop")
            elif f_new > f_old:
                res.count("p_change_with_objective_rise_at_start")
            if drv in ("nes_cold", "hand"):
                res.count("cold_restart_from_returned_array")
        res.count("sequence_solves")
        res.count("sequence_driver_" + drv)
        if drv == "hand":
            out = one_solve(res, obj, fam, p_k, x_cur, settings, "trm", "exact", None, False, p_hand=p_k)
        else:
            out = one_solve(res, obj, fam, p_k, x_cur, settings, drv, "exact", None, False)
        if out is None:
            return res
        facts, x_ret, flag, start, exit_taken, rec = out
        if not onp.all(onp.isfinite(onp.asarray(x_ret))):
            break
        x_cur = x_ret                     # exactly the returned array
        p_prev = p_k
        prev_flag = flag
    res.nontrivial = True
    return res


def run_scale_case(case, res):
    """two_scale: stiff well + O(1) non-quadratic part, start where the stiff part dominates by 8-16 decades.
    long_valley: hundreds of accepted steps on a narrow curved valley.  Clauses as everywhere (descent judged on the harness's
    own f at the reported iterates with the slack of the two values being compared)."""
    import jax.numpy as np
    from optimism import EquationSolver as es
    from optimism import Objective as ObjMod
    from vlib import monitors_c01 as M
    from vlib.common import loguniform
    from vlib.gen import c01_objectives as G

    rng = rng_of(case["seed"])
    fam, n, cls = case["family"], int(case["n"]), case["cls"]
    kw = {"debug_info": False, "use_preconditioned_inner_product_for_cg": bool(case["ip"])}
    if cls == "two_scale":
        soft = case["soft"]
        K = float(loguniform(rng, 1e6, 1e16)) if rng.random() < 0.85 else float(loguniform(rng, 1.0, 1e6))
        nst = max(1, int(rng.integers(1, max(2, n // 2 + 1))))
        stiff = onp.zeros(n, bool)
        stiff[rng.choice(n, size=min(nst, n - 1), replace=False)] = True
        kdiag = onp.where(stiff, K * 10.0 ** rng.uniform(-1, 0, n), 0.0)
        if rng.random() < 0.5:
            kdiag = onp.where(stiff, K, 0.0)
        bshift = onp.where(rng.random(n) < 0.5, 0.0, onp.round(rng.standard_normal(n), 1))
        c = [0.0, 0.0, 0.0, 0.0]
        a = 0.1
        y0 = onp.zeros(n)
        y0[stiff] = rng.choice([-1.0, 1.0], size=int(stiff.sum())) * (1.0 if rng.random() < 0.6 else rng.uniform(0.2, 1.5))
        ns = int((~stiff).sum())
        # relative overshoot parameter: the Newton trial after the drop goes uphill by ~0.14*eps, to be compared with ulp(K/2)
        epsr = min(0.05, 4e-16 * K) * 10.0 ** rng.uniform(-2.0, 0.3)
        if soft in ("sqrt", "sqrt_coupled"):
            c[0] = 1.0
            y0[~stiff] = rng.choice([-1.0, 1.0], size=ns) * a * (1.0 + epsr * rng.uniform(0.5, 1.0, ns))
            if soft == "sqrt_coupled":
                c[3] = float(loguniform(rng, 1e-4, 1e-2))
        elif soft == "softplus":
            c[1] = 1.0
            c[0] = 0.2
            y0[~stiff] = rng.standard_normal(ns) * 0.5 + a
        else:
            c[2] = 1.0
            y0[~stiff] = rng.choice([-1.0, 1.0], size=ns) * (1.0 / math.sqrt(3.0)) * (1.0 + rng.uniform(-0.2, 0.05, ns))   # near the inflection of (y^2-1)^2
        data = G.pack(onp.diag(kdiag), bshift, c)
        x0 = bshift + y0
        if case["settings"] == "perturbed":
            kw.update(tr_size=float(loguniform(rng, 1.5, 20.0)), eta1=float(loguniform(rng, 1e-12, 1e-6)), t1=float(rng.uniform(0.1, 0.5)),
                      t2=float(rng.uniform(1.5, 3.0)), tol=float(loguniform(rng, 1e-9, 1e-6)), max_cg_iters=int(_pick(rng, (10, 50))))
        res.count("two_scale_solves")
        res.count("two_scale_soft_" + soft)
        res.count("two_scale_K_decade_%02d" % int(math.floor(math.log10(K))))
    else:
        prob = G.gen_problem("rosen", n, rng, {"start": "random"})
        Ad, bd, cd = G.unpack_np(prob["data"], n)
        cd = list(cd)
        cd[0] = float(loguniform(rng, 1.0, 30.0))           # 100*c0: narrow valley
        data = G.pack(Ad, bd, cd)
        x0 = onp.full(n, 1.0) + rng.standard_normal(n) * 0.3
        x0[0] = -1.2
        kw.update(max_trust_iters=600, tr_size=float(loguniform(rng, 0.004, 0.012)), t1=float(rng.uniform(0.8, 0.95)), t2=float(rng.uniform(1.005, 1.02)),
                  eta3=0.75, tol=1e-9, max_cg_iters=int(_pick(rng, (5, 50))))
        res.count("long_valley_solves")
    settings = es.get_settings(**kw)
    p_req = ObjMod.Params(np.asarray(data))
    entry, pk = case["entry"], case["precond"]
    p_init = p_req
    if entry != "trm":
        Ai, bi, ci = G.unpack_np(data, n)
        p_init = ObjMod.Params(np.asarray(G.pack(Ai, bi + 0.25, ci)))
    Rec = M.recording_objective()
    obj = Rec(G.family(fam), np.asarray(x0), p_init, M.identity_precond_strategy(n) if pk == "identity" else None)
    out = one_solve(res, obj, fam, p_req, x0, settings, entry, pk, x0, False)
    if out is None:
        return res
    facts, x_ret, flag, start, exit_taken, rec = out
    # evidence about one-step drops (own f at start -> reported iterates)
    fj, gj = own_functions(fam)
    vals = [float(fj(np.asarray(x), p_req)) for x in [start] + list(rec.xs)]
    big = [i for i in range(1, len(vals)) if vals[i] > 0 and vals[i - 1] > 0 and vals[i - 1] >= 1e8 * vals[i]]
    if big:
        res.count("solves_with_one_step_objective_drop_ge_1e8")
        if any(i + 1 < len(vals) and not onp.array_equal(([start] + list(rec.xs))[i + 1], ([start] + list(rec.xs))[i]) for i in big):
            res.count("accepted_steps_right_after_a_drop_ge_1e8")
    moves = sum(1 for i in range(1, len(vals)) if not onp.array_equal(([start] + list(rec.xs))[i], ([start] + list(rec.xs))[i - 1]))
    res.count("accepted_or_reported_moves", moves)
    if moves >= 100:
        res.count("solves_with_100_or_more_accepted_steps")
    res.nontrivial = moves >= 2
    return res


def run_case(case):
    import jax.numpy as np
    from optimism import EquationSolver as es
    from optimism import Objective as ObjMod
    from vlib import monitors_c01 as M
    from vlib.gen import c01_objectives as G

    res = Res(case)
    if case["cls"] == "settings_boundary":
        return run_boundary_case(case, res)
    if case["cls"] == "load_sequence":
        return run_sequence_case(case, res)
    if case["cls"] in ("two_scale", "long_valley"):
        return run_scale_case(case, res)
    rng = rng_of(case["seed"])
    fam, n, cls = case["family"], int(case["n"]), case["cls"]
    opts = {"start": case["start"]}
    if cls == "convex_default":
        opts.update(cond=10.0 ** rng.uniform(0, 4), scaled=case.get("scaled", False))
    elif fam in G.CONVEX:
        opts.update(cond=10.0 ** rng.uniform(0, 8), scaled=bool(rng.random() < 0.25))
    elif cls == "roundoff_floor":
        opts.update(scale=10.0 ** rng.uniform(6, 11))
    prob = G.gen_problem(fam, n, rng, opts)
    kw = draw_settings(case["settings"], rng, n)
    kw["use_preconditioned_inner_product_for_cg"] = bool(case["ip"])
    kw["use_incremental_objective"] = bool(case["incremental"])
    if case["settings"] == "default":
        kw = {}
    settings = es.get_settings(**kw)
    tol = float(settings.tol)

    x0 = onp.array(prob["x0"])
    if case["settings"] == "exit_cap_retry":
        x0 = 0.05 * rng.standard_normal(n)      # inside the concave core of the wells / indefinite quartic: a huge boundary step follows
    if cls == "roundoff_floor":
        x0 = prob["b"] + (x0 - prob["b"]) * 10.0 ** rng.uniform(0, 2)
    if cls == "far_flat":
        # keep the start where the Newton/dogleg step overshoots onto the flat tail: |x|_A in (0.55, 1.2)
        v = rng.standard_normal(n)
        v = v / math.sqrt(v @ prob["A"] @ v)
        x0 = v * rng.uniform(0.72, 1.3) / (math.sqrt(2.0) if fam == "flat_rat" else 1.0)
    p_req = ObjMod.Params(np.asarray(prob["data"]))
    # the objective is constructed with DIFFERENT parameters when the entry point is nonlinear_equation_solve, which must
    # install the requested ones
    entry = case["entry"]
    if entry == "trm":
        p_init = p_req
    else:
        b2 = prob["b"] + rng.standard_normal(n) * (0.3 if fam != "rankdef" else 0.05)
        if fam in ("rosen", "wells", "flat_exp", "flat_rat"):
            # these families ignore b: perturb the matrix / coefficients instead so that p_init != p_req matters
            A2 = prob["A"] * rng.uniform(1.2, 2.0) + 0.05 * onp.eye(n)
            c2 = list(prob["c"])
            c2[0] = c2[0] * rng.uniform(1.5, 3.0) + 0.01
            p_init = ObjMod.Params(np.asarray(G.pack(A2, prob["b"], c2)))
        else:
            p_init = ObjMod.Params(np.asarray(G.pack(prob["A"], b2, prob["c"])))

    Rec = M.recording_objective()
    pk = case["precond"]
    strategy = M.identity_precond_strategy(n) if pk == "identity" else None
    obj = Rec(G.family(fam), np.asarray(x0), p_init, strategy)
    x_stale = x0 + rng.standard_normal(n) * 10.0 ** rng.uniform(-1, 0.5)
    if fam == "barrier":
        x_stale = onp.clip(x_stale, -1.5, 1.5)

    out = one_solve(res, obj, fam, p_req, x0, settings, entry, pk, x_stale, bool(case["incremental"]))
    if out is None:
        return res
    facts, x_ret, flag, start, exit_taken, rec = out
    if fam == "barrier" and not facts["all_evals_finite"]:
        res.count("barrier_nonfinite_evaluations_seen")

    distinct = 0
    prev = start
    for x in rec.xs:
        if not onp.array_equal(x, prev):
            distinct += 1
        prev = x
    res.count("accepted_or_reported_moves", distinct)
    if cls == "far_flat" and flag:
        res.count("farflat_flag_true")
    res.nontrivial = distinct >= 2 or (cls == "exits" and exit_taken in ("exit_converged_at_entry", "exit_radius_too_small", "exit_iteration_cap")) \
        or (cls == "far_flat" and distinct >= 1)

    # (v) well-conditioned strictly convex problem, default settings: success and the unique minimiser
    if cls == "convex_default":
        xs = prob["xstar"]
        mu, cond = prob["mu"], prob["cond"]
        # independent reference: dense Newton in numpy from the planted point must stay there
        xn = G.np_newton(fam, prob["data"], xs)
        ref_err = float(onp.linalg.norm(xn - xs))
        ref_tol = 1e3 * EPS * cond * max(1.0, float(onp.linalg.norm(xs)))
        if not (ref_err <= ref_tol) or not (cond <= 1.0001e4) or not (onp.linalg.norm(start) <= 1.5e3):
            res.inconclusive("harness: planted minimiser not confirmed (err %.3g > %.3g) or class hypothesis broken (cond %.3g |x0| %.3g)"
                             % (ref_err, ref_tol, cond, float(onp.linalg.norm(start))))
            return res
        res.expect("convex_success_flag", flag, {"flag": flag, "cond": cond, "mu": mu, "n": n, "family": fam, "entry": entry,
                                                  "exit": exit_taken, "n_reported": len(rec.xs), "x0_norm": float(onp.linalg.norm(start))})
        err = float(onp.linalg.norm(onp.asarray(x_ret, float) - xs))
        allowed = 2.0 * tol / mu + 100.0 * EPS * cond * max(1.0, float(onp.linalg.norm(xs)))
        res.bound("convex_distance_to_minimiser", err, allowed, {"mu": mu, "cond": cond, "flag": flag, "n": n, "family": fam})
        res.count("convex_success_checked")
    elif fam in G.CONVEX and flag and case["settings"] != "default":
        # the certificate also holds for any honest success on a strongly convex member, whatever the settings
        xs = prob["xstar"]
        mu, cond = prob["mu"], prob["cond"]
        err = float(onp.linalg.norm(onp.asarray(x_ret, float) - xs))
        allowed = 2.0 * tol / mu + 1e3 * EPS * cond * max(1.0, float(onp.linalg.norm(xs)))
        res.bound("convex_certificate_on_success", err, allowed, {"mu": mu, "cond": cond, "n": n, "family": fam})
    return res


def finalize(results, tier):
    """Extra coverage keys: per-family status counts, exits per class, reported-iterate histogram."""
    fam, exits, hist = {}, {}, {"0": 0, "1": 0, "2-5": 0, "6-20": 0, "21+": 0}
    for r in results:
        c = r.get("case", {})
        f = c.get("family")
        if f is None:
            continue
        d = fam.setdefault(f, {})
        d[r.get("status", "?")] = d.get(r.get("status", "?"), 0) + 1
        o = r.get("obs", {})
        e = exits.setdefault(c.get("cls", "_"), {})
        for k, v in o.items():
            if k.startswith("exit_"):
                e[k] = e.get(k, 0) + v
        m = o.get("accepted_or_reported_moves")
        if m is not None:
            b = "0" if m == 0 else "1" if m == 1 else "2-5" if m <= 5 else "6-20" if m <= 20 else "21+"
            hist[b] += 1
    return {"per_family_status": fam, "exits_per_class": exits, "distinct_reported_iterates_histogram": hist}
