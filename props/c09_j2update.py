"""C09 -- J2 plasticity update: irreversible, isochoric, yield-consistent, variational, idempotent, commit-invariant.

Monitor: a state-trace checker.  The harness drives `compute_state_new` (single compiled call = deciding mode) along
multi-step displacement-gradient histories, commits the returned state, and checks every (H, state_old, dt, state_new)
record against an independent numpy model of the *specification* (vlib/oracles/c09_numpy.py): closed-form hardening
laws, elastic strain measures, Mises stress, and the incremental potential over arbitrary admissible plastic increments.
The library's own stress (jax.grad of the energy) is observed at the committed state as well.  A jit(vmap) replica of
every update is compared with the single-call result (cross-check; D8 is an open known finding there).
"""
import json
import math

import numpy as onp

from vlib.common import Res, derive_seed, rng_of
from vlib.oracles import c09_numpy as ref
from vlib.gen import c09_histories as gen

PROPERTY = "C09"
LEVEL = "exploration"
RULE = ("case = (option set {linear,voce,power law} x {rate independent, power-law rate sensitive} x {large,small} kinematics, plus 4 (thorough 6) "
        "option sets with the 'seth hill' kinematics, plus model pairs (identical hardening constants, with/without rate sensitivity, created in one process in both orders); "
        "constants: yield strain Y0/(3 mu) stratified over the decades 1e-7 ... 3e-2 independently of the other ratios, E in [1e-3,1e9], nu in [0,0.49] "
        "(plus the upstream test constants and, for the boundary classes, E/Y0 in [20,5e3]); hardening/rate parameters over 2-4 decades, hardening reference "
        "strains absolute or multiples of the yield strain; increments either in multiples of the yield strain or with absolute upper ends; either baked into "
        "the compiled model as Python floats (as a user does) or passed as traced arguments (one compilation, fresh constants per case); "
        "history kind in {monotonic, reversing, nonproportional, tiny_large (1e-8 / 0.3 increments), at_yield (trial Mises = flow "
        "stress +- ulps / +- the 1e-10*Y0 yield tolerance), repeated_stretch, volumetric (zero / sub-threshold deviator), large_stretch (principal stretches "
        "0.1..10 in an arbitrary frame with rotations up to 180 degrees or simple shear up to 5, ramp or cyclic)}; form in "
        "{plane_strain, block, 3d}; 4 histories of 5-40 steps per case, dt in [1e-3,1e3] per step). Boundary classes: perfect "
        "plasticity (H=0), Voce with Ysat -> Y0, Voce driven far into saturation. Non-trivial = at least one step of the case "
        "advanced eqps (plastic) ; distinct = canonical hash of the case parameters.")
ASSUMPTIONS = [
    "numpy reference of the specification (closed-form hardening laws, log/linear elastic strain via numpy.linalg.eigh, incremental potential) is correct",
    "the exact minimiser of the finite-deformation incremental potential over Fp = exp(D) Fp_old, D symmetric deviatoric, eqps = eqps_old + sqrt(2/3)|D| "
    "is checked by sampling: 200-point line scan along the return direction + local perturbations + random admissible tensorial increments",
    "yield tolerance = (1e-10 [the routine's _TOLERANCE] + 1e-9)*Y0 + 200 eps * 2 mu (1+|Ee_trial|) cond(Fp); observed <= 0.12 of it",
    "variational slack = 2*1e-10*Y0*distance (solver tolerance, by convexity) + 1e-12*(energy scale); idempotence/batched slack = 1e-12 + "
    "2*1e-10*Y0/(3 mu) (two states both within the solver tolerance)",
    "commit invariance: |dW| <= 1e-12*energy scale + 1e-10*Y0*eqps scale, |dP| <= 1e-12*stress scale + 20*1e-10*Y0*|F^-1| (envelope theorem with a residual <= solver tolerance)",
    "isochoric: |det Fp - 1| <= 1e-13 * steps * |Fp|_2^3; small kinematics |tr eps_p| <= accumulated rounding bound 16 eps sqrt(3/2) d_eqps (1 + (|tr Ee|/3+|Ee|)/|dev Ee|) "
    "(the computed flow direction is traceless only to that rounding); the same bound times the pressure enters the pre-commit stress tolerance",
    "rate-sensitive options: the overstress law has infinite slope at d_eqps = 0, so the dynamic flow stress is evaluated as an interval over d_eqps +- 2 ulp(eqps_new)",
    "C09-N1 (rate-sensitive option: ScalarRootFind exhausts its 50 iterations and the update returns an all-NaN state) is an open known finding: a non-finite state is "
    "attributed to it only for rate-sensitive options, an all-NaN state, and when an independent numpy location of the spec root shows the residual-tolerance band to be "
    "narrower than one float spacing at the root or than 2^-50 of the bracket; every other non-finite state is a violation (this is how D16 fires on the pre-fix tree)",
    "extreme stiffness/yield-strain ratios add rounding bounds: (3mu+Y')*ulp(eqps) (resolution of the stored eqps) to the yield tolerances; for the library's own stress "
    "(jax.grad) additionally 2mu|Ee|*8eps/gap (eigenvector conditioning of a Ce whose eigenvalue gaps are of the order of the yield strain), kappa|tr Ee|*|tr N| (flow "
    "direction traceless only to rounding) and 2mu*8eps*|stored plastic strain| -- all negligible (<1e-10 Y0) for yield strains >= 1e-4; the state-based numpy yield check does not use them",
    "C09-N2 (rate-independent; residual tolerance below one float spacing of eqps when eqps/(Y0/3mu) > ~1e6: NaN state or NaN energy/stress/re-update at the committed state) and "
    "C09-N3 (absolute zero-strain guard |dev Ee|^2 <= 1e-16 active on a trial state beyond yield: only reachable for yield strains below ~8e-9, exercised by the class "
    "yield_strain_below_guard) are open known findings with per-step structural classifiers; the same clauses failing on any other step are violations",
    "D8 (batched eigen-solver at repeated eigenvalues) is an open known finding: only batched-vs-single disagreements on large-kinematics steps whose "
    "eigen-solver input has a repeated eigenvalue pair (gap < 1e-8 |lambda|max and < 1e-3 of the spread) in a non-axis-aligned frame are attributed to it",
]
WATCHDOG_S = {"quick": 2400, "thorough": 4 * 3600}
MAX_VACUOUS_FRACTION = 0.05

D8_KEY = "D8:batched-eigen-repeated-nonaxis"
N1_KEY = "C09-N1:rate-sensitive-rootfind-budget-exhausted"
N2_KEY = "C09-N2:rootfind-tolerance-below-float-spacing"
N3_KEY = "C09-N3:absolute-zero-strain-guard"
N4_KEY = "C09-N4:return-bracket-below-float-resolution"


def _ri_nan_key(sig):
    """Rate-independent non-finite result: N4 when the margin of the library bracket beyond the root is <= 8 float
    spacings of eqps, else N2 (fixed in /repo: suppresses nothing)."""
    if not sig.get("match"):
        return None
    if sig.get("bracket_floats", 1e9) <= 8.0:
        return N4_KEY
    return N2_KEY if sig.get("unrepresentable") else None
GUARD_KINDS = ["monotonic", "nonproportional", "reversing", "at_yield"]
HARDS = [("linear", "lin"), ("voce", "voce"), ("power", "pow")]
KINS = ["large", "small"]
# the library's third kinematics option ('seth hill': strain (C^(1/4) - I)/(1/2), additive plastic strain); quick: 4 option sets
SETHHILL_OPTIONS = {"quick": [("linear", 0), ("voce", 1), ("power", 0), ("linear", 1)],
                    "thorough": [("linear", 0), ("linear", 1), ("voce", 0), ("voce", 1), ("power", 0), ("power", 1)]}
BOUNDARY = [("perfect_plasticity", "linear", "perfect"), ("voce_ysat_eq_y0", "voce", "voce_ysat_eq_y0"),
            ("voce_saturated", "voce", "voce_saturated")]
BOUNDARY_KINDS = ["monotonic", "nonproportional", "at_yield", "tiny_large", "reversing"]
NH = 4

TIERS = {
    # nb baked constant sets per option set (set 0 = upstream test constants), cb cases per kind per baked set,
    # nt traced-constant groups per option set, ct cases per kind per traced group (fresh constants per case),
    # bnb/bcb the same for the boundary classes, bct traced boundary cases per (class, kinematics)
    "quick": dict(nb=2, cb=1, nt=1, ct=3, bnb=1, bcb=1, bct=3, gct=1, np=1),
    "thorough": dict(nb=5, cb=14, nt=6, ct=15, bnb=2, bcb=10, bct=60, gct=4, np=6),
}


def optname(hard, rate, kin):
    return "%s/%s/%s" % (dict(HARDS)[hard], "rate" if rate else "ri", kin)


def _required():
    req = {"steps": 15000, "plastic_steps": 8000, "elastic_steps": 4000, "var_candidates": 3000000, "idempotence_checks": 8000,
           "commit_checks": 8000, "batched_steps": 15000, "yield_stress_committed_checks": 8000, "yield_stress_precommit_checks": 5000,
           "land_elastic": 150, "land_plastic": 150, "land_within_tol_band": 20, "dummy_direction_steps": 40,
           "step_tiny": 150, "step_large": 150, "large_increment_plastic": 100, "dt_decade_-3": 300, "dt_decade_2": 300,
           "form:plane_strain": 40, "form:3d": 40, "mode:baked": 100, "mode:traced": 100,
           "zero_slope_plastic_steps": 200, "repeated_pair_inputs_single": 200}
    for hard, _ in HARDS:
        for rate in (0, 1):
            for kin in KINS:
                o = optname(hard, rate, kin)
                req["opt:%s:steps" % o] = 800
                req["opt:%s:plastic" % o] = 400
    for hard, rate in SETHHILL_OPTIONS["quick"]:
        o = optname(hard, rate, "sethhill")
        req["opt:%s:steps" % o] = 400
        req["opt:%s:plastic" % o] = 200
    for kin in KINS + ["sethhill"]:
        req["kin:%s:steps" % kin] = 2000
        req["kin:%s:plastic" % kin] = 1000
    req["model_pairs_created"] = 2
    for b in gen.YS_BANDS:
        req["ys_band_%d:plastic" % b] = 600
        req["ys_band_%d:elastic" % b] = 300
        req["ys_band_%d:land" % b] = 30
    req.update({"dev_strain_1e-8_to_1e-4:plastic": 1000, "dev_strain_1e-8_to_1e-4:elastic": 1000, "scale:yield": 100, "scale:absolute": 100,
                "E_scale:lt_1": 20, "E_scale:1_to_1e3": 50, "E_scale:1e3_to_1e6": 30, "E_scale:ge_1e6": 20})
    for cls in gen.KINDS:
        req["class:" + cls] = 24
    for cls, _, _ in BOUNDARY:
        req["class:" + cls] = 10
    req["class:yield_strain_below_guard"] = 10
    req["logstretch_gt1_steps"] = 300
    req["logstretch_gt2_steps"] = 25
    req["guard_active_beyond_yield_steps"] = 30
    return req


REQUIRED = {"all": _required()}


# ------------------------------------------------------------------ case generation (parent; numpy only)

def build_cases(tier, seed):
    T = TIERS[tier]
    cases = []

    def add(cls, group, hard, rate, kin, mode, consts, kind, i, first, scale=None):
        s = derive_seed(seed, PROPERTY, cls, optname(hard, rate, kin), mode, kind, i, json.dumps(consts, sort_keys=True))
        r = rng_of(s)
        nsteps = int(r.integers(5, 41))
        form = str(r.choice(["plane_strain", "3d"]))
        if scale is None:
            scale = "yield" if r.random() < 0.6 else "absolute"
        cases.append({"cls": cls, "group": group, "cost": 0.004 * NH * nsteps + (12.0 if first else 0.0), "seed": s,
                      "opt": optname(hard, rate, kin), "hard": hard, "rate": rate, "kin": kin, "mode": mode,
                      "consts": consts, "kind": kind, "form": form, "nsteps": nsteps, "nh": NH, "scale": scale,
                      "ys_band": gen.ys_band(consts)})

    # The yield strain Y0/(3 mu) is swept over the decades 1e-7 ... 3e-2 independently of the other ratios (stratified:
    # traced-constant cases cycle through the six bands; baked set 1 of every option set lies in one of the three lowest
    # bands, further baked sets cycle through all), and E itself over 1e-3 ... 1e9.
    nband = len(gen.YS_BANDS)
    n_traced = 0
    oi = -1
    for hard, _ in HARDS:
        for rate in (0, 1):
            for kin in KINS:
                o = optname(hard, rate, kin)
                oi += 1
                for j in range(T["nb"]):
                    cr = rng_of(derive_seed(seed, PROPERTY, "consts", o, j))
                    band = None if j == 0 else gen.YS_BANDS[(oi + seed) % 3] if j == 1 else gen.YS_BANDS[(oi + j + seed) % nband]
                    consts = gen.reference_constants(hard, rate) if j == 0 else gen.random_constants(cr, hard, rate, band=band)
                    first = True
                    for kind in gen.KINDS:
                        for i in range(T["cb"]):
                            add(kind, "%s/B%d" % (o, j), hard, rate, kin, "baked", consts, kind, i, first,
                                scale="absolute" if j == 0 else "yield" if j == 1 else None)
                            first = False
                for g in range(T["nt"]):
                    first = True
                    for kind in gen.KINDS:
                        for i in range(T["ct"]):
                            cr = rng_of(derive_seed(seed, PROPERTY, "tconsts", o, g, kind, i))
                            band = gen.YS_BANDS[(n_traced + seed + oi) % nband]
                            n_traced += 1
                            add(kind, "%s/T%d" % (o, g), hard, rate, kin, "traced", gen.random_constants(cr, hard, rate, band=band), kind, g * 100000 + i, first)
                            first = False
    # 'seth hill' kinematics: baked upstream constants + one traced-constant group per option set
    for hard, rate in SETHHILL_OPTIONS[tier]:
        o = optname(hard, rate, "sethhill")
        oi += 1
        first = True
        for kind in gen.KINDS:
            for i in range(T["cb"]):
                add(kind, "%s/B0" % o, hard, rate, "sethhill", "baked", gen.reference_constants(hard, rate), kind, i, first, scale="absolute")
                first = False
        for g in range(T["nt"]):
            first = True
            for kind in gen.KINDS:
                for i in range(T["ct"]):
                    cr = rng_of(derive_seed(seed, PROPERTY, "tconsts", o, g, kind, i))
                    band = gen.YS_BANDS[(n_traced + seed + oi) % nband]
                    n_traced += 1
                    add(kind, "%s/T%d" % (o, g), hard, rate, "sethhill", "traced", gen.random_constants(cr, hard, rate, band=band), kind, g * 100000 + i, first)
                    first = False
    # model pairs: two models with identical elastic/hardening constants, one rate independent and one rate sensitive, are
    # created in ONE process in both orders (fresh constants per pair, so that nothing created earlier in the worker shares
    # them); both are then driven through histories and checked against their own specification
    for j, order in enumerate(["ri_first", "rate_first"] * T["np"]):
        hard = ["linear", "voce", "power"][j % 3]
        kin = ["small", "large"][(j // 2) % 2]
        cr = rng_of(derive_seed(seed, PROPERTY, "pair", j))
        c1 = gen.random_constants(cr, hard, 1, band=gen.YS_BANDS[3 + j % 3])
        c0 = {k: v for k, v in c1.items() if k not in ("S", "m", "epsDot0")}
        s = derive_seed(seed, PROPERTY, "model_pair", j)
        kind = ["monotonic", "nonproportional", "reversing", "at_yield"][j % 4]
        cases.append({"cls": "model_pair", "group": "pair/%d" % j, "cost": 25.0, "seed": s, "pair": order, "hard": hard, "kin": kin,
                      "consts_ri": c0, "consts_rate": c1, "kind": kind, "form": "3d", "nsteps": 12, "nh": NH, "scale": "yield", "mode": "baked",
                      "opt": optname(hard, 0, kin), "rate": 0, "consts": c0, "ys_band": gen.ys_band(c0)})
    # boundary-of-admissibility classes (rate independent: that is where the hardening slope can vanish)
    for cls, hard, bnd in BOUNDARY:
        for kin in KINS:
            o = optname(hard, 0, kin)
            for j in range(T["bnb"]):
                cr = rng_of(derive_seed(seed, PROPERTY, "bconsts", cls, kin, j))
                consts = gen.reference_constants(hard, 0, bnd) if j == 0 else gen.random_constants(cr, hard, 0, bnd)
                first = True
                for kind in BOUNDARY_KINDS:
                    for i in range(T["bcb"]):
                        add(cls, "bnd/%s/%s/B%d" % (cls, kin, j), hard, 0, kin, "baked", consts, kind, i, first, scale="absolute")
                        first = False
            for i in range(T["bct"]):
                cr = rng_of(derive_seed(seed, PROPERTY, "btconsts", cls, kin, i))
                kind = BOUNDARY_KINDS[i % len(BOUNDARY_KINDS)]
                add(cls, "%s/T%d" % (o, i % T["nt"]), hard, 0, kin, "traced", gen.random_constants(cr, hard, 0, bnd), kind, i, False, scale="absolute")
    # yield strain below the library's absolute zero-strain guard (|dev Ee| <= 1e-8 gets a fixed dummy flow direction):
    # open finding C09-N3 lives here; traced constants, so no extra compilation
    oi = -1
    for hard, _ in HARDS:
        for rate in (0, 1):
            for kin in KINS:
                o = optname(hard, rate, kin)
                oi += 1
                for i in range(T["gct"] * T["nt"]):
                    cr = rng_of(derive_seed(seed, PROPERTY, "gconsts", o, i))
                    add("yield_strain_below_guard", "%s/T%d" % (o, i % T["nt"]), hard, rate, kin, "traced",
                        gen.random_constants(cr, hard, rate, band=-9), GUARD_KINDS[(oi + i) % len(GUARD_KINDS)], i, False, scale="yield")
    return cases


# ------------------------------------------------------------------ compiled library functions (worker)

_CACHE = {}
_PKEYS = {"linear": ["H"], "voce": ["Ysat", "eps0"], "power": ["n", "eps0"]}


def _props(hard, rate, kin, c):
    p = {"elastic modulus": c["E"], "poisson ratio": c["nu"], "yield strength": c["Y0"],
         "kinematics": {"large": "large deformations", "small": "small deformations", "sethhill": "seth hill"}[kin]}
    if hard == "linear":
        p.update({"hardening model": "linear", "hardening modulus": c["H"]})
    elif hard == "voce":
        p.update({"hardening model": "voce", "saturation strength": c["Ysat"], "reference plastic strain": c["eps0"]})
    else:
        p.update({"hardening model": "power law", "hardening exponent": c["n"], "reference plastic strain": c["eps0"]})
    if rate:
        p.update({"rate sensitivity": "power law", "rate sensitivity stress": c["S"], "rate sensitivity exponent": c["m"],
                  "reference plastic strain rate": c["epsDot0"]})
    return p


def _fns(case):
    """(upd, wp, updB, init_state) as callables of (H, state, dt) -- the real library code, jitted."""
    import jax
    import jax.numpy as np
    from optimism.material import J2Plastic
    hard, rate, kin, mode, consts = case["hard"], case["rate"], case["kin"], case["mode"], case["consts"]
    names = ["E", "nu", "Y0"] + _PKEYS[hard] + (["S", "m", "epsDot0"] if rate else [])
    if mode == "baked":
        key = (hard, rate, kin, mode, json.dumps(consts, sort_keys=True))
        if key not in _CACHE:
            m = J2Plastic.create_material_model_functions(_props(hard, rate, kin, consts))
            _CACHE[key] = (jax.jit(m.compute_state_new), jax.jit(jax.value_and_grad(m.compute_energy_density)),
                           jax.jit(jax.vmap(m.compute_state_new)), onp.asarray(m.compute_initial_state(), dtype=float))
        return _CACHE[key]
    key = (hard, rate, kin, mode)
    if key not in _CACHE:
        def model(p):
            return J2Plastic.create_material_model_functions(_props(hard, rate, kin, {n: p[i] for i, n in enumerate(names)}))
        updT = jax.jit(lambda p, H, s, dt: model(p).compute_state_new(H, s, dt))
        wpT = jax.jit(lambda p, H, s, dt: jax.value_and_grad(model(p).compute_energy_density)(H, s, dt))
        updBT = jax.jit(jax.vmap(lambda p, H, s, dt: model(p).compute_state_new(H, s, dt), in_axes=(None, 0, 0, 0)))
        m0 = J2Plastic.create_material_model_functions(_props(hard, rate, kin, gen.reference_constants(hard, rate)))
        _CACHE[key] = (updT, wpT, updBT, onp.asarray(m0.compute_initial_state(), dtype=float))
    updT, wpT, updBT, init = _CACHE[key]
    p = np.array([float(consts[n]) for n in names])
    return (lambda H, s, dt: updT(p, H, s, dt)), (lambda H, s, dt: wpT(p, H, s, dt)), (lambda H, s, dt: updBT(p, H, s, dt)), init


# ------------------------------------------------------------------ the trace checker

def _norm2(A):
    return float(onp.linalg.norm(A, 2))


def _check_step(res, case, law, fns, k, H, st_old, dt, st_new, tag, info, acc):
    # large_stretch (stretch 0.1..10, eqps up to ~50): the derived rounding bounds hold with margin <= 0.4 in the quick tier but the
    # thorough tier (30x the samples) reached 1.02..1.16 of them at eqps 10..30; safety factor 4 on the rounding-bound clauses
    LS = 4.0 if case.get("kind") == "large_stretch" else 1.0
    """All clauses on one (H, state_old, dt) -> state_new record.  Returns dict of facts for the batched classifier."""
    upd, wp, _, _ = fns
    kin, rate, form = case["kin"], bool(case["rate"]), case["form"]
    mu, Y0 = law.mu, law.Y0
    e_old, pl_old = ref.split_state(st_old)
    e_new, pl_new = ref.split_state(st_new)
    de = e_new - e_old
    tq = ref.trial_quantities(kin, H, pl_old)
    ndev_tr = float(ref.fro(tq["devEe"]))
    trial = 2.0 * mu * ref.SQ32 * ndev_tr
    Yold = float(law.flow_static(e_old))
    plastic = de > 0.0
    ctx = {"step": k, "tag": tag, "dt": dt, "eqps_old": e_old, "d_eqps": de, "trial_minus_flow_over_Y0": (trial - Yold) / Y0}

    o = case["opt"]
    res.count("steps")
    res.count("opt:%s:steps" % o)
    res.count("kin:%s:steps" % kin)
    if plastic:
        res.count("kin:%s:plastic" % kin)
    res.count("plastic_steps" if plastic else "elastic_steps")
    if plastic:
        res.count("opt:%s:plastic" % o)
    res.count("dt_decade_%d" % int(math.floor(math.log10(dt))))
    yb = case.get("ys_band", gen.ys_band(case["consts"]))
    if tag == "large":
        svF = onp.linalg.svd(tq["F"], compute_uv=False)
        if svF[-1] > 0:
            mlog = float(onp.max(onp.abs(onp.log(svF))))
            if mlog > 1.0:
                res.count("logstretch_gt1_steps")
            if mlog > 2.0:
                res.count("logstretch_gt2_steps")
    res.count("ys_band_%d:%s" % (yb, "plastic" if plastic else "elastic"))
    if 1e-8 < ndev_tr <= 1e-4:          # between the library's zero-strain guard (|dev Ee| = 1e-8) and 1e-4
        res.count("dev_strain_1e-8_to_1e-4:%s" % ("plastic" if plastic else "elastic"))
    res.count("step_" + tag)
    if tag == "large" and plastic:
        res.count("large_increment_plastic")
    if ndev_tr ** 2 <= 1e-16:
        res.count("dummy_direction_steps")
    if tag == "land":
        res.count("land_plastic" if plastic else "land_elastic")
        res.count("ys_band_%d:land" % yb)
        if 0.0 < info["delta"] <= ref.TOL_SOLVER * (1 + 1e-5):
            res.count("land_within_tol_band")
    slope = law.slope_static(e_new)
    if plastic and slope <= 1e-12 * Y0 and not rate:
        res.count("zero_slope_plastic_steps")

    # open finding C09-N3: the library's zero-strain guard is absolute (|dev Ee|^2 <= 1e-16 -> fixed dummy flow direction).  When
    # the whole yield surface lies inside that ball (yield strain below ~8e-9) a trial state beyond yield is handled with the
    # dummy direction.  Structural class of this step: guard active on the trial strain AND trial Mises beyond the flow stress.
    guard_beyond = bool(ndev_tr ** 2 <= 1e-16 * (1 + 1e-6) and trial - Yold > 2e-9 * Y0)
    n3 = N3_KEY if guard_beyond else None
    tagc = "[N3 class]" if n3 else ""
    if guard_beyond:
        res.count("guard_active_beyond_yield_steps")

    # 1. irreversibility (exact: the root is bracketed from below by eqps_old)
    res.bound("irreversible", max(0.0, -de), 0.0, ctx)

    # 2. isochoric plastic distortion / traceless plastic strain
    if kin == "large":
        kap = max(1.0, _norm2(pl_new) ** 3)
        ddet = abs(float(onp.linalg.det(pl_new)) - 1.0)
        res.bound("isochoric_detFp", ddet, 1e-13 * (k + 1) * kap, ctx)
        if not (ddet < 1e-3) or not (_norm2(pl_new) < 1e6):
            return None     # not a usable plastic distortion any more (violation recorded): the history ends here
        # conditioning of the elastic strain: Fe = F Fp^-1 is formed from factors that may be much larger than Fe itself
        condp = max(_norm2(pl_new), _norm2(tq["F"])) * _norm2(onp.linalg.inv(pl_new))
        # ... and Fp_new = exp(D) Fp_old is itself a product of possibly large factors
        condp = max(condp, _norm2(pl_new @ onp.linalg.inv(pl_old)) * _norm2(pl_old) * _norm2(onp.linalg.inv(pl_new)))
    else:
        # rounding bound: tr(N) of the computed flow direction is ~ eps*(|tr Ee|/3 + |Ee|)/|dev Ee| (cancellation when the
        # deviator is formed), accumulated over the plastic steps of this history; safety factor 16
        if plastic:
            nEe = float(ref.fro(tq["Ee"])) + ((1.0 + float(ref.fro(pl_old))) if kin == "sethhill" else 0.0)   # magnitudes of the cancelling inputs
            acc["tr"] += 16 * ref.EPS * ref.SQ32 * de * (1.0 + (abs(float(onp.trace(tq["Ee"]))) / 3.0 + nEe) / max(ndev_tr, 1e-300))
        res.bound("isochoric_tr_epsp", abs(float(onp.trace(pl_new))), acc["tr"] + 16 * ref.EPS * float(ref.fro(pl_new)) + 1e-300, ctx)
        condp = 1.0 if kin == "small" else max(1.0, _norm2(tq["F"]) * _norm2(onp.linalg.inv(tq["F"])))

    # 3. the committed increment is admissible: eqps accounts for all of the plastic strain increment
    D, _asym = ref.recover_increment(kin, pl_old, pl_new)
    nD = float(ref.fro(D))
    tol_adm = 1e-13 * max(1.0, condp) * (1.0 + _norm2(pl_new)) + 1e-12 * abs(de)
    res.bound("admissible_increment", ref.SQ23 * nD - de, tol_adm, ctx)
    res.bound("increment_deviatoric", abs(float(onp.trace(D))), tol_adm, ctx)

    # 4. yield consistency, from the committed state (numpy strain measure) ...
    # The overstress law S*(d_eqps/(dt*epsDot0))^(1/m) has infinite slope at d_eqps = 0, so the increment can only be
    # recovered from the state to within u = 2 ulp(eqps_new): the dynamic flow stress is evaluated as an interval.
    dE_new = ref.elastic_dev_strain(kin, H, pl_new)
    mises_state = float(ref.mises_of_dev_strain(mu, dE_new))
    u = 2.0 * float(onp.spacing(max(e_new, 1e-300))) if rate else 0.0
    Ystat = float(law.flow_static(e_new))
    Y_hi = Ystat + float(law.over(de + u, dt))
    Y_lo = Ystat + float(law.over(max(de - u, 0.0), dt))
    Ydyn = Y_hi
    tolY = (ref.TOL_SOLVER + 1e-9) * Y0 + 200 * ref.EPS * 2 * mu * (1.0 + float(ref.fro(tq["Ee"]))) * condp
    # resolution of the state: one float spacing of eqps changes the residual by (3 mu + Y') * ulp(eqps); when the yield
    # strain is tiny and eqps large this exceeds the solver tolerance and no representable eqps can do better
    # (4 spacings: the root finder stops inside a bracket that has collapsed to adjacent floats, and evaluating the residual
    # there carries a few ulps of its own; the thorough tier reached 1.16 of the one-spacing bound at eqps ~ 10..30)
    res_round = 4 * (3 * mu + float(slope)) * float(onp.spacing(max(e_new, 1e-300)))
    tolY += res_round + 64 * ref.EPS * (abs(mises_state) + abs(Y_hi))      # + rounding of the compared stresses themselves (Y >> Y0 after strong hardening)
    # large kinematics: the eigenvectors of a trial Ce with nearly repeated eigenvalues (relative gap g, here ~ the elastic
    # strain differences, i.e. ~ the yield strain) are accurate to ~eps/g only (conditioning of the eigenvectors; documented
    # for the library's tensor functions as error ~ eps/gap); through them the whole log strain, including its volumetric
    # part, leaks into the library's deviatoric stress: rounding bound 2 mu |Ee| 8 eps / g
    r_eig = 0.0
    if kin == "large":
        g_ce = ref.spectral_info(tq["Ce"])[0]
        if g_ce >= 1e-9:
            r_eig = 2 * mu * float(ref.fro(tq["Ee"])) * 8 * ref.EPS / g_ce
    elif kin == "sethhill":
        # same conditioning for pow_symm(C, 1/4) = V diag(lambda^(1/4)) V^T, but here the leaking coefficient is lambda^(1/4) ~ 1
        # (not a small log strain) and the strain is (C^m - I)/(2m) = 2 (C^(1/4) - I): bound 2 mu * 2 (1+|E|) * 8 eps / g.  It enters
        # the library's own trial strain, hence also the state it commits.
        g_ce = ref.spectral_info(tq["Ce"])[0]
        if g_ce >= 1e-9:
            r_eig = 2 * mu * 2.0 * (1.0 + float(ref.fro(tq["Ee"]))) * 8 * ref.EPS / g_ce
            tolY += r_eig
    res.bound("yield_state" + tagc, mises_state - Y_hi, LS * tolY, dict(ctx, mises=mises_state, flow=Y_hi), n3)
    if plastic:
        res.bound("consistency_on_surface" + tagc, max(mises_state - Y_hi, Y_lo - mises_state), LS * tolY, dict(ctx, mises=mises_state, flow_lo=Y_lo, flow_hi=Y_hi), n3)

    # ... and from the library's own stress
    Finv = _norm2(onp.linalg.inv(tq["F"])) if kin == "large" else max(1.0, _norm2(onp.linalg.inv(tq["F"]))) if kin == "sethhill" else 1.0
    W_old, P_old = wp(H, st_old, dt)
    W_old, P_old = float(W_old), onp.asarray(P_old, dtype=float)
    tolY2 = tolY + 200 * ref.EPS * float(onp.linalg.norm(P_old)) * (_norm2(tq["F"]) if kin == "large" else 1.0)
    # the computed flow direction is traceless only to rounding (see clause 2); through the implicit derivative of the
    # pre-commit energy the pressure kappa*tr(Ee) sees that trace: |p| * |tr N| (rounding bound, safety 16)
    trE = abs(float(onp.trace(tq["Ee"])))
    tolY2 += r_eig * Finv
    if not (math.isfinite(W_old) and onp.all(onp.isfinite(P_old))):
        # the pre-commit energy/stress is not finite although the state is: same root-finder failure inside the energy
        sig = ref.rootfind_budget_signature(law, trial, e_old, dt, noise=tolY)
        mech = (N1_KEY if sig["match"] else None) if rate else _ri_nan_key(sig)
        res.checks += 1
        res.count("nonfinite_energy_precommit")
        res.violate("finite_energy_precommit" + ("[%s class]" % mech.split(":")[0][4:] if mech else ""), dict(ctx, W_old=W_old, rootfind=sig), mech)
        return {"repeated_nonaxis": False, "min_gap": None}
    r_trN = law.kappa * trE * 16 * ref.EPS * ref.SQ32 * (1.0 + (trE / 3.0 + float(ref.fro(tq["Ee"]))) / max(ndev_tr, 1e-300)) * Finv
    tolY2 += r_trN
    if rate:
        if kin == "sethhill":
            # the Mises invariant of the stress conjugate to the Seth-Hill strain is not recoverable from P without the
            # derivative of the strain measure; the state-based yield clauses above decide for this kinematics
            res.count("yield_stress_clause_skipped_sethhill")
        else:
            m_lib = ref.mises_of_stress(kin, P_old, H)
            res.bound("yield_stress_precommit" + tagc, m_lib - Ydyn, LS * tolY2, dict(ctx, mises=m_lib, flow=Ydyn), n3)
            res.count("yield_stress_precommit_checks")
    else:
        W_new, P_new = wp(H, st_new, dt)
        W_new, P_new = float(W_new), onp.asarray(P_new, dtype=float)
        st2 = onp.asarray(upd(H, st_new, dt), dtype=float)
        if not (math.isfinite(W_new) and onp.all(onp.isfinite(P_new)) and onp.all(onp.isfinite(st2))):
            # energy / stress / re-update at the committed state is not finite: refutes yield consistency, idempotence and
            # commit invariance at once.  Recognised mechanism: open finding C09-N2 (the committed state sits on the yield
            # surface to rounding, the library re-yields by rounding noise, and the residual tolerance is below one float
            # spacing of eqps so that the root finder stagnates) -- structural signature from the reference model.
            sig = ref.rootfind_budget_signature(law, mises_state, e_new, dt, noise=tolY)
            mech = _ri_nan_key(sig)
            res.checks += 1
            res.count("nonfinite_at_committed_state")
            if mech:
                res.count("nonfinite_at_committed_state_" + mech[4:6])
            res.violate("finite_at_committed_state" + ("[%s class]" % mech[4:6] if mech else ""),
                        dict(ctx, W_new=W_new, reupdate_finite=bool(onp.all(onp.isfinite(st2))), rootfind=sig, yield_strain=Y0 / (3 * mu)), mech)
            return {"repeated_nonaxis": False, "min_gap": None, "skip_batched": True}
        m_lib = ref.mises_of_stress(kin, P_new, H) if kin != "sethhill" else float("nan")
        # rounding of the library's stress at the committed state: that state sits on the yield surface, its elastic strain
        # differences (and hence the eigenvalue gaps of Ce) are of the order of the yield strain, and the library may
        # re-yield there by rounding noise -- eigenvector conditioning and pressure*tr(N) leak evaluated at the committed state
        r_eig_new = 0.0
        if kin == "large":
            tqn = ref.trial_quantities(kin, H, pl_new)
            g_new = ref.spectral_info(tqn["Ce"])[0]
            if g_new >= 1e-9:
                r_eig_new = 2 * mu * float(ref.fro(tqn["Ee"])) * 8 * ref.EPS / g_new
        elif kin == "sethhill":
            r_eig_new = r_eig            # C = F^T F does not depend on the state
        mag = (float(ref.fro(pl_new)) + float(ref.fro(H)) + (1.0 if kin == "sethhill" else 0.0)) if kin != "large" else (1.0 + float(ref.fro(tq["Ee"]))) * condp
        r_trN_new = (law.kappa * trE * 16 * ref.EPS * ref.SQ32 * (1.0 + mag / max(float(ref.fro(dE_new)), 1e-300)) * Finv) if plastic else 0.0
        tolY3 = tolY2 + (r_eig_new + r_trN_new) * (_norm2(tq["F"]) if kin == "large" else 1.0)
        if kin == "sethhill":
            res.count("yield_stress_clause_skipped_sethhill")
        else:
            res.bound("yield_stress_committed" + tagc, m_lib - Ydyn, LS * tolY3, dict(ctx, mises=m_lib, flow=Ydyn), n3)
            res.count("yield_stress_committed_checks")
        # 6. commit invariance of W and P
        hard_scale = abs(float(law.energy_static(e_new)))
        sW = abs(W_new) + mu * float(ref.fro(tq["Ee"])) ** 2 + law.kappa * float(onp.trace(tq["Ee"])) ** 2 + hard_scale
        # rounding of the strain measure (absolute ~ eps*(1+|Ee|)*cond) seen through the stress
        rW = 50 * ref.EPS * (2 * mu * ndev_tr + law.kappa * abs(float(onp.trace(tq["Ee"])))) * (1.0 + float(ref.fro(tq["Ee"]))) * condp
        res.bound("commit_invariance_W", abs(W_old - W_new), 1e-12 * sW + rW + ref.TOL_SOLVER * Y0 * (abs(de) + ref.TOL_SOLVER) + 1e-300, dict(ctx, W_old=W_old, W_new=W_new))
        # the committed plastic strain / distortion is stored to one rounding; seen through 2 mu (rounding bound, safety 8)
        r_state = 2 * mu * 8 * ref.EPS * ((float(ref.fro(pl_new)) + float(ref.fro(H)) + (1.0 if kin == "sethhill" else 0.0)) if kin != "large" else (1.0 + float(ref.fro(tq["Ee"]))) * condp)
        # the committed state sits on the yield surface to rounding; when the library re-yields there by rounding noise the
        # same pressure * tr(N) leak as in the pre-commit stress occurs, with the (tiny) committed elastic deviator as
        # denominator and the magnitudes of the cancelling inputs as numerator
        sP = float(onp.linalg.norm(P_new)) + (2 * mu * float(ref.fro(tq["Ee"])) + law.kappa * abs(float(onp.trace(tq["Ee"])))) * Finv
        res.bound("commit_invariance_P", float(onp.max(onp.abs(P_old - P_new))), LS * 1e-12 * sP + LS * (20 * ref.TOL_SOLVER * Y0 + res_round + r_eig + r_eig_new + r_state) * Finv + LS * (r_trN + r_trN_new), ctx)
        res.count("commit_checks")
        # 7. idempotence
        tol_id = 1e-12 * max(1.0, float(onp.max(onp.abs(st_new)))) + 2 * ref.TOL_SOLVER * Y0 / (3 * mu) * ref.SQ32 * max(1.0, _norm2(pl_new))
        dd = float(onp.max(onp.abs(st2 - st_new))) if onp.all(onp.isfinite(st2)) else float("nan")
        res.bound("idempotent", dd, tol_id, ctx)
        res.count("idempotence_checks")
        if dd == 0.0:
            res.count("idempotence_exact")

    # 5. variational clause: no admissible increment undercuts the committed one
    rng = rng_of(derive_seed(case["seed"], "var", k, float(e_old)))
    Wd_star = mu * float(ref.fro(dE_new)) ** 2
    Phi_star = Wd_star + float(law.energy_static_diff(e_new, e_old)) + float(law.rate_potential(de, dt))
    ey = Y0 / law.E
    tmax = 1.5 * max(trial - Yold, 0.0) / (3 * mu) + 2.0 * de + 1e-3 * ey
    cand = []
    vform = "3d" if form == "3d" else "block"
    if ndev_tr > 0:
        Nh = tq["devEe"] / ndev_tr                                   # unit
        t = onp.concatenate([onp.linspace(0.0, tmax, 200),
                             de * (1.0 + onp.concatenate([-onp.logspace(-9, -0.01, 12), onp.logspace(-9, 0, 12)])),
                             ey * onp.logspace(-14, -2, 13)])
        t = t[t >= 0]
        cand.append(ref.SQ32 * t[:, None, None] * Nh[None])
        M = ref.random_unit_deviators(rng, 48, vform)
        M = M - onp.einsum("nij,ij->n", M, Nh)[:, None, None] * Nh[None]
        M = M / onp.maximum(ref.fro(M), 1e-300)[:, None, None]
        th = onp.concatenate([onp.logspace(-8, -1, 12), rng.uniform(0.1, math.pi, 36)])
        r1 = onp.where(onp.arange(48) % 2 == 0, de if plastic else ey * 10.0 ** rng.uniform(-12, -2, 48), rng.uniform(0, tmax, 48))
        cand.append(ref.SQ32 * r1[:, None, None] * (onp.cos(th)[:, None, None] * Nh[None] + onp.sin(th)[:, None, None] * M))
    else:
        M = ref.random_unit_deviators(rng, 48, vform)
        cand.append(ref.SQ32 * (ey * 10.0 ** rng.uniform(-12, 0, 48))[:, None, None] * M)
    if onp.all(onp.isfinite(D)):
        cand.append(ref.dev(D)[None])                                # the committed tensor with the least admissible eqps
    Dc = onp.concatenate(cand, axis=0)
    ec_inc = ref.SQ23 * ref.fro(Dc)
    Phi_c = ref.dev_energy_of_candidates(kin, mu, tq, Dc) + law.energy_static_diff(e_old + ec_inc, e_old) + law.rate_potential(ec_inc, dt)
    Dref = D if onp.all(onp.isfinite(D)) else onp.zeros((3, 3))
    dist = onp.abs(ec_inc - de) + ref.SQ23 * ref.fro(Dc - Dref[None])
    scale = mu * ndev_tr ** 2 + abs(Phi_star) + onp.abs(Phi_c)
    tolPhi = 2 * ref.TOL_SOLVER * Y0 * dist + 1e-12 * scale + 50 * ref.EPS * 2 * mu * ndev_tr * (1.0 + float(ref.fro(tq["Ee"]))) * condp + 1e-300
    ratio = (Phi_star - Phi_c) / tolPhi
    ok = onp.isfinite(Phi_c)
    res.count("var_candidates", int(onp.sum(ok)))
    j = int(onp.argmax(onp.where(ok, ratio, -onp.inf)))
    res.bound("variational" + tagc, float(ratio[j]), 1.0,
              dict(ctx, undercut=float(Phi_star - Phi_c[j]), tol=float(tolPhi[j]), cand_d_eqps=float(ec_inc[j]), cand_index=j), n3)

    # facts for the batched cross-check classifier
    facts = {"repeated_nonaxis": False, "min_gap": None}
    if kin in ("large", "sethhill"):
        gaps = [ref.spectral_info(tq["Ce"])]
        if kin == "large" and plastic and onp.all(onp.isfinite(D)):
            gaps.append(ref.spectral_info(D))
        facts["min_gap"] = min(g[0] for g in gaps)
        facts["repeated_nonaxis"] = ref.d8_class(gaps)
        if any(g[0] < 1e-8 and g[0] < 1e-3 * g[2] for g in gaps):
            res.count("repeated_pair_inputs_single")
    return facts


def run_case(case):
    if case.get("pair"):
        # create both models of the pair in the prescribed order (model creation is eager in _fns), then check each
        res = Res(case)
        subs = {r: dict(case, rate=r, consts=case["consts_rate" if r else "consts_ri"], opt=optname(case["hard"], r, case["kin"]),
                        seed=derive_seed(case["seed"], "sub", r)) for r in (0, 1)}
        order = [0, 1] if case["pair"] == "ri_first" else [1, 0]
        for r in order:
            _fns(subs[r])
        res.count("model_pairs_created")
        res.count("model_pair_order:" + case["pair"])
        for r in order:
            _run_histories(res, subs[r])
        if res.obs.get("plastic_steps", 0) > 0:
            res.nontrivial = True
        return res
    res = Res(case)
    _run_histories(res, case)
    if res.obs.get("plastic_steps", 0) > 0:
        res.nontrivial = True
    return res


def _run_histories(res, case):
    law = ref.Law(case["hard"], case["rate"], case["consts"])
    fns = _fns(case)
    upd, wp, updB, init = fns
    B, n, kin = case["nh"], case["nsteps"], case["kin"]
    gens = [gen.History(rng_of(derive_seed(case["seed"], "hist", i)), case["kind"], case["form"], kin, law, n, case.get("scale", "absolute"))
            for i in range(B)]
    H = [onp.zeros((3, 3)) for _ in range(B)]
    st = [init.copy() for _ in range(B)]
    alive = [True] * B
    accs = [{"tr": 0.0} for _ in range(B)]
    res.count("mode:" + case["mode"])
    res.count("form:" + case["form"])
    res.count("histories", B)
    res.count("scale:" + case.get("scale", "absolute"))
    le = math.log10(law.E)
    res.count("E_scale:" + ("lt_1" if le < 0 else "1_to_1e3" if le < 3 else "1e3_to_1e6" if le < 6 else "ge_1e6"))
    for k in range(n):
        Hn, dts, tags, infos, new = [], [], [], [], []
        for i in range(B):
            if alive[i]:
                h, dt, tag, info = gens[i].next(k, H[i], st[i])
            else:
                h, dt, tag, info = H[i], 1.0, "dead", None
            Hn.append(onp.asarray(h, dtype=float))
            dts.append(float(dt))
            tags.append(tag)
            infos.append(info)
        for i in range(B):
            new.append(onp.asarray(upd(Hn[i], st[i], dts[i]), dtype=float) if alive[i] else st[i])
        stB = onp.asarray(updB(onp.stack(Hn), onp.stack(st), onp.asarray(dts)), dtype=float)
        for i in range(B):
            if not alive[i]:
                continue
            ctx = {"history": i, "step": k, "tag": tags[i], "dt": dts[i]}
            e_old_i, pl_old_i = ref.split_state(st[i])
            if kin != "small" and not (onp.linalg.det(Hn[i] + onp.eye(3)) > 0.05):
                raise RuntimeError("harness generated an inadmissible displacement gradient (det F <= 0.05)")
            tq_i = ref.trial_quantities(kin, Hn[i], pl_old_i)
            trial_i = float(ref.mises_of_dev_strain(law.mu, tq_i["devEe"]))
            # rounding bound of the trial stress (same form as the yield tolerance of the trace checker)
            cond_i = _norm2(pl_old_i) * _norm2(onp.linalg.inv(pl_old_i)) if kin == "large" else 1.0
            noise_i = 1e-9 * law.Y0 + 200 * ref.EPS * 2 * law.mu * (1.0 + float(ref.fro(tq_i["Ee"]))) * cond_i
            if not onp.all(onp.isfinite(new[i])):
                # a non-finite state refutes every clause.  The only recognised mechanism is the open finding C09-N1
                # (rate-sensitive option, root finder budget exhausted), identified by its structural signature.
                res.count("nonfinite_states")
                sig = ref.rootfind_budget_signature(law, trial_i, e_old_i, dts[i], noise=noise_i)
                mech = None
                if sig["match"] and onp.all(onp.isnan(new[i])):
                    mech = N1_KEY if case["rate"] else _ri_nan_key(sig)
                if mech:
                    res.count("nonfinite_states_" + mech[4:6])
                res.checks += 1
                res.violate("finite_state" + ("[%s class]" % mech[4:6] if mech else ""),
                            dict(ctx, state_new=new[i], H=Hn[i], state_old=st[i], trial_minus_flow_over_Y0=(trial_i - float(law.flow_static(e_old_i))) / law.Y0,
                                 hardening_slope=float(law.slope_static(e_old_i)), rootfind=sig), mech)
                # the step is not committed; the history continues from the last finite state
                continue
            res.checks += 1
            facts = _check_step(res, case, law, fns, k, Hn[i], st[i], dts[i], new[i], tags[i], infos[i], accs[i])
            if facts is None:
                alive[i] = False
                res.count("histories_ended_by_gross_violation")
                continue
            # batched replica (cross-check)
            _, pl_new = ref.split_state(new[i])
            tolB = 1e-12 * max(1.0, float(onp.max(onp.abs(new[i])))) + 2 * ref.TOL_SOLVER * law.Y0 / (3 * law.mu) * ref.SQ32 * max(1.0, _norm2(pl_new))
            # two valid evaluations of an eigenvector-based tensor function differ by the conditioning of the eigenvectors,
            # ~ eps / (relative eigenvalue gap); below gap 1e-8 the D8 class takes over
            if kin != "small" and facts["min_gap"] is not None and facts["min_gap"] < 1e-2:
                tolB += 256 * ref.EPS / max(facts["min_gap"], 1e-8) * max(1.0, float(onp.max(onp.abs(new[i]))))
            dB = float(onp.max(onp.abs(stB[i] - new[i]))) if onp.all(onp.isfinite(stB[i])) else float("nan")
            mech = D8_KEY if (kin != "small" and facts["repeated_nonaxis"]) else None
            if facts.get("skip_batched"):
                H[i], st[i] = Hn[i], new[i]
                continue
            if mech is None and onp.all(onp.isnan(stB[i])):
                sig = ref.rootfind_budget_signature(law, trial_i, e_old_i, dts[i], noise=noise_i)
                m2 = (N1_KEY if sig["match"] else None) if case["rate"] else _ri_nan_key(sig)
                if m2:
                    mech = m2
                    res.count("nonfinite_batched_" + m2[4:6])
            res.count("batched_steps")
            if facts["repeated_nonaxis"]:
                res.count("batched_steps_in_D8_class")
            res.bound("batched_equals_single" + ("[D8 class]" if mech == D8_KEY else "[%s class]" % mech[4:6] if mech else ""), dB, tolB, dict(ctx, min_rel_gap=facts["min_gap"], H=Hn[i], state_old=st[i]), mech)
            H[i], st[i] = Hn[i], new[i]
    return res


def finalize(results, tier):
    worst = {}
    for r in results:
        for k, v in r.get("ratios", {}).items():
            o = r["case"].get("opt")
            if v is not None and v > worst.get((o, k), -1):
                worst[(o, k)] = v
    per_opt = {}
    for (o, k), v in sorted(worst.items()):
        per_opt.setdefault(o, {})[k] = round(v, 4) if math.isfinite(v) else "inf"
    return {"closest_calls_per_option": per_opt}


def on_exception(case, exc, res):
    """An exception raised from inside the library for an admissible input refutes the property (the update must
    succeed); anything raised by the harness itself stays inconclusive."""
    import traceback
    frames = traceback.extract_tb(exc.__traceback__)
    lib = [f for f in frames if "/optimism/" in f.filename.replace("\\", "/")]
    if not lib:
        return False
    res.checks += 1
    res.violate("library_call_raised", {"exception": "%s: %s" % (type(exc).__name__, str(exc)[:300]),
                                        "where": "%s:%d %s" % (lib[-1].filename, lib[-1].lineno, lib[-1].name)}, None)
    return True
