"""C06 -- trust-region sub-problem solvers: truncated CG, dogleg, exact eigen-solver.

Monitor: icontract post-conditions (vlib/monitors_c06.py) wrapped around the module attributes
`EquationSolver.solve_trust_region_minimization`, `EquationSolver.dogleg_step`, `treigen.solve` (and the sub-space
solver's `trust_region_cg`), exercised by direct hostile calls with synthetic dense operators and, in a small class, in
situ through `trust_region_minimize` / `trust_region_subspace_minimize`.  Oracles are dumb numpy/longdouble reference
models: configured norm, Cauchy point along -P g inside the configured ball, true residual, dogleg path membership,
global TRS optimum by dense eigh + longdouble bisection on the secular equation with explicit hard case.
"""
import math

import numpy as onp

from vlib.common import Res, derive_seed, rng_of, haar_on, loguniform

PROPERTY = "C06"
LEVEL = "exploration"
RULE = ("a case = a bundle of direct calls at one dimension n (so compiled kernels are shared): class = routine x spectrum "
        "kind (SPD / indefinite / singular / repeated / clustered / exact-zero-curvature; exact solver: interior / boundary / "
        "hard / hard with multiple lowest eigenvalue / near-hard / singular / special); inside a bundle the gradient kind "
        "(generic, tiny, orthogonal to the lowest eigenspace, an eigenvector, in the null space, zero), the preconditioner "
        "(I, exact |H|^-1, random SPD with condition up to 1e6, diagonal), the inner-product mode, max_cg_iters 1..60, "
        "cg_tol 1e-12..1e-4 and the radius (12 decades absolute, or 6 decades around the natural step length) are drawn "
        "from the case seed.  Non-trivial = at least one call of the bundle took >= 2 CG iterations or left through a "
        "boundary exit (CG), used the second dogleg leg or clipped the Cauchy point (dogleg), or needed a non-zero "
        "multiplier (exact).  Exact-structure classes (exact_struct / cg_struct / dogleg_struct): integer or dyadic matrices, no "
        "random orthogonal conjugation (axis permutations and Hadamard matrices only), whose structure holds bit-for-bit -- exactly "
        "zero trace, zero diagonal, spectrum symmetric about 0 (KKT blocks), duplicate / zero eigenvalues, A = 0 with b != 0 and "
        "b = 0, b an integer combination of the exact eigenvectors orthogonal to the lowest one, radii 2^k, Cauchy / Newton point "
        "exactly on the boundary; plus the exhaustively enumerated sub-space of the exact solver: every symmetric 2x2 with entries "
        "in {-2..2} x b in {-1,0,1}^2 x Delta in {0.5,1,4} (3375 calls) and every such 1x1 (45 calls) -- see "
        "coverage.exhaustive_subspaces.  Extreme-conditioning classes (exact_illcond / cg_illcond / dogleg_illcond): SPD with mean|sigma| ~ "
        "||A|| and one lowest eigenvalue in the bands cond 1e8-1e10 / 1e10-1e12 / 1e12-1e14 / 1e14-1e16 / at-or-below eps||A|| (incl. "
        "exactly 0), exact (permutation) or Haar eigenbasis, gradient generic / exactly orthogonal to the lowest eigenvector / orthogonal "
        "to the computed one, radius bands 1e-6..1e-2 / 1e-2..1e2 / 1e2..1e8, Newton step interior / on the boundary / outside: "
        "one call per band x gradient x radius combination and case.  distinct = canonical hash of the case parameters.")
ASSUMPTIONS = [
    "numpy.linalg.eigh / inv / longdouble arithmetic are correct (reference oracles); oracle eigen-decomposition error "
    "c*eps*||A|| is covered by the stated rounding floors",
    "the dense H, P and metric M seen by the oracle are the ones the routine saw: they are reconstructed by applying the "
    "closures passed to the routine to the identity",
    "tolerances from DESIGN.md C06: ball 1e-6, boundary 1e-6 (+ 2(n+2) eps |z||M||z|/z.M.z, the rounding bound of the quadratic "
    "form, in a non-Euclidean metric), dogleg path membership 1e-6 ||d||, Cauchy decrease 1e-9 relative + 4(n+2) eps x (sum of |terms| of the "
    "model at z and at the Cauchy point: the sign of a curvature below that level cannot be resolved in float64) + 8 eps cond(P) "
    "|m_c| in preconditioned mode (accuracy of the oracle's own P^-1), interior "
    "residual 1.05 x stated tolerance + 16 eps (iters+1)(||H|| ||z|| + ||g||) for the drift of the recurrence residual "
    "(observed need: 0.05 of that floor), exact solver 1e-7 |m*| + 64 eps (||A|| D^2 + ||b|| D) + 1e-12 mean|sigma| D^2 (the "
    "routine's own hard-case tolerance `eps = 1e-12*sigScale`), ||s|| <= D (1+1e-8)",
    "open finding D20 is keyed to: preconditioned inner product AND >= 5 CG iterations AND | ||z||_M/D - 1 | <= 0.9 "
    "(calibration, 38400 preconditioned calls on the unchanged tree: <= 1.4e-9 up to 4 iterations, 7e-8 at 5, up to 1.4e-2 outside and 0.21 inside the ball "
    "beyond); Euclidean mode and exits within 4 iterations stay violations at 1e-6",
    "exact solver, true minimiser interior (matrix PD in longdouble Cholesky, Newton step inside the ball): the reference is the model "
    "AT the longdouble Newton step (exact evaluation, upper bound of the minimum) and the allowance is 1e-7|m| + 64 eps(||A||D^2 + "
    "||b||D) + |m| min(1,(8 eps cond)^2) -- the float64 routine only knows 1/sigma_0 to eps*cond -- WITHOUT the routine's hard-case "
    "term, which only covers multipliers within 1e-12 mean|sigma| of a pole",
    "exact solver has no iteration cap: 'never returns' = the loop observer on treigen.pnorm_squared sees the iteration state "
    "repeat (deterministic loop => infinite) or more than 400 secular iterations (converging calls need < 20), or no return "
    "within a 5 s SIGALRM budget (ordinary call ~10 ms); the first two such verdicts of every worker are re-confirmed with "
    "the observer switched off and the plain wall-clock budget",
    "interior exits with zero iterations (gradient already below the stated tolerance) return the zero step: judged by the "
    "residual clause, exempt from the Cauchy-decrease clause",
    "the Cauchy point is searched along the routine's own float64 -P g (second return value), whose consistency with P and g "
    "is a separate clause (8 eps (n+2) (|P||g| + |P||P^-1||P g|) componentwise: matrix product or backward-stable solve)",
    "CHOLMOD test double is not involved (dense closures only)",
]
REQUIRED = {
    "all": {
        "contract_evals:cg": 300, "contract_evals:dogleg": 200, "contract_evals:exact": 200,
        "cg.judged": 300, "dogleg.judged": 200, "exact.judged": 200,
        "cg.exit:boundary": 30, "cg.exit:neg curve": 30, "cg.exit:interior": 30, "cg.exit:interior_": 10,
        "cg.mode:preconditioned_norm": 100, "cg.mode:euclidean_norm": 100,
        "cg.boundary_norm_checked": 60, "cg.interior_residual_checked": 30, "cg.cauchy_nontrivial": 200,
        "cg.strictly_better_than_cauchy": 50, "cg.zero_curvature_first_direction": 5,
        "cg.P:identity": 40, "cg.P:exact_abs_inverse": 40, "cg.P:random_spd": 40, "cg.P:diagonal": 40,
        "cg.g:generic": 40, "cg.g:tiny": 10, "cg.g:orth_lowest": 10, "cg.g:zero": 5, "cg.g:eigenvector": 10,
        "dogleg.branch:cauchy_clipped": 20, "dogleg.branch:cauchy_beyond_newton": 10, "dogleg.branch:second_leg": 20,
        "dogleg.branch:newton": 20,
        "exact.case:interior": 15, "exact.case:boundary": 40, "exact.case:hard": 40, "exact.hard_general_basis": 20,
        "exact.hard_multiple_lowest": 5, "exact.near_hard_calls": 4,
        "insitu.solves": 2, "insitu.cg_contract_evals": 2, "insitu.dogleg_contract_evals": 2, "insitu.exact_contract_evals": 1,
        "contract_evals:subspace_cg": 1,
        "exact.exhaustive_2x2_calls": 125 * 9 * 3, "exact.exhaustive_1x1_calls": 5 * 3 * 3, "exact.exhaustive_hard_cases": 50,
        "exact_struct.calls": 400, "cg_struct.calls": 400, "dogleg_struct.calls": 100,
        "exact_struct:trace_exactly_zero": 150, "exact_struct:diagonal_exactly_zero": 60,
        "exact_struct:spectrum_symmetric_about_zero": 80, "exact_struct:duplicate_eigenvalues": 100,
        "exact_struct:zero_eigenvalue": 100, "exact_struct:zero_matrix_b_nonzero": 20, "exact_struct:zero_matrix_b_zero": 20,
        "exact_struct:b_zero": 50, "exact_struct.hard_case": 40, "exact_struct.hard_case_hadamard_basis": 5,
        "cg_struct:trace_exactly_zero": 100, "cg_struct:diagonal_exactly_zero": 40, "cg_struct:zero_matrix": 20,
        "cg_struct:duplicate_eigenvalues": 60, "cg_struct:zero_eigenvalue": 60,
        "dogleg_struct.kind:3": 10, "dogleg_struct.kind:4": 10,
        "exact_illcond.calls": 600, "cg_illcond.calls": 600, "dogleg_illcond.calls": 100,
        "exact_illcond.place:newton_interior": 150, "exact_illcond.place:newton_on_boundary": 150, "exact_illcond.place:newton_outside": 150,
        "exact_illcond.basis:exact": 200, "exact_illcond.basis:haar": 200, "exact_illcond.judged_against_newton_reference": 150,
    },
}
for _b in ("cond1e8-1e10", "cond1e10-1e12", "cond1e12-1e14", "cond1e14-1e16", "at_or_below_eps"):
    for _g in ("generic", "orth_exact", "orth_numeric"):
        for _r in ("R1e-6..1e-2", "R1e-2..1e2", "R1e2..1e8"):
            REQUIRED["all"]["exact_illcond:%s|%s|%s" % (_b, _g, _r)] = 12
            REQUIRED["all"]["cg_illcond:%s|%s|%s" % (_b, _g, _r)] = 12
        if _b != "at_or_below_eps":
            REQUIRED["all"]["exact_illcond.newton_interior|%s|%s" % (_b, _g)] = 6
WATCHDOG_S = {"quick": 2400, "thorough": 4 * 3600}
MAX_VACUOUS_FRACTION = 0.2

KEY_NEAR_POLE = "C06/exact-no-return/near-pole"     # assigned by vlib.monitors_c06.classify_no_return
KEY_ZERO_MATRIX = "C06/exact-nan/zero-matrix"       # assigned by the exact.finite contract clause
WALL_BUDGET_S = 5.0
CONFIRM_PER_WORKER = 2

N_QUICK = [1, 2, 3, 4, 5, 6, 8, 10, 13, 16, 20, 25, 32, 40]
CG_SPECTRA = ["spd", "indefinite", "singular", "repeated", "clustered", "zero_curvature"]
EXACT_KINDS = ["interior", "boundary", "hard", "hard_multi", "near_hard", "singular", "special"]
XS_NS = [1, 2, 3, 4, 5, 8]
XS_KINDS = ["zero_trace", "zero_diagonal", "pm_spectrum", "duplicates", "zero_eigs", "zero_matrix", "hard_integer", "hadamard"]
IC_NS = [2, 3, 5, 8, 16, 40]
IC_BANDS = ["cond1e8-1e10", "cond1e10-1e12", "cond1e12-1e14", "cond1e14-1e16", "at_or_below_eps"]
IC_GRADS = ["generic", "orth_exact", "orth_numeric"]
IC_RADII = ["R1e-6..1e-2", "R1e-2..1e2", "R1e2..1e8"]
IC_PLACE = ["newton_interior", "newton_on_boundary", "newton_outside"]
EXHAUSTIVE_2X2 = 125 * 9 * 3
EXHAUSTIVE_1X1 = 5 * 3 * 3


def finalize(results, tier):
    """Evidence for the exhaustively enumerated sub-space of the exact solver."""
    n2 = sum(r.get("obs", {}).get("exact.exhaustive_2x2_calls", 0) for r in results)
    n1 = sum(r.get("obs", {}).get("exact.exhaustive_1x1_calls", 0) for r in results)
    bad = sum(1 for r in results if r["case"].get("cls", "").startswith("exact_exhaustive") and r.get("status") != "held")
    out = {"exhaustive_subspaces": [
        {"routine": "treigen.solve", "space": "all symmetric 2x2 with entries in {-2,-1,0,1,2} x b in {-1,0,1}^2 x Delta in {0.5,1,4}",
         "size": EXHAUSTIVE_2X2, "enumerated": int(n2), "complete": n2 == EXHAUSTIVE_2X2, "cases_not_held": bad},
        {"routine": "treigen.solve", "space": "all 1x1 a in {-2..2} x b in {-1,0,1} x Delta in {0.5,1,4}",
         "size": EXHAUSTIVE_1X1, "enumerated": int(n1), "complete": n1 == EXHAUSTIVE_1X1}]}
    if n2 != EXHAUSTIVE_2X2 or n1 != EXHAUSTIVE_1X1:
        out["_missing"] = ["exhaustive sub-space incomplete: %d/%d, %d/%d" % (n2, EXHAUSTIVE_2X2, n1, EXHAUSTIVE_1X1)]
    return out


def build_cases(tier, seed):
    cases = []
    if tier == "quick":
        rng = rng_of(derive_seed(seed, PROPERTY, "nlist"))
        extra = [int(v) for v in rng.choice([7, 9, 11, 12, 14, 15, 18, 22, 28, 36], size=2, replace=False)]
        ns = sorted(set(N_QUICK + extra))
        calls_cg, calls_dl, calls_ex, calls_nh, reps = 96, 96, 64, 4, 1
    else:
        ns = list(range(1, 41))
        calls_cg, calls_dl, calls_ex, calls_nh, reps = 48, 64, 40, 4, 64
    for rep in range(reps):
        for n in ns:
            grp = "n%d" % n
            for sp in CG_SPECTRA:
                cases.append({"cls": "cg_" + sp, "group": grp, "n": n, "calls": calls_cg, "cost": 1.0 + n / 20.0,
                              "seed": derive_seed(seed, PROPERTY, "cg_" + sp, n, rep)})
            cases.append({"cls": "dogleg", "group": grp, "n": n, "calls": calls_dl, "cost": 0.5,
                          "seed": derive_seed(seed, PROPERTY, "dogleg", n, rep)})
            for k in EXACT_KINDS:
                if n == 1 and k in ("hard_multi",):
                    continue
                c = calls_nh if k == "near_hard" else calls_ex
                cost = 6.0 if k == "near_hard" else 1.0
                cases.append({"cls": "exact_" + k, "group": grp, "n": n, "calls": c, "cost": cost,
                              "seed": derive_seed(seed, PROPERTY, "exact_" + k, n, rep)})
    # exact-structure classes: integer / dyadic matrices whose structure (zero trace, zero diagonal, +- symmetric spectrum,
    # duplicate or zero eigenvalues, b orthogonal to the lowest eigenvector) holds bit-for-bit; radii are powers of two
    xs_reps = 1 if tier == "quick" else 12
    for rep in range(xs_reps):
        for n in XS_NS:
            for kind in XS_KINDS:
                cases.append({"cls": "exact_struct", "group": "n%d" % n, "n": n, "kind": kind, "calls": 12, "cost": 0.6,
                              "seed": derive_seed(seed, PROPERTY, "exact_struct", kind, n, rep)})
                cases.append({"cls": "cg_struct", "group": "n%d" % n, "n": n, "kind": kind, "calls": 12, "cost": 0.6,
                              "seed": derive_seed(seed, PROPERTY, "cg_struct", kind, n, rep)})
            cases.append({"cls": "dogleg_struct", "group": "n%d" % n, "n": n, "calls": 24, "cost": 0.4,
                          "seed": derive_seed(seed, PROPERTY, "dogleg_struct", n, rep)})
    # extreme conditioning: SPD with condition 1e8..1e16 (lowest eigenvalue down to / below the eps ||A|| level) x gradient class x
    # radius band, Newton step interior / exactly on the boundary / outside -- one call per combination and case
    ic_reps = 3 if tier == "quick" else 24
    for rep in range(ic_reps):
        for n in IC_NS:
            for fam in ("exact_illcond", "cg_illcond"):
                cases.append({"cls": fam, "group": "n%d" % n, "n": n, "rep": rep, "cost": 1.5 + n / 20.0,
                              "seed": derive_seed(seed, PROPERTY, fam, n, rep)})
            cases.append({"cls": "dogleg_illcond", "group": "n%d" % n, "n": n, "rep": rep, "cost": 0.5,
                          "seed": derive_seed(seed, PROPERTY, "dogleg_illcond", n, rep)})
    # exhaustive sub-space: every symmetric 2x2 with entries in {-2..2} x b in {-1,0,1}^2 x Delta in {0.5, 1, 4} (3375 calls),
    # and every 1x1 a in {-2..2} x b in {-1,0,1} x the same radii (45 calls)
    for chunk in range(25):
        cases.append({"cls": "exact_exhaustive_2x2", "group": "n2", "n": 2, "chunk": chunk, "cost": 2.0, "seed": 0})
    cases.append({"cls": "exact_exhaustive_1x1", "group": "n1", "n": 1, "cost": 0.5, "seed": 0})
    n_insitu = 4 if tier == "quick" else 40
    for i in range(n_insitu):
        n = [2, 3, 5, 8][i % 4]
        cases.append({"cls": "insitu", "group": "n%d" % n, "n": n, "cost": 3.0, "seed": derive_seed(seed, PROPERTY, "insitu", i)})
    return cases


# ------------------------------------------------------------------------------------------------ generators (numpy)

def _orthobasis(rng, n):
    u = rng.random()
    if n == 1 or u < 0.12:
        return onp.eye(n), "identity"
    if u < 0.22:
        return onp.eye(n)[:, rng.permutation(n)], "permutation"
    return haar_on(rng, n), "haar"


def _spectrum(rng, n, kind):
    lo = rng.uniform(-6, 0)
    hi = rng.uniform(0, 6)
    if rng.random() < 0.5:           # moderate spread half the time
        lo, hi = rng.uniform(-2, 0), rng.uniform(0, 2)
    mag = 10.0 ** rng.uniform(lo, hi, n)
    if kind == "spd":
        return mag
    if kind == "indefinite":
        sgn = onp.where(rng.random(n) < 0.4, -1.0, 1.0)
        sgn[int(rng.integers(n))] = -1.0
        return mag * sgn
    if kind == "singular":
        s = mag * onp.where(rng.random(n) < 0.25, -1.0, 1.0) if rng.random() < 0.4 else mag
        z = rng.random(n) < 0.3
        z[int(rng.integers(n))] = True
        return onp.where(z, 0.0, s)
    if kind == "repeated":
        k = int(rng.integers(1, max(2, n // 2 + 1)))
        vals = 10.0 ** rng.uniform(lo, hi, k) * onp.where(rng.random(k) < 0.3, -1.0, 1.0)
        return vals[rng.integers(0, k, n)]
    if kind == "clustered":
        k = int(rng.integers(1, 4))
        centres = 10.0 ** rng.uniform(lo, hi, k) * onp.where(rng.random(k) < 0.3, -1.0, 1.0)
        width = 10.0 ** rng.uniform(-14, -3)
        return centres[rng.integers(0, k, n)] * (1.0 + width * rng.standard_normal(n))
    raise ValueError(kind)


def _sym(A):
    return 0.5 * (A + A.T)


def _make_P(rng, n, kind, H, sig, Q):
    if kind == "identity":
        return onp.eye(n)
    if kind == "exact_abs_inverse":
        smax = float(onp.abs(sig).max())
        smax = smax if smax > 0 else 1.0
        floor = smax * 10.0 ** rng.uniform(-8, -2)
        return _sym(Q @ onp.diag(1.0 / onp.maximum(onp.abs(sig), floor)) @ Q.T)
    if kind == "random_spd":
        Q2 = haar_on(rng, n) if n > 1 else onp.eye(1)
        c = rng.uniform(0, 6)
        ev = 10.0 ** rng.uniform(0, c, n)
        if n > 1:
            ev[0], ev[-1] = 1.0, 10.0 ** c
        return _sym(Q2 @ onp.diag(ev * 10.0 ** rng.uniform(-3, 3)) @ Q2.T)
    if kind == "diagonal":
        if rng.random() < 0.5:
            dg = onp.abs(onp.diag(H))
            dg = onp.where(dg > 1e-8 * max(dg.max(), 1e-300), dg, max(dg.max(), 1.0))
            return onp.diag(1.0 / dg)
        return onp.diag(10.0 ** rng.uniform(-3, 3, n))
    raise ValueError(kind)


P_KINDS = ["identity", "exact_abs_inverse", "random_spd", "diagonal"]
G_KINDS = ["generic", "generic", "generic", "tiny", "orth_lowest", "eigenvector", "zero", "generic"]


def gen_cg_call(rng, n, spectrum, k):
    """One hostile CG call; k = index inside the bundle (cycles P kind / mode / g kind deterministically)."""
    rec = {}
    if spectrum == "zero_curvature":
        # H with an exact, axis-aligned null space and g inside it: the first CG direction has curvature exactly 0.0
        nz = int(rng.integers(1, n + 1))
        idx = rng.permutation(n)
        nullidx, rest = idx[:nz], idx[nz:]
        H = onp.zeros((n, n))
        sig = onp.zeros(n)
        if len(rest):
            m = len(rest)
            Qr = haar_on(rng, m) if m > 1 else onp.eye(1)
            sr = 10.0 ** rng.uniform(-2, 2, m) * onp.where(rng.random(m) < 0.2, -1.0, 1.0)
            H[onp.ix_(rest, rest)] = _sym(Qr @ onp.diag(sr) @ Qr.T)
        g = onp.zeros(n)
        g[nullidx] = rng.standard_normal(nz) * 10.0 ** rng.uniform(-3, 3)
        if k % 3 == 2 and len(rest):      # zero curvature reached later: g has a component outside the null space too
            g[rest] = rng.standard_normal(len(rest)) * 10.0 ** rng.uniform(-3, 3)
            gk = "nullspace_plus_range"
        else:
            gk = "in_nullspace"
        pk = ["identity", "diagonal"][k % 2]
        P = onp.eye(n) if pk == "identity" else onp.diag(10.0 ** rng.uniform(-2, 2, n))
        sigH = onp.linalg.eigvalsh(H)
        Q = onp.eye(n)
        rec.update(basis="axis_block")
    else:
        sig = _spectrum(rng, n, spectrum)
        Q, bk = _orthobasis(rng, n)
        H = _sym(Q @ onp.diag(sig) @ Q.T)
        gk = G_KINDS[k % len(G_KINDS)]
        gscale = 10.0 ** rng.uniform(-3, 3)
        g = rng.standard_normal(n) * gscale
        if gk == "tiny":
            g = rng.standard_normal(n) * 10.0 ** rng.uniform(-40, -12)
        elif gk == "orth_lowest":
            low = onp.abs(sig - sig.min()) <= 1e-9 * max(onp.abs(sig).max(), 1e-300)
            V = Q[:, low]
            g = g - V @ (V.T @ g)
            if n == 1:
                g = g * 0.0
        elif gk == "eigenvector":
            j = int(rng.integers(n))
            g = Q[:, j] * gscale * (1.0 if rng.random() < 0.5 else -1.0)
        elif gk == "zero":
            g = onp.zeros(n)
        pk = P_KINDS[(k // 2) % 4]
        P = _make_P(rng, n, pk, H, sig, Q)
        sigH = sig
        rec.update(basis=bk)
    pre = bool(k % 2)
    # radius: 12 decades absolute, or around the natural length of the (pseudo-)Newton step / the Cauchy step
    u = rng.random()
    gn = float(onp.linalg.norm(g))
    if u < 0.4 or gn == 0.0:
        Delta = 10.0 ** rng.uniform(-6, 6)
    else:
        nz = onp.abs(sigH) > 1e-12 * max(onp.abs(sigH).max(), 1e-300)
        smin = float(onp.abs(sigH[nz]).min()) if nz.any() else 1.0
        smax = float(onp.abs(sigH[nz]).max()) if nz.any() else 1.0
        nat = gn / 10.0 ** rng.uniform(math.log10(smin), math.log10(smax)) if smax > smin else gn / smax
        Delta = nat * 10.0 ** rng.uniform(-3, 3)
        Delta = min(max(Delta, 1e-300), 1e300)
    max_it = int(rng.integers(1, 61))
    if k % 5 == 0:
        max_it = int(rng.integers(1, 4))
    if k % 7 in (3, 6) and gn > 0.0 and spectrum != "zero_curvature":
        # deep runs: ample radius, generous iteration cap
        Delta = Delta * 10.0 ** rng.uniform(2, 5)
        Delta = min(Delta, 1e300)
        max_it = int(rng.integers(25, 61))
    cg_tol = 10.0 ** rng.uniform(-12, -4)
    ratio = [1e-5, 1e-5, 1e-2, 1e-9][int(rng.integers(4))]
    if gk == "tiny" and rng.random() < 0.7:
        cg_tol = gn * 10.0 ** rng.uniform(-10, -4)       # so that CG actually runs on a tiny gradient
    x = onp.zeros(n) if rng.random() < 0.5 else rng.standard_normal(n) * 10.0 ** rng.uniform(-3, 3)
    rec.update(spectrum=spectrum, g_kind=gk, P_kind=pk, pre=pre, max_cg_iters=max_it, cg_tol=cg_tol, ratio=ratio, Delta=Delta, n=n)
    return H, g, P, x, rec


def gen_dogleg_call(rng, n, k):
    kind = ["generic", "collinear", "cp_outside", "cp_beyond_newton", "newton_inside", "second_leg", "zero_cp", "equal"][k % 8]
    mk = ["identity", "random_spd", "diagonal"][(k // 8) % 3]
    if mk == "identity":
        M = onp.eye(n)
    elif mk == "diagonal":
        M = onp.diag(10.0 ** rng.uniform(-3, 3, n))
    else:
        Q = haar_on(rng, n) if n > 1 else onp.eye(1)
        c = rng.uniform(0, 6)
        ev = 10.0 ** rng.uniform(0, c, n)
        M = _sym(Q @ onp.diag(ev * 10.0 ** rng.uniform(-3, 3)) @ Q.T)
    cp = rng.standard_normal(n) * 10.0 ** rng.uniform(-3, 3)
    nw = rng.standard_normal(n) * 10.0 ** rng.uniform(-3, 3)
    mn = lambda v: math.sqrt(max(float(v @ M @ v), 0.0))
    if kind == "collinear":
        nw = cp * rng.uniform(0.1, 5.0)
    elif kind == "zero_cp":
        cp = onp.zeros(n)
    elif kind == "equal":
        nw = cp.copy()
    elif kind == "cp_beyond_newton":
        nw = nw * (mn(cp) / max(mn(nw), 1e-300)) * rng.uniform(0.05, 0.95)
    elif kind in ("second_leg", "newton_inside", "cp_outside"):
        nw = nw * (mn(cp) / max(mn(nw), 1e-300)) * 10.0 ** rng.uniform(0.05, 3)
    cc, nn = mn(cp), mn(nw)
    if kind == "cp_outside":
        Delta = cc * 10.0 ** rng.uniform(-6, -0.01)
    elif kind == "second_leg":
        Delta = cc + (nn - cc) * rng.uniform(0.001, 0.999) if nn > cc else cc * 1.5
    elif kind == "newton_inside":
        Delta = max(cc, nn) * 10.0 ** rng.uniform(0.01, 6)
    elif kind == "cp_beyond_newton":
        Delta = cc * 10.0 ** rng.uniform(0.01, 3)
    else:
        Delta = 10.0 ** rng.uniform(-6, 6) if rng.random() < 0.5 else max(cc, nn, 1e-300) * 10.0 ** rng.uniform(-2, 2)
    if k % 16 == 5 and cc > 0:     # rounding-adjacent: Cauchy point exactly on / next to the boundary
        Delta = float(onp.nextafter(cc, [0.0, math.inf][int(rng.integers(2))])) if rng.random() < 0.7 else cc
    if not (Delta > 0):
        Delta = 1.0
    return cp, nw, M, float(Delta), {"kind": kind, "metric": mk, "n": n}


def gen_exact_call(rng, n, kind, k):
    Q, bk = _orthobasis(rng, n)
    if kind in ("hard", "hard_multi", "near_hard") and k % 4 != 3:
        Q, bk = (haar_on(rng, n), "haar") if n > 1 else (onp.eye(1), "identity")
    wide = rng.random() < 0.35
    if wide:
        sig = 10.0 ** rng.uniform(-6, 6, n) * onp.where(rng.random(n) < 0.4, -1.0, 1.0)
    else:
        sig = rng.uniform(-2, 2, n) * 10.0 ** rng.uniform(-3, 3)
    sig = onp.sort(sig)
    rec = {"kind": kind, "basis": bk, "n": n}
    if kind == "interior":
        sig = onp.abs(sig) + 1e-3 * onp.abs(sig).max()
        sig = onp.sort(sig)
    elif kind == "singular":
        sig = onp.abs(sig)
        sig[0] = 0.0
        if n > 2 and rng.random() < 0.5:
            sig[1] = 0.0
        sig = onp.sort(sig)
    elif kind in ("hard", "near_hard"):
        if sig[0] >= 0:
            sig[0] = -abs(sig[-1]) * rng.uniform(0.1, 1.0) - 1e-300
        sig = onp.sort(sig)
        if n > 1 and sig[1] - sig[0] < 1e-3 * abs(sig[0]):
            sig[1] = sig[0] + abs(sig[0]) * rng.uniform(0.01, 1.0)
            sig = onp.sort(sig)
    elif kind == "hard_multi":
        mult = int(rng.integers(2, n + 1))
        if sig[0] >= 0:
            sig = sig - sig[-1] - abs(sig[-1]) - 1e-3
            sig = onp.sort(sig)
        sig[:mult] = sig[0]
    A = _sym(Q @ onp.diag(sig) @ Q.T)
    # work with the eigen-decomposition of the matrix that is actually passed
    s, v = onp.linalg.eigh(A)
    b = rng.standard_normal(n) * 10.0 ** rng.uniform(-3, 3)
    Delta = None
    if kind in ("hard", "hard_multi", "near_hard"):
        low = (s - s[0]) <= 1e-9 * max(abs(s[0]), abs(s[-1]))
        Vl = v[:, low]
        b = b - Vl @ (Vl.T @ b)
        b = b - Vl @ (Vl.T @ b)
        rest = ~low
        if rest.any():
            prest = float(onp.linalg.norm((v[:, rest].T @ b) / (s[rest] - s[0])))
        else:
            prest = 0.0
        if prest == 0.0:
            Delta = 10.0 ** rng.uniform(-6, 6)
        else:
            # several radii: far inside the hard regime, just inside, (and sometimes just outside = ordinary boundary case)
            f = [10.0 ** rng.uniform(0.3, 6), 1.0 + 10.0 ** rng.uniform(-6, -1), 10.0 ** rng.uniform(0.001, 0.3), 2.0,
                 10.0 ** rng.uniform(-2, -0.001)][k % 5]
            Delta = prest * f
        rec["radius_over_polefree_step"] = (Delta / prest) if prest > 0 else None
        if kind == "near_hard":
            # a gradient component along the lowest eigenvector, relative size c (the window in which the optimal
            # multiplier sits within rounding distance of the pole)
            c = 10.0 ** rng.uniform(-13, -6)
            if prest > 0 and Delta <= prest:
                Delta = prest * 10.0 ** rng.uniform(0.05, 2)
            b = b + v[:, 0] * c * float(onp.mean(onp.abs(s))) * Delta * (1.0 if rng.random() < 0.5 else -1.0)
            rec["c"] = c
    elif kind == "special":
        sk = ["zero_b", "tiny_b", "b_eigenvector_lowest", "b_eigenvector_highest", "tiny_radius", "huge_radius", "identity_A", "zero_A"][k % 8]
        rec["special"] = sk
        if sk == "zero_b":
            b = onp.zeros(n)
        elif sk == "tiny_b":
            b = b * 1e-30
        elif sk == "b_eigenvector_lowest":
            b = v[:, 0] * float(onp.linalg.norm(b))
        elif sk == "b_eigenvector_highest":
            b = v[:, -1] * float(onp.linalg.norm(b))
        elif sk == "tiny_radius":
            Delta = 10.0 ** rng.uniform(-12, -6)
        elif sk == "huge_radius":
            Delta = 10.0 ** rng.uniform(6, 12)
        elif sk == "identity_A":
            A = onp.eye(n) * float(rng.uniform(-2, 2))
        elif sk == "zero_A":
            A = onp.zeros((n, n))
        if sk in ("identity_A", "zero_A"):
            s, v = onp.linalg.eigh(A)
    if Delta is None:
        if rng.random() < 0.4:
            Delta = 10.0 ** rng.uniform(-6, 6)
        else:
            nzs = onp.abs(s) > 1e-12 * max(onp.abs(s).max(), 1e-300)
            ps = float(onp.linalg.norm((v.T @ b)[nzs] / onp.abs(s[nzs]))) if nzs.any() else 1.0
            ps = ps if ps > 0 else 1.0
            if kind == "interior":
                Delta = ps * 10.0 ** rng.uniform(0.001, 3)
            elif kind == "boundary":
                Delta = ps * 10.0 ** rng.uniform(-3, 0.5)
            else:
                Delta = ps * 10.0 ** rng.uniform(-3, 3)
    Delta = float(min(max(Delta, 1e-280), 1e280))
    rec["Delta"] = Delta
    return A, b, Delta, rec


def _hadamard(n):
    H = onp.array([[1.0]])
    while H.shape[0] < n:
        H = onp.block([[H, H], [H, -H]])
    return H


def _ints(rng, shape, lo=-3, hi=3):
    return rng.integers(lo, hi + 1, size=shape).astype(float)


def gen_struct_matrix(rng, n, kind):
    """Symmetric integer matrix whose structure holds exactly.  Returns (A, info); info may carry an exact lowest eigenvector
    direction ('low': integer vector) for the integer hard case."""
    info = {}
    perm = rng.permutation(n)
    Pm = onp.eye(n)[:, perm]
    if kind == "zero_matrix":
        return onp.zeros((n, n)), info
    if kind == "zero_trace":
        if n == 1:
            return onp.zeros((1, 1)), info
        if n == 3 and rng.random() < 0.3:
            return Pm @ onp.diag([2.0, -1.0, -1.0]) @ Pm.T * float(rng.integers(1, 4)), info
        M = _ints(rng, (n, n))
        A = onp.triu(M, 1) + onp.triu(M, 1).T + onp.diag(onp.diag(M))
        A[n - 1, n - 1] = -onp.trace(A[:n - 1, :n - 1])
        if rng.random() < 0.3:                       # saddles x^2 - y^2, xy embedded
            A = onp.zeros((n, n))
            A[0, 0], A[1, 1] = 1.0, -1.0
            if rng.random() < 0.5:
                A[0, 0] = A[1, 1] = 0.0
                A[0, 1] = A[1, 0] = 1.0
            A = A * float(rng.integers(1, 4))
        return Pm @ A @ Pm.T, info
    if kind == "zero_diagonal":
        M = _ints(rng, (n, n))
        A = onp.triu(M, 1) + onp.triu(M, 1).T
        return A, info
    if kind == "pm_spectrum":                        # [[0, B], [B^T, 0]] (KKT-like block): spectrum exactly symmetric about 0
        m = n // 2
        A = onp.zeros((n, n))
        if m:
            Bm = _ints(rng, (m, n - m))
            A[:m, m:] = Bm
            A[m:, :m] = Bm.T
        if rng.random() < 0.3:
            d = _ints(rng, (m,), 1, 4)
            A = onp.zeros((n, n))
            A[:m, :m] = onp.diag(d)
            A[m:2 * m, m:2 * m] = -onp.diag(d)
        return Pm @ A @ Pm.T, info
    if kind == "duplicates":
        u = rng.random()
        if u < 0.35:
            A = float(rng.integers(-3, 4)) * onp.eye(n) + float(rng.integers(-3, 4)) * onp.ones((n, n))
        elif u < 0.7:
            vals = _ints(rng, (max(1, n // 2),))
            A = onp.diag(vals[rng.integers(0, len(vals), n)])
            A = Pm @ A @ Pm.T
        else:
            blk = onp.array([[float(rng.integers(-2, 3)), float(rng.integers(-2, 3))], [0.0, 0.0]])
            blk[1, 0] = blk[0, 1]
            blk[1, 1] = float(rng.integers(-2, 3))
            A = onp.zeros((n, n))
            for j in range(0, n - 1, 2):
                A[j:j + 2, j:j + 2] = blk
            A = Pm @ A @ Pm.T
        return A, info
    if kind == "zero_eigs":
        v = _ints(rng, (n,))
        w = _ints(rng, (n,))
        u = rng.random()
        if u < 0.4:
            A = onp.outer(v, v)
        elif u < 0.7:
            A = onp.outer(v, v) - onp.outer(w, w)
        else:
            d = _ints(rng, (n,))
            d[rng.integers(0, n)] = 0.0
            if n > 1:
                d[rng.integers(0, n)] = 0.0
            A = Pm @ onp.diag(d) @ Pm.T
        return A, info
    if kind in ("hard_integer", "hadamard"):
        H = _hadamard(n) if n in (1, 2, 4, 8) and (kind == "hadamard" or rng.random() < 0.5) else None
        d = _ints(rng, (n,), -4, 4)
        if kind == "hard_integer":
            j = int(rng.integers(n))
            d[j] = d.min() - float(rng.integers(1, 4))               # unique lowest (negative or not)
            if rng.random() < 0.3 and n > 2:
                k2 = (j + 1) % n
                d[k2] = d[j]                                         # multiple lowest
        if H is not None:
            A = H @ onp.diag(d * n) @ H.T / n                        # exact: integer matrix with eigenvectors H[:, j] / sqrt(n)
            info["basis"] = H
        else:
            A = Pm @ onp.diag(d) @ Pm.T
            info["basis"] = Pm
        info["eigs"] = d
        return A, info
    raise ValueError(kind)


def gen_struct_exact_call(rng, n, kind, k):
    A, info = gen_struct_matrix(rng, n, kind)
    b = _ints(rng, (n,))
    if kind == "zero_matrix" and k % 2:
        b = onp.zeros(n)
    if k % 5 == 4:
        b = onp.zeros(n)
    if kind == "hard_integer" or (kind == "hadamard" and k % 2):
        # b exactly orthogonal to the lowest eigenspace: integer combination of the other (exact) eigenvectors
        d = info["eigs"]
        cfs = _ints(rng, (n,))
        cfs[d == d.min()] = 0.0
        b = info["basis"] @ cfs
    Delta = 2.0 ** int(rng.integers(-6, 7))
    return A, b, Delta, {"kind": kind, "n": n, "Delta": Delta, "basis": "hadamard" if "basis" in info and info["basis"].shape[0] > 1 and abs(info["basis"][0, 0]) == 1 and (onp.abs(info["basis"]) == 1).all() else "permutation"}


# ------------------------------------------------------------------------------------------------ worker side

_W = {"installed": False, "warm": set(), "no_return": 0}


def _setup():
    from vlib import monitors_c06 as mon
    if not _W["installed"]:
        mon.install_contracts(mode="record")
        _W["installed"] = True
    return mon


def _run_cg_bundle(case, res, mon):
    import jax.numpy as np
    from optimism import EquationSolver as ES
    rng = rng_of(case["seed"])
    n = case["n"]
    sp = case["cls"][3:]
    deep = False
    for k in range(case["calls"]):
        H, g, P, x, rec = gen_cg_call(rng, n, sp, k)
        Hj, Pj = np.asarray(H), np.asarray(P)
        settings = ES.get_settings(use_preconditioned_inner_product_for_cg=rec["pre"], max_cg_iters=rec["max_cg_iters"],
                                   cg_tol=rec["cg_tol"], cg_inexact_solve_ratio=rec["ratio"], debug_info=False)
        mon.set_context(dict(rec, seed=case["seed"], call=k))
        try:
            out = ES.solve_trust_region_minimization(np.asarray(x), np.asarray(g), lambda v: Hj @ v, lambda v: Pj @ v,
                                                     rec["Delta"], settings)
        except mon.C06ContractViolation:
            raise
        except Exception as e:      # the property says the call must succeed for every admissible input
            res.violate("cg.raised", {"exception": "%s: %s" % (type(e).__name__, str(e)[:200]), "call": rec})
            continue
        res.count("cg.calls")
        res.count("cg.P:" + rec["P_kind"])
        res.count("cg.g:" + rec["g_kind"])
        res.count("cg.spectrum:" + sp)
        res.count("cg.basis:" + rec["basis"])
        if sp == "zero_curvature" and rec["g_kind"] == "in_nullspace":
            res.count("cg.zero_curvature_first_direction")
        try:
            its = int(out[3])
            if its >= 2 or out[2] in ("boundary", "neg curve"):
                deep = True
            res.count("cg.iters_total", its)
            if its >= 5:
                res.count("cg.calls_with_5+_iters")
            if its >= 20:
                res.count("cg.calls_with_20+_iters")
        except Exception:
            pass
    mon.set_context(None)
    res.nontrivial = deep


def _run_dogleg_bundle(case, res, mon):
    import jax.numpy as np
    from optimism import EquationSolver as ES
    rng = rng_of(case["seed"])
    n = case["n"]
    for k in range(case["calls"]):
        cp, nw, M, Delta, rec = gen_dogleg_call(rng, n, k)
        Mj = np.asarray(M)
        mon.set_context(dict(rec, seed=case["seed"], call=k))
        try:
            ES.dogleg_step(np.asarray(cp), np.asarray(nw), Delta, lambda v: Mj @ v)
        except mon.C06ContractViolation:
            raise
        except Exception as e:
            res.violate("dogleg.raised", {"exception": "%s: %s" % (type(e).__name__, str(e)[:200]), "call": rec})
            continue
        res.count("dogleg.calls")
        res.count("dogleg.kind:" + rec["kind"])
        res.count("dogleg.metric:" + rec["metric"])
    mon.set_context(None)


def _warm_exact(n, mon):
    """Compile the kernels for this n outside the watchdog (an interior, a boundary and a hard call on easy data)."""
    if n in _W["warm"]:
        return
    import jax.numpy as np
    from optimism.treigen import treigen
    orig = getattr(treigen.solve, "__c06_original__", treigen.solve)
    A = onp.diag(onp.arange(1.0, n + 1.0))
    b = onp.ones(n)
    for AA, bb, D in ((A, b, 100.0 * n), (A, b, 0.1), (-A, onp.eye(n)[0] if n > 1 else onp.zeros(1), 1.0)):
        try:
            mon.call_with_watchdog(orig, (np.asarray(AA), np.asarray(bb), D), 60.0)
        except Exception:
            pass
    _W["warm"].add(n)


def _run_exact_bundle(case, res, mon):
    import jax.numpy as np
    from optimism.treigen import treigen
    rng = rng_of(case["seed"])
    n = case["n"]
    kind = case["cls"][6:]
    _warm_exact(n, mon)
    nontriv = False
    for k in range(case["calls"]):
        A, b, Delta, rec = gen_exact_call(rng, n, kind, k)
        mon.set_context(dict(rec, seed=case["seed"], call=k))
        args = (np.asarray(A), np.asarray(b), Delta)
        res.count("exact.calls")
        res.count("exact.kind:" + kind)
        if kind == "near_hard":
            res.count("exact.near_hard_calls")
        returned = False
        why = None
        try:
            mon.call_with_watchdog(treigen.solve, args, WALL_BUDGET_S)
            returned = True
        except mon.ExactSolverNoReturn as e:
            why = str(e)
        except mon.C06ContractViolation:
            raise
        except Exception as e:
            res.violate("exact.raised", {"exception": "%s: %s" % (type(e).__name__, str(e)[:200]), "call": rec})
            continue
        mech, ref = mon.classify_no_return(A, b, Delta)
        if ref["lam"] > 0:
            nontriv = True
        if ref["case"] == "hard":
            if rec["basis"] == "haar":
                res.count("exact.hard_general_basis")
            if kind == "hard_multi":
                res.count("exact.hard_multiple_lowest")
        if mech:
            res.count("exact.input_near_pole")
            if returned:
                res.count("exact.input_near_pole_returned")
        if not returned:
            res.count("exact.no_return")
            if _W["no_return"] < CONFIRM_PER_WORKER:
                # confirm the observer's verdict the slow way: observer off, plain wall-clock budget
                mon.set_loop_observer(False)
                try:
                    mon.call_with_watchdog(treigen.solve, args, WALL_BUDGET_S)
                    res.count("exact.no_return_NOT_confirmed_by_wall_clock")
                    res.inconclusive("loop observer reported a repeated state but the call returned within the wall budget")
                except mon.ExactSolverNoReturn:
                    res.count("exact.no_return_confirmed_by_wall_clock")
                except Exception:
                    pass
                finally:
                    mon.set_loop_observer(True)
            _W["no_return"] += 1
            if mech:
                res.count("exact.no_return_near_pole")
            det = {"why": why, "ref_case": ref["case"], "ref_multiplier": ref["lam"], "pole_gap": ref["pole_gap"],
                   "call": rec, "seed": case["seed"], "k": k}
            if n <= 4:
                det.update(A=A.tolist(), b=b.tolist())
            res.violate("exact.no_return", det, mech)
            res.checks += 1
    mon.set_context(None)
    res.nontrivial = nontriv


def _census(res, A, b, prefix):
    n = A.shape[0]
    if not onp.any(A):
        res.count(prefix + "struct:zero_matrix")
        res.count(prefix + ("struct:zero_matrix_b_zero" if not onp.any(b) else "struct:zero_matrix_b_nonzero"))
    else:
        if onp.trace(A) == 0:
            res.count(prefix + "struct:trace_exactly_zero")
        if not onp.any(onp.diag(A)):
            res.count(prefix + "struct:diagonal_exactly_zero")
        w = onp.linalg.eigvalsh(A)
        sc = onp.abs(w).max()
        if onp.abs(w + w[::-1]).max() <= 1e-12 * sc:
            res.count(prefix + "struct:spectrum_symmetric_about_zero")
        if (onp.diff(w) <= 1e-12 * sc).any():
            res.count(prefix + "struct:duplicate_eigenvalues")
        if (onp.abs(w) <= 1e-12 * sc).any():
            res.count(prefix + "struct:zero_eigenvalue")
    if not onp.any(b):
        res.count(prefix + "struct:b_zero")


def _exact_one(res, mon, treigen, A, b, Delta, rec, tag):
    """One guarded call of the exact solver (+ contract); returns the oracle record."""
    import jax.numpy as np
    mon.set_context(dict(rec, tag=tag))
    res.count("exact.calls")
    try:
        mon.call_with_watchdog(treigen.solve, (np.asarray(A), np.asarray(b), Delta), WALL_BUDGET_S)
    except mon.ExactSolverNoReturn as e:
        mech, ref = mon.classify_no_return(A, b, Delta)
        res.count("exact.no_return")
        res.violate("exact.no_return", {"why": str(e), "A": A.tolist() if A.shape[0] <= 4 else None, "b": b.tolist(), "Delta": Delta, "call": rec}, mech)
        res.checks += 1
        return ref
    except mon.C06ContractViolation:
        raise
    except Exception as e:
        res.violate("exact.raised", {"exception": "%s: %s" % (type(e).__name__, str(e)[:200]), "A": A.tolist() if A.shape[0] <= 4 else None,
                                     "b": b.tolist(), "Delta": Delta})
        return None
    return mon.trs_global_min(A, b, Delta)


def _run_exact_struct(case, res, mon):
    from optimism.treigen import treigen
    rng = rng_of(case["seed"])
    n, kind = case["n"], case["kind"]
    _warm_exact(n, mon)
    nontriv = False
    for k in range(case["calls"]):
        A, b, Delta, rec = gen_struct_exact_call(rng, n, kind, k)
        res.count("exact_struct.calls")
        res.count("exact_struct.kind:" + kind)
        _census(res, A, b, "exact_")
        ref = _exact_one(res, mon, treigen, A, b, Delta, rec, "exact_struct")
        if ref is not None:
            if ref["lam"] > 0:
                nontriv = True
            if ref["case"] == "hard":
                res.count("exact_struct.hard_case")
                if rec["basis"] == "hadamard":
                    res.count("exact_struct.hard_case_hadamard_basis")
    mon.set_context(None)
    res.nontrivial = nontriv or kind == "zero_matrix"


def _run_exact_exhaustive(case, res, mon):
    import itertools
    from optimism.treigen import treigen
    n = case["n"]
    _warm_exact(n, mon)
    vals = [-2.0, -1.0, 0.0, 1.0, 2.0]
    radii = [0.5, 1.0, 4.0]
    if n == 1:
        mats = [onp.array([[a]]) for a in vals]
        bs = [onp.array([x]) for x in (-1.0, 0.0, 1.0)]
    else:
        allm = [onp.array([[a, c], [c, d]]) for a, c, d in itertools.product(vals, vals, vals)]
        mats = allm[case["chunk"] * 5:(case["chunk"] + 1) * 5]
        bs = [onp.array([x, y]) for x, y in itertools.product((-1.0, 0.0, 1.0), repeat=2)]
    for A in mats:
        for b in bs:
            for D in radii:
                _census(res, A, b, "exact_")
                ref = _exact_one(res, mon, treigen, A, b, D, {"kind": "exhaustive", "n": n, "Delta": D}, "exhaustive")
                res.count("exact.exhaustive_%dx%d_calls" % (n, n))
                if ref is not None and ref["case"] == "hard":
                    res.count("exact.exhaustive_hard_cases")
    mon.set_context(None)
    res.nontrivial = True


def _run_cg_struct(case, res, mon):
    import jax.numpy as np
    from optimism import EquationSolver as ES
    rng = rng_of(case["seed"])
    n, kind = case["n"], case["kind"]
    deep = False
    for k in range(case["calls"]):
        H, info = gen_struct_matrix(rng, n, kind)
        g = _ints(rng, (n,))
        if k % 6 == 5:
            g = onp.zeros(n)
        P = onp.eye(n) if k % 3 else onp.diag(2.0 ** rng.integers(-3, 4, n).astype(float))
        pre = bool(k % 2)
        Delta = 2.0 ** int(rng.integers(-6, 7))
        rec = {"kind": kind, "n": n, "Delta": Delta, "pre": pre, "struct": True}
        _census(res, H, g, "cg_")
        Hj, Pj = np.asarray(H), np.asarray(P)
        st = ES.get_settings(use_preconditioned_inner_product_for_cg=pre, max_cg_iters=int(rng.integers(1, 30)), debug_info=False,
                             cg_tol=10.0 ** rng.uniform(-12, -6))
        mon.set_context(dict(rec, seed=case["seed"], call=k))
        try:
            out = ES.solve_trust_region_minimization(np.zeros(n), np.asarray(g), lambda v: Hj @ v, lambda v: Pj @ v, Delta, st)
        except mon.C06ContractViolation:
            raise
        except Exception as e:
            res.violate("cg.raised", {"exception": "%s: %s" % (type(e).__name__, str(e)[:200]), "H": H.tolist() if n <= 4 else None,
                                      "g": g.tolist(), "call": rec})
            continue
        res.count("cg.calls")
        res.count("cg_struct.calls")
        if int(out[3]) >= 2 or out[2] in ("boundary", "neg curve"):
            deep = True
    mon.set_context(None)
    res.nontrivial = deep


def _run_dogleg_struct(case, res, mon):
    import jax.numpy as np
    from optimism import EquationSolver as ES
    rng = rng_of(case["seed"])
    n = case["n"]
    for k in range(case["calls"]):
        cp = _ints(rng, (n,), -4, 4)
        nw = _ints(rng, (n,), -8, 8)
        M = onp.eye(n) if k % 2 else onp.diag(2.0 ** rng.integers(-2, 3, n).astype(float))
        kind = k % 6
        if kind == 0:
            nw = cp * float(rng.integers(1, 4))                      # exactly collinear
        elif kind == 1:
            nw = cp.copy()                                           # identical
        elif kind == 2:
            cp = onp.zeros(n)
        Delta = 2.0 ** int(rng.integers(-4, 5))
        if kind == 3:                                                # Cauchy point exactly on the boundary: cc == tt bit for bit
            cp = onp.zeros(n)
            cp[0] = Delta
            M = onp.eye(n)
        elif kind == 4:                                              # quasi-Newton point exactly on the boundary: nn == tt
            nw = onp.zeros(n)
            nw[-1] = Delta
            cp = nw / 4.0 if n == 1 else onp.eye(n)[0] * Delta / 4.0
            M = onp.eye(n)
        Mj = np.asarray(M)
        mon.set_context({"kind": "struct%d" % kind, "n": n, "Delta": Delta, "call": k, "seed": case["seed"]})
        try:
            ES.dogleg_step(np.asarray(cp), np.asarray(nw), Delta, lambda v: Mj @ v)
        except mon.C06ContractViolation:
            raise
        except Exception as e:
            res.violate("dogleg.raised", {"exception": "%s: %s" % (type(e).__name__, str(e)[:200]), "cp": cp.tolist(), "newton": nw.tolist()})
            continue
        res.count("dogleg.calls")
        res.count("dogleg_struct.calls")
        res.count("dogleg_struct.kind:%d" % kind)
    mon.set_context(None)
    res.nontrivial = True


def gen_illcond(rng, n, band, grad, radius, place, exact_basis):
    """SPD matrix with one tiny eigenvalue (mean|sigma| ~ ||A||), gradient class, radius band and position of the Newton step.
    exact_basis: A = P diag(sigma) P^T with a permutation (entries exact) -- else a Haar eigenbasis (sigma_0 is then only
    defined up to eps ||A||)."""
    scale = 10.0 ** rng.uniform(-3, 3)
    sig = rng.uniform(0.3, 3.0, n) * scale
    if n > 2 and rng.random() < 0.4:
        sig[1:] = 10.0 ** rng.uniform(-3, 0, n - 1) * scale
        sig[-1] = scale
    top = float(sig[1:].max()) if n > 1 else float(sig[0])
    mean = float(onp.mean(sig[1:])) if n > 1 else float(sig[0])
    lo, hi = {"cond1e8-1e10": (-10, -8), "cond1e10-1e12": (-12, -10), "cond1e12-1e14": (-14, -12), "cond1e14-1e16": (-16, -14),
              "at_or_below_eps": (-18, -15.7)}[band]
    sig[0] = mean * 10.0 ** rng.uniform(lo, hi)
    if band == "at_or_below_eps" and rng.random() < 0.3:
        sig[0] = 0.0 if exact_basis else sig[0]
    if exact_basis:
        perm = rng.permutation(n)
        Q = onp.eye(n)[:, perm]
        A = Q @ onp.diag(sig) @ Q.T
    else:
        Q = haar_on(rng, n) if n > 1 else onp.eye(1)
        A = _sym(Q @ onp.diag(sig) @ Q.T)
    c = rng.standard_normal(n)
    if grad == "orth_exact":
        c[0] = 0.0                                   # exactly zero component along the lowest eigenvector (exact basis only)
        b = Q @ c
    elif grad == "orth_numeric":
        b = Q @ c
        w, V = onp.linalg.eigh(A)
        b = b - V[:, 0] * (V[:, 0] @ b)              # orthogonal to the COMPUTED lowest eigenvector: component ~ eps ||b||
    else:
        b = Q @ c
    if n == 1 and grad != "generic":
        b = onp.zeros(1)
    # Newton step length (reference spectrum), then scale b so that it sits where `place` wants it relative to Delta
    lo_r, hi_r = {"R1e-6..1e-2": (-6, -2), "R1e-2..1e2": (-2, 2), "R1e2..1e8": (2, 8)}[radius]
    Delta = 10.0 ** rng.uniform(lo_r, hi_r)
    with onp.errstate(all="ignore"):
        cc = Q.T @ b
        sN = onp.where(sig > 0, cc / onp.where(sig > 0, sig, 1.0), 0.0)
        if sig[0] <= 0 or abs(cc[0]) <= 1e-13 * max(onp.abs(cc).max(), 1e-300):
            sN[0] = 0.0 if sig[0] <= 0 else sN[0]
    nN = float(onp.linalg.norm(sN))
    if nN > 0 and onp.isfinite(nN):
        f = {"newton_interior": 10.0 ** rng.uniform(0.05, 4), "newton_on_boundary": 1.0, "newton_outside": 10.0 ** (-rng.uniform(0.05, 3))}[place]
        b = b * (Delta / f / nN)
    return A, b, float(Delta), {"band": band, "grad": grad, "radius": radius, "place": place, "exact_basis": bool(exact_basis), "n": n,
                                "Delta": float(Delta), "sigma0_over_mean": float(sig[0] / mean) if mean > 0 else 0.0}


def _illcond_combos(case):
    import itertools
    combos = list(itertools.product(IC_BANDS, IC_GRADS, IC_RADII))
    out = []
    for k, (band, grad, radius) in enumerate(combos):
        place = IC_PLACE[(k + case["rep"]) % 3]
        exact_basis = (grad == "orth_exact") or ((k + case["rep"]) % 2 == 0)
        out.append((band, grad, radius, place, exact_basis))
    return out


def _run_exact_illcond(case, res, mon):
    from optimism.treigen import treigen
    rng = rng_of(case["seed"])
    n = case["n"]
    _warm_exact(n, mon)
    for k, (band, grad, radius, place, eb) in enumerate(_illcond_combos(case)):
        A, b, Delta, rec = gen_illcond(rng, n, band, grad, radius, place, eb)
        res.count("exact_illcond.calls")
        res.count("exact_illcond:%s|%s|%s" % (band, grad, radius))
        res.count("exact_illcond.place:" + place)
        res.count("exact_illcond.basis:" + ("exact" if eb else "haar"))
        before = mon.LOG.counters.get("exact.interior_reference_used", 0)
        _exact_one(res, mon, treigen, A, b, Delta, rec, "exact_illcond")
        if mon.LOG.counters.get("exact.interior_reference_used", 0) > before:
            res.count("exact_illcond.judged_against_newton_reference")
            res.count("exact_illcond.newton_interior|%s|%s" % (band, grad))
    mon.set_context(None)
    res.nontrivial = True


def _run_cg_illcond(case, res, mon):
    import jax.numpy as np
    from optimism import EquationSolver as ES
    rng = rng_of(case["seed"])
    n = case["n"]
    deep = False
    for k, (band, grad, radius, place, eb) in enumerate(_illcond_combos(case)):
        H, g, Delta, rec = gen_illcond(rng, n, band, grad, radius, place, eb)
        pk = k % 3
        P = onp.eye(n) if pk == 0 else (onp.diag(1.0 / onp.maximum(onp.abs(onp.diag(H)), 1e-300)) if pk == 1 else onp.diag(2.0 ** rng.integers(-3, 4, n).astype(float)))
        pre = bool(k % 2)
        Hj, Pj = np.asarray(H), np.asarray(P)
        st = ES.get_settings(use_preconditioned_inner_product_for_cg=pre, max_cg_iters=int(rng.integers(1, 61)), debug_info=False,
                             cg_tol=10.0 ** rng.uniform(-12, -4))
        mon.set_context(dict(rec, pre=pre, seed=case["seed"], call=k))
        try:
            out = ES.solve_trust_region_minimization(np.zeros(n), np.asarray(g), lambda v: Hj @ v, lambda v: Pj @ v, Delta, st)
        except mon.C06ContractViolation:
            raise
        except Exception as e:
            res.violate("cg.raised", {"exception": "%s: %s" % (type(e).__name__, str(e)[:200]), "call": rec})
            continue
        res.count("cg.calls")
        res.count("cg_illcond.calls")
        res.count("cg_illcond:%s|%s|%s" % (band, grad, radius))
        if int(out[3]) >= 2 or out[2] in ("boundary", "neg curve"):
            deep = True
    mon.set_context(None)
    res.nontrivial = deep


def _run_dogleg_illcond(case, res, mon):
    """Dogleg between the Cauchy point and the Newton point of an extremely ill-conditioned SPD model, in the Euclidean metric
    and in a diagonal metric of condition up to 1e12."""
    import jax.numpy as np
    from optimism import EquationSolver as ES
    rng = rng_of(case["seed"])
    n = case["n"]
    for k, (band, grad, radius, place, eb) in enumerate(_illcond_combos(case)[::3]):
        H, g, Delta, rec = gen_illcond(rng, n, band, grad, radius, place, eb)
        if not onp.any(g):
            continue
        gHg = float(g @ H @ g)
        cp = -(float(g @ g) / gHg) * g if gHg > 0 else -g
        w, V = onp.linalg.eigh(H)
        nw = -V @ ((V.T @ g) / onp.maximum(w, 1e-300 + 1e-18 * w[-1]))
        if not (onp.all(onp.isfinite(cp)) and onp.all(onp.isfinite(nw))):
            continue
        M = onp.eye(n) if k % 2 else onp.diag(10.0 ** rng.uniform(-6, 6, n))
        Mj = np.asarray(M)
        mon.set_context(dict(rec, seed=case["seed"], call=k))
        try:
            ES.dogleg_step(np.asarray(cp), np.asarray(nw), Delta, lambda v: Mj @ v)
        except mon.C06ContractViolation:
            raise
        except Exception as e:
            res.violate("dogleg.raised", {"exception": "%s: %s" % (type(e).__name__, str(e)[:200]), "call": rec})
            continue
        res.count("dogleg.calls")
        res.count("dogleg_illcond.calls")
        res.count("dogleg_illcond.band:" + band)
    mon.set_context(None)
    res.nontrivial = True


class _DenseObjective:
    """Duck-typed objective for the in-situ class: f(x) = sum_i w_i (x_i^2 - 1)^2 / 4 + x.K.x / 2 - c.x (non-convex)."""

    def __init__(self, K, w, c, P):
        import jax
        import jax.numpy as np
        self.K, self.w, self.c = np.asarray(K), np.asarray(w), np.asarray(c)
        self.Pm = np.asarray(P)
        self.Mm = np.asarray(onp.linalg.inv(P))
        f = lambda x: 0.25 * np.sum(self.w * (x * x - 1.0) ** 2) + 0.5 * x @ (self.K @ x) - self.c @ x
        self.value = jax.jit(f)
        self.gradient = jax.jit(jax.grad(f))
        self.hessian_vec = jax.jit(lambda x, v: jax.jvp(jax.grad(f), (x,), (v,))[1])
        self.p = None

    def apply_precond(self, v):
        return self.Pm @ v

    def multiply_by_approx_hessian(self, v):
        return self.Mm @ v

    def update_precond(self, x):
        pass

    def check_stability(self, x):
        pass

    def gradient_and_tangent(self, x):
        return self.gradient(x), (lambda v: self.hessian_vec(x, v))


def _run_insitu(case, res, mon):
    import jax.numpy as np
    from optimism import EquationSolver as ES
    from optimism import EquationSolverSubspace as ESS
    rng = rng_of(case["seed"])
    n = case["n"]
    Q = haar_on(rng, n) if n > 1 else onp.eye(1)
    K = _sym(Q @ onp.diag(rng.uniform(-1.0, 2.0, n)) @ Q.T)
    w = rng.uniform(0.5, 2.0, n)
    c = rng.standard_normal(n)
    Mh = _sym(Q @ onp.diag(rng.uniform(1.0, 4.0, n)) @ Q.T)
    obj = _DenseObjective(K, w, c, onp.linalg.inv(Mh))
    x0 = np.asarray(rng.standard_normal(n) * 2.0)
    before = dict(mon.LOG.counters)
    for pre in (False, True):
        st = ES.get_settings(use_preconditioned_inner_product_for_cg=pre, max_trust_iters=40, tr_size=0.7, debug_info=False,
                             max_cg_iters=int(rng.integers(2, 20)), tol=1e-9)
        mon.set_context({"insitu": "trust_region_minimize", "pre": pre, "seed": case["seed"]})
        ES.trust_region_minimize(obj, x0, st)
        res.count("insitu.solves")
    st = ES.get_settings(max_trust_iters=25, tr_size=0.5, debug_info=False, max_cg_iters=int(rng.integers(2, 10)), tol=1e-9)
    mon.set_context({"insitu": "trust_region_subspace_minimize", "seed": case["seed"]})
    try:
        mon.call_with_watchdog(ESS.trust_region_subspace_minimize, (obj, x0, st), 120.0)
        res.count("insitu.solves")
        res.count("insitu.subspace_solves")
    except mon.ExactSolverNoReturn:
        res.count("insitu.subspace_no_return")   # evidence only: the direct near-hard class decides this
    mon.set_context(None)
    after = mon.LOG.counters
    for key, name in (("contract_evals:cg", "insitu.cg_contract_evals"), ("contract_evals:dogleg", "insitu.dogleg_contract_evals"),
                      ("contract_evals:exact", "insitu.exact_contract_evals"), ("contract_evals:subspace_cg", "insitu.subspace_cg_contract_evals")):
        res.count(name, after.get(key, 0) - before.get(key, 0))
    res.nontrivial = True


def run_case(case):
    res = Res(case)
    mon = _setup()
    mon.LOG.reset()
    cls = case["cls"]
    try:
        if cls == "cg_struct":
            _run_cg_struct(case, res, mon)
        elif cls == "exact_illcond":
            _run_exact_illcond(case, res, mon)
        elif cls == "cg_illcond":
            _run_cg_illcond(case, res, mon)
        elif cls == "dogleg_illcond":
            _run_dogleg_illcond(case, res, mon)
        elif cls.startswith("cg_"):
            _run_cg_bundle(case, res, mon)
        elif cls == "dogleg":
            _run_dogleg_bundle(case, res, mon)
            res.nontrivial = (mon.LOG.counters.get("dogleg.branch:second_leg", 0) + mon.LOG.counters.get("dogleg.branch:cauchy_clipped", 0)) > 0
        elif cls == "exact_struct":
            _run_exact_struct(case, res, mon)
        elif cls.startswith("exact_exhaustive"):
            _run_exact_exhaustive(case, res, mon)
        elif cls == "dogleg_struct":
            _run_dogleg_struct(case, res, mon)
        elif cls.startswith("exact_"):
            _run_exact_bundle(case, res, mon)
        elif cls == "insitu":
            _run_insitu(case, res, mon)
        else:
            res.inconclusive("unknown class " + cls)
    finally:
        mon.transfer(res)
    return res
