"""C20 -- legacy-VTK output is a well-formed dataset that round-trips.

Monitor: every file the real `optimism.VTKWriter.VTKWriter` writes into a scratch directory is read back by an
independent strict legacy-VTK reader (vlib/oracles/c20_vtkparse.py: token stream, section grammar, every declared count
enforced) and compared with a model of what the harness supplied (coordinates, connectivity, fields, spheres, contact
edges); successive write() calls of one writer are compared byte for byte.
"""
import itertools
import os
import shutil
import tempfile
import warnings

import numpy as onp

from vlib.common import Res, derive_seed, rng_of

PROPERTY = "C20"
LEVEL = "exploration"
RULE = ("one case = one mesh (library structured generator or harness Delaunay generator, element order 1..4, optional bubble/"
        "hole/affine map) x several independent writer configurations; a configuration = random subset and order of "
        "scalar/vector/tensor nodal and cell fields (1-, 2- or 3-D components, numpy or jax containers, the numpy dtype that "
        "corresponds to the declared VTKDataType, values over the whole range of the type), 0-3 spheres, 0-5 contact edges "
        "(added in one or two calls), 1-3 consecutive write() calls. Structured classes pin the ingredients of D11a/b/c/d so "
        "each mechanism is exercised on its own; class 'history' = random sequences (3-8 operations) of add_nodal_field / add_cell_field "
        "(30% overwrite an existing name with new kind/type/data) / add_sphere / add_contact_edges / write / change of fileName on one "
        "or two interleaved writers of the same mesh, with a write() after every operation and each file compared with the harness's "
        "shadow model of that writer so far. Non-trivial = the file carries at least one data array or sphere or contact "
        "edge; distinct = canonical hash of the case parameters (seeded).")
ASSUMPTIONS = [
    "the reader in vlib/oracles/c20_vtkparse.py implements the legacy-VTK 'simple legacy formats' grammar for ASCII unstructured grids "
    "(every worker first runs its self-test: a hand-written example file is accepted and 17 one-edit corruptions are each rejected "
    "with the right clause; failure => inconclusive)",
    "exact comparison: Python's float() of the shortest-repr decimal token reproduces the double (float32 after a cast); "
    "field values supplied are finite",
    "meshes are valid (distinct node coordinates, straight-sided elements), so written points can be matched to mesh nodes by "
    "exact coordinates and element vertices are the three nodes spanning the largest triangle",
    "field data are supplied with the numpy dtype that corresponds to the declared VTKDataType (bit: uint8 in {0,1})",
    "for element order >= 3 legacy VTK can only show the vertex triangle: 'supplied' then means the vertex nodes and their values",
]
REQUIRED = {
    "all": {"files_parsed": 150, "rewrites_compared": 40, "order1": 10, "order2": 10, "order3": 10, "order4": 10,
            "point_arrays_checked": 100, "cell_arrays_checked": 60, "values_compared": 20000,
            "spheres_1+": 30, "edges_1+": 30, "writes_2+": 40, "cfg_spheres_and_nodal_and_rewrite": 10,
            "cfg_highorder_spheres": 10, "cfg_cellfields_and_edges": 10, "cfg_bare": 4, "cfg_uint64_padded": 4,
            "kind_SCALARS": 40, "kind_VECTORS": 40, "kind_TENSORS": 40, "container_jax": 20, "parser_selftest_runs": 1,
            "class:random": 10, "class:large_tables": 2, "name_shared_between_nodal_and_cell": 15, "class:d11a_rewrite": 4, "class:d11b_highorder_spheres": 4, "class:d11c_celldata_edges": 4,
            "class:each_dtype": 11, "class:uint64_padded": 2, "class:bare": 2, "class:history": 10,
            "histories": 60, "histories_two_writers_interleaved": 10, "history_ops": 250,
            "write_after_nodal": 20, "write_after_cell": 20, "write_after_overwrite": 8, "write_after_sphere": 15,
            "write_after_edges": 30, "write_after_write": 12, "write_after_rename": 8, "write_after_nothing": 20},
}
for _t in ("bit", "unsigned_char", "char", "unsigned_short", "short", "unsigned_int", "int", "unsigned_long", "long", "float", "double"):
    REQUIRED["all"]["dtype_" + _t] = 6
WATCHDOG_S = {"quick": 1800, "thorough": 3 * 3600}

DTYPES = ["BIT", "UNSIGNED_CHAR", "CHAR", "UNSIGNED_SHORT", "SHORT", "UNSIGNED_INT", "INT", "UNSIGNED_LONG", "LONG", "FLOAT", "DOUBLE"]
KINDS = ["SCALARS", "VECTORS", "TENSORS"]

K_D11D = "VTK padding promotes uint64 field data to float"


def build_cases(tier, seed):
    q = tier == "quick"
    cases = []

    def add(cls, n, ncfg, ngroups=16, **kw):
        for i in range(n):
            c = {"cls": cls, "group": "%s%d" % (cls[:4], i % ngroups), "seed": derive_seed(seed, PROPERTY, cls, i), "ncfg": ncfg,
                 "cost": ncfg}
            c.update(kw)
            cases.append(c)

    add("random", 40 if q else 12000, 5)
    add("d11a_rewrite", 8 if q else 600, 4)
    add("d11b_highorder_spheres", 8 if q else 600, 4)
    add("d11c_celldata_edges", 8 if q else 600, 4)
    add("history", 24 if q else 6000, 4)
    add("uint64_padded", 4 if q else 60, 4)
    add("bare", 4 if q else 16, 2)
    # size class: tables with more rows than any power-of-two block size an implementation might use (8k, 16k, 64k rows),
    # reached through many points/cells and through TENSORS arrays (3 rows per record)
    sizes = [(95, 96), (64, 65)] if q else [(95, 96), (64, 65), (129, 128), (182, 181), (257, 256), (46, 60), (31, 89)]
    for i, (nx, ny) in enumerate(sizes):
        cases.append({"cls": "large_tables", "group": "large%d" % i, "seed": derive_seed(seed, PROPERTY, "large_tables", i), "ncfg": 1,
                      "cost": 12, "nx": nx, "ny": ny})
    # every data type x field kind x nodal/cell at least once, without any padding
    for rep in range(1 if q else 12):
        for i, dt in enumerate(DTYPES):
            cases.append({"cls": "each_dtype", "group": "each%d" % (i % 16), "seed": derive_seed(seed, PROPERTY, "each_dtype", rep, i),
                          "ncfg": 2, "dtype": dt, "cost": 2})
    return cases


# ------------------------------------------------------------------------------------------------ supplied-data generator

def _np_dtype(dt):
    from vlib.oracles.c20_vtkparse import NUMPY_OF
    return NUMPY_OF[dt.lower()]


def _values(rng, shape, dt):
    """Finite values spread over the whole range of the numpy dtype that matches the VTK data type."""
    npdt = _np_dtype(dt)
    n = int(onp.prod(shape))
    if dt == "BIT":
        v = rng.integers(0, 2, size=n).astype(npdt)
    elif dt in ("FLOAT", "DOUBLE"):
        mag = 10.0 ** rng.uniform(-30 if dt == "FLOAT" else -250, 30 if dt == "FLOAT" else 250, size=n)
        mag = onp.where(rng.random(n) < 0.6, 10.0 ** rng.uniform(-3, 3, size=n), mag)
        v = rng.standard_normal(n) * mag
        special = onp.array([0.0, -0.0, 1.0, -1.0, 0.1, 1.0 / 3.0, 1e-5, 123456789.125, 2.0 ** -1074 if dt == "DOUBLE" else 1e-45,
                             onp.finfo(npdt).max, -onp.finfo(npdt).max, onp.finfo(npdt).tiny, 1e16, 1e22, 5e-324 if dt == "DOUBLE" else 1e-38])
        pick = rng.random(n) < 0.15
        v = onp.where(pick, special[rng.integers(0, len(special), size=n)], v)
        with onp.errstate(over="ignore"):
            v = v.astype(npdt)
        v = onp.where(onp.isfinite(v), v, npdt(1.5)).astype(npdt)
    else:
        info = onp.iinfo(npdt)
        v = rng.integers(info.min, info.max, size=n, dtype=npdt, endpoint=True)
        small = rng.integers(0, 8, size=n).astype(npdt)
        r = rng.random(n)
        v = onp.where(r < 0.3, small, v)
        v = onp.where((r >= 0.3) & (r < 0.36), npdt(info.max), v)
        v = onp.where((r >= 0.36) & (r < 0.42), npdt(info.min), v)
        v = v.astype(npdt)
    return v.reshape(shape)


def _make_field(rng, nrec, kind, dt):
    """Returns (array handed to the writer as numpy, expected (nrec, ncomp) array of 3-D padded records)."""
    npdt = _np_dtype(dt)
    if kind == "SCALARS":
        col = bool(rng.random() < 0.4)
        data = _values(rng, (nrec, 1) if col else (nrec,), dt)
        exp = data.reshape(nrec, 1)
    elif kind == "VECTORS":
        d = int(rng.choice([1, 2, 2, 2, 3]))
        data = _values(rng, (nrec, d), dt)
        exp = onp.zeros((nrec, 3), dtype=npdt)
        exp[:, :d] = data
    else:
        d = int(rng.choice([1, 2, 2, 2, 3]))
        data = _values(rng, (nrec, d, d), dt)
        e3 = onp.zeros((nrec, 3, 3), dtype=npdt)
        e3[:, :d, :d] = data
        exp = e3.reshape(nrec, 9)
    return data, exp


def _mesh_for(case, rng):
    from vlib.gen import meshes
    cls = case["cls"]
    if cls == "large_tables":
        spec = {"kind": "structured", "nx": int(case["nx"]), "ny": int(case["ny"]), "order": 1, "bubble": False,
                "xext": [0.0, float(rng.uniform(1, 4))], "yext": [float(rng.uniform(-2, 0)), 1.0]}
        return meshes.build(spec, rng), spec
    if cls == "d11b_highorder_spheres":
        order = int(rng.choice([3, 4]))
    elif cls == "d11a_rewrite":
        order = int(rng.choice([1, 2]))
    else:
        order = int(rng.integers(1, 5))
    if rng.random() < 0.5:
        spec = {"kind": "structured", "nx": int(rng.integers(2, 5)), "ny": int(rng.integers(2, 5)), "order": order,
                "bubble": bool(order >= 2 and rng.random() < 0.25),
                "xext": [float(rng.uniform(-3, 0)), float(rng.uniform(0.5, 4))], "yext": [float(rng.uniform(-2, 0)), float(rng.uniform(0.3, 2))]}
    else:
        spec = {"kind": "delaunay", "nx": int(rng.integers(3, 5)), "ny": int(rng.integers(3, 5)), "order": order,
                "hole": bool(rng.random() < 0.25), "affine_kind": [None, "rot", "aniso", "shear"][int(rng.integers(0, 4))],
                "bubble": bool(order >= 2 and rng.random() < 0.2)}
    return meshes.build(spec, rng), spec


def _config_for(case, rng, order):
    """Ingredient counts of one writer configuration, by class."""
    cls = case["cls"]
    cfg = {"n_nodal": int(rng.integers(0, 5)), "n_cell": int(rng.integers(0, 4)), "n_sph": int(rng.integers(0, 4)),
           "n_edges": int(rng.integers(0, 6)), "n_writes": int(rng.integers(1, 4)), "dtypes": None,
           "allow_u64_pad": True}
    if cls == "d11a_rewrite":
        cfg.update(n_nodal=int(rng.integers(1, 4)), n_sph=int(rng.integers(1, 4)), n_writes=int(rng.integers(2, 4)))
        if rng.random() < 0.5:
            cfg["n_edges"] = 0
        else:
            cfg["n_cell"] = 0
    elif cls == "d11b_highorder_spheres":
        cfg.update(n_sph=int(rng.integers(1, 4)), n_writes=1, n_nodal=int(rng.integers(0, 4)))
        if rng.random() < 0.5:
            cfg["n_edges"] = 0
        else:
            cfg["n_cell"] = 0
    elif cls == "d11c_celldata_edges":
        cfg.update(n_sph=0, n_writes=1, n_cell=int(rng.integers(1, 4)), n_edges=int(rng.integers(1, 6)))
    elif cls == "bare":
        cfg.update(n_nodal=0, n_cell=0, n_sph=0, n_edges=0)
    elif cls == "large_tables":
        cfg.update(n_nodal=3, n_cell=2, n_sph=int(rng.integers(0, 3)), n_edges=int(rng.integers(0, 3)), n_writes=1, kinds_cycle=True,
                   dtypes=["DOUBLE", "INT"])
    elif cls == "each_dtype":
        cfg.update(n_nodal=3, n_cell=3, n_sph=0, n_edges=0, dtypes=[case["dtype"]], kinds_cycle=True)
    elif cls == "uint64_padded":
        cfg.update(n_nodal=int(rng.integers(1, 3)), n_cell=int(rng.integers(1, 3)), n_sph=int(rng.integers(1, 3)),
                   n_edges=int(rng.integers(1, 4)), dtypes=["UNSIGNED_LONG"])
    return cfg


# --------------------------------------------------------------------------------------------------------- geometry helpers

_COMBOS = {}


def _vertex_triples(xe):
    """Local indices of the three nodes of an element spanning the largest triangle (its vertices), CCW-agnostic."""
    n = len(xe)
    if n not in _COMBOS:
        _COMBOS[n] = onp.array(list(itertools.combinations(range(n), 3)))
    cb = _COMBOS[n]
    a, b, c = xe[cb[:, 0]], xe[cb[:, 1]], xe[cb[:, 2]]
    area = onp.abs((b[:, 0] - a[:, 0]) * (c[:, 1] - a[:, 1]) - (c[:, 0] - a[:, 0]) * (b[:, 1] - a[:, 1]))
    return cb[int(onp.argmax(area))]


def _area2(p, q, r):
    return (q[0] - p[0]) * (r[1] - p[1]) - (r[0] - p[0]) * (q[1] - p[1])


# ------------------------------------------------------------------------------------------- shadow model of a writer

class _Geo:
    """Per-mesh facts the comparison needs, computed without the writer."""
    def __init__(self, mesh, order):
        self.mesh = mesh
        self.order = order
        self.coords = onp.asarray(mesh.coords)
        self.conns = onp.asarray(mesh.conns)
        self.nN, self.nE = self.coords.shape[0], self.conns.shape[0]
        # vertex nodes: largest-area triple of every element
        self.vloc = [_vertex_triples(self.coords[self.conns[e]]) for e in range(self.nE)]
        vert_nodes = sorted({int(self.conns[e][k]) for e in range(self.nE) for k in self.vloc[e]})
        self.written_nodes_expected = list(range(self.nN)) if order <= 2 else vert_nodes
        # genuine element edges between vertex nodes (node ids of the mesh, as a contact search would return them)
        self.edge_pool = []
        for e in range(self.nE):
            v = [int(self.conns[e][k]) for k in self.vloc[e]]
            self.edge_pool += [(v[0], v[1]), (v[1], v[2]), (v[2], v[0])]


class _Shadow:
    """What the harness has handed to one writer so far."""
    def __init__(self):
        self.nodal, self.cell = {}, {}
        self.spheres, self.radii, self.edges = [], [], []

    def ctx(self, geo, **kw):
        d = {"order": geo.order, "n_nodes": geo.nN, "n_elems": geo.nE, "spheres": len(self.spheres), "edges": len(self.edges),
             "nodal": {k: (v["kind"], v["dtype"]) for k, v in self.nodal.items()},
             "cell": {k: (v["kind"], v["dtype"]) for k, v in self.cell.items()}}
        d.update(kw)
        return d


def _add_field(res, w, rng, sh, geo, what, dts=None, kind=None, p_replace=0.08, allow_u64_pad=True, will_pad=False):
    """add_nodal_field / add_cell_field with fresh data; returns 'overwrite' if an existing name was replaced."""
    import jax.numpy as jnp
    from optimism import VTKWriter
    FT, DT = VTKWriter.VTKFieldType, VTKWriter.VTKDataType
    nrec = geo.nN if what == "nodal" else geo.nE
    pool = dts or DTYPES
    dt = pool[int(rng.integers(0, len(pool)))] if not (dts is None and rng.random() < 0.35) else "DOUBLE"
    if kind is None:
        kind = KINDS[int(rng.integers(0, 3))]
    store = sh.nodal if what == "nodal" else sh.cell
    replaced = False
    if store and rng.random() < p_replace:
        name = list(store)[int(rng.integers(0, len(store)))]      # re-adding a name replaces the record (new kind/type/data)
        res.count("field_replaced")
        replaced = True
    else:
        name = "%s%d_%s" % ("n" if what == "nodal" else "c", len(store), ["u", "sigma", "eqps", "T", "id"][int(rng.integers(0, 5))])
        # the same name may legitimately be used for a nodal and for a cell array of one writer (they live in different sections)
        other = sh.cell if what == "nodal" else sh.nodal
        free = [k for k in other if k not in store]
        if free and rng.random() < 0.25:
            name = free[int(rng.integers(0, len(free)))]
            res.count("name_shared_between_nodal_and_cell")
    if dt == "UNSIGNED_LONG" and will_pad and not allow_u64_pad:
        dt = "LONG"
    data, exp = _make_field(rng, nrec, kind, dt)
    use_jax = bool(rng.random() < 0.3)
    arg = jnp.array(data) if use_jax else data.copy()
    if use_jax and onp.asarray(arg).dtype != data.dtype:
        arg = data.copy()
        use_jax = False
    res.count("container_jax" if use_jax else "container_numpy")
    res.count("dtype_" + dt.lower())
    res.count("kind_" + kind)
    kw = {} if (dt == "DOUBLE" and rng.random() < 0.5) else {"dataType": getattr(DT, dt)}
    if what == "nodal":
        w.add_nodal_field(name, arg, getattr(FT, kind), **kw)
    else:
        w.add_cell_field(name, arg, getattr(FT, kind), **kw)
    store[name] = {"kind": kind, "dtype": dt.lower(), "exp": exp}
    return "overwrite" if replaced else what


def _add_sphere(w, rng, sh):
    import jax.numpy as jnp
    x = onp.array([rng.uniform(-3, 3), rng.uniform(-3, 3)])
    r = float(10.0 ** rng.uniform(-3, 1))
    w.add_sphere(jnp.array(x) if rng.random() < 0.3 else x, r)
    sh.spheres.append([float(x[0]), float(x[1]), 0.0])
    sh.radii.append(r)


def _add_edges(w, rng, sh, geo, part=None, n=None):
    import jax.numpy as jnp
    if part is None:
        sel = rng.choice(len(geo.edge_pool), size=n, replace=len(geo.edge_pool) < n)
        part = onp.array([geo.edge_pool[i] for i in sel], dtype=int).reshape(-1, 2)
    w.add_contact_edges(jnp.array(part) if rng.random() < 0.3 else part)
    sh.edges += [tuple(int(v) for v in row) for row in part]


def _diff_detail(a_blob, b_blob):
    a, b = a_blob.split(b"\n"), b_blob.split(b"\n")
    first = next((i for i, (x, y) in enumerate(zip(a, b)) if x != y), min(len(a), len(b)))
    return {"lines": [len(a), len(b)], "first_diff_line": first + 1,
            "a": a[first].decode(errors="replace")[:80] if first < len(a) else None,
            "b": b[first].decode(errors="replace")[:80] if first < len(b) else None}


def _check_blob(res, blob, sh, geo, k, **ctxkw):
    """Parse one written file and compare it with the shadow model as it stands now."""
    from vlib.oracles import c20_vtkparse as P
    ctx = sh.ctx(geo, **ctxkw)
    u64_nodal = {n for n, r in sh.nodal.items() if r["dtype"] == "unsigned_long" and sh.spheres}
    u64_cell = {n for n, r in sh.cell.items() if r["dtype"] == "unsigned_long" and sh.edges}
    try:
        text = blob.decode("ascii")
        if "\r" in text:
            raise P.VTKFormatError("header", "carriage return in file")
        parsed = P.parse_text(text)
    except UnicodeDecodeError:
        res.violate("wellformed:header", dict(ctx, write=k + 1, error="non-ASCII bytes"))
        return
    except P.VTKFormatError as e:
        res.checks += 1
        res.violate("wellformed:" + e.clause, dict(ctx, write=k + 1, error=e.message[:300], at=e.context))
        return
    res.checks += 1
    res.count("files_parsed")
    for s in parsed["soft_errors"]:
        nm = s.get("array", "").split("/")[-1]
        known = (s["clause"] == "value_token_type" and s.get("dtype") == "unsigned_long" and "floating-point literal" in s.get("why", "")
                 and ((s.get("section") == "POINT_DATA" and nm in u64_nodal) or (s.get("section") == "CELL_DATA" and nm in u64_cell)))
        res.expect("wellformed:" + s["clause"], False, dict(ctx, write=k + 1, error=s), mechanism=K_D11D if known else None)
    _compare(res, parsed, ctx, k, geo.coords, geo.conns, geo.order, geo.vloc, geo.written_nodes_expected, sh.nodal, sh.cell,
             list(sh.spheres), list(sh.radii), list(sh.edges), u64_nodal, u64_cell)


def _read(path):
    with open(path, "rb") as f:
        return f.read()


# ------------------------------------------------------------------------------------------------------------- one writer

def _one_writer(res, case, rng, geo, tmpdir, tag):
    """All add_* calls in a random order, then 1-3 consecutive write() calls."""
    from optimism import VTKWriter
    order = geo.order
    cfg = _config_for(case, rng, order)
    base = os.path.join(tmpdir, "w%s" % tag)
    problems = []
    sh = _Shadow()
    with warnings.catch_warnings(record=True) as wlist:
        warnings.simplefilter("always")
        try:
            w = VTKWriter.VTKWriter(geo.mesh, base)
            todo = (["nodal"] * cfg["n_nodal"] + ["cell"] * cfg["n_cell"] + ["sphere"] * cfg["n_sph"])
            n_edge_calls = 0
            if cfg["n_edges"] > 0:
                n_edge_calls = 1 if cfg["n_edges"] == 1 or rng.random() < 0.5 else 2
                todo += ["edges"] * n_edge_calls
            todo = [todo[i] for i in rng.permutation(len(todo))]
            edge_split = None
            if cfg["n_edges"] > 0:
                sel = rng.choice(len(geo.edge_pool), size=cfg["n_edges"], replace=len(geo.edge_pool) < cfg["n_edges"])
                alledges = onp.array([geo.edge_pool[i] for i in sel], dtype=int).reshape(-1, 2)
                cut = cfg["n_edges"] if n_edge_calls == 1 else int(rng.integers(1, cfg["n_edges"]))
                edge_split = [alledges[:cut], alledges[cut:]]
            ikind = 0
            for what in todo:
                if what in ("nodal", "cell"):
                    kind = None
                    if cfg.get("kinds_cycle"):
                        kind = KINDS[ikind % 3]
                        ikind += 1
                    _add_field(res, w, rng, sh, geo, what, dts=cfg["dtypes"], kind=kind)
                elif what == "sphere":
                    _add_sphere(w, rng, sh)
                elif what == "edges":
                    _add_edges(w, rng, sh, geo, part=edge_split.pop(0))
            blobs = []
            for k in range(cfg["n_writes"]):
                w.write()
                blobs.append(_read(w.fileName))
                res.count("files_written")
        except Exception as e:  # the property says every configuration yields a valid file
            res.violate("writer_raised", {"error": "%s: %s" % (type(e).__name__, str(e)[:300]), "cfg": cfg, "order": order})
            return
    for wmsg in wlist:
        if "VTKWriter" in str(wmsg.message):
            problems.append(str(wmsg.message)[:120])
    res.expect("no_skip_warning", not problems, {"warnings": problems[:3]})

    # observation counters for the configuration actually exercised
    res.count("order%d" % order)
    res.count("spheres_%s" % ("0" if not sh.spheres else "1+"))
    res.count("edges_%s" % ("0" if not sh.edges else "1+"))
    res.count("writes_%s" % ("1" if cfg["n_writes"] == 1 else "2+"))
    if sh.spheres and sh.nodal and cfg["n_writes"] >= 2:
        res.count("cfg_spheres_and_nodal_and_rewrite")
    if sh.spheres and cfg["n_writes"] >= 2:
        res.count("cfg_spheres_and_rewrite")
    if sh.spheres and order >= 3:
        res.count("cfg_highorder_spheres")
    if sh.cell and sh.edges:
        res.count("cfg_cellfields_and_edges")
    if not (sh.nodal or sh.cell or sh.spheres or sh.edges):
        res.count("cfg_bare")
    else:
        res.nontrivial = True
    if any(r["dtype"] == "unsigned_long" for r in sh.nodal.values()) and sh.spheres or \
            any(r["dtype"] == "unsigned_long" for r in sh.cell.values()) and sh.edges:
        res.count("cfg_uint64_padded")

    # ---- successive writes are byte-identical
    for k in range(1, len(blobs)):
        res.count("rewrites_compared")
        same = blobs[k] == blobs[0]
        res.expect("rewrite_identical", same, None if same else sh.ctx(geo, write=k + 1, writes=cfg["n_writes"], **_diff_detail(blobs[0], blobs[k])))
    # ---- parse (every distinct file) and compare with what was supplied
    seen = []
    for k, blob in enumerate(blobs):
        if blob in seen:
            continue
        seen.append(blob)
        _check_blob(res, blob, sh, geo, k, writes=cfg["n_writes"])


# ------------------------------------------------------------------------------------------------------ mutation histories

HIST_OPS = ["nodal", "cell", "sphere", "edges", "write", "rename"]


def _history(res, case, rng, geo, tmpdir, tag):
    """Random sequence of {add_nodal_field, add_cell_field (also overwriting a name), add_sphere, add_contact_edges, write,
    change of fileName} on one or two writers of the same mesh (interleaved); a write() follows every operation and every
    written file is compared with what that writer has been given so far.  Two writes with nothing in between must be
    byte-identical."""
    from optimism import VTKWriter
    nw = 2 if rng.random() < 0.35 else 1
    nops = int(rng.integers(3, 9))
    writers = []
    hist = []
    with warnings.catch_warnings(record=True) as wlist:
        warnings.simplefilter("always")
        try:
            for j in range(nw):
                writers.append({"w": VTKWriter.VTKWriter(geo.mesh, os.path.join(tmpdir, "h%s_%d" % (tag, j))), "sh": _Shadow(),
                                "last": None, "nfile": 0, "dirty": True, "j": j})
            if rng.random() < 0.5:                      # half of the histories start from a written file
                for W in writers:
                    W["w"].write()
                    W["last"] = _read(W["w"].fileName)
                    W["dirty"] = False
                    res.count("files_written")
                    _check_blob(res, W["last"], W["sh"], geo, 0, history="W", writer=W["j"])
                    res.count("write_after_nothing")
                hist.append("W*")
            for step in range(nops):
                W = writers[int(rng.integers(0, nw))]
                w, sh = W["w"], W["sh"]
                op = HIST_OPS[int(rng.choice(len(HIST_OPS), p=[0.2, 0.2, 0.15, 0.25, 0.12, 0.08]))]
                if op in ("nodal", "cell"):
                    op = _add_field(res, w, rng, sh, geo, op, p_replace=0.3)
                    W["dirty"] = True
                elif op == "sphere":
                    _add_sphere(w, rng, sh)
                    W["dirty"] = True
                elif op == "edges":
                    _add_edges(w, rng, sh, geo, n=int(rng.integers(1, 4)))
                    W["dirty"] = True
                elif op == "rename":
                    W["nfile"] += 1
                    w.fileName = os.path.join(tmpdir, "h%s_%d_renamed%d.vtk" % (tag, W["j"], W["nfile"]))
                hist.append("%s%d" % ({"nodal": "N", "cell": "C", "overwrite": "O", "sphere": "S", "edges": "E", "write": "W", "rename": "R"}[op], W["j"]))
                # a write after every operation
                w.write()
                blob = _read(w.fileName)
                res.count("files_written")
                res.count("write_after_" + op)
                hs = " ".join(hist)
                if not W["dirty"] and W["last"] is not None:
                    res.count("rewrites_compared")
                    same = blob == W["last"]
                    res.expect("rewrite_identical", same, None if same else sh.ctx(geo, history=hs, step=step, **_diff_detail(W["last"], blob)))
                _check_blob(res, blob, sh, geo, step, history=hs, writer=W["j"], step=step)
                W["last"] = blob
                W["dirty"] = False
        except Exception as e:
            res.violate("writer_raised", {"error": "%s: %s" % (type(e).__name__, str(e)[:300]), "history": " ".join(hist), "order": geo.order})
            return
    problems = [str(m.message)[:120] for m in wlist if "VTKWriter" in str(m.message)]
    res.expect("no_skip_warning", not problems, {"warnings": problems[:3], "history": " ".join(hist)})
    res.count("histories")
    res.count("history_ops", nops)
    if nw == 2:
        res.count("histories_two_writers_interleaved")
    res.count("order%d" % geo.order)
    res.nontrivial = True


def _compare(res, parsed, ctx, k, coords, conns, order, vloc, written_nodes_expected, supplied_nodal, supplied_cell,
             spheres, radii, edges, u64_nodal, u64_cell):
    from vlib.oracles.c20_vtkparse import NUMPY_OF
    nN, nE = coords.shape[0], conns.shape[0]
    pts = parsed["points"]
    nmesh = len(pts) - len(spheres)
    ctx = dict(ctx, write=k + 1)
    # -- points: every non-sphere point is a mesh node (exact coordinates, z = 0), no node twice, the expected node set
    lookup = {(float(x), float(y)): i for i, (x, y) in enumerate(coords)}
    ok_cnt = res.expect("points_count", nmesh == len(written_nodes_expected) and parsed["points_dtype"] == "double",
                        dict(ctx, points=len(pts), expected=len(written_nodes_expected) + len(spheres), dtype=parsed["points_dtype"]))
    node_of = []
    bad = None
    for i in range(max(nmesh, 0)):
        x, y, z = pts[i]
        n = lookup.get((x, y)) if z == 0.0 else None
        if n is None and bad is None:
            bad = {"point": i, "xyz": [x, y, z]}
        node_of.append(n)
    res.expect("points_are_mesh_nodes", bad is None, dict(ctx, first_bad=bad))
    res.count("values_compared", 3 * max(nmesh, 0))
    res.expect("points_node_set", sorted(n for n in node_of if n is not None) == list(written_nodes_expected) if ok_cnt else False,
               dict(ctx, got=len(set(node_of)), expected=len(written_nodes_expected)))
    if order <= 2 and ok_cnt:
        res.expect("points_in_node_order", node_of == list(range(nN)), ctx)
    sph_ok = all(list(map(float, pts[nmesh + j])) == spheres[j] for j in range(len(spheres))) if nmesh >= 0 and len(pts) >= len(spheres) else False
    res.expect("sphere_points", sph_ok, dict(ctx, got=pts[max(nmesh, 0):][:3], expected=spheres[:3]))
    if bad is not None or not ok_cnt:
        return  # point/node map unusable: everything below would be noise on top of the violation already recorded

    # -- cells
    cells, types = parsed["cells"], parsed["cell_types"]
    if not res.expect("cells_count", len(cells) == nE + len(edges), dict(ctx, cells=len(cells), expected=nE + len(edges))):
        return
    want_type = 22 if order == 2 else 5
    want_n = 6 if order == 2 else 3
    badc = None
    for e in range(nE):
        row = cells[e]
        xe = coords[conns[e]]
        if types[e] != want_type or len(row) != want_n or any(r >= nmesh for r in row):
            badc = {"cell": e, "type": types[e], "row": row, "why": "type/size/sphere point"}
            break
        nodes = [node_of[r] for r in row]
        verts = sorted(int(conns[e][j]) for j in vloc[e])
        if order == 1:
            good = nodes == [int(v) for v in conns[e]]
        elif order == 2:
            P3 = [coords[n] for n in nodes]
            h = max(abs(_area2(P3[0], P3[1], P3[2])), 1e-300) ** 0.5
            # (a bubble element has a 7th, interior node that a VTK quadratic triangle cannot carry)
            good = (len(set(nodes)) == 6 and set(nodes) <= set(int(v) for v in conns[e]) and sorted(nodes[:3]) == verts
                    and _area2(P3[0], P3[1], P3[2]) > 0
                    and all(onp.max(onp.abs(P3[3 + j] - 0.5 * (P3[j] + P3[(j + 1) % 3]))) <= 1e-9 * h for j in range(3)))
        else:
            P3 = [coords[n] for n in nodes]
            good = sorted(nodes) == verts and _area2(P3[0], P3[1], P3[2]) > 0
        if not good:
            badc = {"cell": e, "nodes": nodes, "conn": [int(v) for v in conns[e]], "vertices": verts}
            break
    res.expect("element_cells", badc is None, dict(ctx, first_bad=badc))
    res.count("cells_compared", nE)
    bade = None
    for j, (a, b) in enumerate(edges):
        row = cells[nE + j]
        if types[nE + j] != 3 or len(row) != 2 or any(r >= nmesh for r in row) or [node_of[row[0]], node_of[row[1]]] != [a, b]:
            bade = {"edge": j, "row": row, "type": types[nE + j], "supplied": [a, b]}
            break
    res.expect("contact_edge_cells", bade is None, dict(ctx, first_bad=bade))
    res.count("edge_cells_compared", len(edges))

    # -- point data
    def check_section(section, arrays, supplied, nrec_main, row_map, npad, extra, u64set, counter):
        arrays = arrays or {}
        want_names = set(supplied) | set(extra)
        res.expect(section + "_names", set(arrays) == want_names, dict(ctx, got=sorted(arrays), expected=sorted(want_names)))
        for name in sorted(want_names & set(arrays)):
            arr = arrays[name]
            if name in extra:
                kind, dtype, exp_main, exp_pad = "SCALARS", "double", onp.zeros((nrec_main, 1)), onp.array(extra[name], dtype=float).reshape(-1, 1)
            else:
                rec = supplied[name]
                kind, dtype = rec["kind"], rec["dtype"]
                exp_main = rec["exp"][row_map]
                exp_pad = onp.zeros((npad, exp_main.shape[1]), dtype=exp_main.dtype)
            res.count(counter)
            okd = res.expect(section + "_array_decl", arr["kind"] == kind and arr["dtype"] == dtype and arr["ncomp"] == exp_main.shape[1],
                             dict(ctx, array=name, got=[arr["kind"], arr["dtype"], arr["ncomp"]], expected=[kind, dtype, int(exp_main.shape[1])]))
            if not okd:
                continue
            exp = onp.vstack([exp_main, exp_pad])
            vals = arr["values"]
            n = exp.shape[0] * exp.shape[1]
            if len(vals) != n:   # cannot happen (the reader enforces counts) -- belt and braces
                res.violate(section + "_array_size", dict(ctx, array=name, got=len(vals), expected=n))
                continue
            npdt = NUMPY_OF[dtype]
            flat = exp.reshape(-1)
            if dtype in ("float", "double"):
                got = onp.array(vals, dtype=float).astype(npdt)
                same = got == flat
            else:
                same = onp.array([(float(v).is_integer() and int(v) == int(x)) if isinstance(v, float) else v == int(x)
                                  for v, x in zip(vals, flat)], dtype=bool)
            res.count("values_compared", n)
            firstbad = None
            if not same.all():
                j = int(onp.argmin(same))
                firstbad = {"flat_index": j, "record": j // exp.shape[1], "got": repr(vals[j]), "expected": repr(flat[j].item())}
            mech = K_D11D if (firstbad is not None and arr.get("degraded") and name in u64set) else None
            res.expect(section + "_values", firstbad is None, dict(ctx, array=name, kind=kind, dtype=dtype, first_bad=firstbad), mechanism=mech)

    extra = {"sphere_radius": radii} if spheres else {}
    if parsed["point_data"] is None:
        res.expect("point_data_section_present", not supplied_nodal and not spheres, dict(ctx, missing="POINT_DATA"))
    else:
        check_section("point_data", parsed["point_data"], supplied_nodal, nmesh, onp.array(node_of, dtype=int), len(spheres), extra,
                      u64_nodal, "point_arrays_checked")
    if parsed["cell_data"] is None:
        res.expect("cell_data_section_present", not supplied_cell, dict(ctx, missing="CELL_DATA"))
    else:
        check_section("cell_data", parsed["cell_data"], supplied_cell, nE, onp.arange(nE), len(edges), {}, u64_cell, "cell_arrays_checked")


_SELFTEST = {}


def run_case(case):
    res = Res(case)
    if "fails" not in _SELFTEST:        # once per worker: the reader against hand-written valid / corrupted files
        from vlib.oracles import c20_vtkparse as P
        _SELFTEST["fails"] = P.selftest()
        res.count("parser_selftest_runs")
    if _SELFTEST["fails"]:
        res.inconclusive("VTK reader self-test failed: %s" % "; ".join(_SELFTEST["fails"])[:300])
        return res
    rng = rng_of(case["seed"])
    mesh, spec = _mesh_for(case, rng)
    order = int(spec["order"])
    res.count("mesh_" + spec["kind"])
    geo = _Geo(mesh, order)
    tmpdir = tempfile.mkdtemp(prefix="verif_c20_")
    try:
        for k in range(int(case["ncfg"])):
            if case["cls"] == "history":
                _history(res, case, rng, geo, tmpdir, str(k))
            else:
                _one_writer(res, case, rng, geo, tmpdir, str(k))
            res.count("writers")
    finally:
        shutil.rmtree(tmpdir, ignore_errors=True)
    return res


def finalize(results, tier):
    """Per-class violation clauses, so a run on a defective tree shows which mechanism fired where."""
    table = {}
    for r in results:
        cls = r["case"].get("cls", "_")
        for v in r.get("violations", []):
            t = table.setdefault(cls, {})
            t[v["clause"]] = t.get(v["clause"], 0) + 1
    return {"violated_clauses_by_class": table}
