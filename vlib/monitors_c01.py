"""Monitors shared by C01 (EquationSolver.trust_region_minimize) and C05 (TrustRegionSPG).

* CallbackRecorder      -- copies every x reported through the solvers' public `callback`
* recording_objective   -- subclass of optimism.Objective.Objective that logs every call the solver makes
                           (value / gradient / hessian_vec / apply_precond / multiply_by_approx_hessian / update_precond)
* PathObserver          -- sys.monitoring (PEP 669, Python 3.12) LINE observer restricted to given code objects; lines are
                           located by source-text match; solver locals are read from the frame.  EVIDENCE ONLY: nothing
                           it records ever decides a verdict, so a refactor of the solver cannot create a false alarm (it
                           can only make a REQUIRED path counter come out at zero => inconclusive).
* IdentityPrecondStrategy -- a PrecondStrategy returning I

This module runs in workers only (imports optimism lazily from whatever VERIF_REPO the worker selected).
"""
import inspect
import sys

import numpy as onp


class CallbackRecorder:
    """callback(x, objective): store an independent float64 copy of every reported x."""

    def __init__(self):
        self.xs = []
        self.pos = []   # position in the objective's call log at the time of the report (if the objective records)

    def __call__(self, x, objective):
        self.xs.append(onp.array(x, dtype=float, copy=True))
        log = getattr(objective, "log", None)
        self.pos.append(len(log) if log is not None else -1)


def _finite(a):
    try:
        return bool(onp.all(onp.isfinite(onp.asarray(a))))
    except Exception:
        return False


def _in_foreign_oracle():
    """True while C06's in-situ contracts apply the solver's closures to the identity (those extra evaluations are the
    oracle's, not the solver's, and must not enter the call log)."""
    m = sys.modules.get("vlib.monitors_c06")
    return bool(m is not None and getattr(m, "IN_ORACLE", False))


class LogicalBudgetExceeded(Exception):
    """Raised by the RecordingObjective when the solver made more gradient calls than the harness's logical budget."""


_rec_cls = {}


def recording_objective():
    """Return the RecordingObjective class (subclass of the Objective of the optimism under test)."""
    if "cls" in _rec_cls:
        return _rec_cls["cls"]
    from optimism import Objective as ObjMod

    class RecordingObjective(ObjMod.Objective):
        """Logs (kind, input finite, output finite) for every call, in order; keeps the x of value/gradient calls."""

        def __init__(self, f, x, p, precondStrategy=None):
            super().__init__(f, x, p, precondStrategy)
            self.log = []
            self.points = []        # (log position, kind, x copy) for value / gradient
            self.keep_points = True
            self.gradient_budget = None   # logical budget on the number of gradient() calls (None = unlimited)
            self.gradient_calls = 0

        def _logged(self, kind, xin, fn, point=None):
            """Run fn() and log (kind, input finite, output finite).  The entry is appended BEFORE the call, so a call
            that raises on a non-finite input (e.g. the CHOLMOD test double's finite check) is still on record."""
            if _in_foreign_oracle():
                return fn()
            entry = [kind, _finite(xin), False]
            if point is not None and self.keep_points:
                self.points.append((len(self.log), kind, onp.array(point, dtype=float, copy=True)))
            self.log.append(entry)
            try:
                out = fn()
            except Exception:
                entry[2] = True      # no output to judge: the entry is non-finite iff its INPUT was (entry[1])
                raise
            entry[2] = _finite(out) if out is not None else True
            return out

        def value(self, x):
            return self._logged("value", x, lambda: ObjMod.Objective.value(self, x), point=x)

        def gradient(self, x):
            if not _in_foreign_oracle():
                self.gradient_calls += 1
                if self.gradient_budget is not None and self.gradient_calls > self.gradient_budget:
                    raise LogicalBudgetExceeded("%d gradient calls > logical budget %d" % (self.gradient_calls, self.gradient_budget))
            return self._logged("gradient", x, lambda: ObjMod.Objective.gradient(self, x), point=x)

        def hessian_vec(self, x, vx):
            return self._logged("hessian_vec", (_finite(x) and _finite(vx)) or float("nan"), lambda: ObjMod.Objective.hessian_vec(self, x, vx))

        def apply_precond(self, vx):
            return self._logged("apply_precond", vx, lambda: ObjMod.Objective.apply_precond(self, vx))

        def multiply_by_approx_hessian(self, vx):
            return self._logged("mult_approx_hessian", vx, lambda: ObjMod.Objective.multiply_by_approx_hessian(self, vx))

        def update_precond(self, x):
            return self._logged("update_precond", x, lambda: ObjMod.Objective.update_precond(self, x))

        # ---- summaries used by the checkers
        def reset_log(self):
            self.log = []
            self.points = []

        def all_evaluations_finite(self, start=0):
            return all(fi and fo for _, fi, fo in self.log[start:])

        def finite_on_finite_inputs(self, start=0):
            """Hypothesis 'the objective is finite everywhere' as far as the solver probed it: no call with a FINITE input
            produced a non-finite output.  (A non-finite INPUT is the solver's own doing and excuses nothing.)"""
            return all(fo or not fi for _, fi, fo in self.log[start:])

        def nonfinite_inputs(self, start=0, kinds=("value", "gradient")):
            return sum(1 for k, fi, _ in self.log[start:] if k in kinds and not fi)

        def n_calls(self, kind, start=0):
            return sum(1 for k, _, _ in self.log[start:] if k == kind)

    _rec_cls["cls"] = RecordingObjective
    return RecordingObjective


def identity_precond_strategy(n):
    from optimism import Objective as ObjMod
    from scipy.sparse import identity as speye

    class IdentityPrecondStrategy(ObjMod.PrecondStrategy):
        def __init__(self, n):
            self.n = n

        def initialize(self, x, p):
            self.K = speye(self.n, format="csc")

    return IdentityPrecondStrategy(n)


# ---------------------------------------------------------------------------------------------- path observer

class PathObserver:
    """LINE observer on a few code objects.

    spec: {function: [(tag, predicate(stripped_source_line, index_of_match_among_same_predicate), locals_to_read)]}
    Use `watch(func, rules)` where rules is a list of (tag, matcher, names) and matcher is either a string prefix of the
    stripped source line or a callable(stripped) -> bool.  When several lines match one rule they are tagged tag#0, tag#1 …
    in source order (this is how the four `return` statements of the solvers are told apart without line numbers).
    Events are appended to self.events as (tag, {local: value}) and counted in self.counts.
    """

    _installed = None

    def __init__(self, tool_name="verif-path-observer"):
        self.mon = sys.monitoring
        self.tool = None
        for tid in (self.mon.PROFILER_ID, self.mon.DEBUGGER_ID, 3, 4):
            try:
                if self.mon.get_tool(tid) is None:
                    self.mon.use_tool_id(tid, tool_name)
                    self.tool = tid
                    break
            except ValueError:
                continue
        if self.tool is None:
            raise RuntimeError("no free sys.monitoring tool id")
        self.targets = {}    # (code, line) -> (tag, names)
        self.codes = []
        self.events = []
        self.counts = {}
        self.tags_by_func = {}
        self.enabled = True
        self.mon.register_callback(self.tool, self.mon.events.LINE, self._on_line)

    def watch(self, func, rules):
        func = inspect.unwrap(func)          # contracts may already be wrapped around the module attribute
        code = func.__code__
        src, start = inspect.getsourcelines(func)
        hits = {}
        for i, raw in enumerate(src):
            s = raw.strip()
            if not s or s.startswith("#"):
                continue
            for tag, matcher, names in rules:
                ok = matcher(s) if callable(matcher) else s.startswith(matcher)
                if ok:
                    hits.setdefault(tag, []).append((start + i, names))
        tags = []
        for tag, lst in hits.items():
            for k, (line, names) in enumerate(lst):
                t = tag if len(lst) == 1 else "%s#%d" % (tag, k)
                self.targets[(code, line)] = (t, names)
                tags.append(t)
        self.tags_by_func[func.__name__] = sorted(tags)
        self.codes.append(code)
        self.mon.set_local_events(self.tool, code, self.mon.events.LINE)
        return tags

    def _on_line(self, code, line):
        if not self.enabled:
            return None
        t = self.targets.get((code, line))
        if t is None:
            return None
        tag, names = t
        vals = {}
        if names:
            try:
                loc = sys._getframe(1).f_locals
                for k in names:
                    if k in loc:
                        v = loc[k]
                        if isinstance(v, str) or isinstance(v, bool) or v is None:
                            vals[k] = v
                        else:
                            try:
                                vals[k] = float(v)
                            except Exception:
                                vals[k] = None
            except Exception:
                pass
        self.events.append((tag, vals))
        self.counts[tag] = self.counts.get(tag, 0) + 1
        return None

    def reset(self):
        self.events = []
        self.counts = {}

    def close(self):
        for code in self.codes:
            try:
                self.mon.set_local_events(self.tool, code, 0)
            except Exception:
                pass
        try:
            self.mon.register_callback(self.tool, self.mon.events.LINE, None)
            self.mon.free_tool_id(self.tool)
        except Exception:
            pass


def is_return(s):
    return s.startswith("return ") or s == "return"


def observer_for_trust_region_minimize():
    """Observer for EquationSolver.trust_region_minimize (+ dogleg_step, solve_trust_region_minimization)."""
    from optimism import EquationSolver as es
    obs = PathObserver()
    obs.watch(es.trust_region_minimize, [
        ("exit", is_return, ()),
        ("accept_test", "if willAccept:", ("rho", "stepType", "willAccept", "trSize", "modelObjective", "realObjective")),
        ("model_increase", "rho = realImprove / -modelImprove", ()),
        ("cauchy_outside", "qNewtonPoint = cauchyPoint", ()),
        ("cauchy_negcurv", "cauchyPoint =  -g *", ()),
        ("shrink", "trSize *= settings.t1", ("rho",)),
        ("grow", "trSize *= settings.t2", ()),
        ("update_precond", "objective.update_precond(x)", ()),
        ("retry_after_small", "triedNewPrecond = True", ()),
    ])
    obs.watch(es.dogleg_step, [("dogleg_ret", is_return, ())])
    obs.watch(es.solve_trust_region_minimization, [("cg_ret", is_return, ())])
    return obs


TRM_EXIT_NAMES = {"exit#0": "exit_converged_at_entry", "exit#1": "exit_converged_in_loop",
                  "exit#2": "exit_radius_too_small", "exit#3": "exit_iteration_cap"}
DOGLEG_NAMES = {"dogleg_ret#0": "dogleg_cauchy_scaled", "dogleg_ret#1": "dogleg_cauchy_beyond_newton",
                "dogleg_ret#2": "dogleg_on_path", "dogleg_ret#3": "dogleg_newton"}
CG_NAMES = {"cg_ret#0": "cg_trivial", "cg_ret#1": "cg_negcurve", "cg_ret#2": "cg_boundary", "cg_ret#3": "cg_interior",
            "cg_ret#4": "cg_maxiters"}


def observer_for_spg():
    from optimism import TrustRegionSPG as spg
    obs = PathObserver()
    obs.watch(spg.bound_constrained_trust_region_minimize, [
        ("exit", is_return, ()),
        ("accept_test", "if willAccept:", ("rho", "stepType", "willAccept", "trSize", "modelObjective", "realObjective")),
        ("model_increase", "rho = realImprove / -modelImprove", ()),
        ("shrink", "trSize *= settings.t1", ("rho",)),
        ("grow", "trSize *= settings.t2", ()),
        ("update_precond", "objective.update_precond(x)", ()),
        ("retry_after_small", "triedNewPrecond = True", ()),
    ])
    obs.watch(spg.solve_spg_subproblem, [("spg_ret", is_return, ())])
    obs.watch(spg.find_generalized_cauchy_point, [
        ("gcp_forward", "alphaTry = alpha/cutback", ()),
        ("gcp_backtrack", "search = m(s) > mu0*g@s", ()),
        ("gcp_tr_cutback", "search = ss > deltaSquared", ()),
        ("gcp_raise", "raise RuntimeError", ()),
    ])
    obs.watch(spg.project_onto_tr, [("ptr_ret", is_return, ())])
    return obs


SPG_EXIT_NAMES = TRM_EXIT_NAMES
SPG_SUB_NAMES = {"spg_ret#0": "spg_cauchy_optimal", "spg_ret#1": "spg_converged", "spg_ret#2": "spg_maxiters"}
PTR_NAMES = {"ptr_ret#0": "ptr_inside", "ptr_ret#1": "ptr_inner_f", "ptr_ret#2": "ptr_rootfind"}


def summarize(obs, res, names_maps, accept_prefix="step"):
    """Fold the observer's events into res counters (evidence only). Returns the name of the exit taken (or None)."""
    exit_taken = None
    for tag, vals in obs.events:
        name = None
        for m in names_maps:
            if tag in m:
                name = m[tag]
        if tag.startswith("exit"):
            exit_taken = name or tag
            res.count(exit_taken)
        elif tag == "accept_test":
            st = str(vals.get("stepType", "?")).replace(" ", "_")
            acc = "accepted" if vals.get("willAccept") else "rejected"
            res.count("%s_%s_%s" % (accept_prefix, st, acc))
            res.count("%s_%s" % (accept_prefix, st))
            rho = vals.get("rho")
            if rho is not None and rho != rho:
                res.count("nan_rho")
        elif tag == "shrink" or tag.startswith("shrink#"):
            res.count("radius_shrinks")
            rho = vals.get("rho")
            if rho is not None and rho != rho:
                res.count("nan_rho_shrinks")
        elif tag.startswith("update_precond"):
            res.count("precond_refresh_" + (tag.split("#")[1] if "#" in tag else "0"))
        else:
            res.count(name or tag)
    return exit_taken
