"""icontract post-conditions on TrustRegionSPG.project / project_onto_tr / find_generalized_cauchy_point.

The contracts are wrapped around the *module attributes*, so the solver's internal callers go through them too
(in situ), and the harness's direct calls use the very same wrapped callables.  Every contract counts its evaluations
(COUNTS); zero evaluations => the property module reports inconclusive.

Tolerances (DESIGN C05):  box   l - d <= y <= u + d,  d = 8*eps*max(1,|y|,|bound|)   (for the Cauchy STEP s the point
                                x+s is formed by the checker/solver in floating point: |x| enters the slack as well)
                          ball  |y - xk| <= trSize*(1+1e-9) + 8*eps*(|xk|+|y|)   (second term: rounding of y - xk; it
                                matters only when trSize is below ~1e-6*|xk|)
A post-condition is asserted only when the call satisfies the property's hypothesis (finite inputs, l <= u, xk feasible
within d for project_onto_tr / the Cauchy point); otherwise the evaluation is counted as 'skipped'.
"""
import numpy as onp

EPS = float(onp.finfo(float).eps)
BALL_RTOL = 1e-9

COUNTS = {}
_state = {"installed": False, "last": None, "bounds_cache": (None, None, None)}


def _count(name, n=1):
    COUNTS[name] = COUNTS.get(name, 0) + n


class SPGContractError(Exception):
    clause = "contract"

    def __init__(self, detail=None):
        super().__init__(str(detail)[:400])
        self.detail = detail


class ProjectNotNearestFeasible(SPGContractError):
    clause = "project_is_nearest_feasible_point"


class ProjectOntoTrOutside(SPGContractError):
    clause = "project_onto_tr_in_box_and_ball"


class CauchyPointOutside(SPGContractError):
    clause = "cauchy_point_in_box_and_ball"


def _np_bounds(bounds):
    """numpy view of the bounds array (cached by identity: the solver passes the same object thousands of times)."""
    cid, ref, val = _state["bounds_cache"]
    if cid == id(bounds) and ref is bounds:
        return val
    b = onp.asarray(bounds, dtype=float)
    val = (b[:, 0], b[:, 1])
    _state["bounds_cache"] = (id(bounds), bounds, val)
    return val


def box_excess(y, lb, ub, base=None):
    """max over components of (violation / allowed slack); <= 1 means feasible within d.

    d = 8*eps*max(1,|y|,|bound|[,|base|]); `base` is the point the step was added to when y was FORMED as base + step in
    floating point (its magnitude enters the rounding error of the sum)."""
    y = onp.asarray(y, dtype=float)
    if y.size == 0:
        return 0.0
    with onp.errstate(invalid="ignore"):
        mag = onp.maximum(1.0, onp.abs(y))
        if base is not None:
            mag = onp.maximum(mag, onp.abs(onp.asarray(base, dtype=float)))
        dl = 8.0 * EPS * onp.maximum(mag, onp.where(onp.isfinite(lb), onp.abs(lb), 0.0))
        du = 8.0 * EPS * onp.maximum(mag, onp.where(onp.isfinite(ub), onp.abs(ub), 0.0))
        r = onp.maximum((lb - y) / dl, (y - ub) / du)
    if onp.any(onp.isnan(y)):
        return float("inf")
    return max(0.0, float(onp.max(r)))      # strictly inside (incl. infinite bounds: -inf) counts as 0


def ball_allowed(D, xk, y):
    """Radius the result may have: trSize*(1+1e-9) plus the rounding of forming y - xk in floating point (for
    |xk| >> trSize the float64 grid around xk is coarser than 1e-9*trSize)."""
    return D * (1.0 + BALL_RTOL) + 8.0 * EPS * (float(onp.linalg.norm(xk)) + float(onp.linalg.norm(y)))


def box_violation_abs(y, lb, ub):
    y = onp.asarray(y, dtype=float)
    if y.size == 0:
        return 0.0
    return float(max(onp.max(lb - y), onp.max(y - ub), 0.0))


# ------------------------------------------------------------------------------------------- condition functions

def project_result_is_nearest_feasible_point(x, bounds, result):
    lb, ub = _np_bounds(bounds)
    xn = onp.asarray(x, dtype=float)
    if not (onp.all(onp.isfinite(xn)) and onp.all(lb <= ub)):
        _count("project_skipped")
        return True
    _count("project_evals")
    want = onp.clip(xn, lb, ub)           # the unique nearest point of a box
    got = onp.asarray(result, dtype=float)
    if got.shape != want.shape:
        _state["last"] = {"shape": list(got.shape)}
        return False
    d = 8.0 * EPS * onp.maximum(1.0, onp.abs(want))
    ok = bool(onp.all(onp.abs(got - want) <= d)) and box_excess(got, lb, ub) <= 1.0
    if not ok:
        i = int(onp.argmax(onp.abs(got - want)))
        _state["last"] = {"component": i, "x": float(xn[i]), "lb": float(lb[i]), "ub": float(ub[i]), "got": float(got[i]),
                          "nearest": float(want[i]), "n": int(xn.size)}
    return ok


def project_error(x, bounds, result):
    return ProjectNotNearestFeasible(_state["last"])


def project_onto_tr_result_in_box_and_ball(x, xk, bounds, trSize, result):
    lb, ub = _np_bounds(bounds)
    xn = onp.asarray(x, dtype=float)
    xkn = onp.asarray(xk, dtype=float)
    D = float(trSize)
    if not (onp.all(onp.isfinite(xn)) and onp.all(onp.isfinite(xkn)) and onp.all(lb <= ub) and D > 0 and onp.isfinite(D)
            and box_excess(xkn, lb, ub) <= 1.0):
        _count("project_onto_tr_skipped")
        return True
    _count("project_onto_tr_evals")
    y = onp.asarray(result, dtype=float)
    ex = box_excess(y, lb, ub)
    dist = float(onp.linalg.norm(y - xkn))
    ratio = dist / D
    allowed = ball_allowed(D, xkn, y)
    far = float(onp.linalg.norm(xn - xkn)) / D
    _state["ptr_worst_ball"] = max(_state.get("ptr_worst_ball", 0.0), dist / allowed)
    _state["ptr_worst_box"] = max(_state.get("ptr_worst_box", 0.0), ex)
    if far > 1e6:
        _count("project_onto_tr_far_point_evals")
    ok = ex <= 1.0 and dist <= allowed
    if not ok:
        _state["last"] = {"radius_ratio": ratio, "box_excess_over_slack": ex, "box_violation_abs": box_violation_abs(y, lb, ub),
                          "dist_over_radius_of_input": far, "trSize": D, "n": int(xn.size)}
    return ok


def project_onto_tr_error(x, xk, bounds, trSize, result):
    return ProjectOntoTrOutside(_state["last"])


def cauchy_point_in_box_and_ball(x, g, bounds, alpha, trSize, result):
    lb, ub = _np_bounds(bounds)
    xn = onp.asarray(x, dtype=float)
    D = float(trSize)
    a_in = float(alpha)
    if not onp.isfinite(a_in):
        # the solver's own initial step length trSize/|g| is inf when the gradient is exactly 0 (only reachable with tol = 0):
        # the search then returns a NaN step, which the NaN-safe acceptance test of the caller rejects; not judged here
        _count("cauchy_point_skipped_nonfinite_initial_step_length")
    if not (onp.isfinite(a_in) and onp.all(onp.isfinite(xn)) and onp.all(onp.isfinite(onp.asarray(g, dtype=float))) and D > 0 and box_excess(xn, lb, ub) <= 1.0):
        _count("cauchy_point_skipped")
        return True
    _count("cauchy_point_evals")
    alpha, s = result
    s = onp.asarray(s, dtype=float)
    ex = box_excess(xn + s, lb, ub, base=xn)
    ratio = float(onp.linalg.norm(s)) / D
    ok = ex <= 1.0 and float(onp.linalg.norm(s)) <= ball_allowed(D, xn, xn + s) and bool(onp.isfinite(float(alpha)))
    if not ok:
        _state["last"] = {"radius_ratio": ratio, "box_excess_over_slack": ex, "alpha": float(alpha), "trSize": D, "n": int(xn.size)}
    return ok


def cauchy_point_error(x, g, bounds, alpha, trSize, result):
    return CauchyPointOutside(_state["last"])


def install_contracts():
    """Wrap the three module attributes of optimism.TrustRegionSPG (idempotent). Returns the module."""
    import icontract
    from optimism import TrustRegionSPG as spg
    if _state["installed"]:
        return spg
    _state["orig"] = {"project": spg.project, "project_onto_tr": spg.project_onto_tr,
                      "find_generalized_cauchy_point": spg.find_generalized_cauchy_point}
    spg.project = icontract.ensure(project_result_is_nearest_feasible_point, error=project_error)(spg.project)
    spg.project_onto_tr = icontract.ensure(project_onto_tr_result_in_box_and_ball, error=project_onto_tr_error)(spg.project_onto_tr)
    spg.find_generalized_cauchy_point = icontract.ensure(cauchy_point_in_box_and_ball, error=cauchy_point_error)(
        spg.find_generalized_cauchy_point)
    # plain recorders (no behaviour change) on the two step-length rules of the SPG sub-iterations: how often each is used and
    # how often it returns a NEGATIVE step length (honest-failure signature of finding D23 (fixed in 946269a): only min(1, alpha) is applied)
    _state["orig"]["kouri_exact_line_search"] = spg.kouri_exact_line_search
    _state["orig"]["nonmonotone_line_search"] = spg.nonmonotone_line_search
    spg.kouri_exact_line_search = _recording_line_search(spg.kouri_exact_line_search, "kouri")
    spg.nonmonotone_line_search = _recording_line_search(spg.nonmonotone_line_search, "nonmonotone")
    _state["installed"] = True
    return spg


def _recording_line_search(func, name):
    import functools

    @functools.wraps(func)
    def wrapper(ds, sBs, q, qMax, settings):
        alpha = func(ds, sBs, q, qMax, settings)
        _count("line_search_%s_calls" % name)
        try:
            if float(sBs) > 0 and float(alpha) < 0:
                _count("line_search_%s_negative_step" % name)
                _count("line_search_negative_step")
        except Exception:
            pass
        return alpha
    return wrapper


def snapshot():
    return dict(COUNTS)


def delta(before):
    return {k: v - before.get(k, 0) for k, v in COUNTS.items() if v - before.get(k, 0)}


def worst(reset=True):
    w = {"ball": _state.get("ptr_worst_ball", 0.0), "box": _state.get("ptr_worst_box", 0.0)}
    if reset:
        _state["ptr_worst_ball"] = 0.0
        _state["ptr_worst_box"] = 0.0
    return w
