"""C19 — parameterised energies f(x; p0, p2, t) with SPD Hessian, their closed-form numpy derivatives, load paths.

  quad:  0.5 x'Ax - (1+t) (B p0).x - (C p2).x                                   (jointly quadratic in (x, p0) and (x, p2))
  nl:    quad + sum_j w_j logcosh(d_j.x - e_j.p0) + 0.5 (p2.p2) x'A2 x          (A2 PSD; Hessian >= A everywhere)

p0 = bc_data slot (index 0), p2 = design_data slot (index 2), t = time slot (index 4).  numpy only at import time.
"""
import math

import numpy as onp

LOG2 = math.log(2.0)
NP0 = 3
NP2 = 2
KNL = 2


def make_energy(rng, n, family, decades):
    M = rng.standard_normal((n, n))
    A = M @ M.T / n + float(rng.uniform(0.3, 1.0)) * onp.eye(n)
    Dg = 10.0 ** rng.uniform(-decades / 2.0, decades / 2.0, n) if decades > 0 else onp.ones(n)
    A = Dg[:, None] * A * Dg[None, :]
    A = 0.5 * (A + A.T)
    E = {"n": n, "family": family, "A": A, "dofscale": Dg,
         "B": rng.standard_normal((n, NP0)) * Dg[:, None], "C": rng.standard_normal((n, NP2)) * Dg[:, None]}
    if family == "nl":
        E["D"] = rng.standard_normal((KNL, n)) * Dg[None, :]
        E["Ep"] = rng.standard_normal((KNL, NP0))
        E["w"] = rng.uniform(0.2, 2.0, KNL)
        M2 = rng.standard_normal((n, 2))
        A2 = 0.2 * (M2 @ M2.T)
        E["A2"] = Dg[:, None] * A2 * Dg[None, :]
    return E


def grad_np(E, x, p0, p2, t):
    g = E["A"] @ x - (1.0 + t) * (E["B"] @ p0) - E["C"] @ p2
    if E["family"] == "nl":
        s = E["D"] @ x - E["Ep"] @ p0
        g = g + E["D"].T @ (E["w"] * onp.tanh(s)) + (p2 @ p2) * (E["A2"] @ x)
    return g


def grad_mag_np(E, x, p0, p2, t):
    """Sum of |terms| of the gradient (rounding scale)."""
    g = onp.abs(E["A"]) @ onp.abs(x) + abs(1.0 + t) * (onp.abs(E["B"]) @ onp.abs(p0)) + onp.abs(E["C"]) @ onp.abs(p2)
    if E["family"] == "nl":
        g = g + onp.abs(E["D"]).T @ E["w"] + (p2 @ p2) * (onp.abs(E["A2"]) @ onp.abs(x))
    return g


def hess_np(E, x, p0, p2, t):
    H = onp.array(E["A"], dtype=float)
    if E["family"] == "nl":
        s = E["D"] @ x - E["Ep"] @ p0
        H = H + E["D"].T @ ((E["w"] / onp.cosh(s) ** 2)[:, None] * E["D"]) + (p2 @ p2) * E["A2"]
    return H


def dgdp0_np(E, x, p0, p2, t):
    J = -(1.0 + t) * E["B"]
    if E["family"] == "nl":
        s = E["D"] @ x - E["Ep"] @ p0
        J = J - E["D"].T @ ((E["w"] / onp.cosh(s) ** 2)[:, None] * E["Ep"])
    return J


def dgdp2_np(E, x, p0, p2, t):
    J = -onp.array(E["C"], dtype=float)
    if E["family"] == "nl":
        J = J + 2.0 * onp.outer(E["A2"] @ x, p2)
    return J


def energy_np(E, x, p0, p2, t):
    v = 0.5 * x @ (E["A"] @ x) - (1.0 + t) * ((E["B"] @ p0) @ x) - (E["C"] @ p2) @ x
    if E["family"] == "nl":
        s = E["D"] @ x - E["Ep"] @ p0
        v = v + E["w"] @ (onp.logaddexp(s, -s) - LOG2) + 0.5 * (p2 @ p2) * (x @ (E["A2"] @ x))
    return v


def solve_np(E, p0, p2, t, x0=None, iters=200):
    """Dense reference minimiser: Newton in the variable y = sqrt(diag A) x with an Armijo line search on the (convex)
    energy, polished by plain Newton steps that are kept when the scaled gradient norm decreases.  One step for quad.
    Use `reference_residual` to certify the result before trusting it."""
    S = onp.sqrt(onp.diag(E["A"]))
    x = onp.zeros(E["n"]) if x0 is None else onp.array(x0, dtype=float)
    if E["family"] == "quad":
        rhs = (1.0 + t) * (E["B"] @ p0) + E["C"] @ p2
        Ab = E["A"] / S[:, None] / S[None, :]
        y = onp.linalg.solve(Ab, rhs / S)
        y = y + onp.linalg.solve(Ab, (rhs - E["A"] @ (y / S)) / S)       # one step of iterative refinement
        return y / S
    f = energy_np(E, x, p0, p2, t)
    for _ in range(iters):
        g = grad_np(E, x, p0, p2, t) / S
        gn = onp.linalg.norm(g)
        if gn == 0:
            break
        H = hess_np(E, x, p0, p2, t) / S[:, None] / S[None, :]
        dy = onp.linalg.solve(H, -g)
        slope = g @ dy
        a = 1.0
        accepted = False
        for _ in range(60):
            xt = x + a * dy / S
            ft = energy_np(E, xt, p0, p2, t)
            if ft <= f + 1e-4 * a * slope:
                accepted = True
                break
            if abs(slope) <= 1e-9 * (abs(f) + 1.0) and onp.linalg.norm(grad_np(E, xt, p0, p2, t) / S) < gn:
                # near the solution energy differences drown in rounding: fall back to the gradient norm
                accepted = True
                break
            a *= 0.5
        if not accepted:
            break
        x, f = xt, ft
        if onp.linalg.norm(a * dy) <= 1e-16 * (1 + onp.linalg.norm(S * x)):
            break
    return x


def reference_residual(E, x, p0, p2, t):
    """||S^-1 grad|| / ||S^-1 |terms of grad| ||  with S = sqrt(diag A): relative stationarity of a reference solution."""
    S = onp.sqrt(onp.diag(E["A"]))
    return float(onp.linalg.norm(grad_np(E, x, p0, p2, t) / S) / (onp.linalg.norm(grad_mag_np(E, x, p0, p2, t) / S) + 1e-300))


def energy_data(x, p0, p2, t, d, nl):
    """energy with the data passed as a dict of jax arrays (lets the harness jit one oracle per shape)."""
    import jax.numpy as np
    v = 0.5 * x @ (d["A"] @ x) - (1.0 + t) * ((d["B"] @ p0) @ x) - (d["C"] @ p2) @ x
    if nl:
        s = d["D"] @ x - d["Ep"] @ p0
        v = v + d["w"] @ (np.logaddexp(s, -s) - LOG2) + 0.5 * (p2 @ p2) * (x @ (d["A2"] @ x))
    return v


def jax_data(E):
    import jax.numpy as np
    keys = ["A", "B", "C"] + (["D", "Ep", "w", "A2"] if E["family"] == "nl" else [])
    return {k: np.array(E[k]) for k in keys}


def energy_jax(E):
    """energy(x, p0, p2, t) as a jax closure (what the library-side f(x, p) is built from)."""
    d = jax_data(E)
    nl = E["family"] == "nl"

    def energy(x, p0, p2, t):
        return energy_data(x, p0, p2, t, d, nl)

    return energy


def load_path(rng, steps, slot0_only=False):
    """List of (p0, p1, p2, p3, t): slot 0 changes every step, slot 2 and the time sometimes, slot 1 is a dummy state array."""
    p0 = rng.standard_normal(NP0)
    p2 = rng.standard_normal(NP2) * 0.7
    t = 0.0
    out = [(p0.copy(), onp.zeros(2), p2.copy(), None, t)]
    for k in range(steps):
        r = rng.random()
        if r < 0.1 and not slot0_only and k > 0:
            pass                                    # repeated load (p unchanged)
        else:
            p0 = p0 + rng.standard_normal(NP0) * float(rng.choice([0.05, 0.5, 2.0]))
        if not slot0_only:
            if rng.random() < 0.5:
                p2 = p2 + rng.standard_normal(NP2) * 0.3
            if rng.random() < 0.5:
                t = t + float(rng.uniform(0.0, 0.5))
        out.append((p0.copy(), onp.full(2, float(k + 1)), p2.copy(), None, t))
    return out


def ladder_increment(rng, v, inc_exp, mixed=False):
    """Componentwise relative change of size 10**inc_exp (sign random, magnitude factor in [0.5, 1]);
    mixed: the first component changes by O(1) relative, the rest by 10**inc_exp."""
    v = onp.array(v, dtype=float)
    u = rng.uniform(0.5, 1.0, v.shape) * rng.choice([-1.0, 1.0], v.shape)
    rel = onp.full(v.shape, 10.0 ** inc_exp)
    if mixed:
        rel[0] = 1.0
    out = v * (1.0 + rel * u)
    return out


def load_path_ladder(rng, steps, inc_exp, pscale, mixed=False, slot0_only=False):
    """Load path whose slot-0 (and, unless slot0_only, slot-2) data have absolute scale `pscale` and change by a relative
    increment 10**inc_exp per component every step (fine load stepping / cut-back steps / tiny or huge data)."""
    p0 = (rng.uniform(0.5, 1.5, NP0) * rng.choice([-1.0, 1.0], NP0)) * pscale
    p2 = (rng.uniform(0.3, 1.0, NP2) * rng.choice([-1.0, 1.0], NP2)) * pscale
    t = 0.0
    out = [(p0.copy(), onp.zeros(2), p2.copy(), None, t)]
    for k in range(steps):
        p0 = ladder_increment(rng, p0, inc_exp, mixed)
        if not slot0_only and rng.random() < 0.5:
            p2 = ladder_increment(rng, p2, inc_exp, mixed)
        out.append((p0.copy(), onp.full(2, float(k + 1)), p2.copy(), None, t))
    return out


def make_linear_constraints(rng, E, m, xref):
    """c(x, p) = G x - h + F p0 >= 0 with a mix of active / inactive rows around xref."""
    n = E["n"]
    G = rng.standard_normal((m, n)) * E["dofscale"][None, :]
    F = 0.2 * rng.standard_normal((m, NP0))
    slack = onp.where(rng.random(m) < 0.5, -0.3, 0.5) * (onp.abs(G) @ onp.abs(xref) + 1.0) * rng.uniform(0.2, 1.0, m)
    h = G @ xref - slack
    return {"G": G, "h": h, "F": F}
