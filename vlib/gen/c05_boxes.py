"""Boxes, feasible starts, planted bound-constrained optima and an independent numpy reference solver for C05.

numpy only (independent of JAX / optimism).
"""
import math

import numpy as onp

BOX_KINDS = ("finite", "one_sided", "free", "degenerate", "mixed")
START_KINDS = ("interior", "face", "vertex")


def gen_box(kind, center, rng, width_decades=(-2.0, 2.0)):
    """A box containing `center` strictly inside every non-degenerate component."""
    n = len(center)
    wl = 10.0 ** rng.uniform(width_decades[0], width_decades[1], n)
    wu = 10.0 ** rng.uniform(width_decades[0], width_decades[1], n)
    lb = center - wl
    ub = center + wu
    if kind == "finite":
        pass
    elif kind == "one_sided":
        m = rng.random(n) < 0.5
        lb = onp.where(m, -onp.inf, lb)
        ub = onp.where(~m, onp.inf, ub)
    elif kind == "free":
        lb = onp.full(n, -onp.inf)
        ub = onp.full(n, onp.inf)
    elif kind == "degenerate":
        m = rng.random(n) < 0.5
        if not m.any():
            m[int(rng.integers(n))] = True
        if rng.random() < 0.2:
            m[:] = True                      # the feasible set is a single point
        lb = onp.where(m, center, lb)
        ub = onp.where(m, center, ub)
    elif kind == "mixed":
        t = rng.integers(0, 5, n)            # 0 finite, 1 lower only, 2 upper only, 3 free, 4 degenerate
        lb = onp.where((t == 2) | (t == 3), -onp.inf, lb)
        ub = onp.where((t == 1) | (t == 3), onp.inf, ub)
        lb = onp.where(t == 4, center, lb)
        ub = onp.where(t == 4, center, ub)
    else:
        raise KeyError(kind)
    return lb, ub


def gen_start(kind, lb, ub, rng, ref=None):
    """Feasible start: interior / on some faces / at a vertex (all bounded components on a bound)."""
    n = len(lb)
    ref = onp.zeros(n) if ref is None else onp.asarray(ref, float)
    lo = onp.where(onp.isfinite(lb), lb, onp.minimum(ref, onp.where(onp.isfinite(ub), ub, ref)) - 10.0 ** rng.uniform(-1, 1, n))
    hi = onp.where(onp.isfinite(ub), ub, onp.maximum(ref, lo) + 10.0 ** rng.uniform(-1, 1, n))
    x = lo + (hi - lo) * rng.uniform(0.05, 0.95, n)
    if kind == "interior":
        pass
    elif kind in ("face", "vertex"):
        on = onp.ones(n, bool) if kind == "vertex" else (rng.random(n) < 0.5)
        if kind == "face" and not on.any():
            on[int(rng.integers(n))] = True
        side = rng.random(n) < 0.5
        xl = onp.where(onp.isfinite(lb), lb, onp.where(onp.isfinite(ub), ub, x))
        xu = onp.where(onp.isfinite(ub), ub, onp.where(onp.isfinite(lb), lb, x))
        x = onp.where(on, onp.where(side, xl, xu), x)
    else:
        raise KeyError(kind)
    return onp.clip(x, lb, ub)


def plant_box_optimum(n, rng, box_kind, grad_free_part, width_decades=(-2.0, 2.0)):
    """Draw x*, a box with a chosen active set at x*, and bound multipliers; return (xstar, lb, ub, gstar) where gstar is
    the gradient the objective must have at x* (0 on free components, +lambda on active lower, -lambda on active upper).
    `grad_free_part` is unused here (the caller derives the linear term b from gstar)."""
    xstar = rng.standard_normal(n) * 10.0 ** rng.uniform(-1, 1) / math.sqrt(n)
    lb, ub = gen_box(box_kind, xstar, rng, width_decades)
    gstar = onp.zeros(n)
    state = onp.zeros(n, int)      # 0 free, -1 active lower, +1 active upper
    for i in range(n):
        if lb[i] == ub[i]:
            state[i] = -1 if rng.random() < 0.5 else 1
            gstar[i] = rng.standard_normal() * 10.0 ** rng.uniform(-1, 1)   # any sign is optimal on a degenerate component
            continue
        r = rng.random()
        if r < 0.3 and onp.isfinite(lb[i]):
            xstar[i] = lb[i]
            state[i] = -1
            gstar[i] = 0.0 if rng.random() < 0.1 else 10.0 ** rng.uniform(-2, 1)
        elif r < 0.6 and onp.isfinite(ub[i]):
            xstar[i] = ub[i]
            state[i] = 1
            gstar[i] = 0.0 if rng.random() < 0.1 else -(10.0 ** rng.uniform(-2, 1))
    return xstar, lb, ub, gstar, state


def projected_gradient_norm(x, g, lb, ub):
    return float(onp.linalg.norm(onp.clip(x - g, lb, ub) - x))


def reference_box_solve(value, grad, hess, x0, lb, ub, iters=300):
    """Independent projected-Newton / active-set solve for a strongly convex objective on a box.

    Returns (x, chi) with chi = |P(x - g) - x| as KKT certificate."""
    x = onp.clip(onp.asarray(x0, float), lb, ub)
    n = len(x)
    best = None
    for _ in range(iters):
        g = grad(x)
        chi = projected_gradient_norm(x, g, lb, ub)
        if chi <= 1e-14 * max(1.0, float(onp.linalg.norm(g))):
            break
        if best is None or chi < best[1]:
            best = (x.copy(), chi)
        tolb = 1e-12 * onp.maximum(1.0, onp.abs(x))
        active = ((x - lb <= tolb) & (g > 0)) | ((ub - x <= tolb) & (g < 0)) | (lb == ub)
        free = ~active
        d = onp.zeros(n)
        if free.any():
            H = hess(x)
            Hff = H[onp.ix_(free, free)]
            try:
                d[free] = onp.linalg.solve(Hff, -g[free])
            except onp.linalg.LinAlgError:
                d[free] = -g[free]
        if not onp.any(d):
            d = -g
        f0 = value(x)
        t = 1.0
        xn = x
        while t > 1e-14:
            xn = onp.clip(x + t * d, lb, ub)
            if value(xn) <= f0 + 1e-4 * (g @ (xn - x)):
                break
            t *= 0.5
        if t <= 1e-14:
            # fall back to a projected-gradient step
            t = 1.0
            while t > 1e-18:
                xn = onp.clip(x - t * g, lb, ub)
                if value(xn) <= f0 + 1e-4 * (g @ (xn - x)):
                    break
                t *= 0.5
        if onp.array_equal(xn, x):
            break
        x = xn
    g = grad(x)
    chi = projected_gradient_norm(x, g, lb, ub)
    if best is not None and best[1] < chi:
        return best
    return x, chi
