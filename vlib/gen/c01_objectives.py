"""Objective families for C01 / C05 (and anything else that needs smooth test objectives).

Every family is a JAX function f(x, p) whose *data* lives in p[0] as ONE flat float array
    p[0] = [A.ravel() (n*n) | b (n) | c (NC scalars)]
so that (a) one compilation per (family, n) serves every member of the family, (b) `p[0]` supports the
subtraction / jvp that `WarmStart.warm_start_increment` performs.

Parameter generation (numpy only) and the numpy replicas used by the reference solves are independent of
JAX/optimism.  Nothing here imports optimism.  jax is imported lazily (the parent process must not import it).
"""
import math

import numpy as onp

NC = 4  # number of scalar coefficients packed behind b

FAMILIES = ("quad", "convex_nq", "quartic", "rosen", "wells", "rankdef", "flat_exp", "flat_rat", "barrier", "cos", "valley", "twoscale")
CONVEX = ("quad", "convex_nq")
FLAT = ("flat_exp", "flat_rat")
# families whose value is finite for every finite x (mathematically); 'barrier' is NaN outside |x_i| < 2
FINITE_EVERYWHERE = tuple(f for f in FAMILIES if f != "barrier")

DIMS = (1, 2, 3, 5, 8, 13, 20, 30)


def pack(A, b, c):
    c = list(c) + [0.0] * (NC - len(c))
    return onp.concatenate([onp.asarray(A, float).ravel(), onp.asarray(b, float).ravel(), onp.asarray(c, float)])


def unpack_np(d, n):
    d = onp.asarray(d, float)
    return d[:n * n].reshape(n, n), d[n * n:n * n + n], d[n * n + n:]


_fam_cache = {}


def family(name):
    """Return the JAX function f(x, p) of the family (one Python function object per name)."""
    if name in _fam_cache:
        return _fam_cache[name]
    import jax.numpy as np
    from jax.scipy.special import logsumexp

    def unpack(x, p):
        n = x.shape[0]
        d = p[0]
        return d[:n * n].reshape(n, n), d[n * n:n * n + n], d[n * n + n:]

    def quad(x, p):
        A, b, c = unpack(x, p)
        return 0.5 * x @ (A @ x) - b @ x

    def convex_nq(x, p):
        A, b, c = unpack(x, p)
        return 0.5 * x @ (A @ x) - b @ x + c[0] * np.sum(np.logaddexp(x, 0.0)) + c[1] * logsumexp(x)

    def quartic(x, p):
        A, b, c = unpack(x, p)
        return 0.5 * x @ (A @ x) - b @ x + c[0] * np.sum(x ** 4)

    def rosen(x, p):
        A, b, c = unpack(x, p)
        return np.sum(c[0] * 100.0 * (x[1:] - x[:-1] ** 2) ** 2 + (1.0 - x[:-1]) ** 2) + 0.5 * c[1] * (x[-1] - 1.0) ** 2

    def valley(x, p):
        # curved valley (Rosenbrock type) under a dead load b; the valley stiffness is scaled by the DESIGN slot p[2][0]
        A, b, c = unpack(x, p)
        k = p[2][0]
        return np.sum(k * c[0] * 100.0 * (x[1:] - x[:-1] ** 2) ** 2 + (1.0 - x[:-1]) ** 2) + 0.5 * c[1] * (x[-1] - 1.0) ** 2 - b @ x

    def twoscale(x, p):
        # stiff quadratic well 0.5*(x-b)'A(x-b) (A diagonal: K on the stiff variables, 0 on the soft ones) + an O(1) non-quadratic
        # part on ALL variables measured from b:  c0*sum sqrt(a^2+y^2) + c1*sum log(1+exp(y)) + c2*sum (y^2-1)^2 + weak coupling
        A, b, c = unpack(x, p)
        y = x - b
        soft = np.where(np.diag(A) == 0.0, 1.0, 0.0)
        a = 0.1
        val = 0.5 * y @ (A @ y)
        val = val + c[0] * np.sum(soft * np.sqrt(a * a + y * y)) + c[1] * np.sum(soft * np.logaddexp(y, 0.0))
        val = val + c[2] * np.sum(soft * (y * y - 1.0) ** 2) + c[3] * np.sum(y[1:] * y[:-1])
        return val

    def wells(x, p):
        A, b, c = unpack(x, p)
        return np.sum((x ** 2 - 1.0) ** 2) + 0.1 * x @ (A @ x)

    def rankdef(x, p):
        A, b, c = unpack(x, p)
        y = x - b
        return 0.5 * y @ (A @ y) + c[0] * np.sum(y ** 4)

    def flat_exp(x, p):
        A, b, c = unpack(x, p)
        return -np.exp(-0.5 * x @ (A @ x))

    def flat_rat(x, p):
        A, b, c = unpack(x, p)
        q = x @ (A @ x)
        return q / (1.0 + q)

    def barrier(x, p):
        A, b, c = unpack(x, p)
        return 0.5 * x @ (A @ x) - b @ x - 0.1 * np.sum(np.log(2.0 - x)) - 0.1 * np.sum(np.log(2.0 + x))

    def cos(x, p):
        A, b, c = unpack(x, p)
        return 0.5 * x @ (A @ x) - b @ x + c[0] * np.sum(np.cos(3.0 * x))

    for f in (quad, convex_nq, quartic, rosen, wells, rankdef, flat_exp, flat_rat, barrier, cos, valley, twoscale):
        _fam_cache[f.__name__] = f
    return _fam_cache[name]


# ------------------------------------------------------------------ numpy replicas (convex families only)

def _sigmoid(x):
    return 0.5 * (1.0 + onp.tanh(0.5 * x))


def _softmax(x):
    e = onp.exp(x - onp.max(x))
    return e / e.sum()


def np_value(name, x, d):
    n = len(x)
    A, b, c = unpack_np(d, n)
    v = 0.5 * x @ A @ x - b @ x
    if name == "convex_nq":
        m = onp.max(x)
        v = v + c[0] * onp.sum(onp.logaddexp(x, 0.0)) + c[1] * (m + math.log(onp.sum(onp.exp(x - m))))
    elif name != "quad":
        raise KeyError(name)
    return float(v)


def np_grad(name, x, d):
    n = len(x)
    A, b, c = unpack_np(d, n)
    g = A @ x - b
    if name == "convex_nq":
        g = g + c[0] * _sigmoid(x) + c[1] * _softmax(x)
    elif name != "quad":
        raise KeyError(name)
    return g


def np_hess(name, x, d):
    n = len(x)
    A, b, c = unpack_np(d, n)
    H = onp.array(A)
    if name == "convex_nq":
        s = _sigmoid(x)
        sm = _softmax(x)
        H = H + c[0] * onp.diag(s * (1 - s)) + c[1] * (onp.diag(sm) - onp.outer(sm, sm))
    elif name != "quad":
        raise KeyError(name)
    return H


def np_newton(name, d, x0, iters=60):
    """Dense damped Newton in numpy for the strongly convex families (independent reference)."""
    x = onp.array(x0, float)
    for _ in range(iters):
        g = np_grad(name, x, d)
        H = np_hess(name, x, d)
        dx = onp.linalg.solve(H, -g)
        t = 1.0
        f0 = np_value(name, x, d)
        while t > 1e-12 and not (np_value(name, x + t * dx, d) <= f0 + 1e-4 * t * (g @ dx)):
            t *= 0.5
        x = x + t * dx
        if onp.linalg.norm(dx) <= 1e-15 * max(1.0, onp.linalg.norm(x)):
            break
    return x


# ------------------------------------------------------------------ spectra / matrices

def haar(rng, n):
    M = rng.standard_normal((n, n))
    Q, R = onp.linalg.qr(M)
    return Q * onp.sign(onp.diag(R))


def spd_with_spectrum(rng, n, lam, kind="rotated"):
    lam = onp.asarray(lam, float)
    if kind == "diag" or n == 1:
        return onp.diag(lam)
    Q = haar(rng, n)
    A = (Q * lam) @ Q.T
    return 0.5 * (A + A.T)


def spectrum(rng, n, mu, cond):
    """n eigenvalues in [mu, mu*cond] with both ends attained (n>=2)."""
    if n == 1:
        return onp.array([mu * math.sqrt(cond)])
    lam = mu * cond ** rng.uniform(0.0, 1.0, n)
    lam[0] = mu
    lam[-1] = mu * cond
    return rng.permutation(lam)


def gen_problem(name, n, rng, opts=None):
    """Draw one member of a family.

    Returns a dict with data (flat p[0] array), x0, and oracle facts ('xstar', 'mu', 'L' for convex members).
    opts: 'cond' (max condition number for convex), 'start' in {'random','far','saddle','at_min'}, 'scaled' (bool).
    """
    opts = dict(opts or {})
    start = opts.get("start", "random")
    info = {"family": name, "n": n}
    c = [0.0] * NC
    xstar = None
    if name in ("quad", "convex_nq"):
        cond = float(opts.get("cond", 10.0 ** rng.uniform(0, 8)))
        mu = float(opts.get("mu", 10.0 ** rng.uniform(-2, 0)))
        lam = spectrum(rng, n, mu, cond)
        if opts.get("scaled"):
            # badly scaled diagonal: D A0 D with A0 well conditioned -> the same spectrum bounds hold only roughly; recompute
            # cond(D A0 D) <= cond(A0) * (dmax/dmin)^2 <= 10 * 10^(4 s) = cond
            A0 = spd_with_spectrum(rng, n, spectrum(rng, n, 1.0, min(10.0, cond)))
            s = max(0.0, math.log10(max(cond, 10.0) / 10.0) / 4.0)
            D = onp.diag(10.0 ** rng.uniform(-s, s, n))
            A = D @ A0 @ D * mu
            A = 0.5 * (A + A.T)
        else:
            A = spd_with_spectrum(rng, n, lam, kind="rotated" if rng.random() < 0.85 else "diag")
        ev = onp.linalg.eigvalsh(A)
        xstar = rng.standard_normal(n) * 10.0 ** rng.uniform(-1, 1) / math.sqrt(n)
        if name == "convex_nq":
            c[0] = 10.0 ** rng.uniform(-2, 1)
            c[1] = 10.0 ** rng.uniform(-2, 1)
            b = A @ xstar + c[0] * _sigmoid(xstar) + c[1] * _softmax(xstar)
            Lextra = 0.25 * c[0] + 0.5 * c[1]
        else:
            b = A @ xstar
            Lextra = 0.0
        info.update(mu=float(ev[0]), L=float(ev[-1] + Lextra), cond=float(ev[-1] / ev[0]))
    elif name in ("quartic", "cos"):
        M = rng.standard_normal((n, n))
        A = M @ M.T / n + 0.1 * onp.eye(n) - 0.8 * onp.eye(n)
        b = rng.standard_normal(n) * (0.0 if start == "saddle" else 1.0)
        c[0] = 10.0 ** rng.uniform(-2, 0)
    elif name == "rosen":
        A = onp.zeros((n, n))
        b = onp.zeros(n)
        c[0] = 10.0 ** rng.uniform(-2, 0)
        c[1] = 1.0
    elif name == "wells":
        M = rng.standard_normal((n, n))
        A = M @ M.T / n + 0.1 * onp.eye(n) - 0.8 * onp.eye(n)
        b = onp.zeros(n)
    elif name == "rankdef":
        r = max(0, n - 1 - int(rng.integers(0, max(1, n // 2))))  # rank < n
        Q = haar(rng, n)
        lam = onp.concatenate([10.0 ** rng.uniform(-1, 1, r), onp.zeros(n - r)]) * float(opts.get("scale", 1.0))
        A = (Q * lam) @ Q.T
        A = 0.5 * (A + A.T)
        b = rng.standard_normal(n)  # shift = location of the minimiser (Hessian there = A, singular)
        c[0] = 10.0 ** rng.uniform(-2, 0)
        xstar = onp.array(b)
    elif name in ("flat_exp", "flat_rat"):
        lam = spectrum(rng, n, 10.0 ** rng.uniform(-1, 0.5), 10.0 ** rng.uniform(0, 1.5))
        A = spd_with_spectrum(rng, n, lam)
        b = onp.zeros(n)
        xstar = onp.zeros(n)
    elif name == "barrier":
        M = rng.standard_normal((n, n))
        A = M @ M.T / n + 0.1 * onp.eye(n)
        b = rng.standard_normal(n) * 10.0 ** rng.uniform(-1, 1)  # large b pushes the minimiser against the barrier
    else:
        raise KeyError(name)

    # start point
    if start == "at_min" and xstar is not None:
        x0 = onp.array(xstar)
    elif start == "far":
        v = rng.standard_normal(n)
        x0 = v / onp.linalg.norm(v) * 10.0 ** rng.uniform(2, 3)
    elif start == "saddle" and name in ("quartic", "wells", "cos"):
        x0 = onp.zeros(n)  # stationary point of wells / of quartic with b = 0 ('cos': sin(0) = 0 as well)
        if rng.random() < 0.5:
            x0 = x0 + 1e-9 * rng.standard_normal(n)
    elif name in FLAT:
        # on the slope of the bump: |x|_A around 0.5 .. 1.5
        v = rng.standard_normal(n)
        v = v / math.sqrt(v @ A @ v)
        x0 = v * rng.uniform(0.3, 1.6)
    else:
        x0 = rng.standard_normal(n) * 10.0 ** rng.uniform(-1, 1)
    if name == "barrier":
        x0 = onp.clip(x0 if start != "far" else rng.standard_normal(n), -1.5, 1.5)
    if name == "rosen" and start == "far":
        x0 = x0 / onp.linalg.norm(x0) * 10.0 ** rng.uniform(1, 2)  # 1e3 makes f ~ 1e14; keep the scale printable
    info.update(data=pack(A, b, c), x0=onp.asarray(x0, float), xstar=xstar, A=A, b=onp.asarray(b, float), c=c)
    return info
