"""C07 workload generators: parameterised equilibrium problems  f(x, p)  (run inside workers).

A *problem* bundles, for one compiled configuration,
  f(x, p)        smooth energy; p is an optimism Objective.Params with slots 0 (bc-like vector), 1 (state array),
                 2 (design), 3 (app data: the harness's random coefficients, never differentiated), 4 (time)
  upd(x, p)      explicit state update carried to the next load step through p[1]  (None if slot 1 is unused)
  obj            the optimism Objective built on f (so that all of its jitted closures are shared by the cases of
                 the configuration)
Two families:
  small_*   dense energies of dimension 3..15, convex by construction (SPD matrix + PSD couplings + a cosine
            perturbation too small to lose positive definiteness), every slot entering the Hessian *and* the load
  fe_*      finite-element energies built from optimism's own Mechanics/FunctionSpace factories on small meshes
            (Neohookean, J2 small/large kinematics; design = nodal coordinates through the adjoint function space,
            or element densities through the weighted function space)
Nothing in here decides a verdict.
"""
import contextlib
import io
import math

import numpy as onp


def _quiet():
    return contextlib.redirect_stdout(io.StringIO())


# --------------------------------------------------------------------------------------------------------------
# small dense energies
# --------------------------------------------------------------------------------------------------------------

def small_cfg(n, nb, sshape, nd, tshape, slots):
    """JSON-able configuration; `slots` is a string of populated differentiable slots, e.g. "0124"."""
    return {"kind": "small", "n": int(n), "nb": int(nb), "sshape": [int(s) for s in sshape], "nd": int(nd),
            "tshape": [int(s) for s in tshape], "slots": str(slots)}


def small_cfg_key(cfg):
    return "small:n%d:b%d:s%s:d%d:t%s:%s" % (cfg["n"], cfg["nb"], "x".join(map(str, cfg["sshape"])), cfg["nd"],
                                             "x".join(map(str, cfg["tshape"])) or "0d", cfg["slots"])


NEWMARK_BETA = 0.25


def make_small_energy(cfg):
    import jax
    import jax.numpy as np
    has1, has2, has4 = ("1" in cfg["slots"]), ("2" in cfg["slots"]), ("4" in cfg["slots"])
    sshape = tuple(cfg["sshape"])

    def f(x, p):
        a = p[3]
        e = 0.5 * x @ (a["A"] @ x) + a["k4"] * np.sum(a["w4"] * x ** 4) + a["knc"] * np.sum(np.cos(a["om"] * x + a["ph"]))
        b = p[0]
        e = e - (a["B"] @ np.sin(b)) @ x + 0.5 * a["kb"] * (1.0 + b[0] ** 2) * (a["c0"] @ x) ** 2
        if has1:
            s = p[1].ravel()
            e = e - (a["S"] @ np.tanh(s)) @ x + 0.5 * np.sum(jax.nn.softplus(s) * (a["C1"] @ x) ** 2)
        if has2:
            d = p[2]
            e = e - (a["D"] @ d) @ x + 0.5 * np.exp(0.3 * d[0]) * (a["c2"] @ x) ** 2 \
                + d[-1] ** 2 * a["k4"] * np.sum(a["w4"] * x ** 4)
        if has4:
            t = np.atleast_1d(p[4])
            e = e + np.sum(t) * (a["c4"] @ x) + 0.5 * np.sum(t ** 2) * (a["c5"] @ x) ** 2
        # Newmark-type inertia term on the dynamic data (slot 5): 0.5/(beta dt^2) (x - xd)^T M (x - xd), dt from the time slot
        # (optional here, as in a code that serves statics and dynamics with one energy; mandatory in the FE energies)
        dyn = p[5]
        if dyn is not None:
            dt = (0.5 + np.sum(np.atleast_1d(p[4]) ** 2)) if has4 else 1.0
            dx = x - dyn["xd"]
            e = e + 0.5 / (NEWMARK_BETA * dt ** 2) * np.sum(dyn["m"] * dx * dx)
        return e

    def upd(x, p):
        a = p[3]
        g = 1.0 + (0.1 * p[2][0] if has2 else 0.0)
        return 0.9 * np.tanh(p[1] + 0.3 * g * (a["E"] @ x).reshape(sshape))

    return f, (upd if has1 else None)


def small_coeffs(cfg, rng, cond=None):
    """Random coefficient set (slot 3).  A is SPD with spectrum in [1, cond]; the cosine term contributes at most
    0.1*1.5^2 = 0.225 < 1 to any Hessian eigenvalue, every other term is PSD in x."""
    from vlib.common import haar_on
    n, nb, nd = cfg["n"], cfg["nb"], cfg["nd"]
    ns = int(onp.prod(cfg["sshape"])) if cfg["sshape"] else 1
    c0 = float(10.0 ** rng.uniform(0.0, 2.0))
    cond = c0 if cond is None else float(cond)
    lam = onp.exp(rng.uniform(0.0, math.log(cond), size=n))
    lam[0], lam[-1] = 1.0, cond
    Q = haar_on(rng, n)
    A = (Q * lam) @ Q.T
    A = 0.5 * (A + A.T)
    sq = 1.0 / math.sqrt(n)
    a = {
        "A": A, "w4": rng.uniform(0.2, 1.0, n), "k4": float(rng.choice([0.0, rng.uniform(0.02, 0.2)])),
        "knc": 0.1 * rng.uniform(0.0, 1.0), "om": rng.uniform(0.5, 1.5, n), "ph": rng.uniform(0.0, 2 * math.pi, n),
        "B": rng.standard_normal((n, nb)), "kb": rng.uniform(0.0, 0.5), "c0": rng.standard_normal(n) * sq,
        "S": 0.5 * rng.standard_normal((n, ns)), "C1": 0.5 * sq * rng.standard_normal((ns, n)),
        "D": rng.standard_normal((n, nd)), "c2": rng.standard_normal(n) * sq,
        "c4": rng.standard_normal(n), "c5": 0.5 * sq * rng.standard_normal(n),
        "E": rng.standard_normal((ns, n)) * sq,
        # slot 5 (dynamic data), split off by make_params: predictor and lumped mass of the inertia term
        "dyn": {"xd": 0.5 * rng.standard_normal(n), "m": rng.uniform(0.05, 0.5, n)},
    }
    return a, cond


def small_slot_values(cfg, rng):
    """Random values for the populated slots: dict slot -> numpy array (slot 4 may be 0-d)."""
    v = {0: rng.standard_normal(cfg["nb"])}
    if "1" in cfg["slots"]:
        v[1] = rng.standard_normal(tuple(cfg["sshape"]))
    if "2" in cfg["slots"]:
        v[2] = 0.7 * rng.standard_normal(cfg["nd"])
    if "4" in cfg["slots"]:
        v[4] = rng.uniform(0.2, 1.5, size=tuple(cfg["tshape"]))
    return v


def build_small_problem(cfg):
    import jax.numpy as np
    from optimism import Objective
    f, upd = make_small_energy(cfg)
    rng = onp.random.default_rng(12345)
    a, _ = small_coeffs(cfg, rng)
    vals = small_slot_values(cfg, rng)
    p = make_params(vals, a)
    with _quiet():
        obj = Objective.Objective(f, np.zeros(cfg["n"]), p)
    return {"cfg": cfg, "f": f, "upd": upd, "obj": obj, "n": cfg["n"], "fe": None}


def make_params(vals, app):
    """Objective.Params from {slot: numpy array} (missing slot -> None) and the app-data pytree."""
    import jax.numpy as np
    import jax
    from optimism import Objective
    g = lambda k: (np.asarray(vals[k], dtype=float) if k in vals and vals[k] is not None else None)
    appj, dynj = split_app(app)
    return Objective.Params(g(0), g(1), g(2), appj, g(4), dynj)


def split_app(app):
    """The harness keeps its random coefficients in one dict; the entry 'dyn' becomes slot 5 (dynamic_data), the rest slot 3
    (app_data).  Both are non-differentiable slots the energy genuinely reads."""
    import jax
    import jax.numpy as np
    if app is None:
        return None, None
    conv = lambda t: jax.tree_util.tree_map(lambda z: np.asarray(z, dtype=float), t)
    rest = {k: v for k, v in app.items() if k != "dyn"}
    return conv(rest), (conv(app["dyn"]) if "dyn" in app else None)


# --------------------------------------------------------------------------------------------------------------
# finite-element energies
# --------------------------------------------------------------------------------------------------------------

def fe_cfg(nx, ny, material, design, quad_degree=1):
    return {"kind": "fe", "nx": int(nx), "ny": int(ny), "material": material, "design": design, "qdeg": int(quad_degree)}


def fe_cfg_key(cfg):
    return "fe:%dx%d:%s:%s:q%d" % (cfg["nx"], cfg["ny"], cfg["material"], cfg["design"], cfg["qdeg"])


def make_material(name):
    from optimism.material import J2Plastic, Neohookean
    if name == "neohookean":
        return Neohookean.create_material_model_functions({"elastic modulus": 10.0, "poisson ratio": 0.3, "version": "coupled"})
    if name == "neohookean_adagio":
        return Neohookean.create_material_model_functions({"elastic modulus": 10.0, "poisson ratio": 0.3, "version": "adagio"})
    if name == "visco":
        from optimism.material import HyperViscoelastic
        with _quiet():
            return HyperViscoelastic.create_material_model_functions({"equilibrium bulk modulus": 10.0, "equilibrium shear modulus": 1.0,
                                                                      "non equilibrium shear modulus": 2.0, "relaxation time": 0.5})
    if name == "multibranch":
        from optimism.material import MultiBranchHyperViscoelastic
        with _quiet():
            return MultiBranchHyperViscoelastic.create_material_model_functions({
                "equilibrium bulk modulus": 10.0, "equilibrium shear modulus": 1.0,
                "non equilibrium shear modulus 1": 2.0, "relaxation time 1": 0.1,
                "non equilibrium shear modulus 2": 1.0, "relaxation time 2": 1.0,
                "non equilibrium shear modulus 3": 0.5, "relaxation time 3": 10.0})
    if name == "j2_rate":
        return J2Plastic.create_material_model_functions({"elastic modulus": 100.0, "poisson ratio": 0.3, "yield strength": 1.0,
                                                          "hardening model": "linear", "hardening modulus": 5.0, "kinematics": "small deformations",
                                                          "rate sensitivity": "power law", "rate sensitivity exponent": 1.0,   # exponent (m+1)/m = 2: potential twice differentiable at zero rate
                                                          "rate sensitivity stress": 0.5, "reference plastic strain rate": 1.0})
    kin = {"j2_small": "small deformations", "j2_large": "large deformations"}[name]
    return J2Plastic.create_material_model_functions({"elastic modulus": 100.0, "poisson ratio": 0.3, "yield strength": 1.0,
                                                      "hardening model": "linear", "hardening modulus": 5.0, "kinematics": kin})


def fe_mesh(cfg):
    """Structured nx x ny node mesh on the unit square with 'bottom'/'top' node sets (computed here from the
    coordinates; the library's structured generator creates none)."""
    from optimism import Mesh
    from vlib.gen import meshes
    mesh = Mesh.construct_structured_mesh(cfg["nx"], cfg["ny"], [0.0, 1.0], [0.0, 1.0])
    c = onp.asarray(mesh.coords)
    sets = {"bottom": onp.nonzero(c[:, 1] < 1e-12)[0], "top": onp.nonzero(c[:, 1] > 1.0 - 1e-12)[0]}
    return meshes.with_nodesets(mesh, sets)


def build_fe_problem(cfg):
    """Energy  f(Uu, p) = strain energy(U(Uu, p[0]); state p[1]; design p[2]) - p[4] * sum(fext * U).
    p[0] holds the prescribed values of all constrained dofs (bottom and top rows, both components)."""
    import jax.numpy as np
    from optimism import FunctionSpace as FS, QuadratureRule as QR, Mechanics, Interpolants, Objective
    from optimism.inverse import AdjointFunctionSpace as AFS
    mesh = fe_mesh(cfg)
    quad = QR.create_quadrature_rule_on_triangle(degree=cfg["qdeg"])
    fs0 = FS.construct_function_space(mesh, quad)
    ebcs = [FS.EssentialBC(nodeSet=s, component=c) for s in ("bottom", "top") for c in (0, 1)]
    dm = FS.DofManager(fs0, 2, ebcs)
    shapeOnRef = Interpolants.compute_shapes(mesh.parentElement, quad.xigauss)
    mat = make_material(cfg["material"])
    design = cfg["design"]

    def space(d):
        if design == "coords":
            return AFS.construct_function_space_for_adjoint(d, shapeOnRef, mesh, quad)
        return FS.construct_weighted_function_space(mesh, quad, quadratureWeights=d)

    def f(Uu, p):
        U = dm.create_field(Uu, p[0])
        mf = Mechanics.create_mechanics_functions(space(p[2]), "plane strain", mat)
        e = mf.compute_strain_energy(U, p[1])
        if p[4] is not None:
            e = e - p[4] * np.sum(p[3]["fext"] * U)
        # Newmark-type inertia on the dynamic data (slot 5): nodal masses m, predictor ud, dt from the time slot
        dt = 0.5 + (p[4] ** 2 if p[4] is not None else 0.5)
        dU = U - p[5]["ud"]
        e = e + 0.5 / (NEWMARK_BETA * dt ** 2) * np.sum(p[5]["m"] * dU * dU)
        return e

    def upd(Uu, p):
        U = dm.create_field(Uu, p[0])
        mf = Mechanics.create_mechanics_functions(space(p[2]), "plane strain", mat)
        return mf.compute_updated_internal_variables(U, p[1])

    mf0 = Mechanics.create_mechanics_functions(fs0, "plane strain", mat)
    state0 = onp.asarray(mf0.compute_initial_state())
    nu = int(dm.get_unknown_size())
    nbc = int(dm.get_bc_size())
    fe = {"mesh": mesh, "quad": quad, "dm": dm, "mat": mat, "state0": state0, "nbc": nbc, "shapeOnRef": shapeOnRef,
          "fs0": fs0, "mf0": mf0, "has_state": state0.size > 0}
    d0 = onp.asarray(mesh.coords) if design == "coords" else onp.ones((int(mesh.conns.shape[0]), 1))
    vals = {0: onp.zeros(nbc), 1: state0, 2: d0, 4: onp.asarray(0.0)}
    nn = onp.asarray(mesh.coords).shape
    p = make_params(vals, {"fext": onp.zeros(nn), "dyn": {"ud": onp.zeros(nn), "m": onp.ones((nn[0], 1))}})
    with _quiet():
        obj = Objective.Objective(f, np.zeros(nu), p)
    return {"cfg": cfg, "f": f, "upd": (upd if fe["has_state"] else None), "obj": obj, "n": nu, "fe": fe}


def fe_inputs(prob, rng, amp):
    """Random admissible FE inputs: bc values (top row pulled/sheared by ~amp, bottom nearly fixed), design
    (perturbed coordinates or densities in [0.6, 1.4]), dead-load pattern and time factor."""
    fe = prob["fe"]
    mesh, dm = fe["mesh"], fe["dm"]
    c = onp.asarray(mesh.coords)
    nn = c.shape[0]
    V = onp.zeros((nn, 2))
    top = onp.asarray(mesh.nodeSets["top"])
    bot = onp.asarray(mesh.nodeSets["bottom"])
    g = rng.uniform(-1.0, 1.0, size=2)
    g[1] = abs(g[1]) * rng.choice([-1.0, 1.0])
    V[top, 0] = amp * g[0] + 0.15 * amp * rng.standard_normal(len(top))
    V[top, 1] = amp * g[1] + 0.15 * amp * rng.standard_normal(len(top))
    V[bot] = 0.1 * amp * rng.standard_normal((len(bot), 2))
    b = V[onp.asarray(dm.isBc)]
    if prob["cfg"]["design"] == "coords":
        h = 1.0 / (max(prob["cfg"]["nx"], prob["cfg"]["ny"]) - 1)
        d = c + 0.12 * h * rng.uniform(-1.0, 1.0, size=c.shape)
    else:
        d = rng.uniform(0.6, 1.4, size=(int(mesh.conns.shape[0]), 1))
    fext = rng.standard_normal(c.shape) * (0.02 if prob["cfg"]["material"].startswith("neo") else 0.05)
    t = onp.asarray(rng.uniform(0.5, 1.5))
    stiff = 0.3 if prob["cfg"]["material"].startswith("neo") else 3.0       # ~ a few % of the nodal stiffness
    dyn = {"ud": 0.3 * amp * rng.standard_normal(c.shape), "m": stiff * NEWMARK_BETA * rng.uniform(0.2, 1.0, size=(nn, 1))}
    return {0: b, 1: fe["state0"].copy(), 2: d, 4: t}, {"fext": fext, "dyn": dyn}


# --------------------------------------------------------------------------------------------------------------
# preconditioner strategies (the Objective's optional precondStrategy argument, non-default)
# --------------------------------------------------------------------------------------------------------------

PRECOND_KINDS = ("none", "stale", "jacobi", "identity", "perturbed")


def objective_with_precond(prob, kind, x_ref, p_ref, rng):
    """An Objective on the problem's energy whose preconditioner is deliberately NOT the exact Hessian:
      none       precondStrategy=None (the library factors the dense Hessian at the point it is asked for)
      stale      the Hessian at (x_ref, p_ref), assembled once and returned whatever (x, p) is asked for ("initial stiffness")
      jacobi     the diagonal of the Hessian at (x, p)
      identity   the identity matrix
      perturbed  S H(x, p) S with a fixed random diagonal S in [0.5, 2] (SPD, same sparsity, wrong scaling)
    The instance is a shallow copy of the problem's base Objective (same jitted closures, so nothing is recompiled) with its
    own SparseCholesky and the library's own PrecondStrategy around the matrix function.  All matrices are SPD, so the
    solver's CG still converges; only the exact Hessian-vector products decide the answer."""
    import copy
    from scipy.sparse import csc_matrix, identity as sp_identity, diags
    from optimism import Objective
    from optimism.SparseCholesky import SparseCholesky
    base = prob["obj"]
    if kind == "none":
        return base
    n = prob["n"]
    dense = lambda x, p: onp.asarray(base.hess(x, p), dtype=float)
    if kind == "stale":
        K0 = csc_matrix(dense(x_ref, p_ref))
        fn = lambda x, p: K0
    elif kind == "jacobi":
        fn = lambda x, p: csc_matrix(diags(onp.maximum(onp.abs(onp.diag(dense(x, p))), 1e-12), 0))
    elif kind == "identity":
        fn = lambda x, p: csc_matrix(sp_identity(n))
    elif kind == "perturbed":
        sc = onp.exp(rng.uniform(math.log(0.5), math.log(2.0), size=n))
        fn = lambda x, p: csc_matrix((dense(x, p) * sc[:, None]) * sc[None, :])
    else:
        raise ValueError(kind)
    obj = copy.copy(base)
    obj.precond = SparseCholesky()
    obj.precondStrategy = Objective.PrecondStrategy(fn)
    return obj
