"""Seeded generators for C16: (segment, point) batches and mortar segment pairs.  numpy only.

Canonical frame for pairs: A = [(0,0),(LA,0)], tangent +x, outward normal (0,-1); a *facing* partner B lies at
y = -h (h > 0: open gap, h < 0: penetration) and runs in the -x direction, so its outward normal is (0,+1) = -nA.
Every pair is then moved by a random proper rigid motion (placement 1) and by a second one (placement 2): the two
placements are the inputs of the metamorphic invariance relation.
"""
import math

import numpy as onp


SCALE_BANDS = (("tiny", -12.0, -6.0), ("small", -6.0, -2.0), ("unit", -2.0, 2.0), ("large", 2.0, 8.0))


def abs_scale(rng):
    """Absolute size of a whole configuration, stratified over 20 decades (the statements are scale free): the four
    bands are drawn with equal probability, log-uniform inside a band."""
    name, lo, hi = SCALE_BANDS[int(rng.integers(0, len(SCALE_BANDS)))]
    return 10.0 ** rng.uniform(lo, hi)


def band_of(x):
    x = float(x)
    for name, lo, hi in SCALE_BANDS:
        if x < 10.0 ** hi:
            return name
    return "large"


def rot(th):
    c, s = math.cos(th), math.sin(th)
    return onp.array([[c, -s], [s, c]])


def rigid(rng, X_list, spread):
    """One random proper rigid motion applied to all arrays of X_list (points are rows of the last axis)."""
    R = rot(rng.uniform(0.0, 2.0 * math.pi))
    tr = rng.normal(size=2) * spread * float(rng.choice([0.0, 1.0, 3.0]))
    return [onp.asarray(X) @ R.T + tr for X in X_list]


# ------------------------------------------------------------------------------------------------ closest point

def cpp_random_batch(rng, n, decades=3.0):
    """Segments over 20 decades of absolute length (1e-12..1e8, see abs_scale), any orientation, offset from the origin by 0..100 lengths; points by
    (segment parameter s, normal offset d) classes: beyond start / interior / beyond end / next to an end; d over
    2*decades decades of the length, tiny, or zero."""
    E = onp.zeros((n, 2, 2))
    Pn = onp.zeros((n, 2))
    kinds = []
    for i in range(n):
        L = abs_scale(rng)
        th = rng.uniform(0, 2 * math.pi)
        t = onp.array([math.cos(th), math.sin(th)])
        nrm = onp.array([t[1], -t[0]])
        off = rng.normal(size=2) * L * float(rng.choice([0.0, 1.0, 10.0, 100.0], p=[0.3, 0.4, 0.2, 0.1]))
        a = off
        b = off + L * t
        ks = int(rng.integers(0, 5))
        if ks == 0:
            s = -10.0 ** rng.uniform(-decades, decades)
        elif ks == 1:
            s = rng.uniform(0, 1)
        elif ks == 2:
            s = 1.0 + 10.0 ** rng.uniform(-decades, decades)
        elif ks == 3:
            s = float(rng.choice([0.0, 1.0])) + float(rng.choice([-1, 1])) * 10.0 ** rng.uniform(-16, -3)
        else:
            s = float(rng.choice([0.0, 1.0, 0.5]))
        kd = int(rng.integers(0, 4))
        if kd == 0:
            d = 10.0 ** rng.uniform(-decades, decades) * L
        elif kd == 1:
            d = 10.0 ** rng.uniform(-16, -3) * L
        elif kd == 2:
            d = 0.0
        else:
            d = rng.uniform(0.01, 3.0) * L
        d *= float(rng.choice([-1, 1]))
        p = a + s * (b - a) + d * nrm
        E[i, 0], E[i, 1], Pn[i] = a, b, p
        kinds.append((["before", "inside", "after", "near_end", "at_param"][ks], ["far", "tiny", "zero", "moderate"][kd]))
    return E, Pn, kinds


def cpp_corner_batch(rng, n):
    """Exactly representable configurations (integer lattice scaled by a power of two): points exactly on the line,
    exactly at the end points, at distance 0, exactly perpendicular above an end point, and ulp-neighbours of those."""
    E = onp.zeros((n, 2, 2))
    Pn = onp.zeros((n, 2))
    kinds = []
    names = ["at_a", "at_b", "on_segment", "on_line_before", "on_line_after", "perp_at_a", "perp_at_b", "perp_inside",
             "ulp_at_a", "ulp_at_b", "ulp_on_segment"]
    for i in range(n):
        while True:
            a = rng.integers(-8, 9, size=2).astype(float)
            b = rng.integers(-8, 9, size=2).astype(float)
            if onp.any(a != b):
                break
        v = b - a
        nrm = onp.array([v[1], -v[0]])
        k = names[i % len(names)]
        frac = float(rng.choice([0.25, 0.5, 0.75, 0.125]))
        far = float(rng.choice([0.5, 1.0, 2.0, 3.0, 64.0]))
        side = float(rng.choice([-1.0, 1.0])) * float(rng.choice([0.25, 1.0, 4.0]))
        if k in ("at_a", "ulp_at_a"):
            p = a.copy()
        elif k in ("at_b", "ulp_at_b"):
            p = b.copy()
        elif k in ("on_segment", "ulp_on_segment"):
            p = a + frac * v
        elif k == "on_line_before":
            p = a - far * v
        elif k == "on_line_after":
            p = b + far * v
        elif k == "perp_at_a":
            p = a + side * nrm
        elif k == "perp_at_b":
            p = b + side * nrm
        else:
            p = a + frac * v + side * nrm
        sc = 2.0 ** int(rng.integers(-42, 25))      # lattice of size ~8 -> segment lengths 2e-13 .. 4e8
        a, b, p = a * sc, b * sc, p * sc
        if k.startswith("ulp"):
            j = int(rng.integers(0, 2))
            step = int(rng.choice([-3, -2, -1, 1, 2, 3]))
            x = p[j] if p[j] != 0.0 else 0.0
            for _ in range(abs(step)):
                x = onp.nextafter(x, math.inf if step > 0 else -math.inf)
            p[j] = x
        E[i, 0], E[i, 1], Pn[i] = a, b, p
        kinds.append((k, "exact"))
    return E, Pn, kinds


# ------------------------------------------------------------------------------------------------- mortar pairs

PAR_KINDS = ("disjoint", "partial", "nested", "touch")


def _parallel_canonical(rng, kind, same_direction, decades):
    LA = 1.0
    r = 10.0 ** rng.uniform(-decades, decades) if rng.random() < 0.5 else 10.0 ** rng.uniform(-1, 1)
    LB = r * LA
    if kind == "disjoint":
        gap = 10.0 ** rng.uniform(-3, 1) * max(LA, LB)
        b0 = LA + gap if rng.random() < 0.5 else -LB - gap
    elif kind == "partial":
        b0 = rng.uniform(-LB, LA)
    elif kind == "nested":
        b0 = rng.uniform(0, LA - LB) if LB < LA else rng.uniform(LA - LB, 0)
    elif kind == "touch":
        b0 = LA if rng.random() < 0.5 else -LB
    elif kind == "aligned":
        c = int(rng.integers(0, 3))
        if c == 0:
            LB, b0 = LA, 0.0
        elif c == 1:
            b0 = 0.0
        else:
            b0 = LA - LB
    else:
        raise ValueError(kind)
    b1 = b0 + LB
    h = 10.0 ** rng.uniform(-3, 1) * min(LA, LB) * float(rng.choice([1, 1, -1]))
    if rng.random() < 0.05:
        h = 0.0
    A = onp.array([[0.0, 0.0], [LA, 0.0]])
    B = onp.array([[b0, -h], [b1, -h]]) if same_direction else onp.array([[b1, -h], [b0, -h]])
    return A, B


def mortar_batch(rng, n, cls, decades=3.0):
    """Returns placements (A1,B1), (A2,B2) (a rigid motion apart), (A3,B3) = f*(A1,B1) (a change of length unit, f (n,))
    as (n,2,2) arrays and a list of kind strings.  The absolute size of every pair is drawn by abs_scale."""
    A3 = onp.zeros((n, 2, 2))
    B3 = onp.zeros((n, 2, 2))
    F = onp.zeros(n)
    A1 = onp.zeros((n, 2, 2))
    B1 = onp.zeros((n, 2, 2))
    A2 = onp.zeros((n, 2, 2))
    B2 = onp.zeros((n, 2, 2))
    kinds = []
    for i in range(n):
        if cls in ("mortar_parallel_facing", "mortar_same_direction", "mortar_inclined", "mortar_near_coinciding"):
            kind = PAR_KINDS[int(rng.integers(0, 4))]
            same = cls in ("mortar_same_direction", "mortar_near_coinciding")
            A, B = _parallel_canonical(rng, kind, same, decades)
            if cls == "mortar_inclined":
                d = float(onp.clip(rng.normal() * 0.2, -0.6, 0.6))
                c = B.mean(0)
                B = (B - c) @ rot(d).T + c
            if cls == "mortar_near_coinciding":
                d = float(rng.choice([-1, 1])) * 10.0 ** rng.uniform(-5.5, -1)
                c = B.mean(0)
                B = (B - c) @ rot(d).T + c
        elif cls == "mortar_aligned":
            kind = "aligned"
            A, B = _parallel_canonical(rng, "aligned", False, decades)
        elif cls == "mortar_arbitrary":
            u = rng.random()
            if u < 0.05:
                kind = "perpendicular"
                A = onp.array([[0.0, 0.0], [1.0, 0.0]])
                x = rng.uniform(-0.5, 1.5)
                B = onp.array([[x, -rng.uniform(0.1, 1)], [x, -rng.uniform(1.1, 3)]])
            else:
                kind = "arbitrary"
                A = rng.normal(size=(2, 2))
                B = rng.normal(size=(2, 2)) * 10.0 ** rng.uniform(-2, 2) + A.mean(0)
                if onp.linalg.norm(B[1] - B[0]) < 1e-3 * onp.linalg.norm(A[1] - A[0]) or onp.linalg.norm(A[1] - A[0]) < 1e-3:
                    A = onp.array([[0.0, 0.0], [1.0, 0.3]])
        else:
            raise ValueError(cls)
        s = abs_scale(rng) / max(onp.linalg.norm(A[1] - A[0]), onp.linalg.norm(B[1] - B[0]))
        A, B = A * s, B * s
        spread = max(onp.abs(A).max(), onp.abs(B).max())
        a1, b1 = rigid(rng, [A, B], spread)
        a2, b2 = rigid(rng, [a1, b1], max(onp.abs(a1).max(), onp.abs(b1).max()))
        A1[i], B1[i], A2[i], B2[i] = a1, b1, a2, b2
        # change of unit: to another absolute size band; an exact power of two half of the time
        f = abs_scale(rng) / max(onp.linalg.norm(a1[1] - a1[0]), onp.linalg.norm(b1[1] - b1[0]))
        if rng.random() < 0.5:
            f = 2.0 ** round(math.log2(f))
        F[i] = f
        A3[i], B3[i] = a1 * f, b1 * f
        kinds.append(kind)
    return (A1, B1), (A2, B2), (A3, B3, F), kinds


# -------------------------------------------------------------------------------------- two facing polylines

def polyline_pair(rng, nA, nB, n_extra):
    """Two straight, parallel, facing polylines (B = integration side, nB segments; A = opposite side, nA segments),
    plus n_extra unrelated nodes.  Returns deformed node positions X (N,2), segment connectivities and the canonical
    abscissae used by the oracle."""
    span = abs_scale(rng)
    sB = onp.sort(rng.uniform(0.0, 1.0, size=nB + 1))
    sB[0], sB[-1] = 0.0, 1.0
    mode = int(rng.integers(0, 4))
    if mode == 0:      # partial overlap
        lo, hi = rng.uniform(-0.6, 0.4), rng.uniform(0.6, 1.6)
    elif mode == 1:    # A covers B
        lo, hi = rng.uniform(-1.0, -0.1), rng.uniform(1.1, 2.0)
    elif mode == 2:    # A inside B
        lo, hi = rng.uniform(0.05, 0.4), rng.uniform(0.6, 0.95)
    else:              # disjoint
        lo, hi = rng.uniform(1.2, 1.5), rng.uniform(1.8, 2.5)
    sA = onp.sort(rng.uniform(lo, hi, size=nA + 1))
    sA[0], sA[-1] = lo, hi
    # keep interior breakpoints away from each other so that no two nodes align (that configuration has its own class)
    h = 10.0 ** rng.uniform(-2, 0) * float(rng.choice([1, 1, -1]))
    XB = onp.stack([sB, onp.zeros(nB + 1)], axis=1)               # B runs +x: outward normal (0,-1)
    XA = onp.stack([sA[::-1], -h * onp.ones(nA + 1)], axis=1)     # A runs -x at y=-h: outward normal (0,+1)
    XE = rng.normal(size=(n_extra, 2)) + onp.array([0.0, 5.0])
    X = onp.vstack([XB, XA, XE]) * span
    connB = onp.array([[j, j + 1] for j in range(nB)], dtype=int)
    connA = onp.array([[nB + 1 + j, nB + 2 + j] for j in range(nA)], dtype=int)
    return {"X": X, "connA": connA, "connB": connB, "sB": sB * span, "sA": sA * span, "h": h * span, "span": span,
            "mode": ["partial", "covering", "inside", "disjoint"][mode]}
