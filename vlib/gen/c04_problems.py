"""C04 — generators for inequality-constrained problems  min f(x)  s.t.  c(x) >= 0  with a *planted* KKT point.

numpy only at import time (the parent process may import this module); `jax_funcs` imports jax lazily.

Objective families (all smooth):
  quad       0.5 x'Ax - b'x                                   A SPD
  logcosh    quad + sum_j w_j log cosh(d_j . x)               w >= 0  (convex, non-quadratic)
  quartic    quad + gamma/4 sum_i x_i^4                       gamma > 0
  nonconvex  0.5 x'Ax - b'x + w sum_j cos(d_j . x)            A indefinite (KKT clause only)
Constraint kinds (every c_i concave => convex feasible set):
  lin    c = g.x - h
  ball   c = R^2 - |x - xc|^2
  parab  c = d0 + g.(x - z) - 0.5 |B (x - z)|^2

For the convex families the generator first draws x*, the slacks s_i = c_i(x*) >= 0 and the multipliers lam*_i >= 0 with
s_i lam*_i = 0, and then sets b so that grad f(x*) = J(x*)' lam*.  KKT is sufficient for a convex program, so x* is the
(unique, f strongly convex) constrained minimiser whether or not a Slater point exists; a Slater point x* + t d is
constructed as well (every constraint gradient at x* has a positive component along d) so that feasibility with
non-empty interior is known.
"""
import math

import numpy as onp

LOG2 = math.log(2.0)


# ------------------------------------------------------------------ numpy evaluation (the oracle side)

def f_extra_grad(P, x):
    k = P["fkind"]
    if k == "quad":
        return onp.zeros_like(x)
    if k == "logcosh":
        return P["D"].T @ (P["w"] * onp.tanh(P["D"] @ x))
    if k == "quartic":
        return P["gamma"] * x ** 3
    if k == "nonconvex":
        return -P["D"].T @ (P["w"] * onp.sin(P["D"] @ x))
    raise ValueError(k)


def grad_f(P, x, b=None):
    b = P["b"] if b is None else b
    return P["A"] @ x + f_extra_grad(P, x) - b


def hess_f(P, x):
    H = onp.array(P["A"], dtype=float)
    k = P["fkind"]
    if k == "logcosh":
        t = P["D"] @ x
        H = H + P["D"].T @ ((P["w"] / onp.cosh(t) ** 2)[:, None] * P["D"])
    elif k == "quartic":
        H = H + onp.diag(3.0 * P["gamma"] * x ** 2)
    elif k == "nonconvex":
        t = P["D"] @ x
        H = H - P["D"].T @ ((P["w"] * onp.cos(t))[:, None] * P["D"])
    return H


def cons(P, x):
    out = []
    for c in P["cons"]:
        if c["kind"] == "lin":
            out.append(c["g"] @ x - c["h"])
        elif c["kind"] == "ball":
            r = x - c["xc"]
            out.append(c["R"] ** 2 - r @ r)
        elif c["kind"] == "parab":
            r = x - c["z"]
            Br = c["B"] @ r
            out.append(c["d0"] + c["g"] @ r - 0.5 * (Br @ Br))
    return onp.array(out, dtype=float)


def cons_mag(P, x):
    """Sum of the absolute values of the terms of each constraint (rounding scale of c_i(x))."""
    out = []
    for c in P["cons"]:
        if c["kind"] == "lin":
            out.append(onp.abs(c["g"]) @ onp.abs(x) + abs(c["h"]))
        elif c["kind"] == "ball":
            out.append(c["R"] ** 2 + (onp.abs(x) + onp.abs(c["xc"])) @ (onp.abs(x) + onp.abs(c["xc"])))
        elif c["kind"] == "parab":
            r = onp.abs(x) + onp.abs(c["z"])
            Br = onp.abs(c["B"]) @ r
            out.append(abs(c["d0"]) + onp.abs(c["g"]) @ r + 0.5 * (Br @ Br))
    return onp.array(out, dtype=float)


def jac(P, x):
    rows = []
    for c in P["cons"]:
        if c["kind"] == "lin":
            rows.append(c["g"])
        elif c["kind"] == "ball":
            rows.append(-2.0 * (x - c["xc"]))
        elif c["kind"] == "parab":
            r = x - c["z"]
            rows.append(c["g"] - c["B"].T @ (c["B"] @ r))
    return onp.array(rows, dtype=float).reshape(len(P["cons"]), len(x))


# ------------------------------------------------------------------ jax side (what the library is given)

def jax_funcs(P, use_params):
    """f(x, p), c(x, p) for ConstrainedObjective.  With use_params the linear term is p[0] (bc_data slot)."""
    import jax.numpy as np
    A = np.array(P["A"])
    b = np.array(P["b"])
    k = P["fkind"]
    D = np.array(P["D"]) if "D" in P else None
    w = np.array(P["w"]) if "w" in P else None
    gamma = P.get("gamma", 0.0)

    def f(x, p):
        lin = p[0] if use_params else b
        v = 0.5 * x @ (A @ x) - lin @ x
        if k == "logcosh":
            t = D @ x
            v = v + w @ (np.logaddexp(t, -t) - LOG2)
        elif k == "quartic":
            v = v + 0.25 * gamma * np.sum(x ** 4)
        elif k == "nonconvex":
            v = v + w @ np.cos(D @ x)
        return v

    cs = []
    for c in P["cons"]:
        cs.append({kk: (np.array(vv) if isinstance(vv, onp.ndarray) else vv) for kk, vv in c.items()})

    def cfun(x, p):
        out = []
        for c in cs:
            if c["kind"] == "lin":
                out.append(c["g"] @ x - c["h"])
            elif c["kind"] == "ball":
                r = x - c["xc"]
                out.append(c["R"] ** 2 - r @ r)
            else:
                r = x - c["z"]
                Br = c["B"] @ r
                out.append(c["d0"] + c["g"] @ r - 0.5 * (Br @ Br))
        return np.stack(out)

    return f, cfun


# ------------------------------------------------------------------ generators

def _spd(rng, n, floor):
    M = rng.standard_normal((n, n))
    return M @ M.T / n + floor * onp.eye(n)


def _unit(rng, n):
    v = rng.standard_normal(n)
    return v / onp.linalg.norm(v)


def _objective_part(rng, n, fkind):
    P = {"n": n, "fkind": fkind}
    if fkind == "nonconvex":
        Q = onp.linalg.qr(rng.standard_normal((n, n)))[0]
        ev = rng.uniform(-1.0, 2.0, n)
        ev[0] = -abs(ev[0]) - 0.2          # at least one negative curvature direction
        P["A"] = (Q * ev) @ Q.T
        P["A"] = 0.5 * (P["A"] + P["A"].T)
        P["D"] = rng.standard_normal((2, n))
        P["w"] = rng.uniform(0.2, 1.0, 2)
        P["mu"] = None
        return P
    P["A"] = _spd(rng, n, float(rng.uniform(0.3, 1.0)))
    P["mu"] = float(onp.linalg.eigvalsh(P["A"])[0])
    if fkind == "logcosh":
        k = int(rng.integers(1, n + 1))
        P["D"] = rng.standard_normal((k, n))
        P["w"] = rng.uniform(0.1, 2.0, k)
    elif fkind == "quartic":
        P["gamma"] = float(rng.uniform(0.1, 2.0))
    return P


def _make_constraint(rng, kind, n, xs, d, slack):
    """A constraint with c(xs) = slack and grad c(xs) . d > 0."""
    if kind == "lin":
        g = rng.standard_normal(n)
        if g @ d < 0:
            g = -g
        if abs(g @ d) < 0.05 * onp.linalg.norm(g):
            g = g + 0.2 * onp.linalg.norm(g) * d
        return {"kind": "lin", "g": g, "h": float(g @ xs - slack)}
    if kind == "ball":
        R = float(rng.uniform(0.7, 3.0))
        slack = min(slack, 0.8 * R * R)
        rho = math.sqrt(R * R - slack)
        u = _unit(rng, n)
        if u @ d < 0:
            u = -u
        u = u + 0.3 * d
        u = u / onp.linalg.norm(u)
        return {"kind": "ball", "xc": xs + rho * u, "R": R}
    if kind == "parab":
        k = int(rng.integers(1, n + 1))
        B = 0.7 * rng.standard_normal((k, n))
        z = xs + 0.3 * rng.standard_normal(n)
        g = rng.standard_normal(n)
        r = xs - z
        gr = g - B.T @ (B @ r)
        if gr @ d < 0.1:
            g = g + (0.3 - gr @ d) * d
        Br = B @ r
        d0 = float(slack - g @ r + 0.5 * (Br @ Br))
        return {"kind": "parab", "g": g, "z": z, "B": B, "d0": d0}
    raise ValueError(kind)


ACTIVITY = ("inactive", "active", "mixed", "weak", "dup", "infeas_start")


def make_convex(rng, n, fkind, kinds, activity):
    """kinds: list of constraint kinds (len m); activity in ACTIVITY."""
    P = _objective_part(rng, n, fkind)
    xs = rng.standard_normal(n) * float(rng.uniform(0.3, 2.0))
    d = _unit(rng, n)
    m = len(kinds)
    slack = onp.zeros(m)
    lam = onp.zeros(m)
    weak = onp.zeros(m, dtype=bool)

    def pos(k):
        return onp.abs(rng.standard_normal(k)) + 0.1

    if activity == "inactive":
        slack[:] = pos(m)
    elif activity in ("active", "infeas_start"):
        lam[:] = pos(m)
        if activity == "infeas_start" and m > 1 and rng.random() < 0.5:
            lam[-1] = 0.0
            slack[-1] = pos(1)[0]
    elif activity == "mixed":
        act = rng.random(m) < 0.5
        if m > 1:
            act[0], act[1] = True, False
        lam[act] = pos(int(act.sum()))
        slack[~act] = pos(int((~act).sum()))
    elif activity == "weak":
        # at least one weakly active constraint (c* = 0 and lam* = 0); the rest mixed
        weak[0] = True
        for i in range(1, m):
            r = rng.random()
            if r < 0.34:
                weak[i] = True
            elif r < 0.67:
                lam[i] = pos(1)[0]
            else:
                slack[i] = pos(1)[0]
    elif activity == "dup":
        lam[:] = pos(m) * (rng.random(m) < 0.6)
        slack[lam == 0] = pos(int((lam == 0).sum()))
        lam[0] = pos(1)[0]
        slack[0] = 0.0
    consl = [_make_constraint(rng, kinds[i], n, xs, d, float(slack[i])) for i in range(m)]
    ndup = 0
    if activity == "dup":
        # redundant copies of row 0 (active) and, if present, of the last row; one exact copy, one positively rescaled
        c0 = consl[0]
        copies = [dict(c0)]
        if c0["kind"] == "lin":
            s = float(rng.uniform(0.3, 3.0))
            copies.append({"kind": "lin", "g": s * c0["g"], "h": s * c0["h"]})
        for cc in copies[: int(rng.integers(1, len(copies) + 1))]:
            consl.append(cc)
            lam = onp.append(lam, pos(1)[0] * (rng.random() < 0.7))
            slack = onp.append(slack, 0.0)
            weak = onp.append(weak, False)
            ndup += 1
    P["cons"] = consl
    m = len(consl)
    P["b"] = onp.zeros(n)
    # slack may have been clipped by the ball generator: recompute from the constraints themselves
    cstar = cons(P, xs)
    cstar[onp.abs(cstar) < 1e-12] = 0.0
    lam = onp.where(cstar > 0, 0.0, lam)
    P["b"] = P["A"] @ xs + f_extra_grad(P, xs) - jac(P, xs).T @ lam
    P["xstar"] = xs
    P["lamstar"] = lam
    P["cstar"] = cstar
    P["n_weak"] = int(onp.sum((cstar == 0) & (lam == 0)))
    P["n_dup"] = ndup
    P["n_active"] = int(onp.sum(lam > 0))
    # Slater point
    t = 1.0
    sl = None
    for _ in range(60):
        if onp.all(cons(P, xs + t * d) > 0):
            sl = xs + t * d
            break
        t *= 0.5
    P["slater"] = sl
    P["d"] = d
    # start
    if activity == "infeas_start":
        x0 = None
        r = float(rng.uniform(2.0, 5.0))
        for _ in range(20):
            x0 = xs - r * d + 0.3 * rng.standard_normal(n)
            if onp.any(cons(P, x0) < -0.1):
                break
            r *= 2
    else:
        x0 = xs + rng.standard_normal(n) * float(rng.choice([0.1, 1.0, 3.0]))
    P["x0"] = x0
    P["start_infeasible"] = bool(onp.any(cons(P, x0) < 0))
    return P


def make_nonconvex(rng, n, m_lin):
    P = _objective_part(rng, n, "nonconvex")
    xc = rng.standard_normal(n)
    R = float(rng.uniform(1.0, 3.0))
    consl = [{"kind": "ball", "xc": xc, "R": R}]
    for _ in range(m_lin):
        g = rng.standard_normal(n)
        s = float(rng.uniform(0.1, 1.0)) * R * onp.linalg.norm(g)     # the centre is strictly feasible
        consl.append({"kind": "lin", "g": g, "h": float(g @ xc - s)})
    P["cons"] = consl
    P["b"] = rng.standard_normal(n) * 2.0
    P["xstar"] = None
    P["lamstar"] = None
    P["slater"] = xc
    P["x0"] = xc + rng.standard_normal(n) * float(rng.choice([0.3, 1.0, 3.0]))
    P["start_infeasible"] = bool(onp.any(cons(P, P["x0"]) < 0))
    P["n_weak"] = 0
    P["n_dup"] = 0
    return P


def multipliers_and_penalties(rng, m):
    lam0 = onp.abs(rng.standard_normal(m)) * (rng.random(m) < 0.7) * float(rng.choice([0.1, 1.0, 10.0]))
    if rng.random() < 0.5:
        kappa0 = onp.full(m, 10.0 ** rng.uniform(-1.0, 2.0))
    else:
        kappa0 = 10.0 ** rng.uniform(-1.0, 2.0, m)
    return lam0, kappa0


# ------------------------------------------------------------------ bound-constrained front end  (x_i >= 0, i in I)

def make_bound_problem(rng, n, fkind, decades):
    P = _objective_part(rng, n, fkind)
    Dg = 10.0 ** rng.uniform(-decades / 2.0, decades / 2.0, n) if decades > 0 else onp.ones(n)
    P["A"] = Dg[:, None] * P["A"] * Dg[None, :]
    P["A"] = 0.5 * (P["A"] + P["A"].T)
    if fkind == "logcosh":
        P["D"] = P["D"] * Dg[None, :]
    P["dofscale"] = Dg
    k = int(rng.integers(1, n + 1))
    idx = onp.sort(rng.choice(n, size=k, replace=False))
    xs = rng.standard_normal(n) / Dg
    mu = onp.zeros(k)
    kinds = []
    for j, i in enumerate(idx):
        r = rng.random()
        if r < 0.4:        # strongly active
            xs[i] = 0.0
            mu[j] = (abs(rng.standard_normal()) + 0.1) * Dg[i]
            kinds.append("active")
        elif r < 0.55:     # weakly active
            xs[i] = 0.0
            kinds.append("weak")
        else:
            xs[i] = (abs(rng.standard_normal()) + 0.1) / Dg[i]
            kinds.append("inactive")
    E = onp.zeros((k, n))
    E[onp.arange(k), idx] = 1.0
    P["idx"] = idx
    P["cons"] = [{"kind": "lin", "g": E[j], "h": 0.0} for j in range(k)]
    P["b"] = P["A"] @ xs + f_extra_grad(P, xs) - E.T @ mu
    P["xstar"] = xs
    P["lamstar"] = mu
    P["kinds"] = kinds
    P["n_weak"] = kinds.count("weak")
    P["n_dup"] = 0
    x0 = onp.abs(rng.standard_normal(n)) / Dg + 0.1 / Dg
    if rng.random() < 0.5:
        flip = rng.random(n) < 0.4
        x0 = onp.where(flip, -x0, x0)
    P["x0"] = x0
    P["start_infeasible"] = bool(onp.any(x0[idx] < 0))
    return P


# ------------------------------------------------------------------ load sequences on ONE objective (data through p)

def _plant_activity(rng, m):
    """Per-constraint slack / multiplier with s_i lam_i = 0: ~40% strongly active, ~15% weakly active, rest inactive."""
    slack = onp.zeros(m)
    lam = onp.zeros(m)
    for i in range(m):
        r = rng.random()
        if r < 0.4:
            lam[i] = abs(rng.standard_normal()) + 0.1
        elif r < 0.55:
            pass
        else:
            slack[i] = abs(rng.standard_normal()) + 0.1
    return slack, lam


def make_al_sequence(rng, n, fkind, m, steps):
    """min f(x; b) s.t. G x - h >= 0 where b = p[0] (bc_data slot) and h = p[2] (design_data slot) change every load
    step.  Each step has its own planted KKT point (x*_k, lam*_k); G is fixed with G d > 0 for one direction d, so
    every step's feasible set has the Slater point x*_k + t d.  Returns (P, steps); P['b'], P['cons'] are step 0's."""
    P = _objective_part(rng, n, fkind)
    d = _unit(rng, n)
    G = rng.standard_normal((m, n))
    for i in range(m):
        if G[i] @ d < 0:
            G[i] = -G[i]
        if abs(G[i] @ d) < 0.05 * onp.linalg.norm(G[i]):
            G[i] = G[i] + 0.2 * onp.linalg.norm(G[i]) * d
    xs = rng.standard_normal(n) * float(rng.uniform(0.3, 2.0))
    out = []
    for k in range(steps + 1):
        if k > 0:
            xs = xs + rng.standard_normal(n) * float(rng.choice([0.1, 0.5, 1.5]))
        slack, lam = _plant_activity(rng, m)
        h = G @ xs - slack
        Pk = dict(P, cons=[{"kind": "lin", "g": G[i], "h": float(h[i])} for i in range(m)], b=onp.zeros(n))
        cstar = cons(Pk, xs)
        cstar[onp.abs(cstar) < 1e-12] = 0.0
        lam = onp.where(cstar > 0, 0.0, lam)
        b = P["A"] @ xs + f_extra_grad(P, xs) - G.T @ lam
        out.append({"b": b, "h": h, "xstar": xs.copy(), "lamstar": lam, "n_weak": int(onp.sum((cstar == 0) & (lam == 0))),
                    "n_active": int(onp.sum(lam > 0))})
    P["G"] = G
    P["d"] = d
    P["x0"] = out[0]["xstar"] + rng.standard_normal(n)
    return P, out


def step_problem(P, st):
    """The numpy-side problem of one load step (for grad_f / cons / jac)."""
    G = P["G"]
    return dict(P, b=st["b"], cons=[{"kind": "lin", "g": G[i], "h": float(st["h"][i])} for i in range(G.shape[0])])


def jax_funcs_sequence(P):
    """f(x, p) with linear term p[0]; c(x, p) = G x - p[2]."""
    import jax.numpy as np
    A = np.array(P["A"])
    k = P["fkind"]
    D = np.array(P["D"]) if "D" in P else None
    w = np.array(P["w"]) if "w" in P else None
    gamma = P.get("gamma", 0.0)
    G = np.array(P["G"])

    def f(x, p):
        v = 0.5 * x @ (A @ x) - p[0] @ x
        if k == "logcosh":
            t = D @ x
            v = v + w @ (np.logaddexp(t, -t) - LOG2)
        elif k == "quartic":
            v = v + 0.25 * gamma * np.sum(x ** 4)
        return v

    def cfun(x, p):
        return G @ x - p[2]

    return f, cfun


def make_front_sequence(rng, n, fkind, decades, steps):
    """Bound front end (x_I >= 0) with the linear term b = p[0] changing every step; a planted optimum per step."""
    P = make_bound_problem(rng, n, fkind, decades)
    Dg = P["dofscale"]
    idx = P["idx"]
    k = len(idx)
    E = onp.zeros((k, n))
    E[onp.arange(k), idx] = 1.0
    out = [{"b": P["b"], "xstar": P["xstar"], "lamstar": P["lamstar"], "n_weak": P["n_weak"]}]
    for _ in range(steps):
        xs = rng.standard_normal(n) / Dg
        mu = onp.zeros(k)
        nweak = 0
        for j, i in enumerate(idx):
            r = rng.random()
            if r < 0.4:
                xs[i] = 0.0
                mu[j] = (abs(rng.standard_normal()) + 0.1) * Dg[i]
            elif r < 0.55:
                xs[i] = 0.0
                nweak += 1
            else:
                xs[i] = (abs(rng.standard_normal()) + 0.1) / Dg[i]
        b = P["A"] @ xs + f_extra_grad(P, xs) - E.T @ mu
        out.append({"b": b, "xstar": xs, "lamstar": mu, "n_weak": nweak})
    return P, out
